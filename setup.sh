#!/bin/bash
# Offline build of the framework from files on disk: regenerate tables from /repo, build model, driver and proofs.
set -e
cd "$(dirname "$0")"
export RIMU_REPO="${RIMU_REPO:-/repo}"
mkdir -p .cache evidence replays
PYTHONPATH="$RIMU_REPO/src" /venv/bin/python tools/translate.py "$RIMU_REPO" lean/RimuModel/Generated --cache .cache 2>&1 | grep -v 'WARNING conda'
cd lean
lake build RimuModel rimumodel RimuProofs 2>&1 | grep -v 'WARNING conda' | grep -v '^trace' | tail -5
