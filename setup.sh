#!/bin/bash
# Offline build of the framework from files on disk: regenerate tables from /repo, build model, driver and proofs.
set -e
cd "$(dirname "$0")"
export RIMU_REPO="${RIMU_REPO:-/repo}"
mkdir -p .cache evidence replays
PYTHONPATH="$RIMU_REPO/src" /venv/bin/python tools/translate.py "$RIMU_REPO" lean/RimuModel/Generated --cache .cache 2>&1 | grep -v 'WARNING conda'
cd lean
# staged, so that at most a few of the large proof files are elaborated at the same time (each needs 2-3 GB, Props/C07 7 GB)
lake build RimuModel rimumodel 2>&1 | grep -v 'WARNING conda' | grep -v '^trace' | tail -2
lake build RimuProofs.Facts RimuProofs.Lemmas.StepBlock RimuProofs.Lemmas.NITop RimuProofs.Lemmas.Fuel 2>&1 | grep -v 'WARNING conda' | grep -v '^trace' | tail -1
lake build RimuProofs.Lemmas.SafeBlock 2>&1 | grep -v 'WARNING conda' | grep -v '^trace' | tail -1
for group in "C07" "C01 C02 C03 C04 C05" "C06 C08 C09 C10 C11" "C12 C13 C14 C15 C16" "C17 C18 C19 C20"; do
  lake build $(for p in $group; do echo RimuProofs.Props.$p; done) 2>&1 | grep -v 'WARNING conda' | grep -v '^trace' | tail -1
done
lake build RimuModel rimumodel RimuProofs 2>&1 | grep -v 'WARNING conda' | grep -v '^trace' | tail -3
