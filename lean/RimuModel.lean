import RimuModel.Regex
import RimuModel.Py
import RimuModel.Types
import RimuModel.Generated.Unicode
import RimuModel.Generated.Patterns
import RimuModel.Generated.Defs
import RimuModel.Cli
