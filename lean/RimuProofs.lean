import RimuProofs.Props.C05
