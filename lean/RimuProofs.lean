import RimuProofs.Props.C04
import RimuProofs.Props.C05
import RimuProofs.Props.C20
