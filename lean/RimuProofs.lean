import RimuProofs.Props.C04
import RimuProofs.Props.C05
