import RimuModel.Block
import RimuModel.Cli

/-!
# Line-protocol driver for the model (`rimumodel`)

One request per line on stdin, one reply per line on stdout.  Fields are TAB separated; every
character outside printable ASCII, the backslash and TAB/newline are written `\u{hex}`.
See tools/harness/protocol.py for the other end.
-/

open Rimu Rx Py

namespace Wire

def hexVal (c : Char) : Option Nat :=
  if '0' ≤ c && c ≤ '9' then some (c.toNat - '0'.toNat)
  else if 'a' ≤ c && c ≤ 'f' then some (c.toNat - 'a'.toNat + 10)
  else if 'A' ≤ c && c ≤ 'F' then some (c.toNat - 'A'.toNat + 10)
  else none

partial def unescape : List Char → List Char
  | [] => []
  | '\\' :: 'u' :: '{' :: rest =>
    let digits := rest.takeWhile (· != '}')
    let n := digits.foldl (fun acc c => acc * 16 + (hexVal c).getD 0) 0
    Char.ofNat n :: unescape (rest.drop (digits.length + 1))
  | c :: rest => c :: unescape rest

def hexDigits (n : Nat) : List Char := (Nat.toDigits 16 n)

def escape (s : List Char) : String :=
  String.ofList (s.flatMap fun c =>
    if c.toNat ≥ 32 && c.toNat < 127 && c != '\\' then [c]
    else ['\\', 'u', '{'] ++ hexDigits c.toNat ++ ['}'])

/-- parse the prefix token form of a regex tree -/
partial def parseRe : List String → Option (Re × List String)
  | "E" :: r => some (.eps, r)
  | "bol" :: r => some (.bol, r)
  | "eol" :: r => some (.eol, r)
  | "mbol" :: r => some (.mbol, r)
  | "meol" :: r => some (.meol, r)
  | "eos" :: r => some (.eos, r)
  | "C" :: neg :: n :: r => do
    let n ← n.toNat?
    let rec ranges : Nat → List String → List (Nat × Nat) → Option (List (Nat × Nat) × List String)
      | 0, r, acc => some (acc.reverse, r)
      | k+1, lo :: hi :: r, acc => do ranges k r ((← lo.toNat?, ← hi.toNat?) :: acc)
      | _, _, _ => none
    let (rs, r) ← ranges n r []
    some (.chr ⟨rs, neg == "1"⟩, r)
  | "S" :: r => do
    let (a, r) ← parseRe r
    let (b, r) ← parseRe r
    some (.seq a b, r)
  | "A" :: r => do
    let (a, r) ← parseRe r
    let (b, r) ← parseRe r
    some (.alt a b, r)
  | "G" :: i :: r => do
    let (a, r) ← parseRe r
    some (.grp (← i.toNat?) a, r)
  | "R" :: mn :: mx :: g :: r => do
    let (a, r) ← parseRe r
    let mx := if mx == "-1" then none else mx.toNat?
    some (.rep a (← mn.toNat?) mx (g == "1"), r)
  | "B" :: i :: r => do some (.bref (← i.toNat?), r)
  | "L" :: r => do
    let (a, r) ← parseRe r
    some (.look a, r)
  | "N" :: r => do
    let (a, r) ← parseRe r
    some (.nlook a, r)
  | "W" :: neg :: r => some (.wordb Gen.wordSet (neg == "1"), r)
  | _ => none

def parsePyVal (s : List Char) : PyVal :=
  match s with
  | 'N' :: _ => .none
  | 'B' :: '1' :: _ => .bool true
  | 'B' :: _ => .bool false
  | 'I' :: r => .int ((String.ofList r).toInt?.getD 0)
  | 'F' :: z :: o :: r => .float r (z == '1') (o == '1')
  | 'S' :: r => .str r
  | _ => .none

def showOptBool : Option Bool → String
  | none => "N" | some true => "T" | some false => "F"

def showExpand (e : Expand) : String :=
  showOptBool e.macros ++ showOptBool e.container ++ showOptBool e.skip ++ showOptBool e.spans ++ showOptBool e.specials

def showErr : PyErr → String
  | .indexError s => "exc\tIndexError\t" ++ s
  | .noneType s => "exc\tNoneType\t" ++ s
  | .assertion s => "exc\tAssertionError\t" ++ s
  | .valueError s => "exc\tValueError\t" ++ s
  | .reError s => "exc\tre.error\t" ++ s
  | .unsupportedRegex p => "unsupported\t" ++ escape p
  | .needCompile p f => "need\t" ++ escape p ++ "\t" ++ toString f
  | .outOfFuel => "fuel"

def filterName : ReplFilter → String
  | .none => "none" | .anchor => "anchor" | .html => "html" | .entity => "entity"

/-- canonical dump of the session (field order fixed; see harness `snapshot`) -/
def showSession (s : Session) : String :=
  let f (l : List String) := String.intercalate "\x1f" l
  let sep := "\x1e"
  String.intercalate "\t" [
    toString s.safeMode,
    escape s.htmlReplacement,
    (if s.callback then "1" else "0"),
    f (s.quoteDefs.map fun d => escape d.quote ++ sep ++ escape d.openTag ++ sep ++ escape d.closeTag ++ sep ++ (if d.spans then "1" else "0")),
    f (s.replDefs.map fun d => escape d.pat.src ++ sep ++ toString (d.pat.flags &&& 10) ++ sep ++ escape d.replacement ++ sep ++ filterName d.filter),
    f (s.blockDefs.map fun d => escape d.name ++ sep ++ escape d.openTag ++ sep ++ escape d.closeTag ++ sep ++ showExpand d.expand),
    f (s.macroDefs.map fun d => escape d.name ++ sep ++ escape d.value),
    escape s.classes, escape s.id, escape s.css, escape s.attributes, showExpand s.opts,
    f (s.ids.map escape),
    f (s.listIds.map escape),
    toString s.saved.length ]

end Wire

open Wire

structure DriverState where
  session : Session := Session.uninit
  table : List (Str × Nat × CompileResult) := []
  resources : List (Str × Str) := []
  fuel : Nat := 100000

def DriverState.env (d : DriverState) : Env :=
  { compile := fun p f =>
      match d.table.find? (fun e => e.1 == p && e.2.1 == f) with
      | some e => e.2.2
      | none => .missing }

def showMatch (m : Option Match) : String :=
  match m with
  | none => "none"
  | some mt =>
    let groups := (List.range (mt.ngroups + 1)).map fun i =>
      match mt.res.span i with
      | some (a, b) => toString a ++ "-" ++ toString b
      | none => "N"
    "match\t" ++ String.intercalate " " groups

def findPat (name : String) : Option Pat := (Gen.P.all.find? (·.1 == name)).map (·.2)

def runM {α} (d : DriverState) (act : M α) (ok : α → String) : DriverState × String :=
  match act.run d.session with
  | .ok (a, s') => ({ d with session := s' }, ok a)
  | .error e => (d, showErr e)

def showLog (before after : Session) : String :=
  let new := after.log.drop before.log.length
  toString new.length ++ (String.join (new.map fun m => "\t" ++ escape m))

def handle (d : DriverState) (line : String) : DriverState × String :=
  let fields := (line.splitOn "\t").map fun f => unescape f.toList
  let str (i : Nat) : Str := fields.getD i []
  let sstr (i : Nat) : String := String.ofList (str i)
  match sstr 0 with
  | "reset-process" => ({ d with session := Session.uninit, table := [] }, "ok")
  | "fuel" => ({ d with fuel := (sstr 1).toNat?.getD d.fuel }, "ok")
  | "compile" =>
    let flags := (sstr 2).toNat?.getD 0
    let res : CompileResult :=
      match sstr 3 with
      | "ok" =>
        match parseRe ((sstr 5).splitOn " ") with
        | some (re, _) => .ok { re := re, ngroups := (sstr 4).toNat?.getD 0, src := str 1, flags := (sstr 6).toNat?.getD flags }
        | none => .unsupported
      | "error" => .error
      | _ => .unsupported
    ({ d with table := (str 1, flags, res) :: d.table }, "ok")
  | "render" =>
    let opts : RenderOptions :=
      { safeMode := parsePyVal (str 2), htmlReplacement := parsePyVal (str 3), reset := parsePyVal (str 4),
        callback := sstr 5 == "1" }
    let s0 := { d.session with log := [] }
    match (apiRender d.env d.fuel (str 1) opts).run s0 with
    | .ok (html, s') => ({ d with session := { s' with log := [] } }, "ok\t" ++ escape html ++ "\t" ++ showLog s0 s')
    | .error e => (d, showErr e)
  | "state" => (d, "state\t" ++ showSession d.session)
  | "spans" =>
    let s0 := { d.session with log := [] }
    match ((mkRec d.env d.fuel).spans (str 1)).run s0 with
    | .ok (out, s') => ({ d with session := { s' with log := [] } }, "ok\t" ++ escape out ++ "\t" ++ showLog s0 s')
    | .error e => (d, showErr e)
  | "macros" =>
    let s0 := { d.session with log := [] }
    match (macrosRender (mkRec d.env d.fuel) d.env (str 1) (sstr 2 == "1")).run s0 with
    | .ok (out, s') => ({ d with session := { s' with log := [] } }, "ok\t" ++ escape out ++ "\t" ++ showLog s0 s')
    | .error e => (d, showErr e)
  | "slugify" => runM d (slugify (str 1)) fun out => "ok\t" ++ escape out
  | "inject" =>
    let s0 := { d.session with log := [] }
    match (injectHtmlAttributes (str 1) (sstr 2 == "1")).run s0 with
    | .ok (out, s') => ({ d with session := { s' with log := [] } }, "ok\t" ++ escape out ++ "\t" ++ showLog s0 s')
    | .error e => (d, showErr e)
  | "battr.parse" =>
    let s0 := { d.session with log := [] }
    match (battrParse (mkRec d.env d.fuel) d.env (str 1)).run s0 with
    | .ok (out, s') => ({ d with session := { s' with log := [] } }, "ok\t" ++ (if out then "1" else "0") ++ "\t" ++ showLog s0 s')
    | .error e => (d, showErr e)
  | "setOption" =>
    let s0 := { d.session with log := [] }
    match (setOption (str 1) (parsePyVal (str 2))).run s0 with
    | .ok (_, s') => ({ d with session := { s' with log := [] } }, "ok\t" ++ showLog s0 s')
    | .error e => (d, showErr e)
  | "callback" => ({ d with session := { d.session with callback := sstr 1 == "1" } }, "ok")
  | "init" => runM d documentInit fun _ => "ok"
  | "pyint" => (d, match pyInt (str 1) with | some i => "ok\t" ++ toString i | none => "exc\tValueError\t")
  | "lower" => (d, "ok\t" ++ escape (lower (str 1)))
  | "strip" => (d, "ok\t" ++ escape (strip (str 1)))
  | "re" =>
    -- re <site> <op> <text> [start]
    match findPat (sstr 1) with
    | none => (d, "error\tunknown pattern " ++ sstr 1)
    | some p =>
      let text := str 3
      match sstr 2 with
      | "search" => (d, showMatch (p.search text ((sstr 4).toNat?.getD 0)))
      | "match" => (d, showMatch (p.matchStart text))
      | "split" => (d, "split\t" ++ String.intercalate "\t" ((p.split text).map escape))
      | "findall" => (d, "findall\t" ++ String.intercalate "\t" ((p.findAll text).map fun m => toString m.start ++ "-" ++ toString m.stop))
      | _ => (d, "error\tunknown re op")
  | "rex" =>
    -- rex <ngroups> <wire> <op> <text> [start] : ad-hoc pattern (dynamic patterns in regexdiff)
    match parseRe ((sstr 2).splitOn " ") with
    | none => (d, "error\tbad wire")
    | some (re, _) =>
      let p : Pat := { re := re, ngroups := (sstr 1).toNat?.getD 0 }
      let text := str 4
      match sstr 3 with
      | "search" => (d, showMatch (p.search text ((sstr 5).toNat?.getD 0)))
      | "match" => (d, showMatch (p.matchStart text))
      | _ => (d, "error\tunknown re op")
  | "resource" => ({ d with resources := (str 1, str 2) :: d.resources }, "ok")
  | "rimuc" =>
    let split (s : Str) (sep : Char) : List Str := if s.isEmpty then [] else splitChar s sep
    let argv := split (str 1) (Char.ofNat 0xE01F)
    let files := (split (str 4) (Char.ofNat 0xE01F)).map fun e =>
      match splitChar e (Char.ofNat 0xE01E) with
      | [n, c] => (n, c)
      | n :: _ => (n, [])
      | [] => ([], [])
    let env : CliEnv := { files := files, stdin := str 2, resources := d.resources, rimurcPath := str 3 }
    let r := cliMain d.env d.fuel env argv
    let (on, oc) := match r.outfile with | some (n, c) => (n, c) | none => ([], [])
    match r.raised with
    | some (.needCompile p f) => (d, showErr (.needCompile p f))
    | some (.unsupportedRegex p) => (d, showErr (.unsupportedRegex p))
    | _ =>
    (d, "cli\t" ++ toString r.exit ++ "\t" ++ escape r.stdout ++ "\t" ++ escape r.stderr ++ "\t" ++ escape on ++ "\t" ++ escape oc)
  | "quotesre" =>
    (d, showMatch ((quotesRe d.session.quoteDefs).search (str 1) ((sstr 2).toNat?.getD 0)))
  | other => (d, "error\tunknown op " ++ other)

partial def loop (hin hout : IO.FS.Stream) (d : DriverState) : IO Unit := do
  let line ← hin.getLine
  if line.isEmpty then return ()
  let line := if line.endsWith "\n" then (line.dropEnd 1).toString else line
  let (d', out) := handle d line
  hout.putStrLn out
  hout.flush
  loop hin hout d'

def main : IO Unit := do
  loop (← IO.getStdin) (← IO.getStdout) {}
