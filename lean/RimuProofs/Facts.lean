import RimuProofs.Lemmas.Eqns
import RimuProofs.Regex.Analysis
import RimuProofs.Lemmas.Groups
import RimuModel.Inline

/-!
# Facts about the generated tables

Discharged by `decide +kernel` on `lean/RimuModel/Generated/*.lean`, which the translator rewrites from the working
tree of rimu-py on every run: the facts are re-proved against what the source says now, and a change to a regular
expression, template or table that invalidates one of them stops the build of every theorem that uses it.
-/

namespace Facts
open Rx Rimu Gen

/-- characters that must not reach an attribute value or tag unescaped -/
def htmlBad : List Char := ['"', '<', '>', '&']

/-! ## A2: patterns that can never match the empty string -/

/-- every default replacement pattern consumes at least one character (progress of `fragReplacement`) -/
theorem replDefaults_minLen : replDefaultDefs.all (fun d => decide (1 ≤ minLen d.pat.re)) = true := by decide +kernel

/-- every pattern handed to `re.sub` / `re.split` by the renderer consumes at least one character -/
theorem sub_patterns_minLen :
    [P.utils_replaceMatch_0, P.macros_render_0, P.macros_render_1, P.macros_render_2, P.io_Reader_init_0,
     P.expansion_Expand_parse_0, P.blockattributes_slugify_0, P.blockattributes_slugify_1, P.blockattributes_slugify_2,
     P.delimitedblocks_macroDefContentFilter_1, P.delimitedblocks_macroDefContentFilter_2,
     P.delimitedblocks_quoteParagraphContentFilter_0, P.delimitedblocks_quoteParagraphContentFilter_1,
     P.spans_postReplacements_0].all (fun p => decide (1 ≤ minLen p.re)) = true := by decide +kernel

/-- the quote pattern consumes at least two characters (opening delimiter and content; the closing one is a back-reference)
    when every quote is non-empty; for the default table: -/
theorem quotesRe_default_minLen : 2 ≤ minLen (quotesRe quoteDefaultDefs).re := by decide +kernel

/-- every line-block and delimited-block opening pattern except the paragraph's consumes at least one character
    (so `match[0][0]` is defined where it is read) -/
theorem lineDefs_minLen : lineDefs.all (fun d => decide (1 ≤ minLen d.pat.re)) = true := by decide +kernel
theorem listDefs_minLen : listDefs.all (fun d => decide (1 ≤ minLen d.pat.re)) = true := by decide +kernel
theorem blockDefs_minLen :
    (blockDefaultDefs.filter (fun d => d.name != "paragraph".toList)).all (fun d => decide (1 ≤ minLen d.openMatch.re)) = true := by
  decide +kernel

/-! ## A4: group alphabets -/

/-- Block Attributes: class names (`r1` group 1), id (`r2` group 2) and CSS properties (`r2` group 3) -/
theorem battr_classes_clean : groupAvoids htmlBad 1 P.blockattributes_parse_0.re = true := by decide +kernel
theorem battr_id_clean : groupAvoids htmlBad 2 P.blockattributes_parse_1.re = true := by decide +kernel
theorem battr_css_no_quote : groupAvoids ['"'] 3 P.blockattributes_parse_1.re = true := by decide +kernel

/-- delimiter class names of division, quote and code blocks (group 2 of the opening pattern) -/
theorem delimiter_classes_clean :
    ((blockDefaultDefs.filter (fun d => d.delimiterFilter == .classInjection)).all
      fun d => groupAvoids htmlBad 2 d.openMatch.re) = true := by decide +kernel

/-- the anchor replacement's id group -/
theorem anchor_id_clean : groupAvoids htmlBad 1 P.replacements_DEFAULT_DEFS_0.re = true := by decide +kernel
theorem block_anchor_id_clean : groupAvoids htmlBad 1 P.lineblocks_defs_9.re = true := by decide +kernel

/-! ## Table shapes the model relies on -/

theorem defaultSafeMode_zero : defaultSafeMode = 0 := by decide
theorem macro_defaults_blank : macroDefaultDefs.all (fun d => d.value == []) = true := by decide
theorem maxExpansionDepth_pos : 0 < maxExpansionDepth := by decide

/-- the placeholder pattern of `postReplacements` is exactly the class of U+0000 and U+0001 (the model restores
    placeholders by direct recursion on the text) -/
theorem postReplacements_pattern : P.spans_postReplacements_0.re = .chr ⟨[(0, 1)], false⟩ := by decide +kernel

/-- the default templates only mention groups the pattern has -/
theorem repl_templates_groups_exist :
    replDefaultDefs.all (fun d =>
      (P.utils_replaceMatch_0.findAll d.replacement).all fun m =>
        match m.res.group m.inp 2 with
        | some [c] => decide (c.toNat - 48 ≤ d.pat.ngroups)
        | _ => false) = true := by decide +kernel


/-! ## A5: groups that the code reads as strings take part in every match

For every place where the Python code uses `match[i]` as a string (model: `Match.str i`), the regenerated pattern sets
group `i` in every match (`Rx.setsGroup`, sound for every input by `Rx.Matches.setsGroup`). -/

/-- call sites on fixed patterns, with the groups they read -/
def strSites : List (Pat × List Nat) :=
  [(P.blockattributes_injectHtmlAttributes_0, [1, 2]),      -- class injection: match[1], match[2]
   (P.blockattributes_injectHtmlAttributes_2, [1, 2]),      -- style injection
   (P.delimitedblocks_macroDefContentFilter_0, [1]),        -- macro name of a multi-line definition
   (P.macros_render_0, [1, 2]), (P.macros_render_1, [1, 2]),  -- macro invocation: name, parameters
   (P.macros_render_2, [1, 2]),                              -- formal parameter: $ / $$, number
   (P.utils_replaceMatch_0, [1, 2])]                         -- template group: $ / $$, number

theorem strSites_set : strSites.all (fun ps => ps.2.all ps.1.Sets) = true := by decide +kernel

/-- groups read by each line-block filter -/
def lineFilterGroups : LineFilter → List Nat
  | .blockDef => [1, 2] | .quoteDef => [1, 2, 3, 4] | .replDef => [1, 2, 3] | .macroDef => [1, 2]
  | .header => [1, 2] | .apiOption => [1, 2] | _ => []

theorem lineDefs_set : lineDefs.all (fun d => (lineFilterGroups d.filter).all d.pat.Sets) = true := by decide +kernel

/-- groups of the opening pattern read by a delimited block's delimiter filter and verifier -/
def blockOpenGroups (d : BlockDef) : List Nat :=
  (match d.delimiterFilter with | .opening => [1] | .classInjection => [1, 2] | .none => []) ++
  (match d.verify with | .code => [1, 2] | _ => [])

theorem blockDefs_set :
    blockDefaultDefs.all (fun d => (blockOpenGroups d).all d.openMatch.Sets &&
      (decide (d.closeMatch.ngroups = 0) || d.closeMatch.Sets 1)) = true := by decide +kernel

/-- the term of a definition-list item -/
theorem listDefs_set : listDefs.all (fun d => d.termOpenTag == [] || d.pat.Sets 1) = true := by decide +kernel

/-- the filters of the default replacement definitions read group 1 -/
theorem replDefaults_set :
    replDefaultDefs.all (fun d => (d.filter != .html && d.filter != .entity) || d.pat.Sets 1) = true := by decide +kernel

/-- the quote pattern, for every quote table: groups 1 (the delimiter) and 2 (the quoted text) -/
theorem quotesRe_set (defs : List QuoteDef) : (quotesRe defs).Sets 1 = true ∧ (quotesRe defs).Sets 2 = true := by
  constructor <;> simp [quotesRe, Pat.Sets, P.quotesReOf, P.quotesReGroups, Rx.setsGroup]

/-- a delimited-block definition value: the close tag (group 2) is set whenever the open tag (group 1) is -/
theorem blockdef_tags_together : Rx.coSets 1 2 P.delimitedblocks_setDefinition_0.re = true := by decide +kernel

end Facts
