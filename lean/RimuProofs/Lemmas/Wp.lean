import RimuProofs.Lemmas.Eqns
import RimuModel.Cli

/-!
# Weakest-precondition style reasoning for the model monad `M = StateT Session (Except PyErr)`

`wp act Q s` : every successful run of `act` from `s` ends in a result and state satisfying `Q`
(partial correctness: an exception satisfies every postcondition).
-/

namespace Rimu

def wp {α : Type} (act : M α) (Q : α → Session → Prop) (s : Session) : Prop :=
  ∀ a s', act.run s = .ok (a, s') → Q a s'

theorem wp_pure {α} {Q : α → Session → Prop} {s} (a : α) (h : Q a s) : wp (pure a : M α) Q s := by
  intro a' s' hr
  simp [Pure.pure, StateT.pure, StateT.run, Except.pure] at hr
  obtain ⟨rfl, rfl⟩ := hr
  exact h

theorem wp_bind {α β} {Q : β → Session → Prop} {s} {x : M α} {f : α → M β}
    (h : wp x (fun a s1 => wp (f a) Q s1) s) : wp (x >>= f) Q s := by
  intro b s' hr
  simp only [Bind.bind, StateT.bind, StateT.run] at hr
  cases hxr : x s with
  | error e => simp [hxr, Except.bind] at hr
  | ok r =>
    obtain ⟨a, s1⟩ := r
    simp only [hxr, Except.bind] at hr
    exact h a s1 hxr b s' hr

theorem wp_raise {α} {Q : α → Session → Prop} {s} (e : PyErr) : wp (raise e : M α) Q s := by
  intro a s' h
  simp [Rimu.raise, throw, throwThe, MonadExceptOf.throw, StateT.run, StateT.lift, Except.bind, Bind.bind] at h

theorem wp_get {Q : Session → Session → Prop} {s} (h : Q s s) : wp (get : M Session) Q s := by
  intro a s' hr
  simp [MonadState.get, getThe, MonadStateOf.get, StateT.get, StateT.run, Pure.pure, Except.pure] at hr
  obtain ⟨rfl, rfl⟩ := hr
  exact h

theorem wp_set {Q : Unit → Session → Prop} {s} (v : Session) (h : Q () v) : wp (set v : M Unit) Q s := by
  intro a s' hr
  simp [MonadStateOf.set, MonadState.set, StateT.set, StateT.run, Pure.pure, Except.pure] at hr
  obtain ⟨_, rfl⟩ := hr
  exact h

theorem wp_modify {Q : Unit → Session → Prop} {s} (f : Session → Session) (h : Q () (f s)) :
    wp (modify f : M Unit) Q s := by
  intro a s' hr
  simp [_root_.modify, modifyGet, MonadStateOf.modifyGet, StateT.modifyGet, StateT.run, Pure.pure, Except.pure] at hr
  obtain ⟨_, rfl⟩ := hr
  exact h

/-- stepping over a call about whose result nothing is needed -/
theorem wp_forall {α} {Q : α → Session → Prop} {s} {act : M α} (h : ∀ a s', Q a s') : wp act Q s :=
  fun a s' _ => h a s'

theorem wp_mono {α} {Q Q' : α → Session → Prop} {s} {act : M α}
    (h : wp act Q' s) (hq : ∀ a s', Q' a s' → Q a s') : wp act Q s :=
  fun a s' hr => hq a s' (h a s' hr)

theorem wp_ite {α} {Q : α → Session → Prop} {s} {c : Prop} [Decidable c] {a b : M α}
    (ha : c → wp a Q s) (hb : ¬c → wp b Q s) : wp (if c then a else b) Q s := by
  split
  · exact ha ‹_›
  · exact hb ‹_›

/-- `Pres P act`: every successful run of `act` relates start and end state by `P`. -/
def Pres (P : Session → Session → Prop) {α : Type} (act : M α) : Prop :=
  ∀ s, wp act (fun _ s' => P s s') s

/-- Reflexive, transitive relations on sessions. -/
class IsPre (P : Session → Session → Prop) : Prop where
  refl : ∀ s, P s s
  trans : ∀ {a b c}, P a b → P b c → P a c

/-- Calling something that preserves `P`, while establishing `P s0 ·`. -/
theorem wp_call {P} [IsPre P] {α} {act : M α} {s0 s : Session} {Q : α → Session → Prop}
    (hp : Pres P act) (hcur : P s0 s) (hq : ∀ a s', P s0 s' → Q a s') : wp act Q s :=
  fun a s' hr => hq a s' (IsPre.trans hcur (hp s a s' hr))

theorem Pres.of_wp {P} {α} {act : M α} (h : ∀ s, wp act (fun _ s' => P s s') s) : Pres P act := h

end Rimu
