import RimuProofs.Lemmas.Run
import RimuProofs.Lemmas.Attr
import Lean

/-!
# Total-outcome triples for the model monad

`wpE act Q E s`: running `act` from `s` either returns a result and state satisfying `Q`, or raises an exception
satisfying `E`.  (`wp` of `Wp.lean` is the case `E := fun _ => True`, `Safe` the case `Q := fun _ _ => True`.)  A
specification of a function is `∀ s, Pre s → wpE (f args) Post E s`; the tactic `hoare_go` pushes `wpE` through
the model's do-blocks by the shape of the program and steps over calls with the specifications in the context or
registered with `@[hspec]`.
-/

namespace Rimu

def wpE {α : Type} (act : M α) (Q : α → Session → Prop) (E : PyErr → Prop) (s : Session) : Prop :=
  match act.run s with
  | .ok (a, s') => Q a s'
  | .error e => E e

variable {α β : Type} {Q : α → Session → Prop} {E : PyErr → Prop} {s : Session}

theorem wpE_pure (a : α) (h : Q a s) : wpE (pure a : M α) Q E s := by
  unfold wpE; rw [run_pure]; exact h

theorem wpE_bind {Q : β → Session → Prop} {x : M α} {f : α → M β}
    (h : wpE x (fun a s1 => wpE (f a) Q E s1) E s) : wpE (x >>= f) Q E s := by
  unfold wpE at h ⊢
  rw [run_bind]
  cases hx : x.run s with
  | error e => rw [hx] at h; exact h
  | ok r => obtain ⟨a, s1⟩ := r; rw [hx] at h; exact h

theorem wpE_raise (e : PyErr) (h : E e) : wpE (raise e : M α) Q E s := by
  unfold wpE; rw [run_raise]; exact h

theorem wpE_get {Q : Session → Session → Prop} (h : Q s s) : wpE (get : M Session) Q E s := by
  unfold wpE; rw [run_get]; exact h

theorem wpE_modify {Q : Unit → Session → Prop} (f : Session → Session) (h : Q () (f s)) :
    wpE (modify f : M Unit) Q E s := by
  unfold wpE; rw [run_modify]; exact h

theorem wpE_set {Q : Unit → Session → Prop} (v : Session) (h : Q () v) : wpE (set v : M Unit) Q E s := by
  unfold wpE; rw [run_set]; exact h

theorem wpE_mono {Q' : α → Session → Prop} {act : M α} (h : wpE act Q' E s) (hq : ∀ a s', Q' a s' → Q a s') :
    wpE act Q E s := by
  unfold wpE at h ⊢
  split
  · next a s' hr => rw [hr] at h; exact hq a s' h
  · next e hr => rw [hr] at h; exact h

theorem wpE_mono_err {E' : PyErr → Prop} {act : M α} (h : wpE act Q E' s) (he : ∀ e, E' e → E e) : wpE act Q E s := by
  unfold wpE at h ⊢
  split
  · next a s' hr => rw [hr] at h; exact h
  · next e hr => rw [hr] at h; exact he e h

/-- a call that returns without touching the state -/
theorem wpE_pureCall {act : M α} (h : ∃ a, act.run s = .ok (a, s)) (k : ∀ a, Q a s) : wpE act Q E s := by
  obtain ⟨a, ha⟩ := h
  unfold wpE; rw [ha]; exact k a

/-- ... and about whose result something is known -/
theorem wpE_pureCallR {act : M α} {R : α → Prop} (h : ∃ a, act.run s = .ok (a, s) ∧ R a) (k : ∀ a, R a → Q a s) :
    wpE act Q E s := by
  obtain ⟨a, ha, hr⟩ := h
  unfold wpE; rw [ha]; exact k a hr

/-- from a run that is known -/
theorem wpE_of_run {act : M α} {a : α} {s' : Session} (h : act.run s = .ok (a, s')) (k : Q a s') : wpE act Q E s := by
  unfold wpE; rw [h]; exact k

theorem wpE_ok {act : M α} {a : α} {s' : Session} (h : wpE act Q E s) (hr : act.run s = .ok (a, s')) : Q a s' := by
  unfold wpE at h; rw [hr] at h; exact h

theorem wpE_err {act : M α} {e : PyErr} (h : wpE act Q E s) (hr : act.run s = .error e) : E e := by
  unfold wpE at h; rw [hr] at h; exact h

theorem wpE_of_eq {act act' : M α} (e : act = act') (h : wpE act' Q E s) : wpE act Q E s := e ▸ h

open Lean Elab Tactic Meta

partial def normProgH (e : Expr) : Expr :=
  let e := e.consumeMData.headBeta
  match e with
  | .letE _ _ v b _ => normProgH (b.instantiate1 v)
  | _ =>
    if e.isAppOfArity ``letFun 4 then
      normProgH ((e.getArg! 3).beta #[e.getArg! 2])
    else e

/-- split the hypotheses that are syntactically conjunctions (after beta), without unfolding anything -/
partial def destructAnds (g : MVarId) : MetaM MVarId := g.withContext do
  for d in ← getLCtx do
    if d.isImplementationDetail then continue
    let t ← whnfR (← instantiateMVars d.type).consumeMData.headBeta
    if t.isAppOfArity ``And 2 then
      let #[sub] ← g.cases d.fvarId | throwError "destructAnds: unexpected"
      return ← destructAnds sub.mvarId
  return g

elab "destruct_ands" : tactic => liftMetaTactic fun g => do return [← destructAnds g]

/-- closes a side goal of a call (a precondition) or a final postcondition; extended by `macro_rules` where the
    invariant of a development is known -/
syntax "hoare_leaf" : tactic
macro_rules | `(tactic| hoare_leaf) => `(tactic|
  (first
    | assumption
    | trivial
    | (intros; assumption)
    | (solve_by_elim (maxDepth := 4))
    | (split <;> solve_by_elim (maxDepth := 2))
    | (simp_all; done)
    | (simp_all; omega)))

/-- the step over `modify f` / `set v`; extended by `macro_rules` to forget the new state except for an invariant -/
syntax "hoare_modify" : tactic
macro_rules | `(tactic| hoare_modify) => `(tactic| apply wpE_modify)
syntax "hoare_set" : tactic
macro_rules | `(tactic| hoare_set) => `(tactic| apply wpE_set)

/-- run on the facts that a call or a write has just added to the context; extended by `macro_rules` (default: nothing) -/
syntax "hoare_after" : tactic
macro_rules | `(tactic| hoare_after) => `(tactic| skip)

/-- One step: looks at the head of the program in a goal `wpE prog Q E s`. -/
elab "hoare_step" : tactic => withMainContext do
  let g ← getMainGoal
  let t0 ← instantiateMVars (← g.getType)
  let t := t0.consumeMData.headBeta
  match t.getAppFnArgs with
  | (``Rimu.wpE, #[α, act0, Q, E, s]) =>
    let act := normProgH act0
    if act != act0 || t != t0 then
      let g' ← g.replaceTargetDefEq (mkAppN t.getAppFn #[α, act, Q, E, s])
      replaceMainGoal [g']
    let fn := act.getAppFn
    if act.isAppOf ``Bind.bind then
      evalTactic (← `(tactic| apply wpE_bind))
    else if act.isAppOf ``Pure.pure then
      evalTactic (← `(tactic| apply wpE_pure))
    else if act.isAppOf ``Rimu.raise then
      evalTactic (← `(tactic| (apply wpE_raise; first | rfl | decide | skip)))
    else if act.isAppOf ``MonadState.get || act.isAppOf ``getThe || act.isAppOf ``MonadStateOf.get then
      evalTactic (← `(tactic| apply wpE_get))
    else if act.isAppOf ``modify then
      evalTactic (← `(tactic| hoare_modify))
    else if act.isAppOf ``MonadStateOf.set || act.isAppOf ``MonadState.set || act.isAppOf ``set then
      evalTactic (← `(tactic| hoare_set))
    else if act.isAppOf ``ite || act.isAppOf ``dite then
      evalTactic (← `(tactic| split))
    else if (← isMatcherApp act) then
      -- a `match` on a tuple that was just built leaves `(a, b) = (x, y)`: substitute
      evalTactic (← `(tactic| (split <;> (try injections) <;> (try subst_vars))))
    else if fn.isConst || fn.isFVar || fn.isProj then
      evalTactic (← `(tactic| first
        | (refine wpE_pureCallR (by solve_by_elim (maxDepth := 10) (transparency := .reducible) using $(mkIdent `hspec)) ?k
           case' k => intro _ _)
        | (refine wpE_pureCall (by solve_by_elim (maxDepth := 10) (transparency := .reducible) using $(mkIdent `hspec)) ?k
           case' k => intro _)
        | (refine wpE_mono (by solve_by_elim (maxDepth := 10) (transparency := .reducible) using $(mkIdent `hspec)) ?k
           case' k => intro _ _ _; destruct_ands; hoare_after)))
    else
      throwError "hoare_step: unrecognised program {act}"
  | _ =>
    if t.isForall then evalTactic (← `(tactic| intro _))
    else throwError "hoare_step: not a wpE goal"

macro "hoare_go" : tactic => `(tactic| repeat (any_goals hoare_step))

/-- `hoare_go`, then the remaining pre- and postconditions -/
macro "hoare" : tactic => `(tactic| (hoare_go; all_goals (try hoare_leaf)))

end Rimu
