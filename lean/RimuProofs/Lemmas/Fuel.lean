import RimuProofs.Lemmas.Safe
import RimuProofs.Lemmas.PatLemmas
import RimuModel.Block

/-!
# The inline loops never exhaust their own fuel

`NoFuel e := e ≠ outOfFuel`.  Given that nested span renders do not run out of fuel, neither does anything in the
inline layer except through them: the loop of `fragReplacement` (for *every* replacement pattern, degenerate ones
included) and the escaped-quote search are shown to terminate within the fuel the model gives them.
-/

namespace Rimu
open Py Rx

@[reducible] def NoFuel (e : PyErr) : Prop := e ≠ .outOfFuel

macro "nofuel_start" : tactic => `(tactic| skip)

@[safe] theorem errorCallback_nofuel (msg : Str) : Safe NoFuel (errorCallback msg) := by
  unfold errorCallback; safe_go
@[safe] theorem Match.opt_nofuel (m : Match) (i : Nat) : Safe NoFuel (m.opt i) := by
  unfold Match.opt; safe_go
@[safe] theorem Match.str_nofuel (m : Match) (i : Nat) (site : String) : Safe NoFuel (m.str i site) := by
  unfold Match.str; safe_go
@[safe] theorem Match.orEmpty_nofuel (m : Match) (i : Nat) : Safe NoFuel (m.orEmpty i) := by
  unfold Match.orEmpty; safe_go
@[safe] theorem isSafeModeNz_nofuel : Safe NoFuel isSafeModeNz := by unfold isSafeModeNz; safe_go
@[safe] theorem skipMacroDefs_nofuel : Safe NoFuel skipMacroDefs := by unfold skipMacroDefs; safe_go
@[safe] theorem skipBlockAttributes_nofuel : Safe NoFuel skipBlockAttributes := by unfold skipBlockAttributes; safe_go
@[safe] theorem htmlSafeModeFilter_nofuel (h : Str) : Safe NoFuel (htmlSafeModeFilter h) := by
  unfold htmlSafeModeFilter; safe_go
@[safe] theorem macrosGetValue_nofuel (n : Str) : Safe NoFuel (macrosGetValue n) := by unfold macrosGetValue; safe_go

theorem Pat.subGo_nofuel {f : Match → M Str} (hf : ∀ m, Safe NoFuel (f m)) : ∀ ps, Safe NoFuel (Pat.subGo f ps) := by
  intro ps
  induction ps with
  | nil => unfold Pat.subGo; safe_go
  | cons p ps ih => obtain ⟨b, mt⟩ := p; unfold Pat.subGo; safe_go

theorem Pat.subM_nofuel (p : Pat) (s : Str) {f : Match → M Str} (hf : ∀ m, Safe NoFuel (f m)) : Safe NoFuel (p.subM s f) := by
  have h := Pat.subGo_nofuel hf
  unfold Pat.subM; safe_go

section
variable (rec : Rec) (env : Env) (hs : ∀ x, Safe NoFuel (rec.spans x))
include hs

theorem paramRepl_nofuel (pl : List Str) (mr : Match) : Safe NoFuel (paramRepl rec pl mr) := by
  unfold paramRepl; safe_go

theorem macroRepl_nofuel (text : Str) (silent simple : Bool) (mt : Match) :
    Safe NoFuel (macroRepl rec env text silent simple mt) := by
  have hp := fun pl v => Pat.subM_nofuel Gen.P.macros_render_2 v (paramRepl_nofuel rec hs pl)
  unfold macroRepl; safe_go

theorem macrosRender_nofuel (text : Str) (silent : Bool) : Safe NoFuel (macrosRender rec env text silent) := by
  have h1 := fun t => Pat.subM_nofuel Gen.P.macros_render_1 t (macroRepl_nofuel rec env hs text silent true)
  have h0 := fun t => Pat.subM_nofuel Gen.P.macros_render_0 t (macroRepl_nofuel rec env hs text silent false)
  unfold macrosRender; safe_go

theorem replaceInline_nofuel (text : Str) (e : Expand) : Safe NoFuel (replaceInline rec env text e) := by
  have hm := macrosRender_nofuel rec env hs
  unfold replaceInline; safe_go

theorem replaceGroupText_nofuel (g : Str) (sp : Bool) (e : Expand) (ia : Bool) : Safe NoFuel (replaceGroupText rec env g sp e ia) := by
  have hr := replaceInline_nofuel rec env hs
  unfold replaceGroupText; safe_go

theorem replaceMatchGroup_nofuel (mt : Match) (e : Expand) (m : Match) : Safe NoFuel (replaceMatchGroup rec env mt e m) := by
  have hr := replaceGroupText_nofuel rec env hs
  unfold replaceMatchGroup; safe_go

theorem replaceMatch_nofuel (mt : Match) (r : Str) (e : Expand) : Safe NoFuel (replaceMatch rec env mt r e) := by
  unfold replaceMatch
  exact Pat.subM_nofuel _ _ (replaceMatchGroup_nofuel rec env hs mt e)

theorem replacementText_nofuel (rdef : ReplDef) (mt : Match) : Safe NoFuel (replacementText rec env rdef mt) := by
  have hr := replaceMatch_nofuel rec env hs
  unfold replacementText; safe_go

/-- **`fragReplacement` terminates for every replacement pattern**: a match that the loop processes is non-empty
    and lies inside the text, so the remaining text is strictly shorter; `|text| + 1` fuel always suffices. -/
theorem fragReplacementLoop_nofuel (rdef : ReplDef) :
    ∀ fuel text, text.length < fuel → Safe NoFuel (fragReplacementLoop rec env rdef fuel text) := by
  have hr := replacementText_nofuel rec env hs
  intro fuel
  induction fuel with
  | zero => intro text h; omega
  | succ n ih =>
    intro text hlen
    unfold fragReplacementLoop
    split
    · exact Safe.pure _
    · next mt hm =>
      split
      · exact Safe.pure _
      · next hne =>
        have hb := Pat.search_bounds (Nat.zero_le _) hm
        have hshort : (text.drop mt.stop).length < n := by
          simp only [List.length_drop]
          have : mt.start ≠ mt.stop := by
            intro heq; apply hne; simp [heq]
          omega
        have := ih (text.drop mt.stop) hshort
        safe_go

theorem fragReplacement_nofuel (rdef : ReplDef) (f : Fragment) : Safe NoFuel (fragReplacement rec env rdef f) := by
  unfold fragReplacement
  split
  · exact Safe.pure _
  · exact fragReplacementLoop_nofuel rec env hs rdef _ _ (Nat.lt_succ_self _)

theorem fragReplacementAll_nofuel (rdef : ReplDef) : ∀ fs, Safe NoFuel (fragReplacementAll rec env rdef fs) := by
  have hr := fragReplacement_nofuel rec env hs rdef
  intro fs
  induction fs with
  | nil => unfold fragReplacementAll; safe_go
  | cons f fs ih => unfold fragReplacementAll; safe_go

theorem fragReplacements_nofuel : ∀ defs fs, Safe NoFuel (fragReplacements rec env defs fs) := by
  have hr := fragReplacementAll_nofuel rec env hs
  intro defs
  induction defs with
  | nil => intro fs; unfold fragReplacements; safe_go
  | cons d ds ih => intro fs; unfold fragReplacements; safe_go

theorem preReplacements_nofuel (text : Str) : Safe NoFuel (preReplacements rec env text) := by
  have hr := fragReplacements_nofuel rec env hs
  unfold preReplacements; safe_go

end

theorem postReplacements_nofuel : ∀ text, Safe NoFuel (postReplacements text) := by
  intro text
  induction text with
  | nil => unfold postReplacements; safe_go
  | cons c rest ih => unfold postReplacements; safe_go

/-- **The escaped-quote search terminates**: every restart is strictly to the right of the previous one. -/
theorem findQuote_nofuel (qre : Pat) (text : Str) :
    ∀ fuel i, 0 < fuel → text.length + 2 - i ≤ fuel → Safe NoFuel (findQuote qre text fuel i) := by
  intro fuel
  induction fuel with
  | zero => intro i h; omega
  | succ n ih =>
    intro i _ hfuel
    unfold findQuote
    split
    · exact Safe.pure _
    · next hle =>
      split
      · exact Safe.pure _
      · next mt hm =>
        have hb := Pat.search_bounds (by omega) hm
        have hnext : ∀ q : Str, Safe NoFuel (findQuote qre text n (mt.start + q.length + 1)) :=
          fun q => ih _ (by omega) (by omega)
        safe_go

end Rimu
