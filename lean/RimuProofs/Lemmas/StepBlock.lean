import RimuProofs.Lemmas.FrameInline

/-!
# The block layer preserves `Step`

Given that nested span renders satisfy the frame condition and nested document renders preserve `Step`,
so does every function of `Block.lean`; `mkRec` ties the knot by induction on the fuel.
-/

namespace Rimu
open Py

macro "step_start" : tactic => `(tactic| (apply Pres.start; intro s0 s hcur))

/-! ## pure helpers that live in `M` only to raise -/

@[frame] theorem Reader.cursor_frame (r : Reader) : Pres Frame r.cursor := by
  frame_start; unfold Reader.cursor; wp_go
@[frame] theorem Reader.setCursor_frame (r : Reader) (v : Str) : Pres Frame (r.setCursor v) := by
  frame_start; unfold Reader.setCursor; wp_go
@[frame] theorem Reader.unescape_frame (r : Reader) : Pres Frame r.unescape := by
  frame_start; unfold Reader.unescape; wp_go
@[frame] theorem Reader.insertExpansion_frame (r : Reader) (l : List Str) (d : Nat) : Pres Frame (r.insertExpansion l d) := by
  frame_start; unfold Reader.insertExpansion; wp_go

theorem Reader.readTo_go_frame (r : Reader) (p : Pat) : ∀ ls pos acc, Pres Frame (Reader.readTo.go r p ls pos acc) := by
  intro ls
  induction ls with
  | nil => intro pos acc; frame_start; unfold Reader.readTo.go; wp_go
  | cons l t ih => intro pos acc; frame_start; unfold Reader.readTo.go; wp_go

@[frame] theorem Reader.readTo_frame (r : Reader) (p : Pat) : Pres Frame (r.readTo p) := by
  unfold Reader.readTo; exact Reader.readTo_go_frame r p _ _ _

@[frame] theorem panic_frame (msg : Str) : Pres Frame (panic msg) := by
  unfold panic; exact errorCallback_frame _

@[frame] theorem expandParseOne_frame (e : Expand) (o : Str) : Pres Frame (expandParseOne e o) := by
  frame_start; unfold expandParseOne; wp_go

theorem expandParse_go_frame : ∀ l e, Pres Frame (expandParse.go e l) := by
  intro l
  induction l with
  | nil => intro e; frame_start; unfold expandParse.go; wp_go
  | cons o rest ih => intro e; frame_start; unfold expandParse.go; wp_go

@[frame] theorem expandParse_frame (e : Expand) (o : Str) : Pres Frame (expandParse e o) := by
  have h := fun l e => expandParse_go_frame l e
  frame_start; unfold expandParse; wp_go

theorem slugify_suffix_frame (ids : List Str) (slug : Str) : ∀ fuel i, Pres Frame (slugSuffix ids slug fuel i) := by
  intro fuel
  induction fuel with
  | zero => intro i; frame_start; unfold slugSuffix; wp_go
  | succ n ih => intro i; frame_start; unfold slugSuffix; wp_go

@[frame] theorem slugify_frame (t : Str) : Pres Frame (slugify t) := by
  have h := slugify_suffix_frame
  frame_start; unfold slugify; wp_go

@[frame] theorem unterminatedCheck_frame (d : BlockDef) (mt : Match) (r : Reader) : Pres Frame (unterminatedCheck d mt r) := by
  frame_start; unfold unterminatedCheck; wp_go

@[frame] theorem htmlVerify_frame (mt : Match) : Pres Frame (htmlVerify mt) := by
  frame_start; unfold htmlVerify; wp_go

theorem mapM_frame {α β} {f : α → M β} (hf : ∀ a, Pres Frame (f a)) : ∀ l : List α, Pres Frame (l.mapM f) := by
  intro l
  induction l with
  | nil => frame_start; rw [List.mapM_nil]; wp_go
  | cons a l ih => frame_start; rw [List.mapM_cons]; wp_go

@[frame] theorem indentedContentFilter_frame (t : Str) : Pres Frame (indentedContentFilter t) := by
  frame_start; unfold indentedContentFilter; wp_go
  · refine wp_call (P := Frame) (mapM_frame ?_ _) (by assumption) ?_
    · intro line; frame_start; wp_go
    · intro _ _ _; wp_go

/-! ## writers of the Block Attributes state -/

@[frame] theorem injectClasses_frame (c t : Str) : Pres Frame (injectClasses c t) := by
  frame_start; unfold injectClasses; wp_go

@[frame] theorem injectCss_frame (c r a : Str) : Pres Frame (injectCss c r a) := by
  frame_start; unfold injectCss; wp_go

@[pres] theorem macrosSetValue_step (n v : Str) : Pres Step (macrosSetValue n v) := by
  step_start
  unfold macrosSetValue skipMacroDefs
  simp only [bind_assoc, pure_bind]
  wp_go

@[pres] theorem injectId_step (sid : Str) (ids : List Str) (r a : Str) : Pres Step (injectId sid ids r a) := by
  step_start; unfold injectId; wp_go

@[pres] theorem injectHtmlAttributes_step (tag : Str) (consume : Bool) : Pres Step (injectHtmlAttributes tag consume) := by
  step_start; unfold injectHtmlAttributes; wp_go

section
variable (rec : Rec) (env : Env) (hs : ∀ x, Pres Frame (rec.spans x)) (hd : ∀ d x, Pres Step (rec.document d x))
include hs

@[pres] theorem battrParse_step (attrs : Str) : Pres Step (battrParse rec env attrs) := by
  have hr := replaceInline_frame rec env hs
  have hm := macrosRender_frame rec env hs
  step_start; unfold battrParse; wp_go

theorem verifyMacroLine_frame (mt : Match) (r : Reader) : Pres Frame (verifyMacroLine rec env mt r) := by
  have hr := macrosRender_frame rec env hs
  frame_start; unfold verifyMacroLine; wp_go

/-- The definition and option filters of the line rules: every write to a definition table or option is
    inside a branch guarded by `safeMode = 0` (and `macros.setValue` by its own test). -/
theorem lineFilter_step (d : LineDef) (mt : Match) : Pres Step (lineFilter rec env d mt) := by
  have hr := replaceInline_frame rec env hs
  have hm := replaceMatch_frame rec env hs
  have hms := macrosSetValue_step
  step_start
  unfold lineFilter isSafeModeNz blockSetDefinition quotesSetDefinition replSetDefinition setOptionInDocument setOption documentInit
  simp only [bind_assoc, pure_bind]
  wp_go

theorem lineblocksGo_step (allowed : List Str) :
    ∀ defs r w, Pres Step (lineblocksGo rec env allowed defs r w) := by
  have h1 := verifyMacroLine_frame rec env hs
  have h2 := battrParse_step rec env hs
  have h3 := lineFilter_step rec env hs
  intro defs
  induction defs with
  | nil => intro r w; step_start; unfold lineblocksGo; wp_go
  | cons d rest ih => intro r w; step_start; unfold lineblocksGo; wp_go

theorem lineblocksRender_step (r : Reader) (w : Writer) (allowed : List Str) :
    Pres Step (lineblocksRender rec env r w allowed) := by
  have h := lineblocksGo_step rec env hs
  step_start; unfold lineblocksRender; wp_go

theorem macroDefContentFilter_step (text : Str) (mt : Match) (e : Expand) :
    Pres Step (macroDefContentFilter rec env text mt e) := by
  have hr := replaceInline_frame rec env hs
  step_start; unfold macroDefContentFilter; wp_go

include hd

omit hs hd in
@[frame] theorem blockExpand_frame (d : BlockDef) : Pres Frame (blockExpand d) := by
  frame_start; unfold blockExpand; wp_go

set_option maxHeartbeats 1600000 in
theorem renderBlockBody_step (d : BlockDef) (mt : Match) (r : Reader) (w : Writer) :
    Pres Step (renderBlockBody rec env d mt r w) := by
  have hr := replaceInline_frame rec env hs
  have hm := macroDefContentFilter_step rec env hs
  step_start; unfold renderBlockBody; wp_go

theorem renderBlock_step (d : BlockDef) (mt : Match) (r : Reader) (w : Writer) :
    Pres Step (renderBlock rec env d mt r w) := by
  have hb := renderBlockBody_step rec env hs hd
  step_start; unfold renderBlock; wp_go

theorem delimitedGo_step (allowed : List Str) :
    ∀ defs r w, Pres Step (delimitedGo rec env allowed defs r w) := by
  have h := renderBlock_step rec env hs hd
  intro defs
  induction defs with
  | nil => intro r w; step_start; unfold delimitedGo; wp_go
  | cons d rest ih => intro r w; step_start; unfold delimitedGo; wp_go

theorem delimitedRender_step (r : Reader) (w : Writer) (allowed : List Str) :
    Pres Step (delimitedRender rec env r w allowed) := by
  have h := delimitedGo_step rec env hs hd
  step_start; unfold delimitedRender; wp_go

omit hs hd in
theorem matchItem_go_frame : ∀ defs r, Pres Frame (matchItem.go defs r) := by
  intro defs
  induction defs with
  | nil => intro r; frame_start; unfold matchItem.go; wp_go
  | cons d rest ih => intro r; frame_start; unfold matchItem.go; wp_go

omit hs hd in
theorem matchItem_frame (r : Reader) : Pres Frame (matchItem r) := by
  have h := matchItem_go_frame
  frame_start; unfold matchItem; wp_go

omit hd in
theorem consumeBlockAttributes_step : ∀ fuel blanks r w, Pres Step (consumeBlockAttributes rec env fuel blanks r w) := by
  have h := lineblocksRender_step rec env hs
  intro fuel
  induction fuel with
  | zero => intro b r w; step_start; unfold consumeBlockAttributes; wp_go
  | succ n ih => intro b r w; step_start; unfold consumeBlockAttributes; wp_go

/-- the four mutually recursive list functions, by induction on the shared fuel -/
theorem lists_step : ∀ fuel,
    (∀ i r w, Pres Step (renderList rec env fuel i r w)) ∧
    (∀ i r w, Pres Step (renderListLoop rec env fuel i r w)) ∧
    (∀ i r w, Pres Step (renderListItem rec env fuel i r w)) ∧
    (∀ r il al d, Pres Step (renderItemLoop rec env fuel r il al d)) := by
  have hr := replaceInline_frame rec env hs
  have hc := consumeBlockAttributes_step rec env hs
  have hm := matchItem_frame
  have hdr := delimitedRender_step rec env hs hd
  intro fuel
  induction fuel with
  | zero =>
    refine ⟨?_, ?_, ?_, ?_⟩
    · intro i r w; step_start; unfold renderList; wp_go
    · intro i r w; step_start; unfold renderListLoop; wp_go
    · intro i r w; step_start; unfold renderListItem; wp_go
    · intro r il al d; step_start; unfold renderItemLoop; wp_go
  | succ n ih =>
    obtain ⟨ih1, ih2, ih3, ih4⟩ := ih
    refine ⟨?_, ?_, ?_, ?_⟩
    · intro i r w; step_start; unfold renderList; wp_go
    · intro i r w; step_start; unfold renderListLoop; wp_go
    · intro i r w; step_start; unfold renderListItem; wp_go
    · intro r il al d; step_start; unfold renderItemLoop; wp_go

theorem listsRender_step (fuel : Nat) (r : Reader) (w : Writer) : Pres Step (listsRender rec env fuel r w) := by
  have hm := matchItem_frame
  have hl := fun i r w => (lists_step rec env hs hd fuel).1 i r w
  step_start; unfold listsRender; wp_go

theorem documentLoop_step : ∀ fuel r w, Pres Step (documentLoop rec env fuel r w) := by
  have h1 := lineblocksRender_step rec env hs
  have h2 := listsRender_step rec env hs hd
  have h3 := delimitedRender_step rec env hs hd
  intro fuel
  induction fuel with
  | zero => intro r w; step_start; unfold documentLoop; wp_go
  | succ n ih => intro r w; step_start; unfold documentLoop; wp_go

theorem documentRender_step (fuel : Nat) (src : Str) (d : Depth) : Pres Step (documentRender rec env fuel src d) := by
  have h := documentLoop_step rec env hs hd
  step_start; unfold documentRender; wp_go

end

/-- Tying the knot: at every fuel level nested span renders satisfy the frame condition and nested document
    renders preserve `Step`. -/
theorem mkRec_spec (env : Env) : ∀ n,
    (∀ x, Pres Frame ((mkRec env n).spans x)) ∧ (∀ d x, Pres Step ((mkRec env n).document d x)) := by
  intro n
  induction n with
  | zero =>
    refine ⟨?_, ?_⟩
    · intro x; frame_start; exact wp_raise _
    · intro d x; step_start; exact wp_raise _
  | succ n ih =>
    obtain ⟨ihs, ihd⟩ := ih
    refine ⟨?_, ?_⟩
    · intro x
      show Pres Frame (spansRender (mkRec env n) env x)
      exact spansRender_frame _ env ihs x
    · intro d x
      show Pres Step (documentRender (mkRec env n) env (n+1) x d)
      exact documentRender_step _ env ihs ihd _ x d

end Rimu
