import RimuProofs.Lemmas.Wp
import RimuProofs.Lemmas.Attr
import Lean

/-!
# Non-interference of the callback

`mute s` is the session `s` without a callback and with an empty message log.  `NI act`: running `act` from `s` and
from `mute s` gives the same result (or the same exception) and final states that differ in the log only - whether a
callback is installed, and what has been reported so far, cannot influence what is rendered.

`NI` is a property of programs without a postcondition, closed under the monadic combinators; the only places that
need an argument are reads of the state (`get >>= k`: the continuation must not look at the callback or the log) and
writes (`modify f`: `f` must commute with `mute`).  The tactic `ni_go` pushes it through the model's code.
-/

namespace Rimu

def mute (s : Session) : Session := { s with callback := false, log := [] }

@[simp] theorem mute_mute (s : Session) : mute (mute s) = mute s := rfl

/-- the two runs agree: same value and muted final state, or the same exception -/
def Agree {α : Type} (r₁ r₂ : Except PyErr (α × Session)) : Prop :=
  match r₁, r₂ with
  | .ok (a, s1), .ok (b, t1) => a = b ∧ t1 = mute s1
  | .error e, .error e' => e = e'
  | _, _ => False

def NI {α : Type} (act : M α) : Prop := ∀ s, Agree (act.run s) (act.run (mute s))

theorem NI.pure {α} (a : α) : NI (pure a : M α) := by
  intro s; exact ⟨rfl, rfl⟩

theorem NI.raise {α} (e : PyErr) : NI (raise e : M α) := by
  intro s; rfl

theorem NI.bind {α β} {x : M α} {f : α → M β} (hx : NI x) (hf : ∀ a, NI (f a)) : NI (x >>= f) := by
  intro s
  have h := hx s
  simp only [Bind.bind, StateT.bind, StateT.run] at *
  unfold Agree at h
  cases h1 : x s with
  | error e =>
    cases h2 : x (mute s) with
    | error e' => simp only [h1, h2] at h; simp only [Except.bind]; exact h
    | ok r => simp only [h1, h2] at h
  | ok r =>
    obtain ⟨a, s1⟩ := r
    cases h2 : x (mute s) with
    | error e' => simp only [h1, h2] at h
    | ok r' =>
      obtain ⟨b, t1⟩ := r'
      simp only [h1, h2] at h
      obtain ⟨rfl, rfl⟩ := h
      simp only [Except.bind]
      exact hf a s1

/-- a write commutes with muting -/
theorem NI.modify {f : Session → Session} (h : ∀ s, f (mute s) = mute (f s)) : NI (modify f : M Unit) := by
  intro s
  exact ⟨rfl, h s⟩

/-- a read whose continuation does not look at the callback or the log -/
theorem NI.get_bind {β} {k : Session → M β} (hk : ∀ s, k (mute s) = k s) (h : ∀ s0, NI (k s0)) :
    NI (get >>= k) := by
  intro s
  have : (get >>= k : M β).run (mute s) = (k s).run (mute s) := by
    show (k (mute s)).run (mute s) = _
    rw [hk]
  rw [this]
  exact h s s

/-- a read followed by anything, argued on the two runs directly (read-modify-write sequences) -/
theorem NI.get_bind_rel {β} {k : Session → M β} (h : ∀ s, Agree ((k s).run s) ((k (mute s)).run (mute s))) :
    NI (get >>= k) := fun s => h s

theorem Agree.pure {α} (a : α) (s t : Session) (h : t = mute s) : Agree ((Pure.pure a : M α).run s) ((Pure.pure a : M α).run t) :=
  ⟨rfl, h⟩

theorem Agree.set (v w : Session) (s t : Session) (h : w = mute v) : Agree ((set v : M Unit).run s) ((set w : M Unit).run t) :=
  ⟨rfl, h⟩

theorem NI.errorCallback (msg : Str) : NI (errorCallback msg) := by
  unfold Rimu.errorCallback
  apply NI.modify
  intro s
  cases h : s.callback <;> simp [mute, h]

open Lean Elab Tactic Meta

partial def normProgN (e : Expr) : Expr :=
  let e := e.consumeMData.headBeta
  match e with
  | .letE _ _ v b _ => normProgN (b.instantiate1 v)
  | _ => e

/-- One step of pushing `NI` through a program, by the shape of its head. -/
elab "ni_step" : tactic => withMainContext do
  let g ← getMainGoal
  let t0 ← instantiateMVars (← g.getType)
  let t := t0.consumeMData.headBeta
  match t.getAppFnArgs with
  | (``Rimu.NI, #[α, act0]) =>
    let act := normProgN act0
    if act != act0 then
      let g' ← g.replaceTargetDefEq (mkAppN t.getAppFn #[α, act])
      replaceMainGoal [g']
    let fn := act.getAppFn
    if act.isAppOf ``Bind.bind then
      -- get >>= k is special
      let args := act.getAppArgs
      let x := (normProgN args[4]!)
      if x.isAppOf ``MonadState.get || x.isAppOf ``getThe || x.isAppOf ``MonadStateOf.get then
        evalTactic (← `(tactic| refine NI.get_bind (fun _ => rfl) ?_))
      else
        evalTactic (← `(tactic| apply NI.bind))
    else if act.isAppOf ``Pure.pure then
      evalTactic (← `(tactic| exact NI.pure _))
    else if act.isAppOf ``Rimu.raise then
      evalTactic (← `(tactic| exact NI.raise _))
    else if act.isAppOf ``modify then
      evalTactic (← `(tactic| exact NI.modify (fun _ => rfl)))
    else if act.isAppOf ``ite || act.isAppOf ``dite then
      evalTactic (← `(tactic| split))
    else if (← isMatcherApp act) then
      evalTactic (← `(tactic| split))
    else if fn.isConst || fn.isFVar || fn.isProj then
      evalTactic (← `(tactic| first | assumption | (simp only [ni]; done) | (simp only [*]; done)))
    else
      throwError "ni_step: unrecognised program {act}"
  | _ =>
    if t.isForall then evalTactic (← `(tactic| intro _))
    else throwError "ni_step: not an NI goal"

macro "ni_go" : tactic => `(tactic| repeat (any_goals ni_step))

end Rimu
