import RimuProofs.Lemmas.StepBlock
import RimuProofs.Lemmas.Run

/-!
# The registry of element ids never holds an id twice

`IdsNodup s s'`: if the ids registered in `s` are pairwise distinct, so are those in `s'`.  The one writer,
`injectHtmlAttributes`, registers an id only when it is not yet in the registry it has just read; `document.init()` empties
it; nothing else touches it.  Pushed through every function of the block layer with the `wp` tactic.
-/

namespace Rimu
open Py

def IdsNodup (s s' : Session) : Prop := s.ids.Nodup → s'.ids.Nodup

instance : IsPre IdsNodup := ⟨fun _ h => h, fun h1 h2 h => h2 (h1 h)⟩

theorem Frame.idsNodup {s s' : Session} (h : Frame s s') : IdsNodup s s' := by
  obtain ⟨l, v, rfl⟩ := h; exact fun h => h

@[frame] theorem pres_idsNodup_of_frame {α} {act : M α} (h : Pres Frame act) : Pres IdsNodup act = True :=
  eq_true (fun s a s' hr => (h s a s' hr).idsNodup)

theorem Pres.idsNodup {α} {act : M α} (h : Pres Frame act) : Pres IdsNodup act :=
  fun s a s' hr => (h s a s' hr).idsNodup

macro "ids_start" : tactic => `(tactic| (apply Pres.start; intro s0 s hcur))

/-- a write that leaves the registry alone, after the case splits of the written value -/
macro "ids_leaf" : tactic => `(tactic|
  ((repeat' split) <;> (first | assumption | (intro hnd; exact hnd) | (intro hnd; simp; done))))

@[pres] theorem macrosSetValue_ids (n v : Str) : Pres IdsNodup (macrosSetValue n v) := by
  ids_start
  unfold macrosSetValue skipMacroDefs
  simp only [bind_assoc, pure_bind]
  wp_go

/-- the writer: given the registry it was handed is the current one -/
theorem injectId_ids (sid : Str) (ids : List Str) (r a : Str) (s : Session) (hids : ids = s.ids) :
    wp (injectId sid ids r a) (fun _ s' => IdsNodup s s') s := by
  intro a' s' hr
  unfold injectId at hr
  split at hr
  · simp only [run_pure, Except.ok.injEq, Prod.mk.injEq] at hr
    obtain ⟨_, rfl⟩ := hr; exact fun h => h
  · simp only [run_bind, run_modify] at hr
    split at hr
    · simp only [run_bind, run_errorCallback, run_pure, Except.ok.injEq, Prod.mk.injEq] at hr
      obtain ⟨_, rfl⟩ := hr
      split <;> exact fun h => h
    · next hc =>
      simp only [run_bind, run_modify, run_pure, Except.ok.injEq, Prod.mk.injEq] at hr
      obtain ⟨_, rfl⟩ := hr
      intro hn
      show (lower sid :: s.ids).Nodup
      rw [List.nodup_cons]
      refine ⟨?_, hn⟩
      intro hmem
      apply hc
      subst hids
      simp [List.contains_iff_mem, hmem]

/-- `injectHtmlAttributes` reads the registry and hands it to `injectId` unchanged -/
@[pres] theorem injectHtmlAttributes_ids (tag : Str) (consume : Bool) : Pres IdsNodup (injectHtmlAttributes tag consume) := by
  intro s
  unfold injectHtmlAttributes
  split
  · exact wp_pure _ (fun h => h)
  · apply wp_bind
    apply wp_get
    apply wp_bind
    intro x s1 hr1
    obtain ⟨l, v, rfl⟩ := injectClasses_frame _ _ s x s1 hr1
    obtain ⟨result, attrs⟩ := x
    apply wp_bind
    intro attrs2 s2 hr2
    have h2 := injectId_ids s.id s.ids result attrs { s with log := l, saved := v } rfl attrs2 s2 hr2
    apply wp_bind
    intro y s3 hr3
    obtain ⟨l3, v3, rfl⟩ := injectCss_frame _ _ _ s2 y s3 hr3
    obtain ⟨result2, attrs3⟩ := y
    dsimp only
    split
    · apply wp_bind
      apply wp_modify
      exact wp_pure _ (fun h => h2 h)
    · exact wp_pure _ (fun h => h2 h)

section
variable (rec : Rec) (env : Env) (hs : ∀ x, Pres Frame (rec.spans x)) (hd : ∀ d x, Pres IdsNodup (rec.document d x))
include hs

@[pres] theorem battrParse_ids (attrs : Str) : Pres IdsNodup (battrParse rec env attrs) := by
  have hr := fun t e => (replaceInline_frame rec env hs t e).idsNodup
  have hm := fun t sl => (macrosRender_frame rec env hs t sl).idsNodup
  ids_start; unfold battrParse; wp_go

/-- The definition and option filters of the line rules: every write to a definition table or option is
    inside a branch guarded by `safeMode = 0` (and `macros.setValue` by its own test). -/
theorem lineFilter_ids (d : LineDef) (mt : Match) : Pres IdsNodup (lineFilter rec env d mt) := by
  have hr := fun t e => (replaceInline_frame rec env hs t e).idsNodup
  have hm := fun mt r e => (replaceMatch_frame rec env hs mt r e).idsNodup
  have hms := macrosSetValue_ids
  ids_start
  unfold lineFilter isSafeModeNz blockSetDefinition quotesSetDefinition replSetDefinition setOptionInDocument setOption documentInit
  simp only [bind_assoc, pure_bind]
  wp_go
  all_goals ids_leaf

theorem lineblocksGo_ids (allowed : List Str) :
    ∀ defs r w, Pres IdsNodup (lineblocksGo rec env allowed defs r w) := by
  have h1 := fun mt r => (verifyMacroLine_frame rec env hs mt r).idsNodup
  have h2 := battrParse_ids rec env hs
  have h3 := lineFilter_ids rec env hs
  intro defs
  induction defs with
  | nil => intro r w; ids_start; unfold lineblocksGo; wp_go
  | cons d rest ih => intro r w; ids_start; unfold lineblocksGo; wp_go

theorem lineblocksRender_ids (r : Reader) (w : Writer) (allowed : List Str) :
    Pres IdsNodup (lineblocksRender rec env r w allowed) := by
  have h := lineblocksGo_ids rec env hs
  ids_start; unfold lineblocksRender; wp_go

theorem macroDefContentFilter_ids (text : Str) (mt : Match) (e : Expand) :
    Pres IdsNodup (macroDefContentFilter rec env text mt e) := by
  have hr := fun t e => (replaceInline_frame rec env hs t e).idsNodup
  ids_start; unfold macroDefContentFilter; wp_go

include hd

set_option maxHeartbeats 1600000 in
theorem renderBlockBody_ids (d : BlockDef) (mt : Match) (r : Reader) (w : Writer) :
    Pres IdsNodup (renderBlockBody rec env d mt r w) := by
  have hr := fun t e => (replaceInline_frame rec env hs t e).idsNodup
  have hm := macroDefContentFilter_ids rec env hs
  ids_start; unfold renderBlockBody; wp_go

theorem renderBlock_ids (d : BlockDef) (mt : Match) (r : Reader) (w : Writer) :
    Pres IdsNodup (renderBlock rec env d mt r w) := by
  have hb := renderBlockBody_ids rec env hs hd
  ids_start; unfold renderBlock; wp_go

theorem delimitedGo_ids (allowed : List Str) :
    ∀ defs r w, Pres IdsNodup (delimitedGo rec env allowed defs r w) := by
  have h := renderBlock_ids rec env hs hd
  intro defs
  induction defs with
  | nil => intro r w; ids_start; unfold delimitedGo; wp_go
  | cons d rest ih => intro r w; ids_start; unfold delimitedGo; wp_go

theorem delimitedRender_ids (r : Reader) (w : Writer) (allowed : List Str) :
    Pres IdsNodup (delimitedRender rec env r w allowed) := by
  have h := delimitedGo_ids rec env hs hd
  ids_start; unfold delimitedRender; wp_go

omit hd in
theorem consumeBlockAttributes_ids : ∀ fuel blanks r w, Pres IdsNodup (consumeBlockAttributes rec env fuel blanks r w) := by
  have h := lineblocksRender_ids rec env hs
  intro fuel
  induction fuel with
  | zero => intro b r w; ids_start; unfold consumeBlockAttributes; wp_go
  | succ n ih => intro b r w; ids_start; unfold consumeBlockAttributes; wp_go

/-- the four mutually recursive list functions, by induction on the shared fuel -/
theorem lists_ids : ∀ fuel,
    (∀ i r w, Pres IdsNodup (renderList rec env fuel i r w)) ∧
    (∀ i r w, Pres IdsNodup (renderListLoop rec env fuel i r w)) ∧
    (∀ i r w, Pres IdsNodup (renderListItem rec env fuel i r w)) ∧
    (∀ r il al d, Pres IdsNodup (renderItemLoop rec env fuel r il al d)) := by
  have hr := fun t e => (replaceInline_frame rec env hs t e).idsNodup
  have hc := consumeBlockAttributes_ids rec env hs
  have hm := fun r => (matchItem_frame r).idsNodup
  have hdr := delimitedRender_ids rec env hs hd
  intro fuel
  induction fuel with
  | zero =>
    refine ⟨?_, ?_, ?_, ?_⟩
    · intro i r w; ids_start; unfold renderList; wp_go
    · intro i r w; ids_start; unfold renderListLoop; wp_go
    · intro i r w; ids_start; unfold renderListItem; wp_go
    · intro r il al d; ids_start; unfold renderItemLoop; wp_go
  | succ n ih =>
    obtain ⟨ih1, ih2, ih3, ih4⟩ := ih
    refine ⟨?_, ?_, ?_, ?_⟩
    · intro i r w; ids_start; unfold renderList; wp_go
    · intro i r w; ids_start; unfold renderListLoop; wp_go
    · intro i r w; ids_start; unfold renderListItem; wp_go
    · intro r il al d; ids_start; unfold renderItemLoop; wp_go

theorem listsRender_ids (fuel : Nat) (r : Reader) (w : Writer) : Pres IdsNodup (listsRender rec env fuel r w) := by
  have hm := fun r => (matchItem_frame r).idsNodup
  have hl := fun i r w => (lists_ids rec env hs hd fuel).1 i r w
  ids_start; unfold listsRender; wp_go

theorem documentLoop_ids : ∀ fuel r w, Pres IdsNodup (documentLoop rec env fuel r w) := by
  have h1 := lineblocksRender_ids rec env hs
  have h2 := listsRender_ids rec env hs hd
  have h3 := delimitedRender_ids rec env hs hd
  intro fuel
  induction fuel with
  | zero => intro r w; ids_start; unfold documentLoop; wp_go
  | succ n ih => intro r w; ids_start; unfold documentLoop; wp_go

theorem documentRender_ids (fuel : Nat) (src : Str) (d : Depth) : Pres IdsNodup (documentRender rec env fuel src d) := by
  have h := documentLoop_ids rec env hs hd
  ids_start; unfold documentRender; wp_go

end

/-- Tying the knot: at every fuel level nested span renders satisfy the frame condition and nested document
    renders preserve `Step`. -/
theorem mkRec_ids (env : Env) : ∀ n,
    (∀ x, Pres Frame ((mkRec env n).spans x)) ∧ (∀ d x, Pres IdsNodup ((mkRec env n).document d x)) := by
  intro n
  induction n with
  | zero =>
    refine ⟨?_, ?_⟩
    · intro x; frame_start; exact wp_raise _
    · intro d x; ids_start; exact wp_raise _
  | succ n ih =>
    obtain ⟨ihs, ihd⟩ := ih
    refine ⟨?_, ?_⟩
    · intro x
      show Pres Frame (spansRender (mkRec env n) env x)
      exact spansRender_frame _ env ihs x
    · intro d x
      show Pres IdsNodup (documentRender (mkRec env n) env (n+1) x d)
      exact documentRender_ids _ env ihs ihd _ x d

end Rimu
