import RimuProofs.Lemmas.Eqns
import RimuProofs.Regex.Analysis
import RimuModel.Base

/-!
# What `Pat.search` / `Pat.matchStart` return
-/

namespace Rimu
open Rx

theorem Pat.matchStart_some {p : Pat} {s : Str} {m : Match} (h : p.matchStart s = some m) :
    m.inp = s.toArray ∧ m.ngroups = p.ngroups ∧ matchAt s.toArray p.re p.ngroups 0 = some m.res := by
  unfold Pat.matchStart at h
  dsimp only at h
  split at h
  · next r hr => cases h; exact ⟨rfl, rfl, hr⟩
  · cases h

theorem Pat.search_some {p : Pat} {s : Str} {start : Nat} {m : Match} (h : p.search s start = some m) :
    m.inp = s.toArray ∧ m.ngroups = p.ngroups ∧ Rx.search s.toArray p.re p.ngroups start = some m.res := by
  unfold Pat.search at h
  dsimp only at h
  split at h
  · next r hr => cases h; exact ⟨rfl, rfl, hr⟩
  · cases h

/-- a successful search from inside the text returns a span inside the text, at or after the start -/
theorem Pat.search_bounds {p : Pat} {s : Str} {start : Nat} {m : Match} (hs : start ≤ s.length)
    (h : p.search s start = some m) : start ≤ m.start ∧ m.start ≤ m.stop ∧ m.stop ≤ s.length := by
  obtain ⟨_, _, hr⟩ := Pat.search_some h
  have := search_sound (by simpa using hs) hr
  simp only [List.size_toArray] at this
  exact ⟨this.1, this.2.1, this.2.2.1⟩

/-- ... of at least `minLen` characters -/
theorem Pat.search_minLen {p : Pat} {s : Str} {start : Nat} {m : Match} (hs : start ≤ s.length)
    (h : p.search s start = some m) : m.start + minLen p.re ≤ m.stop := by
  obtain ⟨_, _, hr⟩ := Pat.search_some h
  exact Rx.search_minLen (by simpa using hs) hr

end Rimu
