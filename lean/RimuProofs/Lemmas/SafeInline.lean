import RimuProofs.Lemmas.Hoare
import RimuProofs.Lemmas.Groups
import RimuProofs.Regex.GroupProp
import RimuProofs.Regex.Literal
import RimuProofs.Regex.Digits
import RimuProofs.Facts
import RimuModel.Block

/-!
# Which exceptions the model can raise: the inline layer

`Ok act`: from every session that satisfies the invariant `Inv`, `act` returns in a session that satisfies it again,
or raises an exception that is `Allowed`: an outcome of the model that is not a Python exception (`modelOnly`:
out of fuel, a user pattern outside the modelled fragment, the driver's request for a pattern), or one of the raise
sites listed in `Residual`, which this development does not exclude (each needs an argument it does not have: the
placeholder accounting of `spans.render`, completeness of the matcher, the digit table of `int()`).
Every other raise site of the model - every `match[i]` used as a string, every `no such group`, every index into a
string - is shown unreachable, for every text, session, nested renderer and `compile` oracle.
-/

namespace Rimu
open Py Rx

/-- outcomes of the model that are not Python exceptions -/
def modelOnly : PyErr → Bool
  | .outOfFuel => true
  | .unsupportedRegex _ => true
  | .needCompile _ _ => true
  | _ => false

/-- raise sites of the model that are not excluded here -/
def residual : PyErr → Bool
  | .indexError site => site == "savedReplacements.pop(0)" || site == "match[0][0] paragraph"
      || site == "htmlSafeModeFilter(match[1])" || site == "entity match[1]"
  | .assertion site => site == "m is not None"
  | .noneType site => site == "htmlSafeModeFilter(match[1])" || site == "entity match[1]"
  | _ => false

@[reducible] def Allowed (e : PyErr) : Prop := (modelOnly e || residual e) = true

/-- the quote table is not empty and no quote is the empty string; the delimited-block table has the patterns,
    verifiers and filters of the default table (only tags and expansion options can be redefined) -/
def BlockDef.SameShape (d d0 : BlockDef) : Prop :=
  d.name = d0.name ∧ d.openMatch = d0.openMatch ∧ d.closeMatch = d0.closeMatch ∧ d.verify = d0.verify ∧
  d.delimiterFilter = d0.delimiterFilter ∧ d.contentFilter = d0.contentFilter

def Inv (s : Session) : Prop :=
  (s.quoteDefs ≠ [] ∧ ∀ d ∈ s.quoteDefs, d.quote ≠ []) ∧
  (∀ d ∈ s.blockDefs, ∃ d0 ∈ Gen.blockDefaultDefs, d.SameShape d0)

/-- the invariant reads the quote and delimited-block tables only -/
theorem Inv.of_eq {s s' : Session} (h : Inv s) (hq : s'.quoteDefs = s.quoteDefs) (hb : s'.blockDefs = s.blockDefs) : Inv s' := by
  unfold Inv at h ⊢
  rw [hq, hb]
  exact h

open Lean Elab Tactic Meta in
/-- `Inv s'` from some `Inv s` in the context, when the two tables of `s'` are those of `s` by reduction -/
elab "inv_leaf" : tactic => withMainContext do
  let g ← getMainGoal
  let t := (← instantiateMVars (← g.getType)).consumeMData.headBeta
  unless t.isAppOfArity ``Rimu.Inv 1 do throwError "inv_leaf: not an Inv goal"
  for d in ← getLCtx do
    if d.isImplementationDetail then continue
    let ty := (← instantiateMVars d.type).consumeMData
    if ty.isAppOfArity ``Rimu.Inv 1 then
      let stx ← Term.exprToSyntax (.fvar d.fvarId)
      let s ← saveState
      try
        evalTactic (← `(tactic| exact Inv.of_eq $stx rfl rfl))
        return
      catch _ => s.restore
  throwError "inv_leaf: no hypothesis fits"

macro_rules | `(tactic| hoare_leaf) => `(tactic| inv_leaf)

/-- a write that keeps the invariant: the new state is forgotten except for that -/
theorem wpE_modify_inv {Q : Unit → Session → Prop} {E : PyErr → Prop} {s : Session} (f : Session → Session)
    (h : Inv (f s)) (k : ∀ s1, Inv s1 → Q () s1) : wpE (modify f : M Unit) Q E s := wpE_modify f (k _ h)

theorem wpE_set_inv {Q : Unit → Session → Prop} {E : PyErr → Prop} {s : Session} (v : Session)
    (h : Inv v) (k : ∀ s1, Inv s1 → Q () s1) : wpE (set v : M Unit) Q E s := wpE_set v (k _ h)

macro_rules | `(tactic| hoare_modify) => `(tactic| (refine wpE_modify_inv _ (by inv_leaf) ?k; intro _ _))
macro_rules | `(tactic| hoare_set) => `(tactic| (refine wpE_set_inv _ (by inv_leaf) ?k; intro _ _))

@[reducible] def Ok {α : Type} (act : M α) : Prop := ∀ s, Inv s → wpE act (fun _ s' => Inv s') Allowed s

/-- with a property of the result -/
@[reducible] def OkR {α : Type} (act : M α) (R : α → Prop) : Prop :=
  ∀ s, Inv s → wpE act (fun a s' => Inv s' ∧ R a) Allowed s

theorem Ok.of_OkR {α} {act : M α} {R : α → Prop} (h : OkR act R) : Ok act :=
  fun s hI => wpE_mono (h s hI) (fun _ _ hq => hq.1)

/-! ## calls that only read the state -/

@[hspec] theorem pc_isSafeModeNz (s : Session) : ∃ a, isSafeModeNz.run s = .ok (a, s) := ⟨_, rfl⟩
@[hspec] theorem pc_skipMacroDefs (s : Session) : ∃ a, skipMacroDefs.run s = .ok (a, s) := ⟨_, rfl⟩
@[hspec] theorem pc_skipBlockAttributes (s : Session) : ∃ a, skipBlockAttributes.run s = .ok (a, s) := ⟨_, rfl⟩
@[hspec] theorem pc_macrosGetValue (n : Str) (s : Session) : ∃ a, (macrosGetValue n).run s = .ok (a, s) := ⟨_, rfl⟩

@[hspec] theorem pc_htmlSafeModeFilter (h : Str) (s : Session) : ∃ a, (htmlSafeModeFilter h).run s = .ok (a, s) := by
  unfold htmlSafeModeFilter
  rw [run_bind, run_get]
  simp only []
  split
  · exact ⟨_, rfl⟩
  · split
    · exact ⟨_, rfl⟩
    · split
      · exact ⟨_, rfl⟩
      · split <;> exact ⟨_, rfl⟩

/-- `match[i] or ''` for a group the pattern has -/
theorem pc_orEmpty (m : Match) (i : Nat) (h : i ≤ m.ngroups) (s : Session) : ∃ a, (m.orEmpty i).run s = .ok (a, s) := by
  unfold Match.orEmpty Match.opt
  have : ¬ (i > m.ngroups) := by omega
  simp only [this, if_false]
  rw [run_bind, run_pure]
  cases m.res.group m.inp i <;> exact ⟨_, rfl⟩

theorem pc_opt (m : Match) (i : Nat) (h : i ≤ m.ngroups) (s : Session) :
    ∃ a, (m.opt i).run s = .ok (a, s) ∧ a = m.res.group m.inp i := by
  unfold Match.opt
  have : ¬ (i > m.ngroups) := by omega
  simp only [this, if_false]
  exact ⟨_, rfl, rfl⟩

/-- `match[i]` as a string, for a group that every match of the pattern sets -/
theorem pc_str {m : Match} {p : Pat} (h : m.Of p) {i : Nat} (hp : p.Sets i = true) (site : String) (s : Session) :
    ∃ a, (m.str i site).run s = .ok (a, s) ∧ m.res.group m.inp i = some a := by
  obtain ⟨g, hg⟩ := h.str hp site s
  refine ⟨g, hg, ?_⟩
  unfold Match.str at hg
  split at hg
  · cases hg
  · split at hg
    · next g' hg' => cases hg; exact hg'
    · cases hg

/-- the diagnostic channel touches the message log only -/
@[hspec] theorem errorCallback_ok (msg : Str) : Ok (errorCallback msg) := by
  intro s hI
  unfold errorCallback
  hoare_go
  split <;> exact hI



/-! ## macros -/

@[hspec] theorem macrosSetValue_ok (name value : Str) : Ok (macrosSetValue name value) := by
  intro s hI
  unfold macrosSetValue
  hoare

/-! ## `pattern.sub` with a replacement function -/

theorem Pat.subGo_ok {f : Match → M Str} : ∀ ps : List (Str × Match), (∀ bm ∈ ps, Ok (f bm.2)) → Ok (Pat.subGo f ps) := by
  intro ps
  induction ps with
  | nil => intro _ s hI; unfold Pat.subGo; hoare
  | cons bm ps ih =>
    intro hf
    obtain ⟨b, mt⟩ := bm
    have h1 : Ok (f mt) := hf (b, mt) (by simp)
    have h2 := ih (fun bm hbm => hf bm (by simp [hbm]))
    intro s hI
    unfold Pat.subGo
    hoare

theorem Pat.subM_ok (p : Pat) (t : Str) {f : Match → M Str} (hf : ∀ m, m.Of p → Ok (f m)) : Ok (p.subM t f) := by
  intro s hI
  unfold Pat.subM
  cases hp : p.pieces t with
  | mk ps tail =>
    have h := Pat.subGo_ok (f := f) ps (fun bm hbm => hf bm.2 (Pat.pieces_of (by rw [hp]; exact hbm)))
    simp only []
    hoare

/-- `s.replace(old, new)` of a non-empty string by a non-empty replacement is not empty -/
theorem replaceAll_ne_nil {t old new : Str} (ht : t ≠ []) (hn : new ≠ []) : replaceAll t old new ≠ [] := by
  unfold replaceAll
  split
  · exact ht
  · cases t with
    | nil => exact absurd rfl ht
    | cons c t =>
      unfold replaceAll.go
      simp only [List.length_cons]
      split
      · intro h
        exact hn (List.append_eq_nil_iff.mp h).1
      · intro h; cases h

/-- group 2 of a parametrised invocation (`|…`, `=…`, `!…`, `?…`) is not empty -/
theorem macro_params_nonempty {mt : Match} (hm : mt.Of Gen.P.macros_render_0) {g : Str}
    (hg : mt.res.group mt.inp 2 = some g) : g ≠ [] := by
  obtain ⟨hn, hM, hst⟩ := hm
  have hsat := hM.capSat (P := fun a b => a < b ∧ b ≤ mt.inp.size) (chk := nonEmptyBody) (i := 2)
    (fun body pos caps p c hc hp hmm => ⟨nonEmptyBody_sound body pos caps p c hc hmm, (hmm.bounds hp).2⟩)
    hst (by decide +kernel) (capSat_init _ _ _)
  obtain ⟨a, b, hab, rfl⟩ := group_span (by decide) hg
  obtain ⟨h1, h2⟩ := hsat a b hab
  exact slice_length_pos h1 h2

/-- the text of a group all of whose bodies consume one or more digit code points is accepted by `int()` -/
theorem group_digits {m : Match} {p : Pat} (hm : m.Of p) {i : Nat} (hi : i ≠ 0)
    (hr : groupAll (fun b => onlyChars digitCode b && nonEmptyBody b) i p.re = true) {g : Str}
    (hg : m.res.group m.inp i = some g) : (pyInt g).isSome = true := by
  obtain ⟨_, hM, hst⟩ := hm
  have hsat := hM.capSat (P := fun a b => a < b ∧ b ≤ m.inp.size ∧ OkRange digitCode m.inp a b)
    (chk := fun b => onlyChars digitCode b && nonEmptyBody b) (i := i)
    (fun body pos caps p c hc hp hmm => by
      simp only [Bool.and_eq_true] at hc
      exact ⟨nonEmptyBody_sound body pos caps p c hc.2 hmm, (hmm.bounds hp).2, hmm.allOk hc.1⟩)
    hst hr (capSat_init _ _ _)
  obtain ⟨a, b, hab, rfl⟩ := group_span hi hg
  obtain ⟨h1, h2, h3⟩ := hsat a b hab
  exact pyInt_of_digits _ (slice_length_pos h1 h2) h3.slice

section
variable (rec : Rec) (env : Env) (hs : ∀ x, Ok (rec.spans x))
include hs

theorem paramRepl_ok (pl : List Str) (mr : Match) (hm : mr.Of Gen.P.macros_render_2) : Ok (paramRepl rec pl mr) := by
  have h1 := pc_str hm (by decide +kernel : Gen.P.macros_render_2.Sets 1 = true)
  have h2 := pc_str hm (by decide +kernel : Gen.P.macros_render_2.Sets 2 = true)
  have h3 := pc_orEmpty mr 3 (by rw [hm.1]; decide)
  have h4 := pc_orEmpty mr 4 (by rw [hm.1]; decide)
  intro s hI
  unfold paramRepl
  hoare
  -- `int(mr[2])`: the parameter number is a string of digits
  exfalso
  have := group_digits hm (i := 2) (by decide) (by decide +kernel) (by assumption)
  simp_all

theorem macroRepl_ok (text : Str) (silent simple : Bool) (mt : Match)
    (hm : mt.Of (if simple then Gen.P.macros_render_1 else Gen.P.macros_render_0)) :
    Ok (macroRepl rec env text silent simple mt) := by
  have h1 : ∀ site s, ∃ a, (mt.str 1 site).run s = .ok (a, s) ∧ mt.res.group mt.inp 1 = some a := by
    cases simple
    · exact pc_str hm (by decide +kernel)
    · exact pc_str hm (by decide +kernel)
  have h2 : ∀ site s, ∃ a, (mt.str 2 site).run s = .ok (a, s) ∧ mt.res.group mt.inp 2 = some a := by
    cases simple
    · exact pc_str hm (by decide +kernel)
    · exact pc_str hm (by decide +kernel)
  have hp := fun pl v => Pat.subM_ok Gen.P.macros_render_2 v (fun m hmo => paramRepl_ok rec hs pl m hmo)
  intro s hI
  unfold macroRepl
  hoare
  -- `params[0]`: the parameters of a parametrised invocation are not empty
  exfalso
  have hsim : simple = false := by simp_all
  subst hsim
  have hne := macro_params_nonempty hm (by assumption)
  exact replaceAll_ne_nil (new := "}".toList) hne (by decide) (by assumption)

theorem macrosRender_ok (text : Str) (silent : Bool) : Ok (macrosRender rec env text silent) := by
  have h1 := fun t => Pat.subM_ok Gen.P.macros_render_1 t (fun m hm => macroRepl_ok rec env hs text silent true m hm)
  have h0 := fun t => Pat.subM_ok Gen.P.macros_render_0 t (fun m hm => macroRepl_ok rec env hs text silent false m hm)
  intro s hI
  unfold macrosRender
  hoare

theorem replaceInline_ok (text : Str) (e : Expand) : Ok (replaceInline rec env text e) := by
  have hm := macrosRender_ok rec env hs
  intro s hI
  unfold replaceInline
  hoare

theorem replaceGroupText_ok (g : Str) (sp : Bool) (e : Expand) (ia : Bool) : Ok (replaceGroupText rec env g sp e ia) := by
  have hr := replaceInline_ok rec env hs
  intro s hI
  unfold replaceGroupText
  hoare

theorem replaceMatchGroup_ok (mt : Match) (e : Expand) (m : Match) (hm : m.Of Gen.P.utils_replaceMatch_0) :
    Ok (replaceMatchGroup rec env mt e m) := by
  have hr := replaceGroupText_ok rec env hs
  have h1 := pc_str hm (by decide +kernel : Gen.P.utils_replaceMatch_0.Sets 1 = true)
  have h2 := pc_str hm (by decide +kernel : Gen.P.utils_replaceMatch_0.Sets 2 = true)
  have h3 := fun i (h : ¬ i > mt.ngroups) => pc_orEmpty mt i (by omega)
  intro s hI
  unfold replaceMatchGroup
  hoare
  -- `int(m[2])`: the group number is a digit
  exfalso
  have := group_digits hm (i := 2) (by decide) (by decide +kernel) (by assumption)
  simp_all

theorem replaceMatch_ok (mt : Match) (r : Str) (e : Expand) : Ok (replaceMatch rec env mt r e) := by
  unfold replaceMatch
  exact Pat.subM_ok _ _ (fun m hm => replaceMatchGroup_ok rec env hs mt e m hm)

/-! ## replacements and quotes -/

omit hs in
/-- reading a group as a string where nothing is known about the pattern: the two residual outcomes -/
theorem str_residual (m : Match) (i : Nat) (site : String)
    (hsite : residual (.noneType site) = true ∧ residual (.indexError site) = true) :
    ∀ s, wpE (m.str i site) (fun _ s' => s' = s) Allowed s := by
  intro s
  unfold Match.str
  hoare_go
  all_goals first | rfl | (simp [Allowed, modelOnly, hsite.1, hsite.2]; done) | skip

theorem replacementText_ok (rdef : ReplDef) (mt : Match) : Ok (replacementText rec env rdef mt) := by
  have hr := replaceMatch_ok rec env hs
  have h1 := str_residual mt 1 "htmlSafeModeFilter(match[1])" (by decide)
  have h2 := str_residual mt 1 "entity match[1]" (by decide)
  intro s hI
  unfold replacementText
  hoare

theorem fragReplacementLoop_ok (rdef : ReplDef) : ∀ fuel text, Ok (fragReplacementLoop rec env rdef fuel text) := by
  have hr := replacementText_ok rec env hs rdef
  intro fuel
  induction fuel with
  | zero => intro text s hI; unfold fragReplacementLoop; hoare
  | succ n ih => intro text s hI; unfold fragReplacementLoop; hoare

theorem fragReplacement_ok (rdef : ReplDef) (f : Fragment) : Ok (fragReplacement rec env rdef f) := by
  have h := fragReplacementLoop_ok rec env hs rdef
  intro s hI
  unfold fragReplacement
  hoare

theorem fragReplacementAll_ok (rdef : ReplDef) : ∀ fs, Ok (fragReplacementAll rec env rdef fs) := by
  have h := fragReplacement_ok rec env hs rdef
  intro fs
  induction fs with
  | nil => intro s hI; unfold fragReplacementAll; hoare
  | cons f rest ih => intro s hI; unfold fragReplacementAll; hoare

theorem fragReplacements_ok : ∀ defs fs, Ok (fragReplacements rec env defs fs) := by
  have h := fragReplacementAll_ok rec env hs
  intro defs
  induction defs with
  | nil => intro fs s hI; unfold fragReplacements; hoare
  | cons d rest ih => intro fs s hI; unfold fragReplacements; hoare

theorem preReplacements_ok (text : Str) : Ok (preReplacements rec env text) := by
  have h := fragReplacements_ok rec env hs
  intro s hI
  unfold preReplacements
  hoare

omit hs in
theorem findQuote_ok (qre : Pat) (hq : qre.Sets 1 = true) (text : Str) :
    ∀ fuel idx, OkR (findQuote qre text fuel idx) (fun r => ∀ mt, r = some mt → mt.Of qre) := by
  have hof : ∀ idx mt, ¬ idx > text.length → qre.search text idx = some mt → mt.Of qre :=
    fun _ _ h1 h2 => Pat.search_of (by omega) h2
  have h1 : ∀ mt : Match, mt.Of qre → ∀ site s, ∃ a, (mt.str 1 site).run s = .ok (a, s) ∧ mt.res.group mt.inp 1 = some a :=
    fun mt h => pc_str h hq
  intro fuel
  induction fuel with
  | zero => intro idx s hI; unfold findQuote; hoare
  | succ n ih =>
    intro idx s hI; unfold findQuote; hoare
    exact ⟨hI, fun mt h => by cases h; exact hof _ _ (by assumption) (by assumption)⟩

omit hs in
theorem fragQuoteLoop_ok (defs : List QuoteDef) (hdefs : defs ≠ [] ∧ ∀ d ∈ defs, d.quote ≠ []) :
    ∀ fuel depth text, Ok (fragQuoteLoop defs fuel depth text) := by
  have hfq := findQuote_ok (quotesRe defs) (Facts.quotesRe_set defs).1
  have h1 : ∀ mt : Match, mt.Of (quotesRe defs) → ∀ site s, ∃ a, (mt.str 1 site).run s = .ok (a, s) ∧ mt.res.group mt.inp 1 = some a :=
    fun mt h => pc_str h (Facts.quotesRe_set defs).1
  have h2 : ∀ mt : Match, mt.Of (quotesRe defs) → ∀ site s, ∃ a, (mt.str 2 site).run s = .ok (a, s) ∧ mt.res.group mt.inp 2 = some a :=
    fun mt h => pc_str h (Facts.quotesRe_set defs).2
  intro fuel
  induction fuel with
  | zero => intro depth text s hI; unfold fragQuoteLoop; hoare
  | succ n ih =>
    intro depth text s hI; unfold fragQuoteLoop
    hoare_go
    all_goals (try (first | inv_leaf | assumption))
    -- `qdef is not None`, `quote[0]`: the captured delimiter is a (non-empty) quote of the table
    all_goals (
      exfalso
      have hof : ∃ mt : Match, mt.Of (quotesRe defs) ∧ ∃ q, mt.res.group mt.inp 1 = some q ∧
          (quotesGetDefinition defs q = none ∨ q = []) := by
        refine ⟨_, by solve_by_elim, _, by assumption, ?_⟩
        first | exact .inl (by assumption) | exact .inr rfl
      obtain ⟨mt, hof, q, hg, hcase⟩ := hof
      obtain ⟨d, hd, hmem, hq⟩ := quote_definition_found defs (by assumption) hof hg
      rcases hcase with hnone | hnil
      · rw [hd] at hnone; cases hnone
      · subst hnil; exact absurd hq (by solve_by_elim))

omit hs in
theorem fragQuote_ok (defs : List QuoteDef) (hdefs : defs ≠ [] ∧ ∀ d ∈ defs, d.quote ≠ []) (f : Fragment) :
    Ok (fragQuote defs f) := by
  have h := fragQuoteLoop_ok defs hdefs
  intro s hI
  unfold fragQuote
  hoare

omit hs in
theorem postReplacements_ok : ∀ text, Ok (postReplacements text) := by
  intro text
  induction text with
  | nil => intro s hI; unfold postReplacements; hoare
  | cons c rest ih => intro s hI; unfold postReplacements; hoare

theorem spansRender_ok (source : Str) : Ok (spansRender rec env source) := by
  have h1 := preReplacements_ok rec env hs
  have h2 := fragQuote_ok
  have hq : ∀ s : Session, Inv s → s.quoteDefs ≠ [] ∧ ∀ d ∈ s.quoteDefs, d.quote ≠ [] := fun s h => h.1
  have h3 := postReplacements_ok
  intro s hI
  unfold spansRender
  hoare

end

/-! ## definitions -/

theorem quotesSetDefinition_updFirst_mem (qdef : QuoteDef) : ∀ defs : List QuoteDef, ∀ d ∈ quotesSetDefinition.updFirst qdef defs,
    d = qdef ∨ d ∈ defs := by
  intro defs
  induction defs with
  | nil => intro d h; simp [quotesSetDefinition.updFirst] at h
  | cons x rest ih =>
    intro d h
    unfold quotesSetDefinition.updFirst at h
    split at h
    · rcases List.mem_cons.mp h with h | h
      · exact .inl h
      · exact .inr (List.mem_cons_of_mem _ h)
    · rcases List.mem_cons.mp h with h | h
      · exact .inr (h ▸ List.mem_cons_self)
      · rcases ih d h with h | h
        · exact .inl h
        · exact .inr (List.mem_cons_of_mem _ h)

theorem quotesSetDefinition_updFirst_ne_nil (qdef : QuoteDef) : ∀ defs : List QuoteDef, defs ≠ [] →
    quotesSetDefinition.updFirst qdef defs ≠ [] := by
  intro defs h
  cases defs with
  | nil => exact absurd rfl h
  | cons x rest => unfold quotesSetDefinition.updFirst; split <;> simp

/-- a quote definition with a non-empty quote keeps the invariant -/
theorem quotesSetDefinition_ok (qdef : QuoteDef) (hq : qdef.quote ≠ []) : Ok (quotesSetDefinition qdef) := by
  intro s hI
  unfold quotesSetDefinition
  hoare_go
  obtain ⟨⟨hne, hall⟩, hb⟩ := hI
  split
  · refine ⟨⟨quotesSetDefinition_updFirst_ne_nil qdef _ hne, ?_⟩, hb⟩
    intro d hd
    rcases quotesSetDefinition_updFirst_mem qdef _ d hd with h | h
    · rw [h]; exact hq
    · exact hall d h
  · split
    · refine ⟨⟨by simp, ?_⟩, hb⟩
      intro d hd
      rcases List.mem_cons.mp hd with h | h
      · rw [h]; exact hq
      · exact hall d h
    · refine ⟨⟨by simp, ?_⟩, hb⟩
      intro d hd
      rcases List.mem_append.mp hd with h | h
      · exact hall d h
      · simp at h; rw [h]; exact hq

@[hspec] theorem replSetDefinition_ok (env : Env) (pattern flags replacement : Str) :
    Ok (replSetDefinition env pattern flags replacement) := by
  intro s hI
  unfold replSetDefinition
  hoare

end Rimu
