import RimuProofs.Lemmas.NIPBlock

/-!
# Non-interference of the scratch registers: the exported `render`
-/

namespace Rimu

variable {b : Reg}

theorem updateFrom_nip (o : RenderOptions) : NIP b (updateFrom o) := by
  have h := setOption_nip (b := b)
  cases b <;> (unfold updateFrom; nip_go)

theorem apiRender_nip (env : Env) (fuel : Nat) (src : Str) (o : RenderOptions) : NIP b (apiRender env fuel src o) := by
  have h1 := documentInit_nip (b := b)
  have h2 := updateFrom_nip (b := b) o
  have h3 := (mkRec_nip env fuel b).2 0
  cases b <;> (unfold apiRender; nip_go)

end Rimu
