import RimuProofs.Lemmas.NI
import RimuProofs.Lemmas.Eqns
import RimuModel.Block

/-!
# Non-interference of the callback: the inline layer
-/

namespace Rimu
open Py Rx

attribute [ni] NI.errorCallback

@[ni] theorem Match.opt_ni (m : Match) (i : Nat) : NI (m.opt i) := by unfold Match.opt; ni_go
@[ni] theorem Match.str_ni (m : Match) (i : Nat) (site : String) : NI (m.str i site) := by unfold Match.str; ni_go
@[ni] theorem Match.orEmpty_ni (m : Match) (i : Nat) : NI (m.orEmpty i) := by unfold Match.orEmpty; ni_go
@[ni] theorem isSafeModeNz_ni : NI isSafeModeNz := by unfold isSafeModeNz; ni_go
@[ni] theorem skipMacroDefs_ni : NI skipMacroDefs := by unfold skipMacroDefs; ni_go
@[ni] theorem skipBlockAttributes_ni : NI skipBlockAttributes := by unfold skipBlockAttributes; ni_go
@[ni] theorem htmlSafeModeFilter_ni (h : Str) : NI (htmlSafeModeFilter h) := by unfold htmlSafeModeFilter; ni_go
@[ni] theorem macrosGetValue_ni (n : Str) : NI (macrosGetValue n) := by unfold macrosGetValue; ni_go
@[ni] theorem macrosSetValue_ni (n v : Str) : NI (macrosSetValue n v) := by
  unfold macrosSetValue
  ni_go
  all_goals
    refine NI.get_bind_rel (fun s => ?_)
    show Agree _ _
    simp only [mute]
    split
    · next h1 =>
      simp only [h1, ↓reduceIte]
      split
      · exact ⟨rfl, rfl⟩
      · exact ⟨rfl, rfl⟩
    · next h1 => simp only [h1, ↓reduceIte]; exact ⟨rfl, rfl⟩

theorem Pat.subGo_ni {f : Match → M Str} (hf : ∀ m, NI (f m)) : ∀ ps, NI (Pat.subGo f ps) := by
  intro ps
  induction ps with
  | nil => unfold Pat.subGo; ni_go
  | cons p ps ih => obtain ⟨b, mt⟩ := p; unfold Pat.subGo; ni_go

theorem Pat.subM_ni (p : Pat) (s : Str) {f : Match → M Str} (hf : ∀ m, NI (f m)) : NI (p.subM s f) := by
  have h := Pat.subGo_ni hf
  unfold Pat.subM; ni_go

@[ni] theorem quotesSetDefinition_ni (q : QuoteDef) : NI (quotesSetDefinition q) := by
  unfold quotesSetDefinition
  apply NI.modify
  intro s
  by_cases h1 : (s.quoteDefs.any fun x => x.quote == q.quote) = true
  · simp only [mute, h1, Bool.false_eq_true, ↓reduceIte]
  · by_cases h2 : (q.quote.length == 2) = true
    · simp only [mute, h1, h2, Bool.false_eq_true, ↓reduceIte]
    · simp only [mute, h1, h2, Bool.false_eq_true, ↓reduceIte]

@[ni] theorem replSetDefinition_ni (env : Env) (p f r : Str) : NI (replSetDefinition env p f r) := by
  unfold replSetDefinition
  ni_go
  apply NI.modify
  intro s
  by_cases h1 : (s.replDefs.any fun x => x.pat.src == p) = true
  · simp only [mute, h1, Bool.false_eq_true, ↓reduceIte]
  · simp only [mute, h1, Bool.false_eq_true, ↓reduceIte]

section
variable (rec : Rec) (env : Env) (hs : ∀ x, NI (rec.spans x))
include hs

theorem paramRepl_ni (pl : List Str) (mr : Match) : NI (paramRepl rec pl mr) := by
  unfold paramRepl; ni_go

theorem macroRepl_ni (text : Str) (silent simple : Bool) (mt : Match) :
    NI (macroRepl rec env text silent simple mt) := by
  have hp := fun pl v => Pat.subM_ni Gen.P.macros_render_2 v (paramRepl_ni rec hs pl)
  unfold macroRepl; ni_go

theorem macrosRender_ni (text : Str) (silent : Bool) : NI (macrosRender rec env text silent) := by
  have h1 := fun t => Pat.subM_ni Gen.P.macros_render_1 t (macroRepl_ni rec env hs text silent true)
  have h0 := fun t => Pat.subM_ni Gen.P.macros_render_0 t (macroRepl_ni rec env hs text silent false)
  unfold macrosRender; ni_go

theorem replaceInline_ni (text : Str) (e : Expand) : NI (replaceInline rec env text e) := by
  have hm := macrosRender_ni rec env hs
  unfold replaceInline; ni_go

theorem replaceGroupText_ni (g : Str) (sp : Bool) (e : Expand) (ia : Bool) : NI (replaceGroupText rec env g sp e ia) := by
  have hr := replaceInline_ni rec env hs
  unfold replaceGroupText; ni_go

theorem replaceMatchGroup_ni (mt : Match) (e : Expand) (m : Match) : NI (replaceMatchGroup rec env mt e m) := by
  have hr := replaceGroupText_ni rec env hs
  unfold replaceMatchGroup; ni_go

theorem replaceMatch_ni (mt : Match) (r : Str) (e : Expand) : NI (replaceMatch rec env mt r e) := by
  unfold replaceMatch
  exact Pat.subM_ni _ _ (replaceMatchGroup_ni rec env hs mt e)

theorem replacementText_ni (rdef : ReplDef) (mt : Match) : NI (replacementText rec env rdef mt) := by
  have hr := replaceMatch_ni rec env hs
  unfold replacementText; ni_go

theorem fragReplacementLoop_ni (rdef : ReplDef) : ∀ fuel text, NI (fragReplacementLoop rec env rdef fuel text) := by
  have hr := replacementText_ni rec env hs
  intro fuel
  induction fuel with
  | zero => intro text; unfold fragReplacementLoop; ni_go
  | succ n ih => intro text; unfold fragReplacementLoop; ni_go

theorem fragReplacement_ni (rdef : ReplDef) (f : Fragment) : NI (fragReplacement rec env rdef f) := by
  have hl := fragReplacementLoop_ni rec env hs rdef
  unfold fragReplacement; ni_go

theorem fragReplacementAll_ni (rdef : ReplDef) : ∀ fs, NI (fragReplacementAll rec env rdef fs) := by
  have hr := fragReplacement_ni rec env hs rdef
  intro fs
  induction fs with
  | nil => unfold fragReplacementAll; ni_go
  | cons f fs ih => unfold fragReplacementAll; ni_go

theorem fragReplacements_ni : ∀ defs fs, NI (fragReplacements rec env defs fs) := by
  have hr := fragReplacementAll_ni rec env hs
  intro defs
  induction defs with
  | nil => intro fs; unfold fragReplacements; ni_go
  | cons d ds ih => intro fs; unfold fragReplacements; ni_go

theorem preReplacements_ni (text : Str) : NI (preReplacements rec env text) := by
  have hr := fragReplacements_ni rec env hs
  unfold preReplacements; ni_go

end

theorem postReplacements_ni : ∀ text, NI (postReplacements text) := by
  intro text
  induction text with
  | nil => unfold postReplacements; ni_go
  | cons c rest ih =>
    unfold postReplacements
    split
    · refine NI.get_bind_rel (fun s => ?_)
      cases hsv : s.saved with
      | nil =>
        simp only [mute, hsv]
        rfl
      | cons f more =>
        have hk : NI (do let t ← postReplacements rest
                         pure ((if c.toNat == 0 then f.text else replaceSpecialChars f.verbatim) ++ t)) := by ni_go
        simp only [mute, hsv]
        exact hk { s with saved := more }
    · ni_go

theorem findQuote_ni (qre : Pat) (text : Str) : ∀ fuel i, NI (findQuote qre text fuel i) := by
  intro fuel
  induction fuel with
  | zero => intro i; unfold findQuote; ni_go
  | succ n ih => intro i; unfold findQuote; ni_go

theorem fragQuoteLoop_ni (defs : List QuoteDef) : ∀ fuel depth text, NI (fragQuoteLoop defs fuel depth text) := by
  intro fuel
  induction fuel with
  | zero => intro depth text; unfold fragQuoteLoop; ni_go
  | succ n ih =>
    intro depth text
    have hf := findQuote_ni (quotesRe defs) text
    unfold fragQuoteLoop; ni_go

theorem fragQuote_ni (defs : List QuoteDef) (f : Fragment) : NI (fragQuote defs f) := by
  have hl := fragQuoteLoop_ni defs
  unfold fragQuote; ni_go

theorem spansRender_ni (rec : Rec) (env : Env) (hs : ∀ x, NI (rec.spans x)) (src : Str) : NI (spansRender rec env src) := by
  have hp := preReplacements_ni rec env hs
  have hq := fragQuote_ni
  have ho := postReplacements_ni
  unfold spansRender; ni_go

end Rimu
