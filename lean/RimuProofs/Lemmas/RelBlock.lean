import RimuProofs.Lemmas.Rel

/-!
# What has been written does not matter to what follows, and is never rewritten
-/

namespace Rimu
open Py

section
variable (rec : Rec) (env : Env) (w0 : Writer)

theorem lineblocksGo_rel (allowed : List Str) (ds : List LineDef) (r : Reader) (w1 w2 : Writer) (hw : WR w0 w1 w2) :
    Rel (R3 w0) (lineblocksGo rec env allowed ds r w1) (lineblocksGo rec env allowed ds r w2) := by
  induction ds generalizing r with
  | nil => unfold lineblocksGo; rel_go
  | cons d ds ih => unfold lineblocksGo; rel_go

theorem lineblocksRender_rel (r : Reader) (allowed : List Str) (w1 w2 : Writer) (hw : WR w0 w1 w2) :
    Rel (R3 w0) (lineblocksRender rec env r w1 allowed) (lineblocksRender rec env r w2 allowed) := by
  have h := fun ds r => lineblocksGo_rel rec env w0 allowed ds r w1 w2 hw
  unfold lineblocksRender; rel_go

set_option maxHeartbeats 2000000 in
theorem renderBlockBody_rel (d : BlockDef) (mt : Match) (r : Reader) (w1 w2 : Writer) (hw : WR w0 w1 w2) :
    Rel (R2 w0) (renderBlockBody rec env d mt r w1) (renderBlockBody rec env d mt r w2) := by
  unfold renderBlockBody; rel_go

theorem renderBlock_rel (d : BlockDef) (mt : Match) (r : Reader) (w1 w2 : Writer) (hw : WR w0 w1 w2) :
    Rel (R2 w0) (renderBlock rec env d mt r w1) (renderBlock rec env d mt r w2) := by
  have h := fun d mt r => renderBlockBody_rel rec env w0 d mt r w1 w2 hw
  unfold renderBlock; rel_go

theorem delimitedGo_rel (allowed : List Str) (ds : List BlockDef) (r : Reader) (w1 w2 : Writer) (hw : WR w0 w1 w2) :
    Rel (R3 w0) (delimitedGo rec env allowed ds r w1) (delimitedGo rec env allowed ds r w2) := by
  have h := fun d mt r => renderBlock_rel rec env w0 d mt r w1 w2 hw
  induction ds generalizing r with
  | nil => unfold delimitedGo; rel_go
  | cons d ds ih => unfold delimitedGo; rel_go

theorem delimitedRender_rel (r : Reader) (allowed : List Str) (w1 w2 : Writer) (hw : WR w0 w1 w2) :
    Rel (R3 w0) (delimitedRender rec env r w1 allowed) (delimitedRender rec env r w2 allowed) := by
  have h := fun ds r => delimitedGo_rel rec env w0 allowed ds r w1 w2 hw
  unfold delimitedRender; rel_go

/-- The three list functions that carry the outer writer (the item loop works on writers of its own). -/
theorem lists_rel (n : Nat) :
    (∀ i r w1 w2, WR w0 w1 w2 → Rel (R3 w0) (renderList rec env n i r w1) (renderList rec env n i r w2)) ∧
    (∀ i r w1 w2, WR w0 w1 w2 → Rel (R3 w0) (renderListLoop rec env n i r w1) (renderListLoop rec env n i r w2)) ∧
    (∀ i r w1 w2, WR w0 w1 w2 → Rel (R3 w0) (renderListItem rec env n i r w1) (renderListItem rec env n i r w2)) := by
  induction n with
  | zero =>
    refine ⟨?_, ?_, ?_⟩ <;> intros
    · rw [renderList, renderList]; exact Rel.raise _
    · rw [renderListLoop, renderListLoop]; exact Rel.raise _
    · rw [renderListItem, renderListItem]; exact Rel.raise _
  | succ n ih =>
    obtain ⟨i1, i2, i3⟩ := ih
    refine ⟨?_, ?_, ?_⟩ <;> intro i r w1 w2 hw
    · rw [renderList, renderList]; rel_go
    · rw [renderListLoop, renderListLoop]; rel_go
    · rw [renderListItem, renderListItem]; rel_go

theorem listsRender_rel (n : Nat) (r : Reader) (w1 w2 : Writer) (hw : WR w0 w1 w2) :
    Rel (R3 w0) (listsRender rec env n r w1) (listsRender rec env n r w2) := by
  have h := (lists_rel rec env w0 n).1
  unfold listsRender; rel_go

theorem documentLoop_rel (n : Nat) (r : Reader) (w1 w2 : Writer) (hw : WR w0 w1 w2) :
    Rel (WR w0) (documentLoop rec env n r w1) (documentLoop rec env n r w2) := by
  have h1 := fun r allowed w1 w2 => lineblocksRender_rel rec env w0 r allowed w1 w2
  have h2 := fun r w1 w2 => listsRender_rel rec env w0 n r w1 w2
  have h3 := fun r allowed w1 w2 => delimitedRender_rel rec env w0 r allowed w1 w2
  induction n generalizing r w1 w2 with
  | zero => rw [documentLoop, documentLoop]; exact Rel.raise _
  | succ n ih =>
    have h2 := fun r w1 w2 => listsRender_rel rec env w0 n r w1 w2
    rw [documentLoop, documentLoop]; rel_go

end
end Rimu
