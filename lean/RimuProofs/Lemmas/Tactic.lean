import RimuProofs.Lemmas.Step
import RimuProofs.Lemmas.Attr
import Lean

/-!
# `wp_step` / `wp_go`: push `wp` through the model's do-blocks by the syntactic shape of the program
-/

namespace Rimu

theorem Pres.start {P} [IsPre P] {α} {act : M α}
    (h : ∀ s0 s, P s0 s → wp act (fun _ t => P s0 t) s) : Pres P act :=
  fun s => h s s (IsPre.refl s)

theorem wp_of_eq {α} {act act' : M α} {Q : α → Session → Prop} {s} (e : act = act') (h : wp act' Q s) : wp act Q s := e ▸ h

/-- `P s s'` for one primitive write `s ↦ s'` (`P` is `Frame` or `Step`), using the guards in context. -/
macro "one_step_leaf" : tactic => `(tactic|
  (first
    | exact ⟨_, _, rfl⟩
    | (split <;> exact ⟨_, _, rfl⟩)
    | exact Step.refl _
    | exact Step.of_fields rfl rfl rfl rfl rfl rfl
    | (split <;> exact Step.of_fields rfl rfl rfl rfl rfl rfl)
    | exact Step.of_mode0 (by simp_all) (by first | (simp_all; done) | (simp_all; omega))
    | (split <;> exact Step.of_mode0 (by simp_all) (by first | (simp_all; done) | (simp_all; omega)))
    | (split <;> (try split) <;> exact Step.of_mode0 (by simp_all) (by first | (simp_all; done) | (simp_all; omega)))
    | (refine ⟨?_, ?_, ?_⟩ <;> simp_all <;> omega)
    | (intro h; exact h)
    | (intro h; simpa using h)
    | rfl
    | (split <;> rfl)
    | (split <;> (try split) <;> rfl)))

open Lean Elab Tactic Meta

/-- head normalisation of a program: strip metadata, beta, and unfold a leading `let` / `have`
    (only at the head, so that join points further inside are not duplicated before they are reached) -/
partial def normProg (e : Expr) : Expr :=
  let e := e.consumeMData
  let e := e.headBeta
  match e with
  | .letE _ _ v b _ => normProg (b.instantiate1 v)
  | .mdata _ e' => normProg e'
  | _ =>
    -- `letFun v (fun x => b)` (older encoding of `have`)
    if e.isAppOfArity ``letFun 4 then
      let v := e.getArg! 2
      let f := e.getArg! 3
      normProg (f.beta #[v])
    else e

/-- One step: looks at the head of the program in a goal `wp prog Q s`. -/
elab "wp_step" : tactic => withMainContext do
  let g ← getMainGoal
  let t0 ← instantiateMVars (← g.getType)
  let t := t0.consumeMData.headBeta
  match t.getAppFnArgs with
  | (``Rimu.wp, #[α, act0, Q, s]) =>
    let act := normProg act0
    if act != act0 || t != t0 then
      let t' := mkAppN (t.getAppFn) #[α, act, Q, s]
      let g' ← g.replaceTargetDefEq t'
      replaceMainGoal [g']
    let fn := act.getAppFn
    if act.isAppOf ``Bind.bind then
      evalTactic (← `(tactic| apply wp_bind))
    else if act.isAppOf ``Pure.pure then
      evalTactic (← `(tactic| apply wp_pure))
    else if act.isAppOf ``Rimu.raise then
      evalTactic (← `(tactic| apply wp_raise))
    else if act.isAppOf ``MonadState.get || act.isAppOf ``getThe || act.isAppOf ``MonadStateOf.get then
      evalTactic (← `(tactic| apply wp_get))
    else if act.isAppOf ``modify then
      evalTactic (← `(tactic| first
        | (refine wp_modify_keep (by assumption) ?hstep ?hk
           case hstep => one_step_leaf
           case' hk => intro _)
        | apply wp_modify))
    else if act.isAppOf ``MonadStateOf.set || act.isAppOf ``MonadState.set || act.isAppOf ``set then
      evalTactic (← `(tactic| first
        | (refine wp_set_keep (by assumption) ?hstep ?hk
           case hstep => one_step_leaf
           case' hk => intro _)
        | apply wp_set))
    else if act.isAppOf ``ite || act.isAppOf ``dite then
      evalTactic (← `(tactic| split))
    else if (← isMatcherApp act) then
      evalTactic (← `(tactic| split))
    else if fn.isConst || fn.isFVar || fn.isProj then
      -- a call: step over it with its frame / preservation lemma
      evalTactic (← `(tactic| first
        | (refine wp_call_frame ?hp (by assumption) ?hq
           case hp => first | assumption | (simp only [frame]; done) | (simp only [*]; done)
           case' hq => (try simp -zeta only); intro _ _ _ _)
        | (refine wp_call ?hp (by assumption) ?hq
           case hp => first | assumption | (simp only [pres]; done) | (simp only [frame]; done) | (simp only [*]; done)
           case' hq => intro _ _ _)))
    else
      throwError "wp_step: unrecognised program {act}"
  | _ =>
    -- not a wp goal (e.g. under a binder after `split`)
    if t.isForall then evalTactic (← `(tactic| intro _))
    else evalTactic (← `(tactic| assumption))

/-- Leaf obligation `Step s0 s'` where `s'` is the current state `s` with some fields written:
    reduce to `Step s s'` and split into the three clauses. -/
macro "step_leaf" : tactic => `(tactic|
  (first
    | assumption
    | (refine Step.trans (by assumption) ?_
       refine ⟨?_, ?_, ?_⟩ <;> simp_all <;> omega)))

/-- Leaf obligation `Frame s0 s'` where `s'` is the current state with `log` / `saved` written. -/
macro "frame_leaf" : tactic => `(tactic|
  (first
    | assumption
    | (refine Frame.trans (by assumption) ?_; exact ⟨_, _, rfl⟩)
    | (refine Frame.trans (by assumption) ?_; split <;> exact ⟨_, _, rfl⟩)))

macro "wp_go" : tactic => `(tactic| repeat (any_goals wp_step))

/-- step over a call whose result and effect are irrelevant to the postcondition -/
macro "wp_skip_call" : tactic => `(tactic| (refine wp_forall ?_; intro _ _))

/-- `wp_go'` that first tries the given specification (typically an induction hypothesis `∀ x s, wp (f x) Q s`) on calls -/
macro "wp_go_with" h:term : tactic =>
  `(tactic| repeat (any_goals (first | wp_step | (refine wp_mono ($h _ _) ?_; intro _ _ _) | wp_skip_call)))

/-- `wp_go` for arbitrary postconditions: calls that cannot be stepped over with a lemma are skipped -/
macro "wp_go'" : tactic => `(tactic| repeat (any_goals (first | wp_step | wp_skip_call)))

end Rimu
