import RimuModel.Cli

/-!
# Equation lemmas of the model's recursive functions, realised once

`unfold f` creates `f.eq_def` / `f.eq_n` in the module where it is first used; two proof modules that do so
independently cannot be imported together.  Every proof module imports this one.
-/

open Rimu Py Rx

example := @Py.startsWith.eq_def
example := @Py.contains.eq_def
example := @Py.replaceAll.go.eq_def
example := @Py.replaceFirst.go.eq_def
example := @Py.splitChar.go.eq_def
example := @Py.join.eq_def
example := @Py.lowerGo.eq_def
example := @Py.parseDigits.eq_def
example := @Rx.inRanges.eq_def
example := @Rx.repM.eq_def
example := @Rx.m.eq_def
example := @Rx.searchFrom.eq_def
example := @Rimu.Pat.subGo.eq_def
example := @Rimu.Pat.findAll.go.eq_def
example := @Rimu.Pat.pieces.go.eq_def
example := @Rimu.litRe.eq_def
example := @Rimu.altsRe.eq_def
example := @Rimu.macrosSetValue.updFirst.eq_def
example := @Rimu.quotesSetDefinition.updFirst.eq_def
example := @Rimu.replSetDefinition.updFirst.eq_def
example := @Rimu.fragReplacementLoop.eq_def
example := @Rimu.fragReplacementAll.eq_def
example := @Rimu.fragReplacements.eq_def
example := @Rimu.postReplacements.eq_def
example := @Rimu.findQuote.eq_def
example := @Rimu.extendQuote.eq_def
example := @Rimu.fragQuoteLoop.eq_def
example := @Rimu.Reader.readTo.go.eq_def
example := @Rimu.Reader.skipBlankLines.go.eq_def
example := @Rimu.expandParse.go.eq_def
example := @Rimu.slugSuffix.eq_def
example := @Rimu.blockSetDefinition.upd.eq_def
example := @Rimu.lineblocksGo.eq_def
example := @Rimu.delimitedGo.eq_def
example := @Rimu.matchItem.go.eq_def
example := @Rimu.consumeBlockAttributes.eq_def
example := @Rimu.renderList.eq_def
example := @Rimu.renderListLoop.eq_def
example := @Rimu.renderListItem.eq_def
example := @Rimu.renderItemLoop.eq_def
example := @Rimu.documentLoop.eq_def
example := @Rimu.mkRec.eq_def
example := @Rimu.parseArgs.eq_def
example := @Rimu.renderInputs.eq_def
example := @Rimu.lookupStr.eq_def
