import RimuProofs.Lemmas.PatLemmas
import RimuProofs.Lemmas.Run
import RimuProofs.Regex.Participation

/-!
# `match[i]` is a string

`m.Of p`: the match object `m` is a match of pattern `p` (declaratively).  Everything that produces match objects in
the model (`search`, `match`, `finditer` / `sub`) produces matches `Of` its pattern.  If the static analysis says that
every match of the pattern sets group `i`, reading `match[i]` as a string returns - no `IndexError`, no `None` - for
every text and from every session state.
-/

namespace Rimu
open Rx

/-- the pattern has group `i` and every match of it sets the group -/
def Pat.Sets (p : Pat) (i : Nat) : Bool := setsGroup i p.re && decide (i ≤ p.ngroups)

/-- `m` is a match of `p` -/
def Match.Of (m : Match) (p : Pat) : Prop :=
  m.ngroups = p.ngroups ∧
    Matches m.inp p.re 0 m.res.start (List.replicate (p.ngroups + 1) none) m.res.stop m.res.caps ∧
    m.res.start ≤ m.inp.size

theorem Match.str_of_group {m : Match} {i : Nat} {g : Str} (site : String) (s : Session)
    (hi : i ≤ m.ngroups) (hg : m.res.group m.inp i = some g) : (m.str i site).run s = .ok (g, s) := by
  unfold Match.str
  have : ¬ (i > m.ngroups) := by omega
  simp only [this, if_false, hg]
  rfl

/-- **`match[i]` is a string** when the pattern sets group `i`. -/
theorem Match.Of.str {m : Match} {p : Pat} {i : Nat} (h : m.Of p) (hp : p.Sets i = true) (site : String) (s : Session) :
    ∃ g, (m.str i site).run s = .ok (g, s) := by
  unfold Pat.Sets at hp
  simp only [Bool.and_eq_true, decide_eq_true_eq] at hp
  obtain ⟨hn, hM, _⟩ := h
  obtain ⟨g, hg⟩ := group_of_isSet (inp := m.inp) (hM.setsGroup (by rw [setsGroupAt_zero]; exact hp.1) (by simp; omega))
  exact ⟨g, Match.str_of_group site s (by omega) hg⟩

theorem Pat.search_of {p : Pat} {text : Str} {start : Nat} {m : Match} (hs : start ≤ text.length)
    (h : p.search text start = some m) : m.Of p := by
  obtain ⟨hinp, hn, hr⟩ := Pat.search_some h
  obtain ⟨_, h2, h3, hM⟩ := search_sound (by simpa using hs) hr
  refine ⟨hn, by simpa [*] using hM, ?_⟩
  rw [hinp]
  omega

theorem Pat.matchStart_of {p : Pat} {text : Str} {m : Match} (h : p.matchStart text = some m) : m.Of p := by
  obtain ⟨hinp, hn, hr⟩ := Pat.matchStart_some h
  obtain ⟨hst, hM⟩ := matchAt_sound hr
  refine ⟨hn, ?_, ?_⟩
  · rw [hinp, hst]
    exact hM
  · rw [hst]; exact Nat.zero_le _

theorem Pat.findAll_go_of (p : Pat) (inp : Array Char) :
    ∀ fuel pos, ∀ m ∈ Pat.findAll.go p inp fuel pos, m.Of p := by
  intro fuel
  induction fuel with
  | zero => intro pos m hm; simp [Pat.findAll.go] at hm
  | succ n ih =>
    intro pos m hm
    unfold Pat.findAll.go at hm
    split at hm
    · simp at hm
    · next hle =>
      split at hm
      · simp at hm
      · next r hr =>
        have hof : ({ inp := inp, res := r, ngroups := p.ngroups } : Match).Of p := by
          obtain ⟨_, h2, h3, hM⟩ := search_sound (by omega) hr
          exact ⟨rfl, hM, by show r.start ≤ inp.size; omega⟩
        simp only at hm
        split at hm
        · rcases List.mem_cons.mp hm with h | h
          · subst h; exact hof
          · exact ih _ m h
        · rcases List.mem_cons.mp hm with h | h
          · subst h; exact hof
          · exact ih _ m h

/-- every match that `finditer` / `sub` hands to its callback is a match of the pattern -/
theorem Pat.findAll_of {p : Pat} {s : Str} {m : Match} (h : m ∈ p.findAll s) : m.Of p :=
  Pat.findAll_go_of p _ _ _ m h

theorem Pat.pieces_go_mem (inp : Array Char) : ∀ (ms : List Match) (pos : Nat) (bm : Str × Match),
    bm ∈ (Pat.pieces.go inp pos ms).1 → bm.2 ∈ ms := by
  intro ms
  induction ms with
  | nil => intro pos bm h; simp [Pat.pieces.go] at h
  | cons mt rest ih =>
    intro pos bm h
    unfold Pat.pieces.go at h
    simp only at h
    rcases List.mem_cons.mp h with h | h
    · subst h; exact List.mem_cons_self
    · exact List.mem_cons_of_mem _ (ih _ _ h)

theorem Pat.pieces_of {p : Pat} {s : Str} {bm : Str × Match} (h : bm ∈ (p.pieces s).1) : bm.2.Of p :=
  Pat.findAll_of (Pat.pieces_go_mem _ _ _ _ h)

end Rimu
