import RimuProofs.Lemmas.NIPInline

/-!
# Non-interference of the callback: the block layer, and the knot

Given that nested span and document renders are non-interfering, so is every function of `Block.lean`; `mkRec` ties
the knot by induction on the fuel.
-/

namespace Rimu
open Py

@[nip] theorem Reader.cursor_nip (r : Reader) : NIP b r.cursor := by cases b <;> (unfold Reader.cursor; nip_go)
@[nip] theorem Reader.setCursor_nip (r : Reader) (v : Str) : NIP b (r.setCursor v) := by cases b <;> (unfold Reader.setCursor; nip_go)
@[nip] theorem Reader.unescape_nip (r : Reader) : NIP b r.unescape := by cases b <;> (unfold Reader.unescape; nip_go)
@[nip] theorem Reader.insertExpansion_nip (r : Reader) (l : List Str) (d : Nat) : NIP b (r.insertExpansion l d) := by
  cases b <;> (unfold Reader.insertExpansion; nip_go)

theorem Reader.readTo_go_nip (r : Reader) (p : Pat) : ∀ ls pos acc, NIP b (Reader.readTo.go r p ls pos acc) := by
  intro ls
  induction ls with
  | nil => intro pos acc; cases b <;> (unfold Reader.readTo.go; nip_go)
  | cons l t ih => intro pos acc; cases b <;> (unfold Reader.readTo.go; nip_go)

@[nip] theorem Reader.readTo_nip (r : Reader) (p : Pat) : NIP b (r.readTo p) := by
  unfold Reader.readTo; exact Reader.readTo_go_nip r p _ _ _

@[nip] theorem panic_nip (msg : Str) : NIP b (panic msg) := by unfold panic; exact NIP.errorCallback _

@[nip] theorem expandParseOne_nip (e : Expand) (o : Str) : NIP b (expandParseOne e o) := by cases b <;> (unfold expandParseOne; nip_go)

theorem expandParse_go_nip : ∀ l e, NIP b (expandParse.go e l) := by
  intro l
  induction l with
  | nil => intro e; cases b <;> (unfold expandParse.go; nip_go)
  | cons o rest ih => intro e; cases b <;> (unfold expandParse.go; nip_go)

@[nip] theorem expandParse_nip (e : Expand) (o : Str) : NIP b (expandParse e o) := by
  have h := fun l e => expandParse_go_nip (b := b) l e
  cases b <;> (unfold expandParse; nip_go)

theorem slugSuffix_nip (ids : List Str) (slug : Str) : ∀ fuel i, NIP b (slugSuffix ids slug fuel i) := by
  intro fuel
  induction fuel with
  | zero => intro i; cases b <;> (unfold slugSuffix; nip_go)
  | succ n ih => intro i; cases b <;> (unfold slugSuffix; nip_go)

@[nip] theorem slugify_nip (t : Str) : NIP b (slugify t) := by
  have h := slugSuffix_nip (b := b)
  cases b <;> (unfold slugify; nip_go)

@[nip] theorem unterminatedCheck_nip (d : BlockDef) (mt : Match) (r : Reader) : NIP b (unterminatedCheck d mt r) := by
  cases b <;> (unfold unterminatedCheck; nip_go)

@[nip] theorem blockExpand_nip (d : BlockDef) : NIP b (blockExpand d) := by
  cases b <;> (unfold blockExpand; nip_go)

@[nip] theorem htmlVerify_nip (mt : Match) : NIP b (htmlVerify mt) := by cases b <;> (unfold htmlVerify; nip_go)

theorem mapM_nip {α β} {f : α → M β} (hf : ∀ a, NIP b (f a)) : ∀ l : List α, NIP b (l.mapM f) := by
  intro l
  induction l with
  | nil => rw [List.mapM_nil]; nip_go
  | cons a l ih => rw [List.mapM_cons]; nip_go

@[nip] theorem indentedContentFilter_nip (t : Str) : NIP b (indentedContentFilter t) := by
  unfold indentedContentFilter
  nip_go
  all_goals
    refine mapM_nip ?_ _
    intro line; nip_go

@[nip] theorem injectClasses_nip (c t : Str) : NIP b (injectClasses c t) := by cases b <;> (unfold injectClasses; nip_go)
@[nip] theorem injectCss_nip (c r a : Str) : NIP b (injectCss c r a) := by cases b <;> (unfold injectCss; nip_go)
@[nip] theorem injectId_nip (sid : Str) (ids : List Str) (r a : Str) : NIP b (injectId sid ids r a) := by cases b <;> (unfold injectId; nip_go)
@[nip] theorem injectHtmlAttributes_nip (tag : Str) (consume : Bool) : NIP b (injectHtmlAttributes tag consume) := by
  cases b <;> (unfold injectHtmlAttributes; nip_go)

@[nip] theorem blockSetDefinition_nip (n v : Str) : NIP b (blockSetDefinition n v) := by
  cases b <;> (unfold blockSetDefinition; nip_go)

@[nip] theorem documentInit_nip : NIP b documentInit := by
  cases b <;> (unfold documentInit; nip_go)

@[nip] theorem setOption_nip (n : Str) (v : PyVal) : NIP b (setOption n v) := by
  cases b <;> (unfold setOption; nip_go)

@[nip] theorem setOptionInDocument_nip (n : Str) (v : PyVal) : NIP b (setOptionInDocument n v) := by
  cases b <;> (unfold setOptionInDocument; nip_go)

section
variable (rec : Rec) (env : Env) (hs : ∀ x, NIP b (rec.spans x)) (hd : ∀ d x, NIP b (rec.document d x))
include hs

theorem battrParse_nip (attrs : Str) : NIP b (battrParse rec env attrs) := by
  have hr := replaceInline_nip rec env hs
  have hm := macrosRender_nip rec env hs
  cases b <;> (unfold battrParse; nip_go)

theorem verifyMacroLine_nip (mt : Match) (r : Reader) : NIP b (verifyMacroLine rec env mt r) := by
  have hr := macrosRender_nip rec env hs
  cases b <;> (unfold verifyMacroLine; nip_go)

theorem lineFilter_nip (d : LineDef) (mt : Match) : NIP b (lineFilter rec env d mt) := by
  have hr := replaceInline_nip rec env hs
  have hm := replaceMatch_nip rec env hs
  cases b <;> (unfold lineFilter; nip_go)

theorem lineblocksGo_nip (allowed : List Str) : ∀ defs r w, NIP b (lineblocksGo rec env allowed defs r w) := by
  have h1 := verifyMacroLine_nip rec env hs
  have h2 := battrParse_nip rec env hs
  have h3 := lineFilter_nip rec env hs
  intro defs
  induction defs with
  | nil => intro r w; cases b <;> (unfold lineblocksGo; nip_go)
  | cons d rest ih => intro r w; cases b <;> (unfold lineblocksGo; nip_go)

theorem lineblocksRender_nip (r : Reader) (w : Writer) (allowed : List Str) : NIP b (lineblocksRender rec env r w allowed) := by
  have h := lineblocksGo_nip rec env hs
  cases b <;> (unfold lineblocksRender; nip_go)

theorem macroDefContentFilter_nip (text : Str) (mt : Match) (e : Expand) : NIP b (macroDefContentFilter rec env text mt e) := by
  have hr := replaceInline_nip rec env hs
  cases b <;> (unfold macroDefContentFilter; nip_go)

include hd

set_option maxHeartbeats 1000000 in
theorem renderBlockBody_nip (d : BlockDef) (mt : Match) (r : Reader) (w : Writer) : NIP b (renderBlockBody rec env d mt r w) := by
  have hr := replaceInline_nip rec env hs
  have hm := macroDefContentFilter_nip rec env hs
  cases b <;> (unfold renderBlockBody; nip_go)

theorem renderBlock_nip (d : BlockDef) (mt : Match) (r : Reader) (w : Writer) : NIP b (renderBlock rec env d mt r w) := by
  have hb := renderBlockBody_nip rec env hs hd
  cases b <;> (unfold renderBlock; nip_go)

theorem delimitedGo_nip (allowed : List Str) : ∀ defs r w, NIP b (delimitedGo rec env allowed defs r w) := by
  have h := renderBlock_nip rec env hs hd
  intro defs
  induction defs with
  | nil => intro r w; cases b <;> (unfold delimitedGo; nip_go)
  | cons d rest ih => intro r w; cases b <;> (unfold delimitedGo; nip_go)

theorem delimitedRender_nip (r : Reader) (w : Writer) (allowed : List Str) : NIP b (delimitedRender rec env r w allowed) := by
  have h := delimitedGo_nip rec env hs hd
  cases b <;> (unfold delimitedRender; nip_go)

omit hs hd in
theorem matchItem_go_nip : ∀ defs r, NIP b (matchItem.go defs r) := by
  intro defs
  induction defs with
  | nil => intro r; cases b <;> (unfold matchItem.go; nip_go)
  | cons d rest ih => intro r; cases b <;> (unfold matchItem.go; nip_go)

omit hs hd in
theorem matchItem_nip (r : Reader) : NIP b (matchItem r) := by
  have h := matchItem_go_nip (b := b)
  cases b <;> (unfold matchItem; nip_go)

omit hd in
theorem consumeBlockAttributes_nip : ∀ fuel blanks r w, NIP b (consumeBlockAttributes rec env fuel blanks r w) := by
  have h := lineblocksRender_nip rec env hs
  intro fuel
  induction fuel with
  | zero => intro bl r w; cases b <;> (unfold consumeBlockAttributes; nip_go)
  | succ n ih => intro bl r w; cases b <;> (unfold consumeBlockAttributes; nip_go)

/-- The four list functions, with the placeholder queue or the log perturbed (they do look at the open list ids). -/
theorem lists_nip (hb : b ≠ .ids) : ∀ fuel,
    (∀ i r w, NIP b (renderList rec env fuel i r w)) ∧
    (∀ i r w, NIP b (renderListLoop rec env fuel i r w)) ∧
    (∀ i r w, NIP b (renderListItem rec env fuel i r w)) ∧
    (∀ r il al d, NIP b (renderItemLoop rec env fuel r il al d)) := by
  have hr := replaceInline_nip rec env hs
  have hc := consumeBlockAttributes_nip rec env hs
  have hm := matchItem_nip (b := b)
  have hdr := delimitedRender_nip rec env hs hd
  intro fuel
  induction fuel with
  | zero =>
    refine ⟨?_, ?_, ?_, ?_⟩
    · intro i r w; cases b <;> (unfold renderList; nip_go)
    · intro i r w; cases b <;> (unfold renderListLoop; nip_go)
    · intro i r w; cases b <;> (unfold renderListItem; nip_go)
    · intro r il al d; cases b <;> (unfold renderItemLoop; nip_go)
  | succ n ih =>
    obtain ⟨ih1, ih2, ih3, ih4⟩ := ih
    refine ⟨?_, ?_, ?_, ?_⟩
    · intro i r w
      cases b with
      | saved => unfold renderList; nip_go
      | ids => exact absurd rfl hb
      | log => unfold renderList; nip_go
    · intro i r w
      cases b with
      | saved => unfold renderListLoop; nip_go
      | ids => exact absurd rfl hb
      | log => unfold renderListLoop; nip_go
    · intro i r w
      cases b with
      | saved => unfold renderListItem; nip_go
      | ids => exact absurd rfl hb
      | log => unfold renderListItem; nip_go
    · intro r il al d
      cases b with
      | saved => unfold renderItemLoop; nip_go
      | ids => exact absurd rfl hb
      | log => unfold renderItemLoop; nip_go

/-- `lists.render`: with the queue or the log perturbed by composition; with the open list ids perturbed because a
    top-level list starts by emptying them (`modify_reset`), so nothing that follows can tell. -/
theorem listsRender_nip (fuel : Nat) (r : Reader) (w : Writer) : NIP b (listsRender rec env fuel r w) := by
  have hm := matchItem_nip (b := b)
  cases b with
  | saved =>
    have hl := fun i r w => (lists_nip rec env hs hd (by decide) fuel).1 i r w
    unfold listsRender; nip_go
  | ids =>
    unfold listsRender; nip_go
  | log =>
    have hl := fun i r w => (lists_nip rec env hs hd (by decide) fuel).1 i r w
    unfold listsRender; nip_go

theorem documentLoop_nip : ∀ fuel r w, NIP b (documentLoop rec env fuel r w) := by
  have h1 := lineblocksRender_nip rec env hs
  have h2 := listsRender_nip rec env hs hd
  have h3 := delimitedRender_nip rec env hs hd
  intro fuel
  induction fuel with
  | zero => intro r w; cases b <;> (unfold documentLoop; nip_go)
  | succ n ih => intro r w; cases b <;> (unfold documentLoop; nip_go)

theorem documentRender_nip (fuel : Nat) (src : Str) (d : Depth) : NIP b (documentRender rec env fuel src d) := by
  have h := documentLoop_nip rec env hs hd
  cases b <;> (unfold documentRender; nip_go)

end

/-- Tying the knot: at every fuel level nested span and document renders are non-interfering. -/
theorem mkRec_nip (env : Env) : ∀ n b, (∀ x, NIP b ((mkRec env n).spans x)) ∧ (∀ d x, NIP b ((mkRec env n).document d x)) := by
  intro n
  induction n with
  | zero => intro b; exact ⟨fun x => NIP.raise _ _, fun d x => NIP.raise _ _⟩
  | succ n ih =>
    intro b
    refine ⟨?_, ?_⟩
    · intro x
      show NIP b (spansRender (mkRec env n) env x)
      exact spansRender_nip _ env (fun b => (ih b).1) x
    · intro d x
      show NIP b (documentRender (mkRec env n) env (n+1) x d)
      exact documentRender_nip _ env (ih b).1 (ih b).2 _ x d

end Rimu
