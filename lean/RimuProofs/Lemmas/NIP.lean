import RimuProofs.Lemmas.Wp
import RimuProofs.Lemmas.Attr
import Lean

/-!
# Non-interference of the two scratch registers

`lists.ids` and `spans.savedReplacements` are module globals that no `document.init()` resets.  `pert b q l s` is the
session `s` with the placeholder queue replaced by `q` (`.saved`), the stack of open list ids replaced by `l` (`.ids`), or
the message log extended in front by `l` (`.log`: what has been reported before cannot influence a call, and what a call reports
is appended to it).  `NIP b act`: running `act` from `s` and from a perturbed `s` gives the same result (or the same
exception) and final states that again differ by a perturbation of the same register only.

Same construction as `NI` (the callback), with a perturbation that is not idempotent erasure but an arbitrary
replacement; reads must not look at the register (`k (pert b q l s) = k s` by `rfl` once `b` is a literal), writes
must commute with the perturbation.
-/

namespace Rimu

/-- which register is perturbed: the placeholder queue, the stack of open list ids, or the message log (by a prefix) -/
inductive Reg where
  | saved | ids | log
deriving DecidableEq

def pert (b : Reg) (q : List Fragment) (l : List Str) (s : Session) : Session :=
  match b with
  | .saved => { s with saved := q }
  | .ids => { s with listIds := l }
  | .log => { s with log := l ++ s.log }

/-- the two runs agree: same value and final states one perturbation apart, or the same exception -/
def AgreeP {α : Type} (b : Reg) (r₁ r₂ : Except PyErr (α × Session)) : Prop :=
  match r₁, r₂ with
  | .ok (a, s1), .ok (a', t1) => a = a' ∧ ∃ q l, t1 = pert b q l s1
  | .error e, .error e' => e = e'
  | _, _ => False

def NIP {α : Type} (b : Reg) (act : M α) : Prop := ∀ s q l, AgreeP b (act.run s) (act.run (pert b q l s))

/-- both runs end in the very same way: a special case of agreement -/
theorem AgreeP.of_eq {α} {b : Reg} {r₁ r₂ : Except PyErr (α × Session)} (h : r₂ = r₁) : AgreeP b r₁ r₂ := by
  subst h
  unfold AgreeP
  match r₂ with
  | .ok (a, s1) =>
    cases b
    · exact ⟨rfl, s1.saved, [], rfl⟩
    · exact ⟨rfl, [], s1.listIds, rfl⟩
    · exact ⟨rfl, [], [], rfl⟩
  | .error e => rfl

theorem NIP.pure {α} (b : Reg) (a : α) : NIP b (pure a : M α) := by
  intro s q l; exact ⟨rfl, q, l, rfl⟩

theorem NIP.raise {α} (b : Reg) (e : PyErr) : NIP b (raise e : M α) := by
  intro s q l; rfl

theorem NIP.bind {α β} {b : Reg} {x : M α} {f : α → M β} (hx : NIP b x) (hf : ∀ a, NIP b (f a)) : NIP b (x >>= f) := by
  intro s q l
  have h := hx s q l
  simp only [Bind.bind, StateT.bind, StateT.run] at *
  unfold AgreeP at h
  cases h1 : x s with
  | error e =>
    cases h2 : x (pert b q l s) with
    | error e' => simp only [h1, h2] at h; simp only [Except.bind]; exact h
    | ok r => simp only [h1, h2] at h
  | ok r =>
    obtain ⟨a, s1⟩ := r
    cases h2 : x (pert b q l s) with
    | error e' => simp only [h1, h2] at h
    | ok r' =>
      obtain ⟨a', t1⟩ := r'
      simp only [h1, h2] at h
      obtain ⟨rfl, q', l', rfl⟩ := h
      simp only [Except.bind]
      exact hf a s1 q' l'

/-- a write commutes with the perturbation -/
theorem NIP.modify {b : Reg} {f : Session → Session} (h : ∀ s q l, f (pert b q l s) = pert b q l (f s)) :
    NIP b (modify f : M Unit) := by
  intro s q l
  exact ⟨rfl, q, l, h s q l⟩

/-- a write that overwrites the register: from there on the two runs are one and the same -/
theorem NIP.modify_reset {β} {b : Reg} {f : Session → Session} (hf : ∀ s q l, f (pert b q l s) = f s) (k : Unit → M β) :
    NIP b ((_root_.modify f : M Unit) >>= k) := by
  intro s q l
  apply AgreeP.of_eq
  show (k ()).run (f (pert b q l s)) = (k ()).run (f s)
  rw [hf]

/-- a read whose continuation does not look at the register -/
theorem NIP.get_bind {β} {b : Reg} {k : Session → M β} (hk : ∀ s q l, k (pert b q l s) = k s) (h : ∀ s0, NIP b (k s0)) :
    NIP b (get >>= k) := by
  intro s q l
  have : (get >>= k : M β).run (pert b q l s) = (k s).run (pert b q l s) := by
    show (k (pert b q l s)).run (pert b q l s) = _
    rw [hk]
  rw [this]
  exact h s s q l

/-- a read followed by anything, argued on the two runs directly (read-modify-write sequences) -/
theorem NIP.get_bind_rel {β} {b : Reg} {k : Session → M β}
    (h : ∀ s q l, AgreeP b ((k s).run s) ((k (pert b q l s)).run (pert b q l s))) :
    NIP b (get >>= k) := fun s q l => h s q l

theorem AgreeP.trans {α} {b : Reg} {r₁ r₂ r₃ : Except PyErr (α × Session)}
    (h1 : AgreeP b r₁ r₂) (h2 : AgreeP b r₂ r₃) : AgreeP b r₁ r₃ := by
  cases r₁ with
  | error e =>
    cases r₂ with
    | error e' =>
      cases r₃ with
      | error e'' => exact Eq.trans (α := PyErr) h1 h2
      | ok _ => exact h2.elim
    | ok _ => exact h1.elim
  | ok x =>
    obtain ⟨a, s1⟩ := x
    cases r₂ with
    | error e' => exact h1.elim
    | ok y =>
      obtain ⟨a', t1⟩ := y
      cases r₃ with
      | error e'' => exact h2.elim
      | ok z =>
        obtain ⟨a'', u1⟩ := z
        obtain ⟨e1, q, l, e2⟩ := h1
        obtain ⟨e3, q', l', e4⟩ := h2
        subst e1 e3 e2 e4
        cases b
        · exact ⟨rfl, q', l', rfl⟩
        · exact ⟨rfl, q', l', rfl⟩
        · refine ⟨rfl, q', l' ++ l, ?_⟩
          simp [pert, List.append_assoc]

open Lean Elab Tactic Meta

partial def normProgP (e : Expr) : Expr :=
  let e := e.consumeMData.headBeta
  match e with
  | .letE _ _ v b _ => normProgP (b.instantiate1 v)
  | _ => e

/-- One step of pushing `NIP b` (with `b` a literal) through a program, by the shape of its head. -/
elab "nip_step" : tactic => withMainContext do
  let g ← getMainGoal
  let t0 ← instantiateMVars (← g.getType)
  let t := t0.consumeMData.headBeta
  match t.getAppFnArgs with
  | (``Rimu.NIP, #[α, b, act0]) =>
    let act := normProgP act0
    if act != act0 then
      let g' ← g.replaceTargetDefEq (mkAppN t.getAppFn #[α, b, act])
      replaceMainGoal [g']
    let fn := act.getAppFn
    if act.isAppOf ``Bind.bind then
      let args := act.getAppArgs
      let x := (normProgP args[4]!)
      if x.isAppOf ``MonadState.get || x.isAppOf ``getThe || x.isAppOf ``MonadStateOf.get then
        evalTactic (← `(tactic| refine NIP.get_bind (fun _ _ _ => rfl) ?_))
      else if x.isAppOf ``modify then
        evalTactic (← `(tactic| first | exact NIP.modify_reset (fun _ _ _ => rfl) _ | apply NIP.bind))
      else
        evalTactic (← `(tactic| apply NIP.bind))
    else if act.isAppOf ``Pure.pure then
      evalTactic (← `(tactic| exact NIP.pure _ _))
    else if act.isAppOf ``Rimu.raise then
      evalTactic (← `(tactic| exact NIP.raise _ _))
    else if act.isAppOf ``modify then
      evalTactic (← `(tactic| exact NIP.modify (fun _ _ _ => rfl)))
    else if act.isAppOf ``ite || act.isAppOf ``dite then
      evalTactic (← `(tactic| split))
    else if (← isMatcherApp act) then
      evalTactic (← `(tactic| split))
    else if fn.isConst || fn.isFVar || fn.isProj then
      evalTactic (← `(tactic| first | assumption | (simp only [nip]; done) | (simp only [*]; done)))
    else
      throwError "nip_step: unrecognised program {act}"
  | _ =>
    if t.isForall then evalTactic (← `(tactic| intro _))
    else throwError "nip_step: not an NIP goal"

macro "nip_go" : tactic => `(tactic| repeat (any_goals nip_step))

end Rimu
