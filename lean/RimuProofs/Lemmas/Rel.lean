import RimuProofs.Lemmas.Run
import RimuModel.Block
import Lean

/-!
# Two runs of the same program on related arguments

`Rel R x y`: from every session, `x` and `y` end in the same exception, or return values related by `R` and the *same*
final session.  Used with `x` and `y` the same code applied to two different writers: the session cannot tell them apart
and the results differ only by what had been written before (`WR`).  The tactic `rel_go` walks the two programs in
lockstep.
-/

namespace Rimu

def Rel {α β : Type} (R : α → β → Prop) (x : M α) (y : M β) : Prop :=
  ∀ s, match x.run s, y.run s with
    | .ok (a, s1), .ok (b, s2) => R a b ∧ s1 = s2
    | .error e, .error e' => e = e'
    | _, _ => False

theorem Rel.refl {α} (x : M α) : Rel Eq x x := by
  intro s
  cases h : x.run s with
  | error e => rfl
  | ok r => obtain ⟨a, s1⟩ := r; exact ⟨rfl, rfl⟩

theorem Rel.pure {α β} {R : α → β → Prop} {a : α} {b : β} (h : R a b) : Rel R (pure a : M α) (pure b : M β) := by
  intro s; exact ⟨h, rfl⟩

theorem Rel.bind {α β γ δ} {R : α → β → Prop} {Q : γ → δ → Prop} {x : M α} {y : M β} {f : α → M γ} {g : β → M δ}
    (hx : Rel R x y) (hf : ∀ a b, R a b → Rel Q (f a) (g b)) : Rel Q (x >>= f) (y >>= g) := by
  intro s
  have h := hx s
  rw [run_bind, run_bind]
  cases h1 : x.run s with
  | error e =>
    cases h2 : y.run s with
    | error e' => rw [h1, h2] at h; exact h
    | ok r => rw [h1, h2] at h; exact h.elim
  | ok r =>
    obtain ⟨a, s1⟩ := r
    cases h2 : y.run s with
    | error e' => rw [h1, h2] at h; exact h.elim
    | ok r' =>
      obtain ⟨b, s2⟩ := r'
      rw [h1, h2] at h
      obtain ⟨hab, rfl⟩ := h
      exact hf a b hab s1

/-- the continuation of a step that is the very same on both sides -/
theorem Rel.bind_same {α γ δ} {Q : γ → δ → Prop} {x : M α} {f : α → M γ} {g : α → M δ}
    (hf : ∀ a, Rel Q (f a) (g a)) : Rel Q (x >>= f) (x >>= g) :=
  Rel.bind (Rel.refl x) (fun a b h => by subst h; exact hf a)

theorem Rel.ite {α β} {R : α → β → Prop} {c : Prop} [Decidable c] {a a' : M α} {b b' : M β}
    (h1 : c → Rel R a b) (h2 : ¬ c → Rel R a' b') : Rel R (if c then a else a') (if c then b else b') := by
  split
  · exact h1 ‹_›
  · exact h2 ‹_›

theorem Rel.raise {α β} {R : α → β → Prop} (e : PyErr) : Rel R (raise e : M α) (raise e : M β) := by
  intro s; rfl

theorem Rel.mono {α β} {R R' : α → β → Prop} {x : M α} {y : M β} (h : Rel R x y) (hr : ∀ a b, R a b → R' a b) : Rel R' x y := by
  intro s
  have := h s
  cases h1 : x.run s with
  | error e =>
    cases h2 : y.run s with
    | error e' => rw [h1, h2] at this; exact this
    | ok r => rw [h1, h2] at this; exact this.elim
  | ok r =>
    obtain ⟨a, s1⟩ := r
    cases h2 : y.run s with
    | error e' => rw [h1, h2] at this; exact this.elim
    | ok r' =>
      obtain ⟨b, s2⟩ := r'
      rw [h1, h2] at this
      exact ⟨hr _ _ this.1, this.2⟩

/-! ## writers that differ by what had been written before -/

/-- `w1` is `w2` with the output `w0` in front of it (chunks are kept newest first) -/
@[reducible] def WR (w0 w1 w2 : Writer) : Prop := w1.chunks = w2.chunks ++ w0.chunks

theorem WR.start (w0 : Writer) : WR w0 w0 {} := by simp [WR]
theorem WR.write {w0 w1 w2 : Writer} (h : WR w0 w1 w2) (t : Str) : WR w0 (w1.write t) (w2.write t) := by
  simp only [WR, Writer.write] at *; rw [h]; rfl
theorem WR.extend {w0 w1 w2 : Writer} (h : WR w0 w1 w2) (o : Writer) : WR w0 (w1.extend o) (w2.extend o) := by
  simp only [WR, Writer.extend] at *; rw [h, List.append_assoc]
theorem WR.toStr {w0 w1 w2 : Writer} (h : WR w0 w1 w2) : w1.toStr = w0.toStr ++ w2.toStr := by
  simp only [WR, Writer.toStr] at *; rw [h]; simp

@[reducible] def R2 (w0 : Writer) (a b : Reader × Writer) : Prop := a.1 = b.1 ∧ WR w0 a.2 b.2
@[reducible] def R3 {α : Type} (w0 : Writer) (a b : α × Reader × Writer) : Prop := a.1 = b.1 ∧ a.2.1 = b.2.1 ∧ WR w0 a.2.2 b.2.2

syntax "wr" : tactic
macro_rules
  | `(tactic| wr) => `(tactic| first
      | assumption
      | exact WR.start _
      | (apply WR.write; wr)
      | (apply WR.extend; wr)
      | (split <;> wr))

/-- closes a goal `R a b` at a `pure` -/
macro "rel_value" : tactic => `(tactic| first
  | rfl
  | assumption
  | wr
  | (refine ⟨rfl, rfl, ?_⟩; wr)
  | (refine ⟨rfl, ?_⟩; wr))

open Lean Elab Tactic Meta

/-- closes `g : Rel ..` with a local fact about this very pair of programs (premises by assumption) -/
def relByHyp (g : MVarId) : TacticM Bool := g.withContext do
  for ld in (← getLCtx) do
    if ld.isImplementationDetail then continue
    let ty ← instantiateMVars ld.type
    if !(ty.getForallBody.consumeMData.headBeta.isAppOf ``Rimu.Rel) then continue
    let saved ← saveState
    try
      let gs ← withReducible <| g.apply ld.toExpr
      let mut ok := true
      for g' in gs do
        if ← g'.isAssigned then continue
        try g'.assumption
        catch _ =>
          try
            let rest ← Lean.Elab.Tactic.run g' (do evalTactic (← `(tactic| wr)))
            unless rest.isEmpty do ok := false
          catch _ => ok := false
      if ok then return true
      saved.restore
    catch _ => saved.restore
  return false

/-- One lockstep step on a goal `Rel R p q` where `p` and `q` are the same code on related arguments. -/
elab "rel_step" : tactic => withMainContext do
  let g ← getMainGoal
  let t := (← instantiateMVars (← g.getType)).consumeMData.headBeta
  match t.getAppFnArgs with
  | (``Rimu.Rel, #[_, _, _, p0, q0]) =>
    let p := p0.consumeMData.headBeta
    let q := q0.consumeMData.headBeta
    if p.isLet then
      evalTactic (← `(tactic| (show Rel _ _ _; dsimp only)))
      return
    -- the very same program on both sides
    try
      evalTactic (← `(tactic| with_reducible exact Rel.refl _))
      return
    catch _ => pure ()
    if ← relByHyp g then
      replaceMainGoal []
      return
    if p.isAppOf ``Bind.bind && q.isAppOf ``Bind.bind then
      let x := p.getAppArgs[4]!
      let y := q.getAppArgs[4]!
      if ← withReducible (isDefEq x y) then
        evalTactic (← `(tactic| refine Rel.bind_same (fun _ => ?_)))
      else
        -- a call that threads the writer: its fact is among the hypotheses
        let gs ← g.apply (← mkConstWithFreshMVarLevels ``Rel.bind)
        let mut rest := #[]
        let mut done := false
        for g' in gs do
          if ← g'.isAssigned then continue
          let ty := (← instantiateMVars (← g'.getType)).consumeMData.headBeta
          if !done && ty.isAppOf ``Rimu.Rel then
            done := true
            unless ← relByHyp g' do
              -- no fact: a writer computed in place on both sides; the relation of the two results is `WR`
              let w ← mkFreshExprMVar (mkConst ``Rimu.Writer)
              let r := ty.getAppArgs[2]!
              unless ← isDefEq r (mkApp (mkConst ``Rimu.WR) w) do throwError "rel_step: no fact for {ty}"
              rest := rest.push g'
          else rest := rest.push g'
        let mut rest' := #[]
        for g' in rest do
          unless ← g'.isAssigned do rest' := rest'.push g'
        replaceMainGoal rest'.toList
    else if p.isAppOf ``Pure.pure then
      evalTactic (← `(tactic| (refine Rel.pure ?_; rel_value)))
    else if p.isAppOf ``Rimu.raise then
      evalTactic (← `(tactic| exact Rel.raise _))
    else if p.isAppOf ``ite then
      evalTactic (← `(tactic| first | refine Rel.ite (fun _ => ?_) (fun _ => ?_) | split))
    else if p.isAppOf ``dite || (← isMatcherApp p) then
      evalTactic (← `(tactic| split))
    else
      evalTactic (← `(tactic| (show Rel _ _ _; dsimp only)))
  | _ =>
    if t.isForall then
      -- the continuation of a bind: two results and their relation
      let ra := mkIdent `ra; let rb := mkIdent `rb; let hab := mkIdent `hab
      let a1 := mkIdent `a1; let a2 := mkIdent `a2; let a3 := mkIdent `a3
      let b1 := mkIdent `b1; let b2 := mkIdent `b2; let b3 := mkIdent `b3
      let h1 := mkIdent `h1; let h2 := mkIdent `h2; let h3 := mkIdent `h3
      evalTactic (← `(tactic| intro $ra:ident $rb:ident $hab:ident))
      withMainContext do
        let some hd := (← getLCtx).findFromUserName? `hab | throwError "rel_step: no hab"
        let ht := (← instantiateMVars hd.type).consumeMData.headBeta
        if ht.isAppOf ``Eq then
          evalTactic (← `(tactic| (subst $hab:ident; try dsimp only)))
        else if ht.isAppOf ``Rimu.R3 then
          evalTactic (← `(tactic| (obtain ⟨$a1, $a2, $a3⟩ := $ra:ident; obtain ⟨$b1, $b2, $b3⟩ := $rb:ident; obtain ⟨$h1, $h2, $h3⟩ := $hab:ident
                                   dsimp only at $h1:ident $h2:ident $h3:ident; subst $h1:ident; subst $h2:ident; try dsimp only)))
        else if ht.isAppOf ``Rimu.R2 then
          evalTactic (← `(tactic| (obtain ⟨$a1, $a2⟩ := $ra:ident; obtain ⟨$b1, $b2⟩ := $rb:ident; obtain ⟨$h1, $h2⟩ := $hab:ident
                                   dsimp only at $h1:ident $h2:ident; subst $h1:ident; try dsimp only)))
        else
          evalTactic (← `(tactic| try dsimp only))
    else throwError "rel_step: not a Rel goal"

macro "rel_go" : tactic => `(tactic| repeat (any_goals rel_step))

end Rimu
