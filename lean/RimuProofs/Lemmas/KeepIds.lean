import RimuProofs.Lemmas.StepBlock

/-!
# The stack of open list ids is scratch state of `lists.render`

`KeepIds s s'`: the stack (`lists.ids`) is the same in `s'` as in `s`.  Everything except the list functions
themselves and what can reach a nested `document.render` (delimited blocks) keeps it.
-/

namespace Rimu
open Py

def KeepIds (s s' : Session) : Prop := s'.listIds = s.listIds

instance : IsPre KeepIds := ⟨fun _ => rfl, fun h1 h2 => h2.trans h1⟩

theorem Frame.keepIds {s s' : Session} (h : Frame s s') : KeepIds s s' := by
  obtain ⟨l, v, rfl⟩ := h; rfl

/-- what satisfies the frame condition keeps the stack (conditional rewrite rule for the `wp` tactic) -/
@[frame] theorem pres_keepIds_of_frame {α} {act : M α} (h : Pres Frame act) : Pres KeepIds act = True :=
  eq_true (fun s a s' hr => (h s a s' hr).keepIds)

theorem Pres.keepIds {α} {act : M α} (h : Pres Frame act) : Pres KeepIds act :=
  fun s a s' hr => (h s a s' hr).keepIds

macro "keep_start" : tactic => `(tactic| (apply Pres.start; intro s0 s hcur))

@[pres] theorem macrosSetValue_keep (n v : Str) : Pres KeepIds (macrosSetValue n v) := by
  keep_start
  unfold macrosSetValue skipMacroDefs
  simp only [bind_assoc, pure_bind]
  wp_go

@[pres] theorem injectId_keep (sid : Str) (ids : List Str) (r a : Str) : Pres KeepIds (injectId sid ids r a) := by
  keep_start; unfold injectId; wp_go

@[pres] theorem injectHtmlAttributes_keep (tag : Str) (consume : Bool) : Pres KeepIds (injectHtmlAttributes tag consume) := by
  keep_start; unfold injectHtmlAttributes; wp_go

section
variable (rec : Rec) (env : Env) (hs : ∀ x, Pres Frame (rec.spans x))
include hs

@[pres] theorem battrParse_keep (attrs : Str) : Pres KeepIds (battrParse rec env attrs) := by
  have hr := fun t e => (replaceInline_frame rec env hs t e).keepIds
  have hm := fun t sl => (macrosRender_frame rec env hs t sl).keepIds
  keep_start; unfold battrParse; wp_go

theorem lineFilter_keep (d : LineDef) (mt : Match) : Pres KeepIds (lineFilter rec env d mt) := by
  have hr := fun t e => (replaceInline_frame rec env hs t e).keepIds
  have hm := fun mt r e => (replaceMatch_frame rec env hs mt r e).keepIds
  have hms := macrosSetValue_keep
  keep_start
  unfold lineFilter isSafeModeNz blockSetDefinition quotesSetDefinition replSetDefinition setOptionInDocument setOption documentInit
  simp only [bind_assoc, pure_bind]
  wp_go

theorem lineblocksGo_keep (allowed : List Str) :
    ∀ defs r w, Pres KeepIds (lineblocksGo rec env allowed defs r w) := by
  have h1 := fun mt r => (verifyMacroLine_frame rec env hs mt r).keepIds
  have h2 := battrParse_keep rec env hs
  have h3 := lineFilter_keep rec env hs
  intro defs
  induction defs with
  | nil => intro r w; keep_start; unfold lineblocksGo; wp_go
  | cons d rest ih => intro r w; keep_start; unfold lineblocksGo; wp_go

theorem lineblocksRender_keep (r : Reader) (w : Writer) (allowed : List Str) :
    Pres KeepIds (lineblocksRender rec env r w allowed) := by
  have h := lineblocksGo_keep rec env hs
  keep_start; unfold lineblocksRender; wp_go

theorem consumeBlockAttributes_keep : ∀ fuel blanks r w, Pres KeepIds (consumeBlockAttributes rec env fuel blanks r w) := by
  have h := lineblocksRender_keep rec env hs
  intro fuel
  induction fuel with
  | zero => intro b r w; keep_start; unfold consumeBlockAttributes; wp_go
  | succ n ih => intro b r w; keep_start; unfold consumeBlockAttributes; wp_go

end

end Rimu
