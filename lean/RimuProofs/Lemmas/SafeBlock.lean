import RimuProofs.Lemmas.SafeInline
import RimuProofs.Lemmas.KeepIds

/-!
# Which exceptions the model can raise: the block layer, and the knot
-/

namespace Rimu
open Py Rx

/-! ## reader -/

/-- postconditions `Inv s' ∧ R a` whose parts are in the context -/
macro "post_leaf" : tactic => `(tactic| first
  | exact ⟨by assumption, by assumption⟩
  | exact ⟨by assumption, fun _ => by assumption⟩
  | exact ⟨by assumption, fun h => by cases h⟩)

theorem not_true_false (b : Bool) (h : ¬ b = true) : b = false := by cases b <;> simp_all

/-- `Inv s ∧ ItemRes (none, r)` -/
macro "item_none_leaf" : tactic => `(tactic| (refine ⟨by assumption, ?_, by assumption⟩; intro _ h; cases h))

/-- the reader is not at end of input -/
@[reducible] def Reader.More (r : Reader) : Prop := ¬ r.eof = true

theorem Reader.more_iff (r : Reader) : r.More ↔ r.rest ≠ [] := by
  unfold Reader.More Reader.eof
  cases r.rest <;> simp

/-- `reader.cursor` away from end of input -/
theorem pc_cursor (r : Reader) (h : r.More) (s : Session) : ∃ a, r.cursor.run s = .ok (a, s) := by
  rw [Reader.more_iff] at h
  unfold Reader.cursor
  split
  · exact ⟨_, rfl⟩
  · next he => exact absurd he h

theorem pc_unescape (r : Reader) (h : r.More) (s : Session) : ∃ a, r.unescape.run s = .ok (a, s) ∧ a.More := by
  rw [Reader.more_iff] at h
  unfold Reader.unescape Reader.cursor Reader.setCursor
  cases hr : r.rest with
  | nil => exact absurd hr h
  | cons c t =>
    refine ⟨{ r with rest := c.drop 1 :: t, escaped := some r.pos }, ?_, ?_⟩
    · rfl
    · rw [Reader.more_iff]; simp

theorem pc_insertExpansion (r : Reader) (l : List Str) (d : Nat) (h : r.More) (s : Session) :
    ∃ a, (r.insertExpansion l d).run s = .ok (a, s) ∧ a.2.More := by
  have h' := (Reader.more_iff r).mp h
  unfold Reader.insertExpansion
  simp only []
  split
  · exact ⟨_, rfl, by rw [Reader.more_iff]; exact h'⟩
  · cases hr : r.rest with
    | nil => exact absurd hr h'
    | cons c t => exact ⟨_, rfl, by rw [Reader.more_iff]; simp⟩

theorem Reader.readTo_go_ok (r : Reader) (p : Pat) (hp : p.ngroups = 0 ∨ p.Sets 1 = true) :
    ∀ ls pos acc, Ok (Reader.readTo.go r p ls pos acc) := by
  have h1 : p.ngroups > 0 → ∀ (l : Str) (mt : Match), p.search l = some mt → ∀ site s,
      ∃ a, (mt.str 1 site).run s = .ok (a, s) ∧ mt.res.group mt.inp 1 = some a := by
    intro hg l mt h
    rcases hp with h0 | h1
    · omega
    · exact pc_str (Pat.search_of (Nat.zero_le _) h) h1
  intro ls
  induction ls with
  | nil => intro pos acc s hI; unfold Reader.readTo.go; hoare
  | cons l t ih => intro pos acc s hI; unfold Reader.readTo.go; hoare

theorem Reader.readTo_ok (r : Reader) (p : Pat) (hp : p.ngroups = 0 ∨ p.Sets 1 = true) : Ok (r.readTo p) := by
  unfold Reader.readTo; exact Reader.readTo_go_ok r p hp _ _ _

@[hspec] theorem panic_ok (msg : Str) : Ok (panic msg) := by unfold panic; exact errorCallback_ok _

/-- a match of a pattern that consumes at least one character is not the empty string -/
theorem whole_ne_nil {m : Match} {p : Pat} (hm : m.Of p) (h : 1 ≤ minLen p.re) : m.whole ≠ [] := by
  obtain ⟨_, hM, hst⟩ := hm
  have h1 := hM.owed_le
  rw [owed_zero] at h1
  have h2 := (hM.bounds hst).2
  unfold Match.whole
  exact slice_length_pos (by omega) h2

/-! ## expansion options -/

/-- a block option that the option pattern accepts is not the empty string -/
theorem option_nonempty {opt : Str} {m : Match} (h : Gen.P.expansion_Expand_parse_1.matchStart opt = some m) : opt ≠ [] := by
  obtain ⟨hinp, _, hr⟩ := Pat.matchStart_some h
  obtain ⟨hst, hM⟩ := matchAt_sound hr
  have h1 := hM.owed_le
  rw [owed_zero] at h1
  have h2 := (hM.bounds (Nat.zero_le _)).2
  have h3 : 1 ≤ minLen Gen.P.expansion_Expand_parse_1.re := by decide +kernel
  intro he
  subst he
  simp at h2
  omega

theorem expandParseOne_ok (e : Expand) (o : Str) : Ok (expandParseOne e o) := by
  intro s hI
  unfold expandParseOne
  hoare

theorem expandParse_go_ok : ∀ l e, Ok (expandParse.go e l) := by
  have h := expandParseOne_ok
  intro l
  induction l with
  | nil => intro e s hI; unfold expandParse.go; hoare
  | cons o rest ih => intro e s hI; unfold expandParse.go; hoare

theorem expandParse_ok (e : Expand) (o : Str) : Ok (expandParse e o) := by
  have h := fun l e => expandParse_go_ok l e
  intro s hI
  unfold expandParse
  hoare

/-! ## block attributes -/

section
variable (rec : Rec) (env : Env) (hs : ∀ x, Ok (rec.spans x))
include hs

theorem battrParse_ok (attrs : Str) : Ok (battrParse rec env attrs) := by
  have hr := replaceInline_ok rec env hs
  have hmr := macrosRender_ok rec env hs
  have hp := expandParse_ok
  have ho1 : ∀ (t : Str) (m1 : Match), Gen.P.blockattributes_parse_0.matchStart t = some m1 → ∀ i, i ≤ 1 → ∀ s,
      ∃ a, (m1.orEmpty i).run s = .ok (a, s) := fun t m1 h i hi =>
    pc_orEmpty m1 i (by rw [(Pat.matchStart_of h).1]; exact hi)
  have ho2 : ∀ (t : Str) (m2 : Match), Gen.P.blockattributes_parse_1.matchStart t = some m2 → ∀ i, i ≤ 5 → ∀ s,
      ∃ a, (m2.orEmpty i).run s = .ok (a, s) := fun t m2 h i hi =>
    pc_orEmpty m2 i (by rw [(Pat.matchStart_of h).1]; exact hi)
  have o1 := fun t m h => ho1 t m h 1 (by decide)
  have o2 := fun t m h => ho2 t m h 2 (by decide)
  have o3 := fun t m h => ho2 t m h 3 (by decide)
  have o4 := fun t m h => ho2 t m h 4 (by decide)
  have o5 := fun t m h => ho2 t m h 5 (by decide)
  clear ho1 ho2
  intro s hI
  unfold battrParse
  hoare

end

theorem injectClasses_ok (c t : Str) : Ok (injectClasses c t) := by
  have h1 : ∀ (t : Str) (mt : Match), Gen.P.blockattributes_injectHtmlAttributes_0.search t = some mt → ∀ site s,
      ∃ a, (mt.str 1 site).run s = .ok (a, s) ∧ mt.res.group mt.inp 1 = some a :=
    fun t mt h => pc_str (Pat.search_of (Nat.zero_le _) h) (by decide +kernel)
  have h2 : ∀ (t : Str) (mt : Match), Gen.P.blockattributes_injectHtmlAttributes_0.search t = some mt → ∀ site s,
      ∃ a, (mt.str 2 site).run s = .ok (a, s) ∧ mt.res.group mt.inp 2 = some a :=
    fun t mt h => pc_str (Pat.search_of (Nat.zero_le _) h) (by decide +kernel)
  intro s hI
  unfold injectClasses
  hoare

theorem injectCss_ok (c r a : Str) : Ok (injectCss c r a) := by
  have h1 : ∀ (t : Str) (mt : Match), Gen.P.blockattributes_injectHtmlAttributes_2.search t = some mt → ∀ site s,
      ∃ a, (mt.str 1 site).run s = .ok (a, s) ∧ mt.res.group mt.inp 1 = some a :=
    fun t mt h => pc_str (Pat.search_of (Nat.zero_le _) h) (by decide +kernel)
  have h2 : ∀ (t : Str) (mt : Match), Gen.P.blockattributes_injectHtmlAttributes_2.search t = some mt → ∀ site s,
      ∃ a, (mt.str 2 site).run s = .ok (a, s) ∧ mt.res.group mt.inp 2 = some a :=
    fun t mt h => pc_str (Pat.search_of (Nat.zero_le _) h) (by decide +kernel)
  intro s hI
  unfold injectCss
  hoare

theorem injectId_ok (sid : Str) (ids : List Str) (r a : Str) : Ok (injectId sid ids r a) := by
  intro s hI
  unfold injectId
  hoare

theorem injectHtmlAttributes_ok (tag : Str) (consume : Bool) : Ok (injectHtmlAttributes tag consume) := by
  have h1 := injectClasses_ok; have h2 := injectCss_ok; have h3 := injectId_ok
  intro s hI
  unfold injectHtmlAttributes
  hoare

theorem slugSuffix_ok (ids : List Str) (slug : Str) : ∀ fuel i, Ok (slugSuffix ids slug fuel i) := by
  intro fuel
  induction fuel with
  | zero => intro i s hI; unfold slugSuffix; hoare
  | succ n ih => intro i s hI; unfold slugSuffix; hoare

theorem slugify_ok (t : Str) : Ok (slugify t) := by
  have h := slugSuffix_ok
  intro s hI
  unfold slugify
  hoare

/-! ## definitions of delimited blocks, options -/

/-- a delimited-block definition value `'<open>|<close> options'`: when the open tag is there so is the close tag
    (the `None` that `setDefinition` would otherwise store as a tag) -/
theorem block_definition_tags_come_together (value : Str) (mt : Match)
    (h : Gen.P.delimitedblocks_setDefinition_0.search value = some mt) (o : Str)
    (h1 : mt.res.group mt.inp 1 = some o) : ∃ c, mt.res.group mt.inp 2 = some c := by
  obtain ⟨hn, hM, _⟩ := Pat.search_of (Nat.zero_le _) h
  have hset1 : Rx.IsSet mt.res.caps 1 := by
    unfold Rx.MatchRes.group Rx.MatchRes.span at h1
    simp only [Nat.succ_ne_zero, if_false] at h1
    split at h1
    · next a b hab => exact ⟨(a, b), hab⟩
    · cases h1
  have hinit : ¬ Rx.IsSet (List.replicate (Gen.P.delimitedblocks_setDefinition_0.ngroups + 1) (none : Option (Nat × Nat))) 1 := by
    rintro ⟨v, hv⟩
    simp [List.getD_eq_getElem?_getD, List.getElem?_replicate] at hv
    split at hv <;> simp at hv
  have := hM.coSets Facts.blockdef_tags_together (by simp; decide) (fun h => absurd h hinit) hset1
  exact Rx.group_of_isSet this



theorem blockSetDefinition_upd_mem (name : Str) : ∀ (defs : List BlockDef) (d2 : BlockDef), ∀ x ∈ blockSetDefinition.upd name defs d2,
    x = d2 ∨ x ∈ defs := by
  intro defs
  induction defs with
  | nil => intro d2 x h; simp [blockSetDefinition.upd] at h
  | cons d rest ih =>
    intro d2 x h
    unfold blockSetDefinition.upd at h
    split at h
    · rcases List.mem_cons.mp h with h | h
      · exact .inl h
      · exact .inr (List.mem_cons_of_mem _ h)
    · rcases List.mem_cons.mp h with h | h
      · exact .inr (h ▸ List.mem_cons_self)
      · rcases ih d2 x h with h | h
        · exact .inl h
        · exact .inr (List.mem_cons_of_mem _ h)

/-- replacing a definition by one that has the shape of a default definition keeps the invariant -/
theorem Inv.upd {s : Session} (hI : Inv s) (name : Str) (d2 : BlockDef)
    (hd2 : ∃ d0 ∈ Gen.blockDefaultDefs, d2.SameShape d0) :
    Inv { s with blockDefs := blockSetDefinition.upd name s.blockDefs d2 } := by
  obtain ⟨hq, hb⟩ := hI
  refine ⟨hq, ?_⟩
  intro x hx
  rcases blockSetDefinition_upd_mem name _ d2 x hx with h | h
  · rw [h]; exact hd2
  · exact hb x h

theorem Inv.shape {s : Session} (hI : Inv s) {d : BlockDef} (hd : d ∈ s.blockDefs) (d2 : BlockDef)
    (h : d2.name = d.name ∧ d2.openMatch = d.openMatch ∧ d2.closeMatch = d.closeMatch ∧ d2.verify = d.verify ∧
      d2.delimiterFilter = d.delimiterFilter ∧ d2.contentFilter = d.contentFilter) :
    ∃ d0 ∈ Gen.blockDefaultDefs, d2.SameShape d0 := by
  obtain ⟨d0, hd0, h0⟩ := hI.2 d hd
  obtain ⟨a1, a2, a3, a4, a5, a6⟩ := h0
  obtain ⟨b1, b2, b3, b4, b5, b6⟩ := h
  exact ⟨d0, hd0, b1.trans a1, b2.trans a2, b3.trans a3, b4.trans a4, b5.trans a5, b6.trans a6⟩

theorem blockGetDefinition_mem {defs : List BlockDef} {name : Str} {d : BlockDef} (h : blockGetDefinition defs name = some d) :
    d ∈ defs := by
  unfold blockGetDefinition at h
  exact List.mem_of_find?_eq_some h

theorem blockSetDefinition_ok (name value : Str) : Ok (blockSetDefinition name value) := by
  have hp := expandParse_ok
  have o1 := fun (t : Str) (mt : Match) (h : Gen.P.delimitedblocks_setDefinition_0.search t = some mt) =>
    pc_opt mt 1 (by rw [(Pat.search_of (Nat.zero_le _) h).1]; decide)
  have o2 := fun (t : Str) (mt : Match) (h : Gen.P.delimitedblocks_setDefinition_0.search t = some mt) =>
    pc_opt mt 2 (by rw [(Pat.search_of (Nat.zero_le _) h).1]; decide)
  have o3 := fun (t : Str) (mt : Match) (h : Gen.P.delimitedblocks_setDefinition_0.search t = some mt) =>
    pc_opt mt 3 (by rw [(Pat.search_of (Nat.zero_le _) h).1]; decide)
  intro s hI
  unfold blockSetDefinition
  hoare_go
  all_goals (try hoare_leaf)
  all_goals (try (
    rename_i hs'
    have hd := blockGetDefinition_mem (by assumption : blockGetDefinition s.blockDefs name = some _)
    have hsh := Inv.shape hI hd
    exact Inv.upd hs' name _ (hsh _ ⟨rfl, rfl, rfl, rfl, rfl, rfl⟩)))
  all_goals (try (
    have hd := blockGetDefinition_mem (by assumption : blockGetDefinition s.blockDefs name = some _)
    have hsh := Inv.shape hI hd
    exact Inv.upd hI name _ (hsh _ ⟨rfl, rfl, rfl, rfl, rfl, rfl⟩)))
  -- the close tag is there whenever the open tag is
  all_goals (
    exfalso
    obtain ⟨c, hc⟩ := block_definition_tags_come_together _ _ (by assumption) _ (Eq.symm (by assumption))
    simp_all)

theorem default_quotes_ok : Gen.quoteDefaultDefs ≠ [] ∧ ∀ d ∈ Gen.quoteDefaultDefs, d.quote ≠ [] := by
  have h : (Gen.quoteDefaultDefs.all fun d => d.quote != []) = true := by decide +kernel
  have hne : Gen.quoteDefaultDefs ≠ [] := by decide +kernel
  refine ⟨hne, ?_⟩
  intro d hd
  have := List.all_eq_true.mp h d hd
  simpa using this

theorem Inv.defaults (s : Session) : Inv { s with quoteDefs := Gen.quoteDefaultDefs, blockDefs := Gen.blockDefaultDefs } :=
  ⟨default_quotes_ok, fun d hd => ⟨d, hd, rfl, rfl, rfl, rfl, rfl, rfl⟩⟩

/-- `document.init()` establishes the invariant from any state -/
theorem documentInit_any (s : Session) : wpE documentInit (fun _ s' => Inv s') Allowed s := by
  unfold documentInit
  apply wpE_modify
  exact Inv.of_eq (Inv.defaults s) rfl rfl

@[hspec] theorem documentInit_ok : Ok documentInit := fun s _ => documentInit_any s

theorem setOption_ok (name : Str) (v : PyVal) : Ok (setOption name v) := by
  intro s hI
  unfold setOption
  hoare

theorem setOptionInDocument_ok (name : Str) (v : PyVal) : Ok (setOptionInDocument name v) := by
  have h := setOption_ok
  intro s hI
  unfold setOptionInDocument
  hoare

theorem updateFrom_ok (o : RenderOptions) : Ok (updateFrom o) := by
  have h := setOption_ok
  intro s hI
  unfold updateFrom
  hoare

/-! ## line blocks -/

section
variable (rec : Rec) (env : Env) (hs : ∀ x, Ok (rec.spans x))
include hs

theorem verifyMacroLine_ok (mt : Match) (r : Reader) (hr : r.More) :
    OkR (verifyMacroLine rec env mt r) (fun res => res.2.More) := by
  have hm := macrosRender_ok rec env hs
  have hi := fun l d => pc_insertExpansion r l d hr
  intro s hI
  unfold verifyMacroLine
  hoare

omit hs in
/-- the text of a group whose bodies all consume a character is not empty -/
theorem group_nonempty {m : Match} {p : Pat} (hm : m.Of p) {i : Nat} (hi : i ≠ 0) (hr : groupAll nonEmptyBody i p.re = true)
    {g : Str} (hg : m.res.group m.inp i = some g) : g ≠ [] := by
  obtain ⟨hn, hM, hst⟩ := hm
  have hsat := hM.capSat (P := fun a b => a < b ∧ b ≤ m.inp.size) (chk := nonEmptyBody) (i := i)
    (fun body pos caps p c hc hp hmm => ⟨nonEmptyBody_sound body pos caps p c hc hmm, (hmm.bounds hp).2⟩)
    hst hr (capSat_init _ _ _)
  obtain ⟨a, b, hab, rfl⟩ := group_span hi hg
  obtain ⟨h1, h2⟩ := hsat a b hab
  exact slice_length_pos h1 h2

theorem lineFilter_ok (d : LineDef) (mt : Match) (hm : mt.Of d.pat)
    (hg : ∀ i ∈ Facts.lineFilterGroups d.filter, d.pat.Sets i = true)
    (hq : d.filter = .quoteDef → groupAll nonEmptyBody 1 d.pat.re = true) : Ok (lineFilter rec env d mt) := by
  have hri := replaceInline_ok rec env hs
  have hrm := replaceMatch_ok rec env hs
  have hbs := blockSetDefinition_ok
  have hsl := slugify_ok
  have hso := setOptionInDocument_ok
  have hqs := quotesSetDefinition_ok
  have hstr : ∀ i, i ∈ Facts.lineFilterGroups d.filter → ∀ site s,
      ∃ a, (mt.str i site).run s = .ok (a, s) ∧ mt.res.group mt.inp i = some a := fun i hi => pc_str hm (hg i hi)
  intro s hI
  unfold lineFilter
  cases hf : d.filter <;> simp only [hf, Facts.lineFilterGroups] at hstr hq ⊢
  · hoare
  · hoare
  · have s1 := hstr 1 (by simp); have s2 := hstr 2 (by simp); clear hstr
    hoare
  · have s1 := hstr 1 (by simp); have s2 := hstr 2 (by simp); have s3 := hstr 3 (by simp); have s4 := hstr 4 (by simp)
    clear hstr
    have hne : ∀ g, mt.res.group mt.inp 1 = some g → g ≠ [] := fun g hg1 => group_nonempty hm (by decide) (hq trivial) hg1
    hoare
  · have s1 := hstr 1 (by simp); have s2 := hstr 2 (by simp); have s3 := hstr 3 (by simp); clear hstr
    hoare
  · have s1 := hstr 1 (by simp); have s2 := hstr 2 (by simp); clear hstr
    hoare
  · have s1 := hstr 1 (by simp); have s2 := hstr 2 (by simp); clear hstr
    hoare
  · hoare
  · have s1 := hstr 1 (by simp); have s2 := hstr 2 (by simp); clear hstr
    hoare

omit hs in
/-- what the line-block rules need of a definition: its filter's groups take part in every match, and the quote of a
    quote definition is not empty -/
def LineDefOk (d : LineDef) : Prop :=
  ((∀ i ∈ Facts.lineFilterGroups d.filter, d.pat.Sets i = true) ∧ (d.filter = .quoteDef → groupAll nonEmptyBody 1 d.pat.re = true)) ∧
  1 ≤ minLen d.pat.re

omit hs in
theorem lineDefs_ok : ∀ d ∈ Gen.lineDefs, LineDefOk d := by
  have h1 := Facts.lineDefs_set
  have h2 : Gen.lineDefs.all (fun d => d.filter != .quoteDef || groupAll nonEmptyBody 1 d.pat.re) = true := by decide +kernel
  intro d hd
  refine ⟨⟨?_, ?_⟩, ?_⟩
  · intro i hi
    exact List.all_eq_true.mp (List.all_eq_true.mp h1 d hd) i hi
  · intro hf
    have := List.all_eq_true.mp h2 d hd
    simpa [hf] using this
  · have := List.all_eq_true.mp Facts.lineDefs_minLen d hd
    simpa using this

/-- a rule set that did not take the line leaves a reader that is not at end of input -/
@[reducible] def StillMore {β : Type} (res : Bool × Reader × β) : Prop := res.1 = false → res.2.1.More

theorem lineblocksGo_ok (allowed : List Str) : ∀ defs, (∀ d ∈ defs, LineDefOk d) → ∀ r w, r.More →
    OkR (lineblocksGo rec env allowed defs r w) StillMore := by
  have h2 := battrParse_ok rec env hs
  have h3 := pc_cursor
  have h4 := pc_unescape
  have h5 := injectHtmlAttributes_ok
  intro defs
  induction defs with
  | nil => intro _ r w hr s hI; unfold lineblocksGo; hoare
  | cons d rest ih =>
    intro hd r w hr
    have h1 := fun mt => verifyMacroLine_ok rec env hs mt r hr
    have ih' := ih (fun x hx => hd x (List.mem_cons_of_mem _ hx))
    have hdo := hd d List.mem_cons_self
    have hof : ∀ cur mt, d.pat.search cur = some mt → mt.Of d.pat := fun _ _ h => Pat.search_of (Nat.zero_le _) h
    have hlf : ∀ mt, mt.Of d.pat → Ok (lineFilter rec env d mt) := fun mt h => lineFilter_ok rec env hs d mt h hdo.1.1 hdo.1.2
    intro s hI
    unfold lineblocksGo
    hoare_go
    all_goals (try (first | inv_leaf | assumption))
    all_goals first
      -- `match[0][0]`: no line-block pattern matches the empty string
      | exact absurd (by assumption) (whole_ne_nil (hof _ _ (by assumption)) hdo.2)
      | post_leaf
      | trace_state

theorem lineblocksRender_ok (r : Reader) (w : Writer) (allowed : List Str) (hr : r.More) :
    OkR (lineblocksRender rec env r w allowed) StillMore := by
  have h := lineblocksGo_ok rec env hs allowed Gen.lineDefs lineDefs_ok
  intro s hI
  unfold lineblocksRender
  hoare_go
  all_goals (try (first | inv_leaf | assumption))
  all_goals first
    | post_leaf
    | trace_state

end

/-! ## delimited blocks -/

/-- what the delimited-block rules need of a definition (a function of its shape) -/
def blockDefOk (d : BlockDef) : Bool :=
  (Facts.blockOpenGroups d).all d.openMatch.Sets &&
  (decide (d.closeMatch.ngroups = 0) || d.closeMatch.Sets 1) &&
  (d.name == "paragraph".toList || decide (1 ≤ minLen d.openMatch.re)) &&
  (d.verify != .code || groupAll nonEmptyBody 1 d.openMatch.re) &&
  (d.verify != .html || decide (2 ≤ d.openMatch.ngroups))

theorem blockDefOk_congr {d d0 : BlockDef} (h : d.SameShape d0) : blockDefOk d = blockDefOk d0 := by
  obtain ⟨h1, h2, h3, h4, h5, _⟩ := h
  unfold blockDefOk Facts.blockOpenGroups
  rw [h1, h2, h3, h4, h5]

structure BlockDefOk (d : BlockDef) : Prop where
  groups : ∀ i ∈ Facts.blockOpenGroups d, d.openMatch.Sets i = true
  close : d.closeMatch.ngroups = 0 ∨ d.closeMatch.Sets 1 = true
  minlen : (d.name == "paragraph".toList) = false → 1 ≤ minLen d.openMatch.re
  code : d.verify = .code → groupAll nonEmptyBody 1 d.openMatch.re = true
  html : d.verify = .html → 2 ≤ d.openMatch.ngroups

theorem BlockDefOk.of_bool {d : BlockDef} (h : blockDefOk d = true) : BlockDefOk d := by
  unfold blockDefOk at h
  simp only [Bool.and_eq_true, Bool.or_eq_true, decide_eq_true_eq, bne_iff_ne, ne_eq] at h
  obtain ⟨⟨⟨⟨h1, h2⟩, h3⟩, h4⟩, h5⟩ := h
  refine ⟨fun i hi => List.all_eq_true.mp h1 i hi, h2, ?_, ?_, ?_⟩
  · intro hp
    rcases h3 with h | h
    · rw [hp] at h; cases h
    · exact h
  · intro hv
    rcases h4 with h | h
    · exact absurd hv h
    · exact h
  · intro hv
    rcases h5 with h | h
    · exact absurd hv h
    · exact h

theorem Inv.blockOk {s : Session} (hI : Inv s) : ∀ d ∈ s.blockDefs, BlockDefOk d := by
  have hall : Gen.blockDefaultDefs.all blockDefOk = true := by decide +kernel
  intro d hd
  obtain ⟨d0, hd0, hsh⟩ := hI.2 d hd
  refine BlockDefOk.of_bool ?_
  rw [blockDefOk_congr hsh]
  exact List.all_eq_true.mp hall d0 hd0

theorem mapM_ok {α β : Type} {f : α → M β} (hf : ∀ a, Ok (f a)) : ∀ l : List α, Ok (l.mapM f) := by
  intro l
  induction l with
  | nil => intro s hI; rw [List.mapM_nil]; hoare
  | cons a l ih => intro s hI; rw [List.mapM_cons]; hoare

theorem indentedContentFilter_ok (t : Str) : Ok (indentedContentFilter t) := by
  intro s hI
  unfold indentedContentFilter
  hoare_go
  all_goals (try hoare_leaf)
  refine wpE_mono (mapM_ok ?_ _ s hI) ?_
  · intro line s1 hI1
    hoare
  · intro a s1 h1
    hoare

section
variable (rec : Rec) (env : Env) (hs : ∀ x, Ok (rec.spans x)) (hdoc : ∀ d x, Ok (rec.document d x))
include hs

theorem macroDefContentFilter_ok (text : Str) (mt : Match) (e : Expand) : Ok (macroDefContentFilter rec env text mt e) := by
  have hr := replaceInline_ok rec env hs
  have h1 : ∀ (t : Str) (m : Match), Gen.P.delimitedblocks_macroDefContentFilter_0.search t = some m → ∀ site s,
      ∃ a, (m.str 1 site).run s = .ok (a, s) ∧ m.res.group m.inp 1 = some a :=
    fun t m h => pc_str (Pat.search_of (Nat.zero_le _) h) (by decide +kernel)
  intro s hI
  unfold macroDefContentFilter
  hoare

omit hs in
theorem unterminatedCheck_ok (d : BlockDef) (mt : Match) (r : Reader) : Ok (unterminatedCheck d mt r) := by
  intro s hI
  unfold unterminatedCheck
  hoare

omit hs in
theorem pc_blockExpand (d : BlockDef) (s : Session) : ∃ a, (blockExpand d).run s = .ok (a, s) := by
  unfold blockExpand
  rw [run_bind, run_get]
  simp only []
  split <;> exact ⟨_, rfl⟩

include hdoc

set_option maxHeartbeats 2000000 in
theorem renderBlockBody_ok (d : BlockDef) (hd : BlockDefOk d) (mt : Match) (hm : mt.Of d.openMatch) (r : Reader) (w : Writer) :
    Ok (renderBlockBody rec env d mt r w) := by
  have hr := replaceInline_ok rec env hs
  have hmd := macroDefContentFilter_ok rec env hs
  have hic := indentedContentFilter_ok
  have huc := unterminatedCheck_ok
  have hbe := pc_blockExpand
  have hrt : ∀ r : Reader, Ok (r.readTo d.closeMatch) := by
    intro r
    exact Reader.readTo_ok r _ hd.close
  have hrt2 : ∀ (r : Reader) (g : Str), Ok (r.readTo (closeOf g)) := fun r g => Reader.readTo_ok r _ (.inl rfl)
  have hia := injectHtmlAttributes_ok
  have hstr : ∀ i, i ∈ Facts.blockOpenGroups d → ∀ site s,
      ∃ a, (mt.str i site).run s = .ok (a, s) ∧ mt.res.group mt.inp i = some a := by
    intro i hi
    exact pc_str hm (hd.groups i hi)
  have s1o : d.delimiterFilter = .opening → ∀ site s,
      ∃ a, (mt.str 1 site).run s = .ok (a, s) ∧ mt.res.group mt.inp 1 = some a :=
    fun hf => hstr 1 (by simp [Facts.blockOpenGroups, hf])
  have s1c : d.delimiterFilter = .classInjection → ∀ site s,
      ∃ a, (mt.str 1 site).run s = .ok (a, s) ∧ mt.res.group mt.inp 1 = some a :=
    fun hf => hstr 1 (by simp [Facts.blockOpenGroups, hf])
  have s2c : d.delimiterFilter = .classInjection → ∀ site s,
      ∃ a, (mt.str 2 site).run s = .ok (a, s) ∧ mt.res.group mt.inp 2 = some a :=
    fun hf => hstr 2 (by simp [Facts.blockOpenGroups, hf])
  clear hstr
  intro s hI
  unfold renderBlockBody
  hoare

theorem renderBlock_ok (d : BlockDef) (hd : BlockDefOk d) (mt : Match) (hm : mt.Of d.openMatch) (r : Reader) (w : Writer) :
    Ok (renderBlock rec env d mt r w) := by
  have hb := renderBlockBody_ok rec env hs hdoc d hd mt hm
  intro s hI
  unfold renderBlock
  hoare

omit hs hdoc in
theorem htmlVerify_ok (mt : Match) (h : 2 ≤ mt.ngroups) : Ok (htmlVerify mt) := by
  have h2 := pc_orEmpty mt 2 h
  intro s hI
  unfold htmlVerify
  hoare

theorem delimitedGo_ok (allowed : List Str) : ∀ defs, (∀ d ∈ defs, BlockDefOk d) → ∀ r w, r.More →
    OkR (delimitedGo rec env allowed defs r w) StillMore := by
  have h3 := pc_cursor
  have h4 := pc_unescape
  intro defs
  induction defs with
  | nil => intro _ r w hr s hI; unfold delimitedGo; hoare
  | cons d rest ih =>
    intro hd r w hr
    have ih' := ih (fun x hx => hd x (List.mem_cons_of_mem _ hx))
    have hdo := hd d List.mem_cons_self
    have hof : ∀ cur mt, d.openMatch.search cur = some mt → mt.Of d.openMatch := fun _ _ h => Pat.search_of (Nat.zero_le _) h
    have hrb : ∀ mt, mt.Of d.openMatch → ∀ r w, Ok (renderBlock rec env d mt r w) :=
      fun mt h => renderBlock_ok rec env hs hdoc d hdo mt h
    have hhv : d.verify = .html → ∀ mt : Match, mt.Of d.openMatch → Ok (htmlVerify mt) := by
      intro hv mt hmo
      refine htmlVerify_ok mt ?_
      rw [hmo.1]; exact hdo.html hv
    have hc1 : d.verify = .code → ∀ mt : Match, mt.Of d.openMatch → ∀ site s,
        ∃ a, (mt.str 1 site).run s = .ok (a, s) ∧ mt.res.group mt.inp 1 = some a := by
      intro hv mt hmo
      exact pc_str hmo (hdo.groups 1 (by simp [Facts.blockOpenGroups, hv]))
    have hc2 : d.verify = .code → ∀ mt : Match, mt.Of d.openMatch → ∀ site s,
        ∃ a, (mt.str 2 site).run s = .ok (a, s) ∧ mt.res.group mt.inp 2 = some a := by
      intro hv mt hmo
      exact pc_str hmo (hdo.groups 2 (by simp [Facts.blockOpenGroups, hv]))
    have hne : d.verify = .code → ∀ mt : Match, mt.Of d.openMatch → ∀ g, mt.res.group mt.inp 1 = some g → g ≠ [] := by
      intro hv mt hmo g hg
      exact group_nonempty hmo (by decide) (hdo.code hv) hg
    intro s hI
    have hwh : (d.name == "paragraph".toList) = false → ∀ mt : Match, mt.Of d.openMatch → mt.whole ≠ [] := by
      intro hp mt hmo
      exact whole_ne_nil hmo (hdo.minlen hp)
    unfold delimitedGo
    hoare_go
    all_goals (try (first | inv_leaf | assumption))
    all_goals first
      -- `match[1][0]`: the fence of a code block is not empty
      | exact absurd rfl (hne (by assumption) _ (hof _ _ (by assumption)) _ (by assumption))
      -- `match[0][0]`: the opening line of every block but a paragraph is not empty
      | (by_cases hp : (d.name == "paragraph".toList) = true
         · rw [if_pos hp]; rfl
         · exact absurd (by assumption) (hwh (by simpa using hp) _ (hof _ _ (by assumption))))
      | post_leaf
      | trace_state

theorem delimitedRender_ok (r : Reader) (w : Writer) (allowed : List Str) (hr : r.More) :
    OkR (delimitedRender rec env r w allowed) StillMore := by
  have hgo := delimitedGo_ok rec env hs hdoc allowed
  have hbo := @Inv.blockOk
  intro s hI
  unfold delimitedRender
  hoare_go
  all_goals (try (first | inv_leaf | assumption))
  all_goals first
    | post_leaf
    | trace_state

/-! ## lists -/

omit hs hdoc in
/-- the groups that the list rules read: the marker (last but one), the text (last), the term of a definition list -/
def listDefOk (d : ListDef) : Bool :=
  d.pat.Sets (d.pat.ngroups - 1) && d.pat.Sets d.pat.ngroups && (d.termOpenTag == [] || d.pat.Sets 1) &&
  decide (1 ≤ minLen d.pat.re)

omit hs hdoc in
theorem listDefs_ok : ∀ d ∈ Gen.listDefs, listDefOk d = true := by
  have h : Gen.listDefs.all listDefOk = true := by decide +kernel
  exact fun d hd => List.all_eq_true.mp h d hd

/-- an item carries a match of its definition's pattern -/
def ItemInfo.Ok (item : ItemInfo) : Prop := item.mt.Of item.listdef.pat ∧ listDefOk item.listdef = true

/-- what `matchItem` returns: an item of its definition (if any) and a reader that is not at end of input -/
@[reducible] def ItemRes (res : Option ItemInfo × Reader) : Prop := (∀ item, res.1 = some item → item.Ok) ∧ res.2.More

omit hs hdoc in
theorem matchItem_go_ok : ∀ defs, (∀ d ∈ defs, listDefOk d = true) → ∀ r, r.More → OkR (matchItem.go defs r) ItemRes := by
  have h3 := pc_cursor
  have h4 := pc_unescape
  intro defs
  induction defs with
  | nil =>
    intro _ r hr s hI; unfold matchItem.go; hoare_go
    item_none_leaf
  | cons d rest ih =>
    intro hd r hr
    have ih' := ih (fun x hx => hd x (List.mem_cons_of_mem _ hx))
    have hdo := hd d List.mem_cons_self
    have hof : ∀ cur mt, d.pat.search cur = some mt → mt.Of d.pat := fun _ _ h => Pat.search_of (Nat.zero_le _) h
    have hstr : ∀ mt : Match, mt.Of d.pat → ∀ site s,
        ∃ a, (mt.str (mt.ngroups - 1) site).run s = .ok (a, s) ∧ mt.res.group mt.inp (mt.ngroups - 1) = some a := by
      intro mt hmo
      rw [hmo.1]
      unfold listDefOk at hdo
      simp only [Bool.and_eq_true] at hdo
      exact pc_str hmo hdo.1.1.1
    intro s hI
    have hwh : ∀ mt : Match, mt.Of d.pat → mt.whole ≠ [] := by
      intro mt hmo
      unfold listDefOk at hdo
      simp only [Bool.and_eq_true, decide_eq_true_eq] at hdo
      exact whole_ne_nil hmo hdo.2
    unfold matchItem.go
    hoare_go
    all_goals (try (first | inv_leaf | assumption))
    all_goals first
      -- `match[0][0]`: no list pattern matches the empty string
      | exact absurd (by assumption) (hwh _ (hof _ _ (by assumption)))
      | exact ⟨by assumption, by assumption⟩
      | exact ⟨by assumption, by assumption, by assumption⟩
      | item_none_leaf
      | (refine ⟨by assumption, ?_, hr⟩
         intro item h; cases h
         unfold ItemInfo.Ok
         exact ⟨hof _ _ (by assumption), hdo⟩)
      | trace_state
    · unfold ItemInfo.Ok
      exact ⟨hof _ _ (by assumption), hdo⟩

omit hs hdoc in
theorem matchItem_ok (r : Reader) (hr : r.More) : OkR (matchItem r) ItemRes := by
  have h := matchItem_go_ok Gen.listDefs listDefs_ok
  intro s hI
  unfold matchItem
  hoare_go
  all_goals (try (first | inv_leaf | assumption))
  all_goals first
    | exact ⟨by assumption, by assumption⟩
    | exact ⟨by assumption, by assumption, by assumption⟩
    | item_none_leaf
    | trace_state

/-- what `consumeBlockAttributes` returns: unless it reports end of input (-1) the reader is not at end of input -/
@[reducible] def BlanksRes {β : Type} (res : Int × Reader × β) : Prop := res.1 ≠ -1 → res.2.1.More

omit hdoc in
theorem consumeBlockAttributes_ok : ∀ fuel blanks r w, OkR (consumeBlockAttributes rec env fuel blanks r w) BlanksRes := by
  have h1 := lineblocksRender_ok rec env hs
  have h2 := pc_cursor
  have hnb := not_true_false
  intro fuel
  induction fuel with
  | zero => intro b r w s hI; unfold consumeBlockAttributes; hoare
  | succ n ih =>
    intro b r w s hI; unfold consumeBlockAttributes
    hoare_go
    all_goals (try (first | inv_leaf | assumption))
    all_goals first
      | exact ⟨by assumption, by assumption⟩
      | exact ⟨by assumption, fun h => absurd rfl h⟩
      | (refine ⟨by assumption, fun _ => ?_⟩; solve_by_elim)
      | trace_state

/-- what the four mutually recursive list functions return as "next item" is again an item of its definition -/
@[reducible] def NextOk {β : Type} (res : Option ItemInfo × β) : Prop := ∀ n, res.1 = some n → n.Ok

omit hs hdoc in
theorem ItemInfo.Ok.text {item : ItemInfo} (h : item.Ok) : ∀ site s,
    ∃ a, (item.mt.str item.mt.ngroups site).run s = .ok (a, s) ∧ item.mt.res.group item.mt.inp item.mt.ngroups = some a := by
  obtain ⟨hmo, hd⟩ := h
  rw [hmo.1]
  unfold listDefOk at hd
  simp only [Bool.and_eq_true] at hd
  exact pc_str hmo hd.1.1.2

omit hs hdoc in
theorem ItemInfo.Ok.term {item : ItemInfo} (h : item.Ok) (ht : (item.listdef.termOpenTag != []) = true) : ∀ site s,
    ∃ a, (item.mt.str 1 site).run s = .ok (a, s) ∧ item.mt.res.group item.mt.inp 1 = some a := by
  obtain ⟨hmo, hd⟩ := h
  unfold listDefOk at hd
  simp only [Bool.and_eq_true, Bool.or_eq_true] at hd
  rcases hd.1.2 with h0 | h1
  · simp_all
  · exact pc_str hmo h1

/-! ### the stack of open list ids

Every function that the list functions call either keeps the stack (`Pres KeepIds`, `Lemmas/KeepIds.lean`) or is a
delimited-block render around which `renderItemLoop` saves and restores it.  With the stack as a ghost parameter of the
four specifications, `ids.pop()` in `renderListLoop` always finds the id that `renderList` pushed. -/

omit hs hdoc in
/-- a specification together with the fact that the stack is kept -/
theorem OkR.keep {α : Type} {act : M α} {R : α → Prop} (h : OkR act R) (hk : Pres KeepIds act) :
    ∀ s, Inv s → wpE act (fun a s' => Inv s' ∧ R a ∧ s'.listIds = s.listIds) Allowed s := by
  intro s hI
  have h1 := h s hI
  unfold wpE at h1 ⊢
  split
  · next a s' hr => rw [hr] at h1; exact ⟨h1.1, h1.2, hk s a s' hr⟩
  · next e hr => rw [hr] at h1; exact h1

omit hs hdoc in
theorem Ok.keep {α : Type} {act : M α} (h : Ok act) (hk : Pres KeepIds act) :
    ∀ s, Inv s → wpE act (fun _ s' => Inv s' ∧ s'.listIds = s.listIds) Allowed s := by
  intro s hI
  have h1 := h s hI
  unfold wpE at h1 ⊢
  split
  · next a s' hr => rw [hr] at h1; exact ⟨h1, hk s a s' hr⟩
  · next e hr => rw [hr] at h1; exact h1

omit hs hdoc in
/-- a write that keeps the invariant: the new state is forgotten except for that and for its stack of list ids -/
theorem wpE_modify_ids {Q : Unit → Session → Prop} {E : PyErr → Prop} {s : Session} (f : Session → Session)
    (h : Inv (f s)) (k : ∀ s1, Inv s1 → s1.listIds = (f s).listIds → Q () s1) : wpE (modify f : M Unit) Q E s :=
  wpE_modify f (k _ h rfl)

open Lean Elab Tactic Meta in
/-- rewrite the most recent equation about a stack of list ids with the older ones: every state then has its stack
    expressed by the ghost parameter -/
elab "ids_norm" : tactic => withMainContext do
  let isIds (t : Expr) : Bool :=
    match t.eq? with
    | some (_, lhs, _) => lhs.isAppOfArity ``Rimu.Session.listIds 1
    | none => false
  let mut eqs : Array LocalDecl := #[]
  for d in ← getLCtx do
    if d.isImplementationDetail then continue
    let t := (← instantiateMVars d.type).consumeMData
    if isIds t then eqs := eqs.push d
  if eqs.size < 2 then return
  let last := eqs.back!
  let mut terms : Array (TSyntax `term) := #[]
  for d in eqs.pop do
    terms := terms.push ⟨← Term.exprToSyntax (.fvar d.fvarId)⟩
  let lastId := mkIdent last.userName
  let lastStx : TSyntax `term := ⟨← Term.exprToSyntax (.fvar last.fvarId)⟩
  let g ← getMainGoal
  -- `simp only [eqs..., List.dropLast_concat] at last`, through a fresh copy so that inaccessible names do not matter
  let ty ← instantiateMVars last.type
  let stxTy ← Term.exprToSyntax ty
  try
    evalTactic (← `(tactic| (have hids_new : $stxTy := $lastStx
                             simp only [$[$terms:term],*, List.dropLast_concat, List.dropLast_nil] at hids_new)))
  catch _ => pure ()
  let _ := lastId
  let _ := g

macro_rules | `(tactic| hoare_modify) => `(tactic| (refine wpE_modify_ids _ (by inv_leaf) ?k; intro _ _ hids; dsimp only at hids; ids_norm))
macro_rules | `(tactic| hoare_after) => `(tactic| ids_norm)

/-- the equation about the final stack, from the chain of equations in the context -/
macro "ids_close" : tactic => `(tactic| first
  | assumption
  | (simp only [*]; done)
  | (simp_all; done))

/-- postconditions of the list functions: invariant, next item, stack -/
macro "lists_leaf" : tactic => `(tactic| first
  | exact ⟨by assumption, by assumption, by ids_close⟩
  | (refine ⟨by assumption, ?_, by ids_close⟩; intro n h; cases h)
  | (refine ⟨by assumption, ?_, by ids_close⟩; intro n h; cases h; solve_by_elim)
  | (exfalso; simp_all; done))

set_option maxHeartbeats 4000000 in
theorem lists_ok (hsf : ∀ x, Pres Frame (rec.spans x)) : ∀ fuel,
    (∀ item r w L, item.Ok → ∀ s, Inv s → s.listIds = L →
      wpE (renderList rec env fuel item r w) (fun a s' => Inv s' ∧ NextOk a ∧ s'.listIds = L) Allowed s) ∧
    (∀ item r w L y, item.Ok → ∀ s, Inv s → s.listIds = L ++ [y] →
      wpE (renderListLoop rec env fuel item r w) (fun a s' => Inv s' ∧ NextOk a ∧ s'.listIds = L) Allowed s) ∧
    (∀ item r w L, item.Ok → ∀ s, Inv s → s.listIds = L →
      wpE (renderListItem rec env fuel item r w) (fun a s' => Inv s' ∧ NextOk a ∧ s'.listIds = L) Allowed s) ∧
    (∀ r il al ad L, ∀ s, Inv s → s.listIds = L →
      wpE (renderItemLoop rec env fuel r il al ad) (fun a s' => Inv s' ∧ NextOk a ∧ s'.listIds = L) Allowed s) := by
  have hia := fun tag consume => (injectHtmlAttributes_ok tag consume).keep (injectHtmlAttributes_keep tag consume)
  have hri := fun t e => (replaceInline_ok rec env hs t e).keep (replaceInline_frame rec env hsf t e).keepIds
  have hcb := fun f b r w => (consumeBlockAttributes_ok rec env hs f b r w).keep (consumeBlockAttributes_keep rec env hsf f b r w)
  have hmi := fun r hr => (matchItem_ok r hr).keep (matchItem_frame r).keepIds
  have hdr := delimitedRender_ok rec env hs hdoc
  have hcu := pc_cursor
  have hnb := not_true_false
  have hbl : ∀ bl : Int, ¬ (decide (bl ≥ 2) || bl == -1) = true → bl ≠ -1 := by
    intro bl h hb; subst hb; simp at h
  have htext := @ItemInfo.Ok.text
  have hterm := @ItemInfo.Ok.term
  intro fuel
  induction fuel with
  | zero =>
    refine ⟨?_, ?_, ?_, ?_⟩
    · intro item r w L _ s hI hL; unfold renderList; hoare
    · intro item r w L y _ s hI hL; unfold renderListLoop; hoare
    · intro item r w L _ s hI hL; unfold renderListItem; hoare
    · intro r il al ad L s hI hL; unfold renderItemLoop; hoare
  | succ n ih =>
    obtain ⟨ih1, ih2, ih3, ih4⟩ := ih
    refine ⟨?_, ?_, ?_, ?_⟩
    · intro item r w L hit s hI hL; unfold renderList
      hoare_go
      all_goals (try (first | inv_leaf | assumption))
      all_goals first
        | lists_leaf
        | trace_state
    · intro item r w L y hit s hI hL; unfold renderListLoop
      hoare_go
      all_goals (try (first | inv_leaf | assumption))
      all_goals first
        | lists_leaf
        | trace_state
    · intro item r w L hit s hI hL; unfold renderListItem
      hoare_go
      all_goals (try (first | inv_leaf | assumption))
      all_goals first
        | lists_leaf
        | trace_state
    · intro r il al ad L s hI hL; unfold renderItemLoop
      hoare_go
      all_goals (try (first | inv_leaf | assumption))
      all_goals first
        | lists_leaf
        | trace_state

theorem listsRender_ok (hsf : ∀ x, Pres Frame (rec.spans x)) (fuel : Nat) (r : Reader) (w : Writer) (hr : r.More) :
    OkR (listsRender rec env fuel r w) StillMore := by
  have hmi := matchItem_ok r hr
  have hrl : ∀ item r w, item.Ok → ∀ s, Inv s → s.listIds = [] →
      wpE (renderList rec env fuel item r w) (fun a s' => Inv s' ∧ NextOk a ∧ s'.listIds = []) Allowed s :=
    fun item r w hit => (lists_ok rec env hs hdoc hsf fuel).1 item r w [] hit
  intro s hI
  unfold listsRender
  hoare_go
  all_goals (try (first | inv_leaf | assumption))
  all_goals first
    | exact ⟨by assumption, fun _ => by assumption⟩
    | exact ⟨by assumption, fun h => by cases h⟩
    | trace_state

-- the list-id bookkeeping of the tactic is switched off again
macro_rules | `(tactic| hoare_modify) => `(tactic| (refine wpE_modify_inv _ (by inv_leaf) ?k; intro _ _))
macro_rules | `(tactic| hoare_after) => `(tactic| skip)

theorem documentLoop_ok (hsf : ∀ x, Pres Frame (rec.spans x)) : ∀ fuel r w, Ok (documentLoop rec env fuel r w) := by
  have h1 := lineblocksRender_ok rec env hs
  have h2 := listsRender_ok rec env hs hdoc hsf
  have h3 := delimitedRender_ok rec env hs hdoc
  have hnb := not_true_false
  intro fuel
  induction fuel with
  | zero => intro r w s hI; unfold documentLoop; hoare
  | succ n ih => intro r w s hI; unfold documentLoop; hoare

theorem documentRender_ok (hsf : ∀ x, Pres Frame (rec.spans x)) (fuel : Nat) (source : Str) (d : Depth) :
    Ok (documentRender rec env fuel source d) := by
  have h := documentLoop_ok rec env hs hdoc hsf
  intro s hI
  unfold documentRender
  hoare

end

/-! ## the knot, and the API -/

theorem mkRec_ok (env : Env) : ∀ n, (∀ x, Ok ((mkRec env n).spans x)) ∧ (∀ d x, Ok ((mkRec env n).document d x)) := by
  intro n
  induction n with
  | zero =>
    refine ⟨?_, ?_⟩
    · intro x s hI; unfold mkRec; exact wpE_raise _ rfl
    · intro d x s hI; unfold mkRec; exact wpE_raise _ rfl
  | succ n ih =>
    refine ⟨?_, ?_⟩
    · intro x; unfold mkRec; exact spansRender_ok _ env ih.1 x
    · intro d x; unfold mkRec; exact documentRender_ok _ env ih.1 ih.2 (mkRec_spec env n).1 (n + 1) x d

/-- **From a session that satisfies the invariant - or from a freshly imported package - a `render` call returns in a
    session that satisfies it, or ends in an `Allowed` outcome.** -/
theorem apiRender_ok (env : Env) (fuel : Nat) (source : Str) (opts : RenderOptions) (s : Session)
    (h : s.safeMode = -1 ∨ Inv s) : wpE (apiRender env fuel source opts) (fun _ s' => Inv s') Allowed s := by
  have hu := updateFrom_ok opts
  have hd := (mkRec_ok env fuel).2 0 source
  unfold apiRender
  apply wpE_bind
  apply wpE_get
  by_cases hm : s.safeMode = -1
  · simp only [hm, beq_self_eq_true, if_true]
    apply wpE_bind
    refine wpE_mono (documentInit_any s) ?_
    intro _ s1 hI1
    hoare
  · have hI : Inv s := h.resolve_left hm
    have hne : (s.safeMode == -1) = false := by simpa using hm
    simp only [hne]
    hoare

end Rimu
