import RimuProofs.Lemmas.Wp
import RimuProofs.Lemmas.Attr
import Lean

/-!
# Which exceptions a program can raise

`Safe E act`: every exception that `act` can raise, from any state, satisfies `E`.  Closed under the monadic
combinators without any reasoning about states, so it can be pushed through the model's code by a simple tactic.
-/

namespace Rimu

def Safe {α : Type} (E : PyErr → Prop) (act : M α) : Prop :=
  ∀ s e, act.run s = .error e → E e

variable {E : PyErr → Prop}

theorem Safe.pure {α} (a : α) : Safe E (pure a : M α) := by
  intro s e h; cases h

theorem Safe.bind {α β} {x : M α} {f : α → M β} (hx : Safe E x) (hf : ∀ a, Safe E (f a)) : Safe E (x >>= f) := by
  intro s e h
  simp only [Bind.bind, StateT.bind, StateT.run] at h
  cases hxr : x s with
  | error e' =>
    simp only [hxr, Except.bind] at h
    injection h with h
    subst h
    exact hx s _ hxr
  | ok r =>
    obtain ⟨a, s1⟩ := r
    simp only [hxr, Except.bind] at h
    exact hf a s1 e h

theorem Safe.raise {α} {e : PyErr} (h : E e) : Safe E (raise e : M α) := by
  intro s e' hr
  have : e' = e := by
    simp [Rimu.raise, throw, throwThe, MonadExceptOf.throw, StateT.run, StateT.lift, Except.bind, Bind.bind] at hr
    exact hr.symm
  subst this; exact h

theorem Safe.get : Safe E (get : M Session) := by intro s e h; cases h
theorem Safe.modify (f : Session → Session) : Safe E (modify f : M Unit) := by intro s e h; cases h
theorem Safe.set (v : Session) : Safe E (set v : M Unit) := by intro s e h; cases h

theorem Safe.mono {α} {E' : PyErr → Prop} {act : M α} (h : Safe E' act) (hi : ∀ e, E' e → E e) : Safe E act :=
  fun s e hr => hi e (h s e hr)

open Lean Elab Tactic Meta

partial def normProgS (e : Expr) : Expr :=
  let e := e.consumeMData.headBeta
  match e with
  | .letE _ _ v b _ => normProgS (b.instantiate1 v)
  | _ => e

/-- One step of pushing `Safe` through a program, by the shape of its head. -/
elab "safe_step" : tactic => withMainContext do
  let g ← getMainGoal
  let t0 ← instantiateMVars (← g.getType)
  let t := t0.consumeMData.headBeta
  match t.getAppFnArgs with
  | (``Rimu.Safe, #[α, E, act0]) =>
    let act := normProgS act0
    if act != act0 then
      let g' ← g.replaceTargetDefEq (mkAppN t.getAppFn #[α, E, act])
      replaceMainGoal [g']
    let fn := act.getAppFn
    if act.isAppOf ``Bind.bind then
      evalTactic (← `(tactic| apply Safe.bind))
    else if act.isAppOf ``Pure.pure then
      evalTactic (← `(tactic| exact Safe.pure _))
    else if act.isAppOf ``Rimu.raise then
      evalTactic (← `(tactic| exact Safe.raise (by first | decide | simp)))
    else if act.isAppOf ``MonadState.get || act.isAppOf ``getThe || act.isAppOf ``MonadStateOf.get then
      evalTactic (← `(tactic| exact Safe.get))
    else if act.isAppOf ``modify then
      evalTactic (← `(tactic| exact Safe.modify _))
    else if act.isAppOf ``MonadStateOf.set || act.isAppOf ``MonadState.set || act.isAppOf ``set then
      evalTactic (← `(tactic| exact Safe.set _))
    else if act.isAppOf ``ite || act.isAppOf ``dite then
      evalTactic (← `(tactic| split))
    else if (← isMatcherApp act) then
      evalTactic (← `(tactic| split))
    else if fn.isConst || fn.isFVar || fn.isProj then
      evalTactic (← `(tactic| first | assumption | (simp only [safe]; done) | (simp only [*]; done)))
    else
      throwError "safe_step: unrecognised program {act}"
  | _ =>
    if t.isForall then evalTactic (← `(tactic| intro _))
    else throwError "safe_step: not a Safe goal"

macro "safe_go" : tactic => `(tactic| repeat (any_goals safe_step))

end Rimu
