import RimuProofs.Lemmas.NIP
import RimuProofs.Lemmas.Eqns
import RimuProofs.Lemmas.Run
import RimuModel.Block

/-!
# Non-interference of the scratch registers: the inline layer
-/

namespace Rimu
open Py Rx

variable {b : Reg}

@[nip] theorem NIP.errorCallback (msg : Str) : NIP b (errorCallback msg) := by
  unfold Rimu.errorCallback
  apply NIP.modify
  intro s q l
  cases b <;> cases h : s.callback <;> simp [pert, h, List.append_assoc]

@[nip] theorem Match.opt_nip (m : Match) (i : Nat) : NIP b (m.opt i) := by cases b <;> (unfold Match.opt; nip_go)
@[nip] theorem Match.str_nip (m : Match) (i : Nat) (site : String) : NIP b (m.str i site) := by cases b <;> (unfold Match.str; nip_go)
@[nip] theorem Match.orEmpty_nip (m : Match) (i : Nat) : NIP b (m.orEmpty i) := by cases b <;> (unfold Match.orEmpty; nip_go)
@[nip] theorem isSafeModeNz_nip : NIP b isSafeModeNz := by cases b <;> (unfold isSafeModeNz; nip_go)
@[nip] theorem skipMacroDefs_nip : NIP b skipMacroDefs := by cases b <;> (unfold skipMacroDefs; nip_go)
@[nip] theorem skipBlockAttributes_nip : NIP b skipBlockAttributes := by cases b <;> (unfold skipBlockAttributes; nip_go)
@[nip] theorem htmlSafeModeFilter_nip (h : Str) : NIP b (htmlSafeModeFilter h) := by cases b <;> (unfold htmlSafeModeFilter; nip_go)
@[nip] theorem macrosGetValue_nip (n : Str) : NIP b (macrosGetValue n) := by cases b <;> (unfold macrosGetValue; nip_go)
@[nip] theorem macrosSetValue_nip (n v : Str) : NIP b (macrosSetValue n v) := by
  unfold macrosSetValue
  cases b <;> nip_go
  all_goals
    refine NIP.get_bind_rel (fun s q l => ?_)
    dsimp only [pert]
    split
    · split
      · exact ⟨rfl, q, l, rfl⟩
      · exact ⟨rfl, q, l, rfl⟩
    · exact ⟨rfl, q, l, rfl⟩

theorem Pat.subGo_nip {f : Match → M Str} (hf : ∀ m, NIP b (f m)) : ∀ ps, NIP b (Pat.subGo f ps) := by
  intro ps
  induction ps with
  | nil => cases b <;> (unfold Pat.subGo; nip_go)
  | cons p ps ih => obtain ⟨b, mt⟩ := p; cases b <;> (unfold Pat.subGo; nip_go)

theorem Pat.subM_nip (p : Pat) (s : Str) {f : Match → M Str} (hf : ∀ m, NIP b (f m)) : NIP b (p.subM s f) := by
  have h := Pat.subGo_nip hf
  cases b <;> (unfold Pat.subM; nip_go)

@[nip] theorem quotesSetDefinition_nip (q : QuoteDef) : NIP b (quotesSetDefinition q) := by
  unfold quotesSetDefinition
  apply NIP.modify
  intro s q' l
  by_cases h1 : (s.quoteDefs.any fun x => x.quote == q.quote) = true
  · cases b <;> simp only [pert, h1, ↓reduceIte]
  · by_cases h2 : (q.quote.length == 2) = true
    · cases b <;> simp only [pert, h1, h2, Bool.false_eq_true, ↓reduceIte]
    · cases b <;> simp only [pert, h1, h2, Bool.false_eq_true, ↓reduceIte]

@[nip] theorem replSetDefinition_nip (env : Env) (p f r : Str) : NIP b (replSetDefinition env p f r) := by
  unfold replSetDefinition
  cases b <;> nip_go
  all_goals
    apply NIP.modify
    intro s q l
    by_cases h1 : (s.replDefs.any fun x => x.pat.src == p) = true
    · simp only [pert, h1, ↓reduceIte]
    · simp only [pert, h1, Bool.false_eq_true, ↓reduceIte]

section
variable (rec : Rec) (env : Env) (hs : ∀ x, NIP b (rec.spans x))
include hs

theorem paramRepl_nip (pl : List Str) (mr : Match) : NIP b (paramRepl rec pl mr) := by
  cases b <;> (unfold paramRepl; nip_go)

theorem macroRepl_nip (text : Str) (silent simple : Bool) (mt : Match) :
    NIP b (macroRepl rec env text silent simple mt) := by
  have hp := fun pl v => Pat.subM_nip Gen.P.macros_render_2 v (paramRepl_nip rec hs pl)
  cases b <;> (unfold macroRepl; nip_go)

theorem macrosRender_nip (text : Str) (silent : Bool) : NIP b (macrosRender rec env text silent) := by
  have h1 := fun t => Pat.subM_nip Gen.P.macros_render_1 t (macroRepl_nip rec env hs text silent true)
  have h0 := fun t => Pat.subM_nip Gen.P.macros_render_0 t (macroRepl_nip rec env hs text silent false)
  cases b <;> (unfold macrosRender; nip_go)

theorem replaceInline_nip (text : Str) (e : Expand) : NIP b (replaceInline rec env text e) := by
  have hm := macrosRender_nip rec env hs
  cases b <;> (unfold replaceInline; nip_go)

theorem replaceGroupText_nip (g : Str) (sp : Bool) (e : Expand) (ia : Bool) : NIP b (replaceGroupText rec env g sp e ia) := by
  have hr := replaceInline_nip rec env hs
  cases b <;> (unfold replaceGroupText; nip_go)

theorem replaceMatchGroup_nip (mt : Match) (e : Expand) (m : Match) : NIP b (replaceMatchGroup rec env mt e m) := by
  have hr := replaceGroupText_nip rec env hs
  cases b <;> (unfold replaceMatchGroup; nip_go)

theorem replaceMatch_nip (mt : Match) (r : Str) (e : Expand) : NIP b (replaceMatch rec env mt r e) := by
  unfold replaceMatch
  exact Pat.subM_nip _ _ (replaceMatchGroup_nip rec env hs mt e)

theorem replacementText_nip (rdef : ReplDef) (mt : Match) : NIP b (replacementText rec env rdef mt) := by
  have hr := replaceMatch_nip rec env hs
  cases b <;> (unfold replacementText; nip_go)

theorem fragReplacementLoop_nip (rdef : ReplDef) : ∀ fuel text, NIP b (fragReplacementLoop rec env rdef fuel text) := by
  have hr := replacementText_nip rec env hs
  intro fuel
  induction fuel with
  | zero => intro text; cases b <;> (unfold fragReplacementLoop; nip_go)
  | succ n ih => intro text; cases b <;> (unfold fragReplacementLoop; nip_go)

theorem fragReplacement_nip (rdef : ReplDef) (f : Fragment) : NIP b (fragReplacement rec env rdef f) := by
  have hl := fragReplacementLoop_nip rec env hs rdef
  cases b <;> (unfold fragReplacement; nip_go)

theorem fragReplacementAll_nip (rdef : ReplDef) : ∀ fs, NIP b (fragReplacementAll rec env rdef fs) := by
  have hr := fragReplacement_nip rec env hs rdef
  intro fs
  induction fs with
  | nil => cases b <;> (unfold fragReplacementAll; nip_go)
  | cons f fs ih => cases b <;> (unfold fragReplacementAll; nip_go)

theorem fragReplacements_nip : ∀ defs fs, NIP b (fragReplacements rec env defs fs) := by
  have hr := fragReplacementAll_nip rec env hs
  intro defs
  induction defs with
  | nil => intro fs; cases b <;> (unfold fragReplacements; nip_go)
  | cons d ds ih => intro fs; cases b <;> (unfold fragReplacements; nip_go)

end

/-! `spans.render` itself: with the open list ids perturbed (`b = false`) by composition - nothing in it looks at them;
    with the placeholder queue perturbed (`b = true`) because its first action overwrites the queue, so the two runs
    are one and the same from there on. -/

theorem preReplacements_nip (rec : Rec) (env : Env) (hb : b ≠ .saved) (hs : ∀ x, NIP b (rec.spans x)) (text : Str) :
    NIP b (preReplacements rec env text) := by
  have hr := fragReplacements_nip rec env hs
  cases b with
  | saved => exact absurd rfl hb
  | ids => unfold preReplacements; nip_go
  | log => unfold preReplacements; nip_go

theorem postReplacements_nip (hb : b ≠ .saved) : ∀ text, NIP b (postReplacements text) := by
  intro text
  induction text with
  | nil => cases b <;> (unfold postReplacements; nip_go)
  | cons c rest ih =>
    unfold postReplacements
    split
    · refine NIP.get_bind_rel (fun s q l => ?_)
      cases hsv : s.saved with
      | nil =>
        cases b with
        | saved => exact absurd rfl hb
        | ids => simp only [pert, hsv]; rfl
        | log => simp only [pert, hsv]; rfl
      | cons f more =>
        have hk : NIP b (do let t ← postReplacements rest
                            pure ((if c.toNat == 0 then f.text else replaceSpecialChars f.verbatim) ++ t)) := by
          cases b <;> nip_go
        cases b with
        | saved => exact absurd rfl hb
        | ids => simp only [pert, hsv]; exact hk { s with saved := more } q l
        | log => simp only [pert, hsv]; exact hk { s with saved := more } q l
    · cases b <;> nip_go

theorem findQuote_nip (qre : Pat) (text : Str) : ∀ fuel i, NIP b (findQuote qre text fuel i) := by
  intro fuel
  induction fuel with
  | zero => intro i; cases b <;> (unfold findQuote; nip_go)
  | succ n ih => intro i; cases b <;> (unfold findQuote; nip_go)

theorem fragQuoteLoop_nip (defs : List QuoteDef) : ∀ fuel depth text, NIP b (fragQuoteLoop defs fuel depth text) := by
  intro fuel
  induction fuel with
  | zero => intro depth text; cases b <;> (unfold fragQuoteLoop; nip_go)
  | succ n ih =>
    intro depth text
    have hf := findQuote_nip (b := b) (quotesRe defs) text
    cases b <;> (unfold fragQuoteLoop; nip_go)

theorem fragQuote_nip (defs : List QuoteDef) (f : Fragment) : NIP b (fragQuote defs f) := by
  have hl := fragQuoteLoop_nip (b := b) defs
  cases b <;> (unfold fragQuote; nip_go)

theorem spansRender_saved (rec : Rec) (env : Env) (src : Str) (s : Session) (q : List Fragment) :
    (spansRender rec env src).run { s with saved := q } = (spansRender rec env src).run s := by
  unfold spansRender preReplacements
  simp only [bind_assoc, run_bind, run_modify]

theorem spansRender_nip (rec : Rec) (env : Env) (hs : ∀ b x, NIP b (rec.spans x)) (src : Str) :
    NIP b (spansRender rec env src) := by
  cases b with
  | saved =>
    intro s q l
    exact AgreeP.of_eq (spansRender_saved rec env src s q)
  | ids =>
    have hp := preReplacements_nip (b := .ids) rec env (by decide) (hs .ids)
    have hq := fragQuote_nip (b := .ids)
    have ho := postReplacements_nip (b := .ids) (by decide)
    unfold spansRender; nip_go
  | log =>
    have hp := preReplacements_nip (b := .log) rec env (by decide) (hs .log)
    have hq := fragQuote_nip (b := .log)
    have ho := postReplacements_nip (b := .log) (by decide)
    unfold spansRender; nip_go

end Rimu
