import RimuProofs.Lemmas.Tactic

/-!
# The inline layer satisfies the frame condition

Every function of `Base.lean` / `Inline.lean` that runs in the model monad changes nothing but the message log
and the placeholder queue (`Frame`), given that the nested span renderer `rec.spans` does.
-/

namespace Rimu
open Py

/-- start a frame proof: `intro` the states and unfold -/
macro "frame_start" : tactic => `(tactic| (apply Pres.start; intro s0 s hcur))

@[frame] theorem errorCallback_frame (msg : Str) : Pres Frame (errorCallback msg) := by
  frame_start; unfold errorCallback; wp_go; all_goals frame_leaf

@[frame] theorem Match.opt_frame (m : Match) (i : Nat) : Pres Frame (m.opt i) := by
  frame_start; unfold Match.opt; wp_go

@[frame] theorem Match.str_frame (m : Match) (i : Nat) (site : String) : Pres Frame (m.str i site) := by
  frame_start; unfold Match.str; wp_go

@[frame] theorem Match.orEmpty_frame (m : Match) (i : Nat) : Pres Frame (m.orEmpty i) := by
  frame_start; unfold Match.orEmpty; wp_go

theorem Pat.subGo_frame {f : Match → M Str} (hf : ∀ m, Pres Frame (f m)) :
    ∀ ps, Pres Frame (Pat.subGo f ps) := by
  intro ps
  induction ps with
  | nil => frame_start; unfold Pat.subGo; wp_go
  | cons p ps ih =>
    obtain ⟨b, mt⟩ := p
    frame_start; unfold Pat.subGo; wp_go

theorem Pat.subM_frame (p : Pat) (s : Str) {f : Match → M Str} (hf : ∀ m, Pres Frame (f m)) :
    Pres Frame (p.subM s f) := by
  have h := Pat.subGo_frame hf
  frame_start; unfold Pat.subM; wp_go

@[frame] theorem isSafeModeNz_frame : Pres Frame isSafeModeNz := by
  frame_start; unfold isSafeModeNz; wp_go
@[frame] theorem skipMacroDefs_frame : Pres Frame skipMacroDefs := by
  frame_start; unfold skipMacroDefs; wp_go
@[frame] theorem skipBlockAttributes_frame : Pres Frame skipBlockAttributes := by
  frame_start; unfold skipBlockAttributes; wp_go
@[frame] theorem htmlSafeModeFilter_frame (h : Str) : Pres Frame (htmlSafeModeFilter h) := by
  frame_start; unfold htmlSafeModeFilter; wp_go
@[frame] theorem macrosGetValue_frame (n : Str) : Pres Frame (macrosGetValue n) := by
  frame_start; unfold macrosGetValue; wp_go

section
variable (rec : Rec) (env : Env) (hs : ∀ x, Pres Frame (rec.spans x))
include hs

theorem paramRepl_frame (pl : List Str) (mr : Match) : Pres Frame (paramRepl rec pl mr) := by
  frame_start; unfold paramRepl; wp_go

theorem macroRepl_frame (text : Str) (silent simple : Bool) (mt : Match) :
    Pres Frame (macroRepl rec env text silent simple mt) := by
  have hp := fun pl v => Pat.subM_frame Gen.P.macros_render_2 v (paramRepl_frame rec hs pl)
  frame_start; unfold macroRepl; wp_go

theorem macrosRender_frame (text : Str) (silent : Bool) : Pres Frame (macrosRender rec env text silent) := by
  have h1 := fun t => Pat.subM_frame Gen.P.macros_render_1 t (macroRepl_frame rec env hs text silent true)
  have h0 := fun t => Pat.subM_frame Gen.P.macros_render_0 t (macroRepl_frame rec env hs text silent false)
  frame_start; unfold macrosRender; wp_go

theorem replaceInline_frame (text : Str) (e : Expand) : Pres Frame (replaceInline rec env text e) := by
  have hm := macrosRender_frame rec env hs
  frame_start; unfold replaceInline; wp_go

theorem replaceGroupText_frame (g : Str) (sp : Bool) (e : Expand) (ia : Bool) : Pres Frame (replaceGroupText rec env g sp e ia) := by
  have hr := replaceInline_frame rec env hs
  frame_start; unfold replaceGroupText; wp_go

theorem replaceMatchGroup_frame (mt : Match) (e : Expand) (m : Match) :
    Pres Frame (replaceMatchGroup rec env mt e m) := by
  have hr := replaceGroupText_frame rec env hs
  frame_start; unfold replaceMatchGroup; wp_go

theorem replaceMatch_frame (mt : Match) (r : Str) (e : Expand) : Pres Frame (replaceMatch rec env mt r e) := by
  unfold replaceMatch
  exact Pat.subM_frame _ _ (replaceMatchGroup_frame rec env hs mt e)

theorem replacementText_frame (rdef : ReplDef) (mt : Match) : Pres Frame (replacementText rec env rdef mt) := by
  have hr := replaceMatch_frame rec env hs
  frame_start; unfold replacementText; wp_go

theorem fragReplacementLoop_frame (rdef : ReplDef) :
    ∀ fuel text, Pres Frame (fragReplacementLoop rec env rdef fuel text) := by
  have hr := replacementText_frame rec env hs
  intro fuel
  induction fuel with
  | zero => intro text; frame_start; unfold fragReplacementLoop; wp_go
  | succ n ih => intro text; frame_start; unfold fragReplacementLoop; wp_go

theorem fragReplacement_frame (rdef : ReplDef) (f : Fragment) : Pres Frame (fragReplacement rec env rdef f) := by
  have hr := fragReplacementLoop_frame rec env hs rdef
  frame_start; unfold fragReplacement; wp_go

theorem fragReplacementAll_frame (rdef : ReplDef) : ∀ fs, Pres Frame (fragReplacementAll rec env rdef fs) := by
  have hr := fragReplacement_frame rec env hs rdef
  intro fs
  induction fs with
  | nil => frame_start; unfold fragReplacementAll; wp_go
  | cons f fs ih => frame_start; unfold fragReplacementAll; wp_go

theorem fragReplacements_frame : ∀ defs fs, Pres Frame (fragReplacements rec env defs fs) := by
  have hr := fragReplacementAll_frame rec env hs
  intro defs
  induction defs with
  | nil => intro fs; frame_start; unfold fragReplacements; wp_go
  | cons d ds ih => intro fs; frame_start; unfold fragReplacements; wp_go

theorem preReplacements_frame (text : Str) : Pres Frame (preReplacements rec env text) := by
  have hr := fragReplacements_frame rec env hs
  frame_start; unfold preReplacements; wp_go
  all_goals frame_leaf

end

theorem postReplacements_frame : ∀ text, Pres Frame (postReplacements text) := by
  intro text
  induction text with
  | nil => frame_start; unfold postReplacements; wp_go
  | cons c rest ih => frame_start; unfold postReplacements; wp_go; all_goals frame_leaf

theorem findQuote_frame (qre : Pat) (text : Str) : ∀ fuel i, Pres Frame (findQuote qre text fuel i) := by
  intro fuel
  induction fuel with
  | zero => intro i; frame_start; unfold findQuote; wp_go
  | succ n ih => intro i; frame_start; unfold findQuote; wp_go

theorem fragQuoteLoop_frame (defs : List QuoteDef) : ∀ fuel depth text, Pres Frame (fragQuoteLoop defs fuel depth text) := by
  have hf := findQuote_frame
  intro fuel
  induction fuel with
  | zero => intro depth text; frame_start; unfold fragQuoteLoop; wp_go
  | succ n ih => intro depth text; frame_start; unfold fragQuoteLoop; wp_go

theorem fragQuote_frame (defs : List QuoteDef) (f : Fragment) : Pres Frame (fragQuote defs f) := by
  have hf := fragQuoteLoop_frame defs
  frame_start; unfold fragQuote; wp_go

theorem spansRender_frame (rec : Rec) (env : Env) (hs : ∀ x, Pres Frame (rec.spans x)) (src : Str) :
    Pres Frame (spansRender rec env src) := by
  have h1 := preReplacements_frame rec env hs
  have h2 := fragQuote_frame
  have h3 := postReplacements_frame
  frame_start; unfold spansRender; wp_go

end Rimu
