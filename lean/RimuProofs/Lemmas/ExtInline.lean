import RimuProofs.Lemmas.Ext

/-!
# The inline layer extends itself under a deeper recursion record
-/

namespace Rimu
open Py

/-- `rec'` extends `rec` -/
structure RecExt (rec rec' : Rec) : Prop where
  spans : ∀ x, Ext (rec.spans x) (rec'.spans x)
  document : ∀ d x, Ext (rec.document d x) (rec'.document d x)

theorem Pat.subGo_ext {f g : Match → M Str} (h : ∀ m, Ext (f m) (g m)) : ∀ ps, Ext (Pat.subGo f ps) (Pat.subGo g ps) := by
  intro ps
  induction ps with
  | nil => unfold Pat.subGo; ext_go
  | cons bm ps ih => obtain ⟨b, mt⟩ := bm; unfold Pat.subGo; ext_go

theorem Pat.subM_ext (p : Pat) (t : Str) {f g : Match → M Str} (h : ∀ m, Ext (f m) (g m)) : Ext (p.subM t f) (p.subM t g) := by
  have := Pat.subGo_ext h
  unfold Pat.subM; ext_go

section
variable {rec rec' : Rec} (hr : RecExt rec rec') (env : Env)
include hr

theorem paramRepl_ext (pl : List Str) (mr : Match) : Ext (paramRepl rec pl mr) (paramRepl rec' pl mr) := by
  have hs := hr.spans
  unfold paramRepl; ext_go

theorem macroRepl_ext (text : Str) (silent simple : Bool) (mt : Match) :
    Ext (macroRepl rec env text silent simple mt) (macroRepl rec' env text silent simple mt) := by
  have hp := fun pl v => Pat.subM_ext Gen.P.macros_render_2 v (paramRepl_ext hr pl)
  unfold macroRepl; ext_go

theorem macrosRender_ext (text : Str) (silent : Bool) : Ext (macrosRender rec env text silent) (macrosRender rec' env text silent) := by
  have h1 := fun t => Pat.subM_ext Gen.P.macros_render_1 t (macroRepl_ext hr env text silent true)
  have h0 := fun t => Pat.subM_ext Gen.P.macros_render_0 t (macroRepl_ext hr env text silent false)
  unfold macrosRender; ext_go

theorem replaceInline_ext (text : Str) (e : Expand) : Ext (replaceInline rec env text e) (replaceInline rec' env text e) := by
  have hm := macrosRender_ext hr env
  have hs := hr.spans
  unfold replaceInline; ext_go

theorem replaceGroupText_ext (g : Str) (spans : Bool) (e : Expand) (ia : Bool) :
    Ext (replaceGroupText rec env g spans e ia) (replaceGroupText rec' env g spans e ia) := by
  have hi := replaceInline_ext hr env
  unfold replaceGroupText; ext_go

theorem replaceMatchGroup_ext (mt : Match) (e : Expand) (m : Match) :
    Ext (replaceMatchGroup rec env mt e m) (replaceMatchGroup rec' env mt e m) := by
  have hi := replaceGroupText_ext hr env
  unfold replaceMatchGroup; ext_go

theorem replaceMatch_ext (mt : Match) (r : Str) (e : Expand) :
    Ext (replaceMatch rec env mt r e) (replaceMatch rec' env mt r e) := by
  have h := fun t => Pat.subM_ext Gen.P.utils_replaceMatch_0 t (replaceMatchGroup_ext hr env mt e)
  unfold replaceMatch; ext_go

theorem replacementText_ext (rdef : ReplDef) (mt : Match) :
    Ext (replacementText rec env rdef mt) (replacementText rec' env rdef mt) := by
  have h := replaceMatch_ext hr env
  unfold replacementText; ext_go

theorem fragReplacementLoop_ext (rdef : ReplDef) (n : Nat) (t : Str) :
    Ext (fragReplacementLoop rec env rdef n t) (fragReplacementLoop rec' env rdef n t) := by
  have h := replacementText_ext hr env
  induction n generalizing t with
  | zero => unfold fragReplacementLoop; ext_go
  | succ n ih => unfold fragReplacementLoop; ext_go

theorem fragReplacement_ext (rdef : ReplDef) (f : Fragment) :
    Ext (fragReplacement rec env rdef f) (fragReplacement rec' env rdef f) := by
  have h := fragReplacementLoop_ext hr env
  unfold fragReplacement; ext_go

theorem fragReplacementAll_ext (rdef : ReplDef) (fs : List Fragment) :
    Ext (fragReplacementAll rec env rdef fs) (fragReplacementAll rec' env rdef fs) := by
  have h := fragReplacement_ext hr env
  induction fs with
  | nil => unfold fragReplacementAll; ext_go
  | cons f fs ih => unfold fragReplacementAll; ext_go

theorem fragReplacements_ext (ds : List ReplDef) (fs : List Fragment) :
    Ext (fragReplacements rec env ds fs) (fragReplacements rec' env ds fs) := by
  have h := fragReplacementAll_ext hr env
  induction ds generalizing fs with
  | nil => unfold fragReplacements; ext_go
  | cons d ds ih => unfold fragReplacements; ext_go

theorem preReplacements_ext (t : Str) : Ext (preReplacements rec env t) (preReplacements rec' env t) := by
  have h := fragReplacements_ext hr env
  unfold preReplacements; ext_go

theorem spansRender_ext (t : Str) : Ext (spansRender rec env t) (spansRender rec' env t) := by
  have h := preReplacements_ext hr env
  unfold spansRender; ext_go

end

end Rimu
