import RimuProofs.Lemmas.NIInline

/-!
# Non-interference of the callback: the block layer, and the knot

Given that nested span and document renders are non-interfering, so is every function of `Block.lean`; `mkRec` ties
the knot by induction on the fuel.
-/

namespace Rimu
open Py

@[ni] theorem Reader.cursor_ni (r : Reader) : NI r.cursor := by unfold Reader.cursor; ni_go
@[ni] theorem Reader.setCursor_ni (r : Reader) (v : Str) : NI (r.setCursor v) := by unfold Reader.setCursor; ni_go
@[ni] theorem Reader.unescape_ni (r : Reader) : NI r.unescape := by unfold Reader.unescape; ni_go
@[ni] theorem Reader.insertExpansion_ni (r : Reader) (l : List Str) (d : Nat) : NI (r.insertExpansion l d) := by
  unfold Reader.insertExpansion; ni_go

theorem Reader.readTo_go_ni (r : Reader) (p : Pat) : ∀ ls pos acc, NI (Reader.readTo.go r p ls pos acc) := by
  intro ls
  induction ls with
  | nil => intro pos acc; unfold Reader.readTo.go; ni_go
  | cons l t ih => intro pos acc; unfold Reader.readTo.go; ni_go

@[ni] theorem Reader.readTo_ni (r : Reader) (p : Pat) : NI (r.readTo p) := by
  unfold Reader.readTo; exact Reader.readTo_go_ni r p _ _ _

@[ni] theorem panic_ni (msg : Str) : NI (panic msg) := by unfold panic; exact NI.errorCallback _

@[ni] theorem expandParseOne_ni (e : Expand) (o : Str) : NI (expandParseOne e o) := by unfold expandParseOne; ni_go

theorem expandParse_go_ni : ∀ l e, NI (expandParse.go e l) := by
  intro l
  induction l with
  | nil => intro e; unfold expandParse.go; ni_go
  | cons o rest ih => intro e; unfold expandParse.go; ni_go

@[ni] theorem expandParse_ni (e : Expand) (o : Str) : NI (expandParse e o) := by
  have h := fun l e => expandParse_go_ni l e
  unfold expandParse; ni_go

theorem slugSuffix_ni (ids : List Str) (slug : Str) : ∀ fuel i, NI (slugSuffix ids slug fuel i) := by
  intro fuel
  induction fuel with
  | zero => intro i; unfold slugSuffix; ni_go
  | succ n ih => intro i; unfold slugSuffix; ni_go

@[ni] theorem slugify_ni (t : Str) : NI (slugify t) := by
  have h := slugSuffix_ni
  unfold slugify; ni_go

@[ni] theorem unterminatedCheck_ni (d : BlockDef) (mt : Match) (r : Reader) : NI (unterminatedCheck d mt r) := by
  unfold unterminatedCheck; ni_go

@[ni] theorem blockExpand_ni (d : BlockDef) : NI (blockExpand d) := by
  unfold blockExpand; ni_go

@[ni] theorem htmlVerify_ni (mt : Match) : NI (htmlVerify mt) := by unfold htmlVerify; ni_go

theorem mapM_ni {α β} {f : α → M β} (hf : ∀ a, NI (f a)) : ∀ l : List α, NI (l.mapM f) := by
  intro l
  induction l with
  | nil => rw [List.mapM_nil]; ni_go
  | cons a l ih => rw [List.mapM_cons]; ni_go

@[ni] theorem indentedContentFilter_ni (t : Str) : NI (indentedContentFilter t) := by
  unfold indentedContentFilter
  ni_go
  all_goals
    refine mapM_ni ?_ _
    intro line; ni_go

@[ni] theorem injectClasses_ni (c t : Str) : NI (injectClasses c t) := by unfold injectClasses; ni_go
@[ni] theorem injectCss_ni (c r a : Str) : NI (injectCss c r a) := by unfold injectCss; ni_go
@[ni] theorem injectId_ni (sid : Str) (ids : List Str) (r a : Str) : NI (injectId sid ids r a) := by unfold injectId; ni_go
@[ni] theorem injectHtmlAttributes_ni (tag : Str) (consume : Bool) : NI (injectHtmlAttributes tag consume) := by
  unfold injectHtmlAttributes; ni_go

@[ni] theorem blockSetDefinition_ni (n v : Str) : NI (blockSetDefinition n v) := by
  unfold blockSetDefinition; ni_go

@[ni] theorem documentInit_ni : NI documentInit := by
  unfold documentInit; ni_go

@[ni] theorem setOption_ni (n : Str) (v : PyVal) : NI (setOption n v) := by
  unfold setOption; ni_go

/-- the callback put back after an option element is the one of the run it was read in: muted in the muted run -/
@[ni] theorem setOptionInDocument_ni (n : Str) (v : PyVal) : NI (setOptionInDocument n v) := by
  unfold setOptionInDocument
  refine NI.get_bind_rel ?_
  intro s
  have h := setOption_ni n v s
  simp only [Bind.bind, StateT.bind, StateT.run] at *
  unfold Agree at h
  cases h1 : setOption n v s with
  | error e =>
    cases h2 : setOption n v (mute s) with
    | error e' => simp only [h1, h2] at h; simp only [Except.bind]; exact h
    | ok r => simp only [h1, h2] at h
  | ok r =>
    obtain ⟨a, s1⟩ := r
    cases h2 : setOption n v (mute s) with
    | error e' => simp only [h1, h2] at h
    | ok r' =>
      obtain ⟨b, t1⟩ := r'
      simp only [h1, h2] at h
      obtain ⟨-, rfl⟩ := h
      exact ⟨rfl, rfl⟩

section
variable (rec : Rec) (env : Env) (hs : ∀ x, NI (rec.spans x)) (hd : ∀ d x, NI (rec.document d x))
include hs

theorem battrParse_ni (attrs : Str) : NI (battrParse rec env attrs) := by
  have hr := replaceInline_ni rec env hs
  have hm := macrosRender_ni rec env hs
  unfold battrParse; ni_go

theorem verifyMacroLine_ni (mt : Match) (r : Reader) : NI (verifyMacroLine rec env mt r) := by
  have hr := macrosRender_ni rec env hs
  unfold verifyMacroLine; ni_go

theorem lineFilter_ni (d : LineDef) (mt : Match) : NI (lineFilter rec env d mt) := by
  have hr := replaceInline_ni rec env hs
  have hm := replaceMatch_ni rec env hs
  unfold lineFilter; ni_go

theorem lineblocksGo_ni (allowed : List Str) : ∀ defs r w, NI (lineblocksGo rec env allowed defs r w) := by
  have h1 := verifyMacroLine_ni rec env hs
  have h2 := battrParse_ni rec env hs
  have h3 := lineFilter_ni rec env hs
  intro defs
  induction defs with
  | nil => intro r w; unfold lineblocksGo; ni_go
  | cons d rest ih => intro r w; unfold lineblocksGo; ni_go

theorem lineblocksRender_ni (r : Reader) (w : Writer) (allowed : List Str) : NI (lineblocksRender rec env r w allowed) := by
  have h := lineblocksGo_ni rec env hs
  unfold lineblocksRender; ni_go

theorem macroDefContentFilter_ni (text : Str) (mt : Match) (e : Expand) : NI (macroDefContentFilter rec env text mt e) := by
  have hr := replaceInline_ni rec env hs
  unfold macroDefContentFilter; ni_go

include hd

set_option maxHeartbeats 1600000 in
theorem renderBlockBody_ni (d : BlockDef) (mt : Match) (r : Reader) (w : Writer) : NI (renderBlockBody rec env d mt r w) := by
  have hr := replaceInline_ni rec env hs
  have hm := macroDefContentFilter_ni rec env hs
  unfold renderBlockBody; ni_go

theorem renderBlock_ni (d : BlockDef) (mt : Match) (r : Reader) (w : Writer) : NI (renderBlock rec env d mt r w) := by
  have hb := renderBlockBody_ni rec env hs hd
  unfold renderBlock; ni_go

theorem delimitedGo_ni (allowed : List Str) : ∀ defs r w, NI (delimitedGo rec env allowed defs r w) := by
  have h := renderBlock_ni rec env hs hd
  intro defs
  induction defs with
  | nil => intro r w; unfold delimitedGo; ni_go
  | cons d rest ih => intro r w; unfold delimitedGo; ni_go

theorem delimitedRender_ni (r : Reader) (w : Writer) (allowed : List Str) : NI (delimitedRender rec env r w allowed) := by
  have h := delimitedGo_ni rec env hs hd
  unfold delimitedRender; ni_go

omit hs hd in
theorem matchItem_go_ni : ∀ defs r, NI (matchItem.go defs r) := by
  intro defs
  induction defs with
  | nil => intro r; unfold matchItem.go; ni_go
  | cons d rest ih => intro r; unfold matchItem.go; ni_go

omit hs hd in
theorem matchItem_ni (r : Reader) : NI (matchItem r) := by
  have h := matchItem_go_ni
  unfold matchItem; ni_go

omit hd in
theorem consumeBlockAttributes_ni : ∀ fuel blanks r w, NI (consumeBlockAttributes rec env fuel blanks r w) := by
  have h := lineblocksRender_ni rec env hs
  intro fuel
  induction fuel with
  | zero => intro b r w; unfold consumeBlockAttributes; ni_go
  | succ n ih => intro b r w; unfold consumeBlockAttributes; ni_go

theorem lists_ni : ∀ fuel,
    (∀ i r w, NI (renderList rec env fuel i r w)) ∧
    (∀ i r w, NI (renderListLoop rec env fuel i r w)) ∧
    (∀ i r w, NI (renderListItem rec env fuel i r w)) ∧
    (∀ r il al d, NI (renderItemLoop rec env fuel r il al d)) := by
  have hr := replaceInline_ni rec env hs
  have hc := consumeBlockAttributes_ni rec env hs
  have hm := matchItem_ni
  have hdr := delimitedRender_ni rec env hs hd
  intro fuel
  induction fuel with
  | zero =>
    refine ⟨?_, ?_, ?_, ?_⟩
    · intro i r w; unfold renderList; ni_go
    · intro i r w; unfold renderListLoop; ni_go
    · intro i r w; unfold renderListItem; ni_go
    · intro r il al d; unfold renderItemLoop; ni_go
  | succ n ih =>
    obtain ⟨ih1, ih2, ih3, ih4⟩ := ih
    refine ⟨?_, ?_, ?_, ?_⟩
    · intro i r w; unfold renderList; ni_go
    · intro i r w; unfold renderListLoop; ni_go
    · intro i r w; unfold renderListItem; ni_go
    · intro r il al d; unfold renderItemLoop; ni_go

theorem listsRender_ni (fuel : Nat) (r : Reader) (w : Writer) : NI (listsRender rec env fuel r w) := by
  have hm := matchItem_ni
  have hl := fun i r w => (lists_ni rec env hs hd fuel).1 i r w
  unfold listsRender; ni_go

theorem documentLoop_ni : ∀ fuel r w, NI (documentLoop rec env fuel r w) := by
  have h1 := lineblocksRender_ni rec env hs
  have h2 := listsRender_ni rec env hs hd
  have h3 := delimitedRender_ni rec env hs hd
  intro fuel
  induction fuel with
  | zero => intro r w; unfold documentLoop; ni_go
  | succ n ih => intro r w; unfold documentLoop; ni_go

theorem documentRender_ni (fuel : Nat) (src : Str) (d : Depth) : NI (documentRender rec env fuel src d) := by
  have h := documentLoop_ni rec env hs hd
  unfold documentRender; ni_go

end

/-- Tying the knot: at every fuel level nested span and document renders are non-interfering. -/
theorem mkRec_ni (env : Env) : ∀ n, (∀ x, NI ((mkRec env n).spans x)) ∧ (∀ d x, NI ((mkRec env n).document d x)) := by
  intro n
  induction n with
  | zero => exact ⟨fun x => NI.raise _, fun d x => NI.raise _⟩
  | succ n ih =>
    obtain ⟨ihs, ihd⟩ := ih
    refine ⟨?_, ?_⟩
    · intro x
      show NI (spansRender (mkRec env n) env x)
      exact spansRender_ni _ env ihs x
    · intro d x
      show NI (documentRender (mkRec env n) env (n+1) x d)
      exact documentRender_ni _ env ihs ihd _ x d

end Rimu
