import RimuProofs.Lemmas.Run
import RimuModel.Block
import Lean

/-!
# Fuel is only a termination device

`Ext x y`: whenever `x` ends without running out of fuel - with a result or with an exception - `y` ends in exactly the
same way (same result, same state, same exception).  Every function of the model, run with a deeper recursion record or
more fuel, extends itself run with less: so the outcome of a render that does not exhaust its fuel does not depend on
the fuel, and `outOfFuel` is the only outcome that more fuel can change.
-/

namespace Rimu

def Ext {α : Type} (x y : M α) : Prop := ∀ s, x.run s ≠ .error .outOfFuel → y.run s = x.run s

theorem Ext.refl {α} (x : M α) : Ext x x := fun _ _ => rfl

theorem Ext.trans {α} {x y z : M α} (h1 : Ext x y) (h2 : Ext y z) : Ext x z := by
  intro s hx
  have e1 := h1 s hx
  rw [← e1] at hx
  rw [h2 s hx, e1]

theorem Ext.bind {α β} {x y : M α} {f g : α → M β} (hx : Ext x y) (hf : ∀ a, Ext (f a) (g a)) :
    Ext (x >>= f) (y >>= g) := by
  intro s h
  rw [run_bind] at h ⊢
  rw [run_bind]
  cases hxs : x.run s with
  | error e =>
    rw [hxs] at h
    simp only [] at h
    have : x.run s ≠ .error .outOfFuel := by
      rw [hxs]; intro hc; cases hc; exact h rfl
    rw [hx s this, hxs]
  | ok r =>
    obtain ⟨a, s'⟩ := r
    rw [hxs] at h
    simp only [] at h
    have : x.run s ≠ .error .outOfFuel := by rw [hxs]; intro hc; cases hc
    rw [hx s this, hxs]
    exact hf a s' h

/-- running out of fuel is extended by anything -/
theorem Ext.of_fuel {α} (y : M α) : Ext (raise .outOfFuel : M α) y := by
  intro s h
  exact absurd rfl h

theorem Ext.ite {α} {c : Prop} [Decidable c] {a a' b b' : M α} (h1 : c → Ext a a') (h2 : ¬ c → Ext b b') :
    Ext (if c then a else b) (if c then a' else b') := by
  split
  · exact h1 ‹_›
  · exact h2 ‹_›

theorem Ext.dite {α} {c : Prop} [Decidable c] {a a' : c → M α} {b b' : ¬ c → M α}
    (h1 : ∀ h, Ext (a h) (a' h)) (h2 : ∀ h, Ext (b h) (b' h)) :
    Ext (if h : c then a h else b h) (if h : c then a' h else b' h) := by
  split
  · exact h1 ‹_›
  · exact h2 ‹_›

open Lean Elab Tactic Meta

/-- One lockstep step on a goal `Ext p q` where `p` and `q` are the same program up to recursion records and fuel. -/
elab "ext_step" : tactic => withMainContext do
  let g ← getMainGoal
  let t := (← instantiateMVars (← g.getType)).consumeMData.headBeta
  match t.getAppFnArgs with
  | (``Rimu.Ext, #[_, p0, _]) =>
    let p := p0.consumeMData.headBeta
    if p.isLet then
      evalTactic (← `(tactic| (show Ext _ _; dsimp only)))
      return
    -- identical sides, or a hypothesis / registered fact about this very pair
    try
      evalTactic (← `(tactic| with_reducible exact Ext.refl _))
      return
    catch _ => pure ()
    for ld in (← getLCtx) do
      if ld.isImplementationDetail then continue
      let ty ← instantiateMVars ld.type
      if !(ty.getForallBody.consumeMData.headBeta.isAppOf ``Rimu.Ext) then continue
      let saved ← saveState
      try
        let gs ← withReducible <| g.apply ld.toExpr
        if gs.isEmpty then
          replaceMainGoal []
          return
        else saved.restore
      catch _ => saved.restore
    if p.isAppOf ``Bind.bind then
      evalTactic (← `(tactic| (refine Ext.bind ?_ (fun _ => ?_))))
    else if p.isAppOf ``Rimu.raise then
      evalTactic (← `(tactic| first | exact Ext.of_fuel _ | exact Ext.refl _))
    else if p.isAppOf ``ite || p.isAppOf ``dite then
      evalTactic (← `(tactic| first
        | refine Ext.ite (fun _ => ?_) (fun _ => ?_)
        | refine Ext.dite (fun _ => ?_) (fun _ => ?_)
        | split))
    else if (← isMatcherApp p) then
      evalTactic (← `(tactic| split))
    else
      evalTactic (← `(tactic| (show Ext _ _; dsimp only)))
  | _ =>
    if t.isForall then evalTactic (← `(tactic| intro _))
    else throwError "ext_step: not an Ext goal"

macro "ext_go" : tactic => `(tactic| repeat (any_goals ext_step))

end Rimu
