import RimuProofs.Lemmas.NIBlock

/-!
# Non-interference of the callback: two arbitrary sessions, two option sets

`Same r₁ r₂`: the two results are the same exception, or the same value with final states that agree once muted.
`NI2 x y`: from any two sessions that agree once muted, `x` and `y` give `Same` results.  `NI x` gives `NI2 x x`;
the prefix of `render` that applies the options is handled directly.
-/

namespace Rimu

def Same {α : Type} (r₁ r₂ : Except PyErr (α × Session)) : Prop :=
  match r₁, r₂ with
  | .ok (a, s1), .ok (b, s2) => a = b ∧ mute s1 = mute s2
  | .error e, .error e' => e = e'
  | _, _ => False

def NI2 {α : Type} (x y : M α) : Prop := ∀ s₁ s₂, mute s₁ = mute s₂ → Same (x.run s₁) (y.run s₂)

theorem NI.to_NI2 {α} {x : M α} (h : NI x) : NI2 x x := by
  intro s1 s2 hm
  have h1 := h s1
  have h2 := h s2
  rw [hm] at h1
  unfold Agree at h1 h2
  unfold Same
  cases hr : x.run (mute s2) with
  | error e =>
    rw [hr] at h1 h2
    cases hr1 : x.run s1 with
    | error e1 =>
      cases hr2 : x.run s2 with
      | error e2 => rw [hr1] at h1; rw [hr2] at h2; simp only at h1 h2 ⊢; rw [h1, h2]
      | ok r2 => rw [hr2] at h2; simp only at h2
    | ok r1 => rw [hr1] at h1; simp only at h1
  | ok rm =>
    obtain ⟨c, sm⟩ := rm
    rw [hr] at h1 h2
    cases hr1 : x.run s1 with
    | error e1 => rw [hr1] at h1; simp only at h1
    | ok r1 =>
      obtain ⟨a, t1⟩ := r1
      cases hr2 : x.run s2 with
      | error e2 => rw [hr2] at h2; simp only at h2
      | ok r2 =>
        obtain ⟨b, t2⟩ := r2
        rw [hr1] at h1; rw [hr2] at h2
        simp only at h1 h2 ⊢
        exact ⟨h1.1.trans h2.1.symm, h1.2.symm.trans h2.2⟩

theorem NI2.bind {α β} {x y : M α} {f g : α → M β} (hx : NI2 x y) (hf : ∀ a, NI2 (f a) (g a)) : NI2 (x >>= f) (y >>= g) := by
  intro s1 s2 hm
  have h := hx s1 s2 hm
  simp only [Bind.bind, StateT.bind, StateT.run] at *
  unfold Same at h
  cases h1 : x s1 with
  | error e =>
    cases h2 : y s2 with
    | error e' => simp only [h1, h2] at h; simp only [Except.bind]; exact h
    | ok r => simp only [h1, h2] at h
  | ok r =>
    obtain ⟨a, t1⟩ := r
    cases h2 : y s2 with
    | error e' => simp only [h1, h2] at h
    | ok r' =>
      obtain ⟨b, t2⟩ := r'
      simp only [h1, h2] at h
      obtain ⟨rfl, hm'⟩ := h
      simp only [Except.bind]
      exact hf a t1 t2 hm'

/-- two programs that only touch the callback / log -/
theorem NI2.of_mute_only {x y : M Unit} (hx : ∀ s, ∃ s', x.run s = .ok ((), s') ∧ mute s' = mute s)
    (hy : ∀ s, ∃ s', y.run s = .ok ((), s') ∧ mute s' = mute s) : NI2 x y := by
  intro s1 s2 hm
  obtain ⟨t1, h1, m1⟩ := hx s1
  obtain ⟨t2, h2, m2⟩ := hy s2
  rw [h1, h2]
  exact ⟨rfl, by rw [m1, m2, hm]⟩

end Rimu
