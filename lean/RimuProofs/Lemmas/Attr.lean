import Lean
/-- Preservation lemmas `Pres P (f args)` used by the `wp_go` tactic to step over calls. -/
register_simp_attr pres
/-- Frame lemmas `Pres Frame (f args)` (inline layer: only the message log and the placeholder queue change). -/
register_simp_attr frame
/-- Exception lemmas `Safe E (f args)`. -/
register_simp_attr safe
/-- non-interference lemmas -/
register_simp_attr ni
register_simp_attr nip
/-- specifications `∀ s, Pre s → wpE (f args) Post E s` used by the `hoare_go` tactic to step over calls -/
register_label_attr hspec
