import RimuProofs.Lemmas.Wp

/-!
# The transition relation `Step` between session states and the tactic that pushes it through
the model's monadic code
-/

namespace Rimu

/-- What any amount of rendering can do to the option and definition state:
  * the safe mode changes only while it is 0 (option elements, reset), and then to a value in 0..15;
  * in a non-zero safe mode the quote, replacement and delimited-block definitions and the
    replacement text are unchanged, and so are the macro definitions unless bit 8 is set;
  * callback messages are only ever appended. -/
structure Step (s s' : Session) : Prop where
  mode : s'.safeMode = s.safeMode ∨ (s.safeMode = 0 ∧ 0 ≤ s'.safeMode ∧ s'.safeMode ≤ 15)
  defs : s.safeMode ≠ 0 → s'.quoteDefs = s.quoteDefs ∧ s'.replDefs = s.replDefs ∧ s'.blockDefs = s.blockDefs ∧
    s'.htmlReplacement = s.htmlReplacement
  macros : s.safeMode ≠ 0 → pyAnd s.safeMode 8 = 0 → s'.macroDefs = s.macroDefs

theorem Step.refl (s : Session) : Step s s := ⟨.inl rfl, fun _ => ⟨rfl, rfl, rfl, rfl⟩, fun _ _ => rfl⟩

theorem Step.trans {a b c : Session} (h1 : Step a b) (h2 : Step b c) : Step a c := by
  obtain ⟨m1, d1, k1⟩ := h1
  obtain ⟨m2, d2, k2⟩ := h2
  refine ⟨?_, ?_, ?_⟩
  · rcases m1 with e1 | ⟨z1, lo1, hi1⟩
    · rcases m2 with e2 | ⟨z2, lo2, hi2⟩
      · exact .inl (e2.trans e1)
      · exact .inr ⟨by omega, lo2, hi2⟩
    · rcases m2 with e2 | ⟨z2, lo2, hi2⟩
      · exact .inr ⟨z1, by omega, by omega⟩
      · exact .inr ⟨z1, lo2, hi2⟩
  · intro hz
    have hb : b.safeMode = a.safeMode := by
      rcases m1 with e1 | ⟨z1, _, _⟩
      · exact e1
      · exact absurd z1 hz
    have hbz : b.safeMode ≠ 0 := by rw [hb]; exact hz
    obtain ⟨q1, r1, b1, h1⟩ := d1 hz
    obtain ⟨q2, r2, b2, h2⟩ := d2 hbz
    exact ⟨q2.trans q1, r2.trans r1, b2.trans b1, h2.trans h1⟩
  · intro hz h8
    have hb : b.safeMode = a.safeMode := by
      rcases m1 with e1 | ⟨z1, _, _⟩
      · exact e1
      · exact absurd z1 hz
    exact (k2 (by rw [hb]; exact hz) (by rw [hb]; exact h8)).trans (k1 hz h8)

instance : IsPre Step := ⟨Step.refl, Step.trans⟩

/-- the generated default safe mode is 0 (re-proved against the source on every run) -/
@[simp] theorem defaultSafeMode_eq : Gen.defaultSafeMode = 0 := by decide

/-- at safe mode 0 anything may be written, provided the new safe mode is in range -/
theorem Step.of_mode0 {s s' : Session} (h0 : s.safeMode = 0) (h' : 0 ≤ s'.safeMode ∧ s'.safeMode ≤ 15) : Step s s' :=
  ⟨.inr ⟨h0, h'⟩, fun h => absurd h0 h, fun h _ => absurd h0 h⟩

/-- a write that leaves the options and definition tables alone -/
theorem Step.of_fields {s s' : Session} (h1 : s'.safeMode = s.safeMode) (h2 : s'.quoteDefs = s.quoteDefs)
    (h3 : s'.replDefs = s.replDefs) (h4 : s'.blockDefs = s.blockDefs) (h5 : s'.htmlReplacement = s.htmlReplacement)
    (h6 : s'.macroDefs = s.macroDefs) : Step s s' :=
  ⟨.inl h1, fun _ => ⟨h2, h3, h4, h5⟩, fun _ _ => h6⟩

/-- The inline layer (`macros.render`, `spans.render`, `utils.replace*`) changes nothing but the message log
    and the placeholder queue. -/
def Frame (s s' : Session) : Prop := ∃ l sv, s' = { s with log := l, saved := sv }

theorem Frame.refl (s : Session) : Frame s s := ⟨s.log, s.saved, rfl⟩

theorem Frame.trans {a b c : Session} (h1 : Frame a b) (h2 : Frame b c) : Frame a c := by
  obtain ⟨l1, v1, rfl⟩ := h1
  obtain ⟨l2, v2, rfl⟩ := h2
  exact ⟨l2, v2, rfl⟩

instance : IsPre Frame := ⟨Frame.refl, Frame.trans⟩

theorem Frame.step {s s' : Session} (h : Frame s s') : Step s s' := by
  obtain ⟨l, v, rfl⟩ := h
  exact ⟨.inl rfl, fun _ => ⟨rfl, rfl, rfl, rfl⟩, fun _ _ => rfl⟩

/-- a state write, keeping track of the relation to the initial state -/
theorem wp_modify_keep {P} [IsPre P] {s0 s : Session} {Q : Unit → Session → Prop} {f : Session → Session}
    (hcur : P s0 s) (hstep : P s (f s)) (hk : P s0 (f s) → Q () (f s)) : wp (modify f : M Unit) Q s :=
  wp_modify f (hk (IsPre.trans hcur hstep))

theorem wp_set_keep {P} [IsPre P] {s0 s : Session} {Q : Unit → Session → Prop} {v : Session}
    (hcur : P s0 s) (hstep : P s v) (hk : P s0 v → Q () v) : wp (set v : M Unit) Q s :=
  wp_set v (hk (IsPre.trans hcur hstep))

/-- stepping over a call that satisfies the frame condition while tracking `Step s0 ·` -/
theorem wp_call_frame {α} {act : M α} {s0 s : Session} {Q : α → Session → Prop}
    (hp : Pres Frame act) (hcur : Step s0 s)
    (hq : ∀ a l sv, Step s0 { s with log := l, saved := sv } → Q a { s with log := l, saved := sv }) : wp act Q s := by
  intro a s' hr
  obtain ⟨l, sv, rfl⟩ := hp s a s' hr
  exact hq a l sv (Step.trans hcur (Frame.step ⟨l, sv, rfl⟩))

end Rimu
