import RimuProofs.Lemmas.Eqns
import RimuModel.Base

/-!
# String lemmas: escaping
-/

namespace Rimu
open Py

theorem escapeChar_noAngle (c : Char) : '<' ∉ escapeChar c ∧ '>' ∉ escapeChar c := by
  unfold escapeChar
  split
  · decide
  · split
    · decide
    · split
      · decide
      · next h1 h2 h3 =>
        simp only [beq_iff_eq] at h1 h2 h3
        simp only [List.mem_singleton]
        exact ⟨fun h => h3 h.symm, fun h => h2 h.symm⟩

/-- `utils.replaceSpecialChars` leaves no `<` and no `>`. -/
theorem replaceSpecialChars_noAngle (s : Str) : '<' ∉ replaceSpecialChars s ∧ '>' ∉ replaceSpecialChars s := by
  unfold replaceSpecialChars
  simp only [List.mem_flatMap, not_exists, not_and]
  exact ⟨fun c _ => (escapeChar_noAngle c).1, fun c _ => (escapeChar_noAngle c).2⟩

/-- Every `&` in the output of `replaceSpecialChars` starts one of the three entities it writes:
    stated as: the output is a concatenation of atoms, each a non-special character or `&amp;` `&gt;` `&lt;`. -/
inductive EscapedAtom : Str → Prop where
  | plain (c : Char) (h1 : c ≠ '&') (h2 : c ≠ '<') (h3 : c ≠ '>') : EscapedAtom [c]
  | amp : EscapedAtom "&amp;".toList
  | gt : EscapedAtom "&gt;".toList
  | lt : EscapedAtom "&lt;".toList

theorem escapeChar_atom (c : Char) : EscapedAtom (escapeChar c) := by
  unfold escapeChar
  split
  · exact .amp
  · split
    · exact .gt
    · split
      · exact .lt
      · next h1 h2 h3 =>
        simp only [beq_iff_eq] at h1 h2 h3
        exact .plain c h1 h3 h2

theorem replaceSpecialChars_atoms (s : Str) :
    ∃ atoms : List Str, (∀ a ∈ atoms, EscapedAtom a) ∧ replaceSpecialChars s = atoms.flatten := by
  refine ⟨s.map escapeChar, ?_, ?_⟩
  · intro a ha
    simp only [List.mem_map] at ha
    obtain ⟨c, _, rfl⟩ := ha
    exact escapeChar_atom c
  · unfold replaceSpecialChars
    simp [List.flatMap]

/-- plain text (no special character) is left unchanged -/
theorem replaceSpecialChars_plain (s : Str) (h : ∀ c ∈ s, c ≠ '&' ∧ c ≠ '<' ∧ c ≠ '>') : replaceSpecialChars s = s := by
  induction s with
  | nil => rfl
  | cons c t ih =>
    have hc := h c (List.mem_cons_self)
    have : escapeChar c = [c] := by
      unfold escapeChar
      simp [hc.1, hc.2.1, hc.2.2]
    unfold replaceSpecialChars
    simp only [List.flatMap_cons, this]
    have := ih (fun c hc' => h c (List.mem_cons_of_mem _ hc'))
    unfold replaceSpecialChars at this
    simp [this]

/-! ## `str.replace` -/

theorem startsWith_cons_iff (c : Char) (s p : Str) (d : Char) :
    startsWith (c :: s) (d :: p) = (c == d && startsWith s p) := rfl

/-- after `replaceAll s [q] new` with `q ∉ new` no `q` is left -/
theorem replaceAll_go_removes (q : Char) (new : Str) (hq : q ∉ new) :
    ∀ fuel s, s.length ≤ fuel → q ∉ replaceAll.go [q] new fuel s := by
  intro fuel
  induction fuel with
  | zero =>
    intro s hs
    have : s = [] := by cases s <;> simp_all
    subst this
    simp [replaceAll.go]
  | succ n ih =>
    intro s hs
    cases s with
    | nil => simp [replaceAll.go]
    | cons c t =>
      unfold replaceAll.go
      split
      · next hst =>
        simp only [List.length_singleton, List.drop_succ_cons, List.drop_zero]
        simp only [List.mem_append, not_or]
        exact ⟨hq, ih t (by simp at hs; omega)⟩
      · next hst =>
        simp only [List.mem_cons, not_or]
        refine ⟨?_, ih t (by simp at hs; omega)⟩
        intro hqc
        apply hst
        subst hqc
        simp [startsWith]

theorem replaceAll_removes (q : Char) (new s : Str) (hq : q ∉ new) : q ∉ replaceAll s [q] new := by
  unfold replaceAll
  simp only [List.isEmpty_cons, Bool.false_eq_true, if_false]
  exact replaceAll_go_removes q new hq _ _ (Nat.le_refl _)

/-- `replaceAll` keeps out characters that are in neither the text nor the replacement -/
theorem replaceAll_go_keeps_out (x : Char) (old new : Str) (hn : x ∉ new) :
    ∀ fuel s, x ∉ s → x ∉ replaceAll.go old new fuel s := by
  intro fuel
  induction fuel with
  | zero => intro s hs; simpa [replaceAll.go] using hs
  | succ n ih =>
    intro s hs
    cases s with
    | nil => simp [replaceAll.go]
    | cons c t =>
      unfold replaceAll.go
      split
      · simp only [List.mem_append, not_or]
        refine ⟨hn, ih _ ?_⟩
        intro hx
        exact hs (List.mem_of_mem_drop hx)
      · simp only [List.mem_cons, not_or] at hs ⊢
        exact ⟨hs.1, ih t hs.2⟩

theorem replaceAll_keeps_out (x : Char) (s old new : Str) (hs : x ∉ s) (hn : x ∉ new) : x ∉ replaceAll s old new := by
  unfold replaceAll
  split
  · exact hs
  · exact replaceAll_go_keeps_out x old new hn _ _ hs

end Rimu
