import RimuProofs.Lemmas.ExtInline

/-!
# The block layer, the lists and the document loop extend themselves under a deeper record and more fuel
-/

namespace Rimu
open Py

theorem RecExt.rfl' (rec : Rec) : RecExt rec rec := ⟨fun _ => Ext.refl _, fun _ _ => Ext.refl _⟩

theorem RecExt.trans {a b c : Rec} (h1 : RecExt a b) (h2 : RecExt b c) : RecExt a c :=
  ⟨fun x => (h1.spans x).trans (h2.spans x), fun d x => (h1.document d x).trans (h2.document d x)⟩

section
variable {rec rec' : Rec} (hr : RecExt rec rec') (env : Env)
include hr

theorem battrParse_ext (a : Str) : Ext (battrParse rec env a) (battrParse rec' env a) := by
  have h := replaceInline_ext hr env
  have hm := macrosRender_ext hr env
  unfold battrParse; ext_go

theorem verifyMacroLine_ext (mt : Match) (r : Reader) : Ext (verifyMacroLine rec env mt r) (verifyMacroLine rec' env mt r) := by
  have h := macrosRender_ext hr env
  unfold verifyMacroLine; ext_go

theorem lineFilter_ext (d : LineDef) (mt : Match) : Ext (lineFilter rec env d mt) (lineFilter rec' env d mt) := by
  have h := replaceInline_ext hr env
  have h2 := replaceMatch_ext hr env
  unfold lineFilter; ext_go

theorem lineblocksGo_ext (allowed : List Str) (ds : List LineDef) (r : Reader) (w : Writer) :
    Ext (lineblocksGo rec env allowed ds r w) (lineblocksGo rec' env allowed ds r w) := by
  have h1 := verifyMacroLine_ext hr env
  have h2 := battrParse_ext hr env
  have h3 := lineFilter_ext hr env
  induction ds generalizing r w with
  | nil => unfold lineblocksGo; ext_go
  | cons d ds ih => unfold lineblocksGo; ext_go

theorem lineblocksRender_ext (r : Reader) (w : Writer) (allowed : List Str) :
    Ext (lineblocksRender rec env r w allowed) (lineblocksRender rec' env r w allowed) := by
  have h := lineblocksGo_ext hr env
  unfold lineblocksRender; ext_go

theorem macroDefContentFilter_ext (t : Str) (mt : Match) (e : Expand) :
    Ext (macroDefContentFilter rec env t mt e) (macroDefContentFilter rec' env t mt e) := by
  have h := replaceInline_ext hr env
  unfold macroDefContentFilter; ext_go

theorem renderBlockBody_ext (d : BlockDef) (mt : Match) (r : Reader) (w : Writer) :
    Ext (renderBlockBody rec env d mt r w) (renderBlockBody rec' env d mt r w) := by
  have h := replaceInline_ext hr env
  have h2 := macroDefContentFilter_ext hr env
  have h3 := hr.document
  unfold renderBlockBody; ext_go

theorem renderBlock_ext (d : BlockDef) (mt : Match) (r : Reader) (w : Writer) :
    Ext (renderBlock rec env d mt r w) (renderBlock rec' env d mt r w) := by
  have h := renderBlockBody_ext hr env
  unfold renderBlock; ext_go

theorem delimitedGo_ext (allowed : List Str) (ds : List BlockDef) (r : Reader) (w : Writer) :
    Ext (delimitedGo rec env allowed ds r w) (delimitedGo rec' env allowed ds r w) := by
  have h := renderBlock_ext hr env
  induction ds generalizing r w with
  | nil => unfold delimitedGo; ext_go
  | cons d ds ih => unfold delimitedGo; ext_go

theorem delimitedRender_ext (r : Reader) (w : Writer) (allowed : List Str) :
    Ext (delimitedRender rec env r w allowed) (delimitedRender rec' env r w allowed) := by
  have h := delimitedGo_ext hr env
  unfold delimitedRender; ext_go

theorem consumeBlockAttributes_ext (n b : Nat) (r : Reader) (w : Writer) :
    Ext (consumeBlockAttributes rec env n b r w) (consumeBlockAttributes rec' env n b r w) := by
  have h := lineblocksRender_ext hr env
  induction n generalizing b r w with
  | zero => unfold consumeBlockAttributes; ext_go
  | succ n ih => unfold consumeBlockAttributes; ext_go

/-- The four mutually recursive list functions, one more unit of fuel on the right. -/
theorem lists_ext (n : Nat) :
    (∀ i r w, Ext (renderList rec env n i r w) (renderList rec' env (n+1) i r w)) ∧
    (∀ i r w, Ext (renderListLoop rec env n i r w) (renderListLoop rec' env (n+1) i r w)) ∧
    (∀ i r w, Ext (renderListItem rec env n i r w) (renderListItem rec' env (n+1) i r w)) ∧
    (∀ r il al ad, Ext (renderItemLoop rec env n r il al ad) (renderItemLoop rec' env (n+1) r il al ad)) := by
  have h1 := replaceInline_ext hr env
  have h2 := consumeBlockAttributes_ext hr env
  have h3 := delimitedRender_ext hr env
  induction n with
  | zero =>
    refine ⟨?_, ?_, ?_, ?_⟩ <;> intros
    · rw [renderList]; exact Ext.of_fuel _
    · rw [renderListLoop]; exact Ext.of_fuel _
    · rw [renderListItem]; exact Ext.of_fuel _
    · rw [renderItemLoop]; exact Ext.of_fuel _
  | succ n ih =>
    obtain ⟨i1, i2, i3, i4⟩ := ih
    refine ⟨?_, ?_, ?_, ?_⟩ <;> intros
    · rw [renderList, renderList]; ext_go
    · rw [renderListLoop, renderListLoop]; ext_go
    · rw [renderListItem, renderListItem]; ext_go
    · rw [renderItemLoop, renderItemLoop]; ext_go

theorem listsRender_ext (n : Nat) (r : Reader) (w : Writer) :
    Ext (listsRender rec env n r w) (listsRender rec' env (n+1) r w) := by
  have h := (lists_ext hr env n).1
  unfold listsRender; ext_go

theorem documentLoop_ext (n : Nat) (r : Reader) (w : Writer) :
    Ext (documentLoop rec env n r w) (documentLoop rec' env (n+1) r w) := by
  have h1 := lineblocksRender_ext hr env
  have h2 := listsRender_ext hr env
  have h3 := delimitedRender_ext hr env
  induction n generalizing r w with
  | zero => rw [documentLoop]; exact Ext.of_fuel _
  | succ n ih => rw [documentLoop, documentLoop]; ext_go

theorem documentRender_ext (n : Nat) (t : Str) (d : Depth) :
    Ext (documentRender rec env n t d) (documentRender rec' env (n+1) t d) := by
  have h := documentLoop_ext hr env
  unfold documentRender; ext_go

end

theorem mkRec_ext (env : Env) (n : Nat) : RecExt (mkRec env n) (mkRec env (n+1)) := by
  induction n with
  | zero => exact ⟨fun _ => Ext.of_fuel _, fun _ _ => Ext.of_fuel _⟩
  | succ n ih =>
    exact ⟨fun x => spansRender_ext ih env x, fun d x => documentRender_ext ih env (n+1) x d⟩

theorem mkRec_ext_le (env : Env) {n m : Nat} (h : n ≤ m) : RecExt (mkRec env n) (mkRec env m) := by
  induction h with
  | refl => exact RecExt.rfl' _
  | step _ ih => exact ih.trans (mkRec_ext env _)

theorem apiRender_ext (env : Env) {n m : Nat} (h : n ≤ m) (src : Str) (o : RenderOptions) :
    Ext (apiRender env n src o) (apiRender env m src o) := by
  have h := (mkRec_ext_le env h).document
  unfold apiRender; ext_go

end Rimu
