import RimuProofs.Lemmas.Eqns
import RimuModel.Cli

/-!
# Equational lemmas for running the model monad
-/

namespace Rimu

@[simp] theorem except_ok_bind {ε α β} (a : α) (f : α → Except ε β) : (Except.ok a >>= f) = f a := rfl

@[simp] theorem except_pure {ε α} (a : α) : (pure a : Except ε α) = .ok a := rfl

/-! option names are compared as character lists; the literal comparisons are evaluated once here -/
@[simp] theorem name_sm_sm : ("safeMode".toList == "safeMode".toList) = true := by decide
@[simp] theorem name_rs_sm : ("reset".toList == "safeMode".toList) = false := by decide
@[simp] theorem name_rs_rs : ("reset".toList == "reset".toList) = true := by decide
@[simp] theorem name_hr_sm : ("htmlReplacement".toList == "safeMode".toList) = false := by decide
@[simp] theorem name_hr_rs : ("htmlReplacement".toList == "reset".toList) = false := by decide
@[simp] theorem name_hr_hr : ("htmlReplacement".toList == "htmlReplacement".toList) = true := by decide

@[simp] theorem run_pure {α} (a : α) (s : Session) : (pure a : M α).run s = .ok (a, s) := rfl

theorem run_bind {α β} (x : M α) (f : α → M β) (s : Session) :
    (x >>= f).run s = (match x.run s with
      | .ok (a, s') => (f a).run s'
      | .error e => .error e) := by
  simp only [Bind.bind, StateT.bind, StateT.run, Except.bind]
  cases x s with
  | error e => rfl
  | ok r => obtain ⟨a, s'⟩ := r; rfl

@[simp] theorem run_bind_ok {α β} (x : M α) (f : α → M β) (s s' : Session) (a : α) (h : x.run s = .ok (a, s')) :
    (x >>= f).run s = (f a).run s' := by
  rw [run_bind, h]

@[simp] theorem run_get (s : Session) : (get : M Session).run s = .ok (s, s) := rfl

@[simp] theorem run_modify (f : Session → Session) (s : Session) : (modify f : M Unit).run s = .ok ((), f s) := rfl

@[simp] theorem run_set (v s : Session) : (set v : M Unit).run s = .ok ((), v) := rfl

@[simp] theorem run_raise {α} (e : PyErr) (s : Session) : (raise e : M α).run s = .error e := rfl

@[simp] theorem run_errorCallback (msg : Str) (s : Session) :
    (errorCallback msg).run s = .ok ((), if s.callback then { s with log := s.log ++ [msg] } else s) := rfl

@[simp] theorem run_isSafeModeNz (s : Session) : isSafeModeNz.run s = .ok (s.safeMode != 0, s) := rfl

@[simp] theorem run_skipBlockAttributes (s : Session) :
    skipBlockAttributes.run s = .ok (pyAnd s.safeMode 4 != 0, s) := rfl

@[simp] theorem run_skipMacroDefs (s : Session) :
    skipMacroDefs.run s = .ok (s.safeMode != 0 && pyAnd s.safeMode 8 == 0, s) := rfl

@[simp] theorem run_macrosGetValue (n : Str) (s : Session) :
    (macrosGetValue n).run s = .ok ((s.macroDefs.find? (·.name == n)).map (·.value), s) := rfl

@[simp] theorem run_documentInit (s : Session) :
    documentInit.run s = .ok ((), { s with
      classes := [], id := [], css := [], attributes := [], opts := {}, ids := [],
      safeMode := Gen.defaultSafeMode, htmlReplacement := Gen.defaultHtmlReplacement, callback := false,
      blockDefs := Gen.blockDefaultDefs, macroDefs := Gen.macroDefaultDefs,
      quoteDefs := Gen.quoteDefaultDefs, replDefs := Gen.replDefaultDefs }) := rfl

end Rimu
