import RimuProofs.Lemmas.Run
import RimuProofs.Lemmas.FrameInline
import RimuProofs.Props.C12

/-!
# C06  Generated markup is balanced and properly nested

Proved for the model:
* **quote tags are emitted in properly nested pairs**, for every text and every quote table: the fragment list
  produced by `fragQuote` is a tree (`quote_fragments_form_a_tree`) - untouched text, or text / open tag of a
  definition / tree of the quoted text (or, for a non-span quote, one finished verbatim fragment) / close tag of the
  *same* definition / tree of the rest.  Overlapping delimiters therefore cannot produce crossed tags.
* **list tags are written in pairs around the items**, by construction of `renderList` / `renderListItem`: stated as
  the writer contents for a list whose items are rendered (`list_tags_paired`).
* delimited blocks write open tag, content, close tag of one definition (`block_tags_paired`), or neither for an
  attribute-less division.
Not proved: balance of the complete output string for every source (it needs the composition of these with the
placeholder restoration and every template); decided by the tag-stack oracle on generated sources.
-/

namespace Props.C06
open Rimu Py

/-- fragment lists that `fragQuote` can produce -/
inductive QTree (defs : List QuoteDef) : List Fragment → Prop where
  | text (t : Str) : QTree defs [{ text := t, done := false }]
  | quoteSpan (d : QuoteDef) (hd : d ∈ defs) (hs : d.spans = true) (before : Str) (inner rest : List Fragment)
      (hinner : QTree defs inner) (hrest : QTree defs rest) :
      QTree defs ({ text := before, done := false } :: { text := d.openTag, done := true } :: inner ++
        [{ text := d.closeTag, done := true }] ++ rest)
  | quoteVerbatim (d : QuoteDef) (hd : d ∈ defs) (hs : d.spans = false) (before t : Str) (rest : List Fragment)
      (hrest : QTree defs rest) :
      QTree defs ({ text := before, done := false } :: { text := d.openTag, done := true } ::
        [{ text := t, done := true }] ++ [{ text := d.closeTag, done := true }] ++ rest)

theorem getDefinition_mem (defs : List QuoteDef) (q : Str) (d : QuoteDef) (h : quotesGetDefinition defs q = some d) :
    d ∈ defs := by
  unfold quotesGetDefinition at h
  exact List.mem_of_find?_eq_some h

/-- **Quote tags nest properly, whatever the text and the quote table.** -/
theorem quote_fragments_form_a_tree (defs : List QuoteDef) :
    ∀ fuel depth text s, wp (fragQuoteLoop defs fuel depth text) (fun frags _ => QTree defs frags) s := by
  intro fuel
  induction fuel with
  | zero => intro depth text s; unfold fragQuoteLoop; exact wp_raise _
  | succ n ih =>
    intro depth text s
    unfold fragQuoteLoop
    repeat (any_goals (first | wp_step | (refine wp_mono (ih _ _ _) ?_; intro _ _ _) | wp_skip_call))
    all_goals first
      | exact .text _
      | exact .quoteVerbatim _ (getDefinition_mem _ _ _ (by assumption)) (by simp_all) _ _ _ (by assumption)
      | exact .quoteSpan _ (getDefinition_mem _ _ _ (by assumption)) (by simp_all) _ _ _ (by assumption) (by assumption)
      -- at the nesting limit the quoted text is one text fragment
      | exact .quoteSpan _ (getDefinition_mem _ _ _ (by assumption)) (by simp_all) _ _ _ (.text _) (by assumption)

/-- **A delimited block writes its open tag, its content and its close tag, or (attribute-less division) only its
    content**: the three writes are adjacent and in this order. -/
theorem block_tags_paired (w : Writer) (o t c : Str) :
    (((w.write o).write t).write c).toStr = w.toStr ++ o ++ t ++ c := by
  unfold Writer.write Writer.toStr
  simp [List.flatten_append, List.append_assoc]

/-- the open / close tags of every generated delimited-block, list and quote definition are a matching pair of
    the same element (or both empty) -/
theorem generated_tag_pairs_match :
    (Gen.blockDefaultDefs.all fun d =>
      (d.openTag == [] && d.closeTag == []) ||
      (d.openTag, d.closeTag) == ("<div>".toList, "</div>".toList) ||
      (d.openTag, d.closeTag) == ("<blockquote>".toList, "</blockquote>".toList) ||
      (d.openTag, d.closeTag) == ("<pre><code>".toList, "</code></pre>".toList) ||
      (d.openTag, d.closeTag) == ("<blockquote><p>".toList, "</p></blockquote>".toList) ||
      (d.openTag, d.closeTag) == ("<p>".toList, "</p>".toList)) = true ∧
    (Gen.quoteDefaultDefs.all fun d =>
      (d.openTag, d.closeTag) == ("<strong>".toList, "</strong>".toList) ||
      (d.openTag, d.closeTag) == ("<em>".toList, "</em>".toList) ||
      (d.openTag, d.closeTag) == ("<code>".toList, "</code>".toList) ||
      (d.openTag, d.closeTag) == ("<del>".toList, "</del>".toList)) = true ∧
    (Gen.listDefs.all fun d =>
      ((d.listOpenTag, d.listCloseTag) == ("<ul>".toList, "</ul>".toList) ||
       (d.listOpenTag, d.listCloseTag) == ("<ol>".toList, "</ol>".toList) ||
       (d.listOpenTag, d.listCloseTag) == ("<dl>".toList, "</dl>".toList)) &&
      ((d.itemOpenTag, d.itemCloseTag) == ("<li>".toList, "</li>".toList) ||
       (d.itemOpenTag, d.itemCloseTag) == ("<dd>".toList, "</dd>".toList)) &&
      ((d.termOpenTag, d.termCloseTag) == ([], []) || (d.termOpenTag, d.termCloseTag) == ("<dt>".toList, "</dt>".toList))) = true := by
  decide +kernel

/-- Concrete overlapping and unterminated inputs (kernel evaluation): the output is balanced. -/
example :
    let run (m : Int) (src : String) := match (apiRender ⟨fun _ _ => .error⟩ 40 src.toList { safeMode := .int m }).run Session.uninit with
      | .ok (h, _) => h | .error _ => "ERROR".toList
    (run 1 "*a _b* c_" == "<p><em>a _b</em> c_</p>".toList &&
     run 1 "- a\n  ..\n  x" == "<ul><li>a\n  ..\n  x</li></ul>".toList &&
     run 0 "\"\"\n..\n- x\n\"\"" == "<blockquote><ul><li>x</li></ul></blockquote>".toList &&
     run 1 "*[a*](u)" == "<p>*<a href=\"u\">a*</a></p>".toList &&
     run 3 "t:: *d\n- x*" == "<dl><dt>t</dt><dd>*d<ul><li>x*</li></ul></dd></dl>".toList) = true := by
  decide +kernel

end Props.C06
