import RimuProofs.Lemmas.Run
import RimuProofs.Lemmas.StepBlock
import RimuProofs.Lemmas.IdsNodup

/-!
# C15  Element ids are unique unless a duplicate is reported

The id registry `blockattributes.ids`: every id that `injectHtmlAttributes` emits is lower-cased by `str.lower`,
is registered, and is reported as a duplicate exactly when it was already registered (or the tag has its own id);
`slugify` returns an id that is not registered, the base slug when it is free and otherwise the first free
numeric suffix from 2 on.
-/

namespace Props.C15
open Rimu Py

/-- `slugSuffix` returns `slug-i'` for the least `i' ≥ i` that is free. -/
theorem suffix_spec (ids : List Str) (slug : Str) :
    ∀ fuel i s, wp (slugSuffix ids slug fuel i)
      (fun out s' => s' = s ∧ ∃ j, i ≤ j ∧ out = slug ++ "-".toList ++ natToStr j ∧ out ∉ ids ∧
        ∀ k, i ≤ k → k < j → (slug ++ "-".toList ++ natToStr k) ∈ ids) s := by
  intro fuel
  induction fuel with
  | zero => intro i s; unfold slugSuffix; exact wp_raise _
  | succ n ih =>
    intro i s
    unfold slugSuffix
    split
    · next hin =>
      refine wp_mono (ih (i + 1) s) ?_
      intro out s' ⟨hs, j, hj, ho, hfree, hall⟩
      refine ⟨hs, j, by omega, ho, hfree, ?_⟩
      intro k hk1 hk2
      by_cases hki : k = i
      · subst hki; simpa using hin
      · exact hall k (by omega) hk2
    · next hin =>
      apply wp_pure
      exact ⟨rfl, i, Nat.le_refl _, rfl, by simpa using hin, fun k h1 h2 => by omega⟩

/-- **Generated ids avoid every id in use by taking the next free numeric suffix.**  `slugify` changes no state and
    returns an id that is not registered: the base slug if that is free, otherwise base`-n` for the least `n ≥ 2`
    such that it is free. -/
theorem slugify_fresh (text : Str) (s : Session) :
    wp (slugify text) (fun out s' => s' = s ∧ out ∉ s.ids ∧
      ∃ base : Str, base ≠ [] ∧ (out = base ∨ (base ∈ s.ids ∧ ∃ j, 2 ≤ j ∧ out = base ++ "-".toList ++ natToStr j ∧
        ∀ k, 2 ≤ k → k < j → (base ++ "-".toList ++ natToStr k) ∈ s.ids))) s := by
  unfold slugify
  have hne : slugBase text ≠ [] := by
    unfold slugBase
    simp only []
    split
    · decide
    · next h => simpa using h
  generalize slugBase text = base at hne
  apply wp_bind
  apply wp_get
  show wp (if s.ids.contains base = true then slugSuffix s.ids base (s.ids.length + 2) 2 else pure base) _ s
  split
  · next hin =>
    refine wp_mono (suffix_spec s.ids base _ 2 s) ?_
    intro out s' ⟨hs, j, hj, ho, hfree, hall⟩
    exact ⟨hs, hfree, base, hne, .inr ⟨by simpa using hin, j, hj, ho, hall⟩⟩
  · next hin =>
    apply wp_pure
    exact ⟨rfl, by simpa using hin, base, hne, .inl rfl⟩

/-- **A repeated id is reported.**  If the (lower-cased) id is already registered, or the tag has an id of its own,
    `injectId` issues exactly one duplicate-id diagnostic and registers nothing. -/
theorem injectId_duplicate (sid : Str) (ids : List Str) (result attrs : Str) (s : Session) (hne : sid ≠ [])
    (hdup : ((Gen.P.blockattributes_injectHtmlAttributes_1.search result).isSome || ids.contains (lower sid)) = true) :
    wp (injectId sid ids result attrs) (fun _ s' =>
      s'.id = lower sid ∧ s'.ids = s.ids ∧
      s'.log = (if s.callback then s.log ++ ["duplicate 'id' attribute: ".toList ++ lower sid] else s.log)) s := by
  have hb : (sid == []) = false := by simpa using hne
  unfold injectId errorCallback
  simp only [hb, hdup]
  wp_go'
  all_goals first
    | contradiction
    | (cases hcb : s.callback <;> simp [hcb] <;> done)
    | simp_all

/-- **... and only a repeated id is.**  Otherwise the id is registered and no diagnostic is issued. -/
theorem injectId_fresh (sid : Str) (ids : List Str) (result attrs : Str) (s : Session) (hne : sid ≠ [])
    (hdup : ((Gen.P.blockattributes_injectHtmlAttributes_1.search result).isSome || ids.contains (lower sid)) = false) :
    wp (injectId sid ids result attrs) (fun _ s' =>
      s'.id = lower sid ∧ s'.ids = lower sid :: s.ids ∧ s'.log = s.log) s := by
  have hb : (sid == []) = false := by simpa using hne
  unfold injectId errorCallback
  simp only [hb, hdup]
  wp_go'
  all_goals first | contradiction | exact ⟨rfl, rfl, rfl⟩ | simp_all

/-- the id written into the tag is the lower-cased id -/
theorem injectId_attr (sid : Str) (ids : List Str) (result attrs : Str) (s : Session) (hne : sid ≠ [])
    (hno : (Gen.P.blockattributes_injectHtmlAttributes_1.search result).isSome = false) :
    wp (injectId sid ids result attrs) (fun out _ => out = attrs ++ " id=\"".toList ++ lower sid ++ "\"".toList) s := by
  have hb : (sid == []) = false := by simpa using hne
  unfold injectId errorCallback
  simp only [hb, hno]
  wp_go'
  all_goals first | rfl | simp_all

/-- **Header ids are generated only when `--header-ids` is non-blank and no id is pending** (the model's
    `lineFilter` header branch), stated on the guard it evaluates. -/
theorem header_id_guard (hid : Option Str) (pending : Str) :
    (((hid.getD []) != [] && pending == []) = true) ↔ (hid.getD [] ≠ [] ∧ pending = []) := by
  simp

/-- `options.setOption` touches the registry only through a requested reset, which empties it -/
theorem setOption_ids (n : Str) (v : PyVal) : Pres IdsNodup (setOption n v) := by
  apply Pres.start; intro s0 s hcur
  unfold setOption documentInit
  wp_go
  all_goals ids_leaf

theorem updateFrom_ids (o : RenderOptions) : Pres IdsNodup (updateFrom o) := by
  have h := setOption_ids
  apply Pres.start; intro s0 s hcur
  unfold updateFrom
  wp_go
  all_goals ids_leaf

/-- **The registry of element ids never holds an id twice.**  Whatever is rendered, with whatever options, in
    whatever session: if the ids registered so far are pairwise distinct, so are those registered afterwards - the
    one writer (`injectHtmlAttributes`) registers an id only if it is not in the registry it has just read, and
    `document.init()` empties it.  Together with `injectId_duplicate` (an id that is not registered is reported) this is
    the session-level form of "unique unless reported". -/
theorem registry_stays_duplicate_free (env : Env) (fuel : Nat) (src : Str) (o : RenderOptions) (s : Session)
    (h : s.ids.Nodup) (out : Str) (s' : Session) (hr : (apiRender env fuel src o).run s = .ok (out, s')) :
    s'.ids.Nodup := by
  have hd := (mkRec_ids env fuel).2 0 src
  have hu := updateFrom_ids o
  have key : Pres IdsNodup (apiRender env fuel src o) := by
    apply Pres.start; intro s0 s hcur
    unfold apiRender documentInit
    wp_go
    all_goals ids_leaf
  exact key s out s' hr h

/-- ... in particular in every session that a history of `render` calls can reach from a fresh process -/
theorem fresh_process_registry_is_empty : Session.uninit.ids = [] := rfl

/-- Concrete sessions (kernel evaluation): colliding header slugs take suffixes 2, 3; an explicit id that collides with
    a generated one is reported. -/
example :
    (match (apiRender ⟨fun _ _ => .error⟩ 40 "{--header-ids} = 'x'\n\n# A b\n\n# a B\n\n# A-b\n\n.#a-b-2\npara".toList { callback := true }).run Session.uninit with
     | .ok (html, s) =>
       html == "<h1 id=\"a-b\">A b</h1>\n<h1 id=\"a-b-2\">a B</h1>\n<h1 id=\"a-b-3\">A-b</h1>\n<p id=\"a-b-2\">para</p>".toList &&
       s.log == ["duplicate 'id' attribute: a-b-2".toList]
     | .error _ => false) = true := by decide +kernel

end Props.C15
