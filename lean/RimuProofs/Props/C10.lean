import RimuProofs.Lemmas.Run
import RimuProofs.Props.C17
import RimuProofs.Facts
import RimuProofs.Lemmas.SafeBlock

/-!
# C10  List markers determine list nesting exactly

Proved for the model:
* **classification of the 13 markers** (`all_markers_classified`): for each of `- + * ** *** **** . .. ... .... :: :::
  ::::` the generated list rules recognise an item line with that marker, with the marker as list id, and map it to
  `ul`/`ol`/`dl` with `li` or `dt`/`dd` - decided over the whole (finite) marker table by kernel evaluation;
* **the open-marker decision** (`item_continues_or_nests`): after an item, a next item whose id is on the stack of open
  lists is handed back to the enclosing loops (it continues or returns to that list), any other id opens a child list
  inside the current item - the two branches of the model's item loop;
* **two blank lines (or end of input) end the list** (`two_blank_lines_end_item`);
* **the stack of open markers is balanced** (`list_stack_is_balanced`, `list_leaves_no_open_marker`): rendering a list -
  whatever it contains: child lists, attached blocks, containers with lists of their own, any nesting - returns with
  the stack of open list ids exactly as it found it (and `ids.pop()` never meets an empty stack: C01); a whole
  `lists.render` leaves it empty.
The complete marker-machine-equals-tree-specification theorem is not proved; list trees (depth 4, mixed kinds,
attached blocks, blank lines, following block) are checked against the tree the generator built.
-/

namespace Props.C10
open Rimu Py

/-- the 13 markers with the element kinds they must produce -/
def markerTable : List (String × String × String) :=
  [("-", "<ul>", "<li>"), ("+", "<ul>", "<li>"), ("*", "<ul>", "<li>"), ("**", "<ul>", "<li>"), ("***", "<ul>", "<li>"),
   ("****", "<ul>", "<li>"), (".", "<ol>", "<li>"), ("..", "<ol>", "<li>"), ("...", "<ol>", "<li>"), ("....", "<ol>", "<li>"),
   ("::", "<dl>", "<dd>"), (":::", "<dl>", "<dd>"), ("::::", "<dl>", "<dd>")]

def itemLine (marker : String) : Str :=
  if marker.toList.head? == some ':' then "term".toList ++ marker.toList ++ " text".toList
  else marker.toList ++ " text".toList

/-- **Every marker is recognised, with itself as list id, by the rule of its kind.** -/
theorem all_markers_classified :
    (markerTable.all fun (marker, listTag, itemTag) =>
      match (matchItem { rest := [itemLine marker] }).run Session.uninit with
      | .ok ((some item, _), _) =>
        item.id == marker.toList && item.listdef.listOpenTag == listTag.toList && item.listdef.itemOpenTag == itemTag.toList &&
        (item.mt.res.group item.mt.inp item.mt.ngroups).getD [] == (if marker.toList.head? == some ':' then " text".toList else "text".toList)
      | _ => false) = true := by
  decide +kernel

/-- markers are pairwise distinct ids -/
theorem markers_distinct : (markerTable.map (·.1)).Nodup := by decide

/-- a line that is not an item (plain text) is not classified as one -/
theorem plain_text_is_not_an_item :
    (["plain text", "a - b", "1 2 3", "x.y", "t: d"].all fun l =>
      match (matchItem { rest := [l.toList] }).run Session.uninit with
      | .ok ((none, _), _) => true
      | _ => false) = true := by
  decide +kernel

/-- **Two or more blank lines, or end of input, end the list**: the item loop returns "no next item" without reading
    anything further. -/
theorem two_blank_lines_end_item (rec : Rec) (env : Env) (fuel : Nat) (r r' : Reader) (il al al' : Writer) (done : Bool)
    (b : Int) (s s' : Session)
    (hc : (consumeBlockAttributes rec env (r.rest.length + 2) 0 r al).run s = .ok ((b, r', al'), s'))
    (hb : b ≥ 2 ∨ b = -1) :
    (renderItemLoop rec env (fuel + 1) r il al done).run s = .ok ((none, r', il, al'), s') := by
  unfold renderItemLoop
  rw [run_bind, hc]
  have : (decide (b ≥ 2) || b == -1) = true := by
    rcases hb with h | h
    · simp [h]
    · simp [h]
  simp only [this, if_true]
  rfl

/-- **An item whose marker is already open continues (or returns to) that list; a new marker opens a child list
    inside the current item.**  After fewer than two blank lines, with a next item `n` matched: if `n.id` is on the
    stack of open list ids the item loop ends and hands `n` back to the enclosing lists; otherwise it renders a
    child list starting at `n` into the current item. -/
theorem item_continues_or_nests (rec : Rec) (env : Env) (fuel : Nat) (r r1 r2 : Reader) (il al al1 : Writer) (done : Bool)
    (b : Int) (n : ItemInfo) (s s1 : Session)
    (hc : (consumeBlockAttributes rec env (r.rest.length + 2) 0 r al).run s = .ok ((b, r1, al1), s1))
    (hb : ¬(b ≥ 2 ∨ b = -1))
    (hm : (matchItem r1).run s1 = .ok ((some n, r2), s1)) :
    (renderItemLoop rec env (fuel + 1) r il al done).run s =
      if s1.listIds.contains n.id then .ok ((some n, r2, il, al1), s1)
      else match (renderList rec env fuel n r2 al1).run s1 with
        | .ok ((nx, r3, al3), s3) => .ok ((nx, r3, il, al3), s3)
        | .error e => .error e := by
  unfold renderItemLoop
  rw [run_bind, hc]
  have : (decide (b ≥ 2) || b == -1) = false := by
    simp only [not_or] at hb
    simp [hb.1, hb.2]
  simp only [this, Bool.false_eq_true, if_false]
  rw [run_bind, hm]
  simp only []
  rw [run_bind, run_get]
  simp only []
  by_cases hin : s1.listIds.contains n.id = true
  · simp only [hin, if_true]; rfl
  · have hin' : s1.listIds.contains n.id = false := by simpa using hin
    simp only [hin', Bool.false_eq_true, if_false]
    rw [run_bind]
    cases (renderList rec env fuel n r2 al1).run s1 with
    | error e => rfl
    | ok v => obtain ⟨⟨nx, r3, al3⟩, s3⟩ := v; rfl

/-- **The stack of open list ids is balanced**: a list rendered from a session that satisfies the invariant returns
    with the stack as it was, for every item, reader, fuel and `compile` oracle. -/
theorem list_stack_is_balanced (env : Env) (n fuel : Nat) (item : ItemInfo) (hit : item.Ok) (r : Reader) (w : Writer)
    (s s' : Session) (hI : Inv s) (res : Option ItemInfo × Reader × Writer)
    (hr : (renderList (mkRec env n) env fuel item r w).run s = .ok (res, s')) : s'.listIds = s.listIds := by
  have h := (lists_ok (mkRec env n) env (mkRec_ok env n).1 (mkRec_ok env n).2 (mkRec_spec env n).1 fuel).1
    item r w s.listIds hit s hI rfl
  exact (wpE_ok h hr).2.2

/-- a complete `lists.render` leaves no marker open -/
theorem list_leaves_no_open_marker (env : Env) (n fuel : Nat) (item : ItemInfo) (hit : item.Ok) (r : Reader) (w : Writer)
    (s s' : Session) (hI : Inv s) (hs : s.listIds = []) (res : Option ItemInfo × Reader × Writer)
    (hr : (renderList (mkRec env n) env fuel item r w).run s = .ok (res, s')) : s'.listIds = [] := by
  rw [list_stack_is_balanced env n fuel item hit r w s s' hI res hr, hs]

/-- Concrete trees (kernel evaluation): continue, nest, return to a grandparent, attached block, one blank line
    continues, two end the list. -/
example :
    let run (src : String) := match (apiRender ⟨fun _ _ => .error⟩ 60 src.toList {}).run Session.uninit with
      | .ok (h, _) => h | .error _ => "ERROR".toList
    (run "- a\n- b" == "<ul><li>a</li><li>b</li></ul>".toList &&
     run "- a\n** b\n. c\n** d\n- e" == "<ul><li>a<ul><li>b<ol><li>c</li></ol></li><li>d</li></ul></li><li>e</li></ul>".toList &&
     run "t:: d\n- x\nu:: e" == "<dl><dt>t</dt><dd>d<ul><li>x</li></ul></dd><dt>u</dt><dd>e</dd></dl>".toList &&
     run "- a\n```\nc\n```\n- b" == "<ul><li>a<pre><code>c</code></pre>\n</li><li>b</li></ul>".toList &&
     run "- a\n\n- b\n\n\n- c" == "<ul><li>a</li><li>b</li></ul><ul><li>c</li></ul>".toList &&
     run "- a\n  * b\n\n\n- c" == "<ul><li>a<ul><li>b</li></ul></li></ul><ul><li>c</li></ul>".toList) = true := by
  decide +kernel

end Props.C10
