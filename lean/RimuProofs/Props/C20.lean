import RimuProofs.Lemmas.Run
import RimuProofs.Props.C04
import RimuProofs.Lemmas.Tactic

/-!
# C20  Options are validated, persist until reset, and cannot be set from safe mode

The option state machine of the model: `setOption`, `updateFrom`, the implicit initialisation and the in-document
option elements (through the `Step` relation of C04).
-/

namespace Props.C20
open Rimu Py Props.C04

/-- the safe mode is an integer from 0 to 15 -/
def ModeOk (s : Session) : Prop := 0 ≤ s.safeMode ∧ s.safeMode ≤ 15

def illegalSafeModeMsg (v : PyVal) : Str := "illegal safeMode API option value: ".toList ++ v.toStr

/-- **Rejection.**  A value that `int()` rejects or that is outside 0..15 leaves the session unchanged except for one
    diagnostic (delivered if a callback is installed). -/
theorem setOption_safeMode_rejects (v : PyVal) (s : Session)
    (h : pyInt v.toStr = none ∨ ∃ n, pyInt v.toStr = some n ∧ (n < 0 ∨ n > 15)) :
    (setOption "safeMode".toList v).run s =
      .ok ((), if s.callback then { s with log := s.log ++ [illegalSafeModeMsg v] } else s) := by
  unfold setOption
  simp only [name_sm_sm, if_true]
  rcases h with h | ⟨n, h, hr⟩
  · rw [h]; rfl
  · rw [h]
    have : (decide (n < 0) || decide (n > 15)) = true := by
      rcases hr with hr | hr <;> simp [hr]
    simp only [this, if_true]
    rfl

/-- **Acceptance.**  A legal value becomes the safe mode; nothing else changes and no diagnostic is issued. -/
theorem setOption_safeMode_accepts (v : PyVal) (n : Int) (s : Session)
    (h : pyInt v.toStr = some n) (lo : 0 ≤ n) (hi : n ≤ 15) :
    (setOption "safeMode".toList v).run s = .ok ((), { s with safeMode := n }) := by
  unfold setOption
  simp only [name_sm_sm, if_true]
  rw [h]
  have : (decide (n < 0) || decide (n > 15)) = false := by
    simp only [Bool.or_eq_false_iff, decide_eq_false_iff_not]; omega
  simp only [this]
  rfl

/-- `htmlReplacement` is stored as `str(value)` with the reserved code points blanked. -/
theorem setOption_htmlReplacement (v : PyVal) (s : Session) :
    (setOption "htmlReplacement".toList v).run s = .ok ((), { s with htmlReplacement := blankReserved v.toStr }) := by
  unfold setOption
  simp only [name_hr_sm, name_hr_rs, name_hr_hr]
  rfl

/-- `reset` with `True` / `'true'` (or a value equal to `True`) is `document.init()`; `None`, `False`, `'false'` do
    nothing. -/
theorem setOption_reset_true (v : PyVal) (s : Session)
    (h1 : (v == .none || v.eqFalse || v == .str "false".toList) = false)
    (h2 : (v.eqTrue || v == .str "true".toList) = true) :
    (setOption "reset".toList v).run s = documentInit.run s := by
  unfold setOption
  simp only [name_rs_sm, name_rs_rs, h1, h2]
  rfl

theorem setOption_reset_none (s : Session) : (setOption "reset".toList .none).run s = .ok ((), s) := by
  unfold setOption
  simp only [name_rs_sm, name_rs_rs]
  rfl

/-- Every successful `setOption` preserves `Step` **when the safe mode is 0** and is otherwise still range-preserving:
    the safe mode stays in 0..15 whatever the option name and value. -/
theorem setOption_modeOk (name : Str) (v : PyVal) (s s' : Session) (h : ModeOk s)
    (hr : (setOption name v).run s = .ok ((), s')) : ModeOk s' := by
  have key : wp (setOption name v) (fun _ t => ModeOk t) s := by
    unfold setOption documentInit errorCallback
    repeat (any_goals wp_step)
    all_goals (try split)
    all_goals first
      | exact h
      | (unfold ModeOk; simp_all; done)
      | (unfold ModeOk; simp_all; omega)
  exact key () s' hr

/-- `ModeOk` is kept: as a reflexive, transitive relation so that the `wp` tactic can push it through code. -/
def RangeKeep (s s' : Session) : Prop := ModeOk s → ModeOk s'

instance : IsPre RangeKeep := ⟨fun _ h => h, fun h1 h2 h => h2 (h1 h)⟩

theorem setOption_rangeKeep (name : Str) (v : PyVal) : Pres RangeKeep (setOption name v) :=
  fun s _ s' hr h => setOption_modeOk name v s s' h hr

theorem updateFrom_rangeKeep (o : RenderOptions) : Pres RangeKeep (updateFrom o) := by
  have h := setOption_rangeKeep
  apply Pres.start; intro s0 s hcur
  unfold updateFrom
  wp_go

/-- the state that `document.init()` produces from `s` (the scratch fields `log`, `listIds`, `saved` are kept) -/
def initState (s : Session) : Session :=
  { s with
    classes := [], id := [], css := [], attributes := [], opts := {}, ids := [],
    safeMode := Gen.defaultSafeMode, htmlReplacement := Gen.defaultHtmlReplacement, callback := false,
    blockDefs := Gen.blockDefaultDefs, macroDefs := Gen.macroDefaultDefs,
    quoteDefs := Gen.quoteDefaultDefs, replDefs := Gen.replDefaultDefs }

theorem apiPrefix_run (o : RenderOptions) (s : Session) :
    (apiPrefix o).run s = (updateFrom o).run (if s.safeMode == -1 then initState s else s) := by
  unfold apiPrefix
  rw [run_bind]
  simp only [run_get]
  split
  · rw [run_bind, run_documentInit]; rfl
  · rfl

/-- The call's own options leave the safe mode in range, from an uninitialised or a well-formed session. -/
theorem apiPrefix_modeOk (opts : RenderOptions) (s s₁ : Session) (h : s.safeMode = -1 ∨ ModeOk s)
    (hr : (apiPrefix opts).run s = .ok ((), s₁)) : ModeOk s₁ := by
  rw [apiPrefix_run] at hr
  refine updateFrom_rangeKeep opts _ () s₁ hr ?_
  split
  · exact ⟨by simp [initState], by simp [initState]⟩
  · next hinit =>
    rcases h with h | h
    · simp [h] at hinit
    · exact h

/-- **The safe mode is always an integer from 0 to 15.**  After any successful `render` call, from the
    uninitialised state or from a state whose safe mode is in range. -/
theorem apiRender_modeOk (env : Env) (fuel : Nat) (src : Str) (opts : RenderOptions) (s s' : Session) (html : Str)
    (h : s.safeMode = -1 ∨ ModeOk s) (hr : (apiRender env fuel src opts).run s = .ok (html, s')) : ModeOk s' := by
  obtain ⟨s₁, hp, _⟩ := api_untrusted_source_cannot_change_definitions env fuel src opts s s' html hr
  have h1 := apiPrefix_modeOk opts s s₁ h hp
  rw [apiRender_eq, run_bind, hp] at hr
  have st := document_step env fuel src s₁ s' html hr
  rcases st.mode with e | ⟨_, lo, hi⟩
  · exact ⟨by rw [e]; exact h1.1, by rw [e]; exact h1.2⟩
  · exact ⟨lo, hi⟩

/-- Sessions reachable from a fresh process by any history of successful `render` calls (any sources, any option
    values legal or not, any `compile` oracle). -/
inductive Reach : Session → Prop where
  | fresh : Reach Session.uninit
  | render {s s' : Session} (env : Env) (fuel : Nat) (src : Str) (opts : RenderOptions) (html : Str) :
      Reach s → (apiRender env fuel src opts).run s = .ok (html, s') → Reach s'

theorem reach_modeOk {s : Session} (h : Reach s) : s.safeMode = -1 ∨ ModeOk s := by
  induction h with
  | fresh => exact .inl rfl
  | render env fuel src opts html _ hr ih => exact .inr (apiRender_modeOk env fuel src opts _ _ html ih hr)

/-- **Option elements inside a document take effect only while the safe mode is 0**: a document rendered in a
    non-zero safe mode ends with the same safe mode and replacement text (from C04's `Step`). -/
theorem document_options_only_at_mode0 (env : Env) (fuel : Nat) (src : Str) (s s' : Session) (html : Str)
    (h : ((mkRec env fuel).document 0 src).run s = .ok (html, s')) (hm : s.safeMode ≠ 0) :
    s'.safeMode = s.safeMode ∧ s'.htmlReplacement = s.htmlReplacement := by
  have := untrusted_source_cannot_change_definitions env fuel src s s' html h hm
  exact ⟨this.1, this.2.1⟩

/-! ## `setOption` and `updateFrom` as total state transformers -/

/-- what `options.errorCallback` does to the state -/
def logMsg (msg : Str) (s : Session) : Session := if s.callback then { s with log := s.log ++ [msg] } else s

/-- `options.setOption` never raises: it is this function on states. -/
def setOptionPure (name : Str) (value : PyVal) (s : Session) : Session :=
  if name == "safeMode".toList then
    match pyInt value.toStr with
    | none => logMsg ("illegal safeMode API option value: ".toList ++ value.toStr) s
    | some n =>
      if n < 0 || n > 15 then logMsg ("illegal safeMode API option value: ".toList ++ value.toStr) s
      else { s with safeMode := n }
  else if name == "reset".toList then
    if value == .none || value.eqFalse || value == .str "false".toList then s
    else if value.eqTrue || value == .str "true".toList then initState s
    else logMsg ("illegal reset API option value: ".toList ++ value.toStr) s
  else if name == "htmlReplacement".toList then { s with htmlReplacement := blankReserved value.toStr }
  else logMsg ("illegal API option name: ".toList ++ name) s

theorem setOption_run (name : Str) (value : PyVal) (s : Session) :
    (setOption name value).run s = .ok ((), setOptionPure name value s) := by
  unfold setOption setOptionPure
  by_cases h1 : (name == "safeMode".toList) = true
  · simp only [h1, if_true]
    cases pyInt value.toStr with
    | none => rfl
    | some n =>
      by_cases h2 : (decide (n < 0) || decide (n > 15)) = true
      · simp only [h2, if_true]; rfl
      · simp only [h2]; rfl
  · simp only [h1]
    by_cases h2 : (name == "reset".toList) = true
    · simp only [h2, if_true]
      by_cases h3 : (value == PyVal.none || value.eqFalse || value == PyVal.str "false".toList) = true
      · simp only [h3, if_true]; rfl
      · simp only [h3]
        by_cases h4 : (value.eqTrue || value == PyVal.str "true".toList) = true
        · simp only [h4, if_true]; rfl
        · simp only [h4]; rfl
    · simp only [h2]
      by_cases h3 : (name == "htmlReplacement".toList) = true
      · simp only [h3, if_true]; rfl
      · simp only [h3]; rfl

/-- `options.updateFrom` as a state transformer -/
def updateFromPure (o : RenderOptions) (s : Session) : Session :=
  let s1 := if o.callback then { s with callback := true } else s
  let s2 := setOptionPure "reset".toList o.reset s1
  let s3 := if o.callback then { s2 with callback := true } else s2
  let s4 := if o.safeMode != .none then setOptionPure "safeMode".toList (.str o.safeMode.toStr) s3 else s3
  if o.htmlReplacement != .none then setOptionPure "htmlReplacement".toList o.htmlReplacement s4 else s4

theorem updateFrom_run (o : RenderOptions) (s : Session) :
    (updateFrom o).run s = .ok ((), updateFromPure o s) := by
  unfold updateFrom updateFromPure
  simp only [run_bind, run_get]
  cases o.callback <;> cases (o.safeMode != .none) <;> cases (o.htmlReplacement != .none) <;>
    simp [setOption_run]

/-- **Options not given in a call keep their session value**: with no option set, `updateFrom` changes nothing at
    all - the callback of an earlier call stays installed too (F38). -/
theorem updateFrom_none (s : Session) : (updateFrom {}).run s = .ok ((), s) := by
  rw [updateFrom_run]
  unfold updateFromPure setOptionPure
  simp

/-- **Reset restores the defaults before the call's other options are applied**: with `reset = True` (or `'true'`)
    the state after the options were applied does not depend on the session before the call, apart from the scratch
    fields that `document.init` does not touch. -/
theorem apiPrefix_reset (o : RenderOptions) (s₁ s₂ : Session)
    (hreset : o.reset = .bool true ∨ o.reset = .str "true".toList)
    (hl : s₁.log = s₂.log) (hi : s₁.listIds = s₂.listIds) (hs : s₁.saved = s₂.saved) :
    (apiPrefix o).run s₁ = (apiPrefix o).run s₂ := by
  have hrs : ∀ t : Session, setOptionPure "reset".toList o.reset t = initState t := by
    intro t
    have e1 : (PyVal.bool true == PyVal.none || (PyVal.bool true).eqFalse || PyVal.bool true == PyVal.str "false".toList) = false := by decide
    have e2 : ((PyVal.bool true).eqTrue || PyVal.bool true == PyVal.str "true".toList) = true := by decide
    have e3 : (PyVal.str "true".toList == PyVal.none || (PyVal.str "true".toList).eqFalse || PyVal.str "true".toList == PyVal.str "false".toList) = false := by decide
    have e4 : ((PyVal.str "true".toList).eqTrue || PyVal.str "true".toList == PyVal.str "true".toList) = true := by decide
    rcases hreset with h | h
    · rw [h]; unfold setOptionPure; simp only [name_rs_sm, name_rs_rs, e1, e2]; rfl
    · rw [h]; unfold setOptionPure; simp only [name_rs_sm, name_rs_rs, e3, e4]; rfl
  have key : ∀ s : Session, updateFromPure o (if s.safeMode == -1 then initState s else s) =
      updateFromPure o (initState s) := by
    intro s
    have hcb : ∀ t : Session, initState (if o.callback then { t with callback := true } else t) = initState t := by
      intro t; split <;> rfl
    have h2 : initState (if s.safeMode == -1 then initState s else s) = initState s := by split <;> rfl
    have hii : initState (initState s) = initState s := rfl
    unfold updateFromPure
    simp only [hrs, hcb, h2, hii]
  have hinit : initState s₁ = initState s₂ := by
    unfold initState
    cases s₁; cases s₂
    simp_all
  rw [apiPrefix_run, apiPrefix_run, updateFrom_run, updateFrom_run, key s₁, key s₂, hinit]

/-! ## Non-vacuity -/

/-- the hypotheses of the rejection theorem are met by a non-numeric, a float-looking, a boolean-looking and an
    out-of-range value; those of the acceptance theorem by `' 7 '` -/
example : pyInt (PyVal.str "junk".toList).toStr = none ∧ pyInt (PyVal.str "2.0".toList).toStr = none ∧
    pyInt (PyVal.bool true).toStr = none ∧ pyInt (PyVal.int 16).toStr = some 16 ∧
    pyInt (PyVal.str " 7 ".toList).toStr = some 7 := by decide

/-- a reachable session: two renders from a fresh process, the second with an illegal safe mode, which leaves
    the mode set by the first -/
example :
    (match (apiRender ⟨fun _ _ => .error⟩ 20 "x".toList { safeMode := .int 5 }).run Session.uninit with
     | .ok (_, s) =>
       (match (apiRender ⟨fun _ _ => .error⟩ 20 "y".toList { safeMode := .str "junk".toList }).run s with
        | .ok (_, s') => s'.safeMode == 5
        | .error _ => false)
     | .error _ => false) = true := by decide +kernel

end Props.C20
