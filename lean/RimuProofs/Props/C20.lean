import RimuProofs.Lemmas.Run
import RimuProofs.Props.C04
import RimuProofs.Lemmas.Tactic

/-!
# C20  Options are validated, persist until reset, and cannot be set from safe mode

The option state machine of the model: `setOption`, `updateFrom`, the implicit initialisation and the in-document
option elements (through the `Step` relation of C04).
-/

namespace Props.C20
open Rimu Py Props.C04

/-- the safe mode is an integer from 0 to 15 -/
def ModeOk (s : Session) : Prop := 0 ≤ s.safeMode ∧ s.safeMode ≤ 15

def illegalSafeModeMsg (v : PyVal) : Str := "illegal safeMode API option value: ".toList ++ v.toStr

/-- **Rejection.**  A value that `int()` rejects or that is outside 0..15 leaves the session unchanged except for one
    diagnostic (delivered if a callback is installed). -/
theorem setOption_safeMode_rejects (v : PyVal) (s : Session)
    (h : pyInt v.toStr = none ∨ ∃ n, pyInt v.toStr = some n ∧ (n < 0 ∨ n > 15)) :
    (setOption "safeMode".toList v).run s =
      .ok ((), if s.callback then { s with log := s.log ++ [illegalSafeModeMsg v] } else s) := by
  unfold setOption
  simp only [name_sm_sm, if_true]
  rcases h with h | ⟨n, h, hr⟩
  · rw [h]; rfl
  · rw [h]
    have : (decide (n < 0) || decide (n > 15)) = true := by
      rcases hr with hr | hr <;> simp [hr]
    simp only [this, if_true]
    rfl

/-- **Acceptance.**  A legal value becomes the safe mode; nothing else changes and no diagnostic is issued. -/
theorem setOption_safeMode_accepts (v : PyVal) (n : Int) (s : Session)
    (h : pyInt v.toStr = some n) (lo : 0 ≤ n) (hi : n ≤ 15) :
    (setOption "safeMode".toList v).run s = .ok ((), { s with safeMode := n }) := by
  unfold setOption
  simp only [name_sm_sm, if_true]
  rw [h]
  have : (decide (n < 0) || decide (n > 15)) = false := by
    simp only [Bool.or_eq_false_iff, decide_eq_false_iff_not]; omega
  simp only [this]
  rfl

/-- `htmlReplacement` is stored as given (`str(value)`). -/
theorem setOption_htmlReplacement (v : PyVal) (s : Session) :
    (setOption "htmlReplacement".toList v).run s = .ok ((), { s with htmlReplacement := v.toStr }) := by
  unfold setOption
  simp only [name_hr_sm, name_hr_rs, name_hr_hr]
  rfl

/-- `reset` with `True` / `'true'` (or a value equal to `True`) is `document.init()`; `None`, `False`, `'false'` do
    nothing. -/
theorem setOption_reset_true (v : PyVal) (s : Session)
    (h1 : (v == .none || v.eqFalse || v == .str "false".toList) = false)
    (h2 : (v.eqTrue || v == .str "true".toList) = true) :
    (setOption "reset".toList v).run s = documentInit.run s := by
  unfold setOption
  simp only [name_rs_sm, name_rs_rs, h1, h2]
  rfl

theorem setOption_reset_none (s : Session) : (setOption "reset".toList .none).run s = .ok ((), s) := by
  unfold setOption
  simp only [name_rs_sm, name_rs_rs]
  rfl

/-- Every successful `setOption` preserves `Step` **when the safe mode is 0** and is otherwise still range-preserving:
    the safe mode stays in 0..15 whatever the option name and value. -/
theorem setOption_modeOk (name : Str) (v : PyVal) (s s' : Session) (h : ModeOk s)
    (hr : (setOption name v).run s = .ok ((), s')) : ModeOk s' := by
  have key : wp (setOption name v) (fun _ t => ModeOk t) s := by
    unfold setOption documentInit errorCallback
    repeat (any_goals wp_step)
    all_goals (try split)
    all_goals first
      | exact h
      | (unfold ModeOk; simp_all; done)
      | (unfold ModeOk; simp_all; omega)
  exact key () s' hr

/-- `ModeOk` is kept: as a reflexive, transitive relation so that the `wp` tactic can push it through code. -/
def RangeKeep (s s' : Session) : Prop := ModeOk s → ModeOk s'

instance : IsPre RangeKeep := ⟨fun _ h => h, fun h1 h2 h => h2 (h1 h)⟩

theorem setOption_rangeKeep (name : Str) (v : PyVal) : Pres RangeKeep (setOption name v) :=
  fun s _ s' hr h => setOption_modeOk name v s s' h hr

theorem updateFrom_rangeKeep (o : RenderOptions) : Pres RangeKeep (updateFrom o) := by
  have h := setOption_rangeKeep
  apply Pres.start; intro s0 s hcur
  unfold updateFrom
  wp_go

/-- The call's own options leave the safe mode in range, from an uninitialised or a well-formed session. -/
theorem apiPrefix_modeOk (opts : RenderOptions) (s s₁ : Session) (h : s.safeMode = -1 ∨ ModeOk s)
    (hr : (apiPrefix opts).run s = .ok ((), s₁)) : ModeOk s₁ := by
  unfold apiPrefix at hr
  rw [run_bind] at hr
  simp only [run_get] at hr
  rw [run_bind] at hr
  split at hr
  · next hinit =>
    split at hr
    · next u s' hi =>
      rw [run_documentInit] at hi
      injection hi with hi; injection hi with _ hi; subst hi
      exact updateFrom_rangeKeep opts _ () s₁ hr ⟨by simp, by simp⟩
    · cases hr
  · next hinit =>
    simp only [run_pure] at hr
    have hm : ModeOk s := by
      rcases h with h | h
      · simp [h] at hinit
      · exact h
    exact updateFrom_rangeKeep opts _ () s₁ hr hm

/-- **The safe mode is always an integer from 0 to 15.**  After any successful `render` call, from the
    uninitialised state or from a state whose safe mode is in range. -/
theorem apiRender_modeOk (env : Env) (fuel : Nat) (src : Str) (opts : RenderOptions) (s s' : Session) (html : Str)
    (h : s.safeMode = -1 ∨ ModeOk s) (hr : (apiRender env fuel src opts).run s = .ok (html, s')) : ModeOk s' := by
  obtain ⟨s₁, hp, _⟩ := api_untrusted_source_cannot_change_definitions env fuel src opts s s' html hr
  have h1 := apiPrefix_modeOk opts s s₁ h hp
  rw [apiRender_eq, run_bind, hp] at hr
  have st := document_step env fuel src s₁ s' html hr
  rcases st.mode with e | ⟨_, lo, hi⟩
  · exact ⟨by rw [e]; exact h1.1, by rw [e]; exact h1.2⟩
  · exact ⟨lo, hi⟩

/-- Sessions reachable from a fresh process by any history of successful `render` calls (any sources, any option
    values legal or not, any `compile` oracle). -/
inductive Reach : Session → Prop where
  | fresh : Reach Session.uninit
  | render {s s' : Session} (env : Env) (fuel : Nat) (src : Str) (opts : RenderOptions) (html : Str) :
      Reach s → (apiRender env fuel src opts).run s = .ok (html, s') → Reach s'

theorem reach_modeOk {s : Session} (h : Reach s) : s.safeMode = -1 ∨ ModeOk s := by
  induction h with
  | fresh => exact .inl rfl
  | render env fuel src opts html _ hr ih => exact .inr (apiRender_modeOk env fuel src opts _ _ html ih hr)

/-- **Option elements inside a document take effect only while the safe mode is 0**: a document rendered in a
    non-zero safe mode ends with the same safe mode and replacement text (from C04's `Step`). -/
theorem document_options_only_at_mode0 (env : Env) (fuel : Nat) (src : Str) (s s' : Session) (html : Str)
    (h : ((mkRec env fuel).document src).run s = .ok (html, s')) (hm : s.safeMode ≠ 0) :
    s'.safeMode = s.safeMode ∧ s'.htmlReplacement = s.htmlReplacement := by
  have := untrusted_source_cannot_change_definitions env fuel src s s' html h hm
  exact ⟨this.1, this.2.1⟩

/-- **Options not given in a call keep their session value**: with no option set, `updateFrom` changes nothing but
    the callback registration. -/
theorem updateFrom_none (s : Session) :
    (updateFrom {}).run s = .ok ((), if s.callback then { s with callback := false } else s) := by
  unfold updateFrom
  simp only [run_bind, run_get]
  cases hc : s.callback <;> simp [hc, run_bind, setOption_reset_none]

/-- **Reset restores the defaults before the call's other options are applied**: with `reset = True` the state
    after the options were applied is a function of the options alone (apart from the scratch fields that
    `document.init` does not touch). -/
theorem apiPrefix_reset (o : RenderOptions) (s₁ s₂ : Session) (hreset : o.reset = .bool true)
    (hl : s₁.log = s₂.log) (hi : s₁.listIds = s₂.listIds) (hs : s₁.saved = s₂.saved) :
    (apiPrefix o).run s₁ = (apiPrefix o).run s₂ := by
  sorry

end Props.C20
