import RimuProofs.Props.C20
import RimuProofs.Lemmas.NIPTop

/-!
# C05  reset makes render a pure function of source and options

`document.init()` overwrites every module table and option with a constant before anything reads session
state; the two scratch registers it does not touch (`lists.ids`, `spans.savedReplacements`) and the message log
are the only residue.  In the model a `render` call with `reset=True` / `'true'` therefore returns the same
html, the same messages and the same final state from any two sessions that agree on those three fields, in
particular the same as on the state of a fresh process.
-/

namespace Props.C05
open Rimu Props.C04 Props.C20

/-- **C05.**  With reset requested, the whole result of the call (html or exception, messages, final state) does not
    depend on the session it is made in, beyond `lists.ids`, `spans.savedReplacements` and the log. -/
theorem reset_render_is_pure (env : Env) (fuel : Nat) (src : Str) (o : RenderOptions) (s₁ s₂ : Session)
    (hreset : o.reset = .bool true ∨ o.reset = .str "true".toList)
    (hl : s₁.log = s₂.log) (hi : s₁.listIds = s₂.listIds) (hs : s₁.saved = s₂.saved) :
    (apiRender env fuel src o).run s₁ = (apiRender env fuel src o).run s₂ := by
  rw [apiRender_eq, run_bind, run_bind, apiPrefix_reset o s₁ s₂ hreset hl hi hs]

/-- ... in particular it equals the same call made first in a fresh process. -/
theorem reset_render_equals_fresh_process (env : Env) (fuel : Nat) (src : Str) (o : RenderOptions) (s : Session)
    (hreset : o.reset = .bool true ∨ o.reset = .str "true".toList)
    (hl : s.log = []) (hi : s.listIds = []) (hs : s.saved = []) :
    (apiRender env fuel src o).run s = (apiRender env fuel src o).run Session.uninit :=
  reset_render_is_pure env fuel src o s Session.uninit hreset hl hi hs

/-- The residue cannot influence span rendering: `spans.render` empties the placeholder queue before it reads it. -/
theorem spansRender_ignores_saved (rec : Rec) (env : Env) (src : Str) (s : Session) (q : List Fragment) :
    (spansRender rec env src).run { s with saved := q } = (spansRender rec env src).run s := by
  unfold spansRender preReplacements
  simp only [bind_assoc, run_bind, run_modify]

/-- The two runs end in the same exception, or return the same html and final sessions that differ at most in the two
    scratch registers (so the same messages, definitions, options, pending attributes and id registry). -/
def SameUpToScratch {α : Type} (r₁ r₂ : Except PyErr (α × Session)) : Prop :=
  match r₁, r₂ with
  | .ok (a, t1), .ok (a', t2) => a = a' ∧ ∃ q l, t2 = { t1 with saved := q, listIds := l }
  | .error e, .error e' => e = e'
  | _, _ => False

theorem SameUpToScratch.of_agree {α : Type} {r₁ r₂ r₃ : Except PyErr (α × Session)}
    (h1 : AgreeP .saved r₁ r₂) (h2 : AgreeP .ids r₂ r₃) : SameUpToScratch r₁ r₃ := by
  cases r₁ with
  | error e =>
    cases r₂ with
    | error e' =>
      cases r₃ with
      | error e'' => exact Eq.trans (α := PyErr) h1 h2
      | ok _ => exact h2.elim
    | ok _ => exact h1.elim
  | ok x =>
    obtain ⟨a, s1⟩ := x
    cases r₂ with
    | error e' => exact h1.elim
    | ok y =>
      obtain ⟨a', t1⟩ := y
      cases r₃ with
      | error e'' => exact h2.elim
      | ok z =>
        obtain ⟨a'', u1⟩ := z
        obtain ⟨e1, q, l, e2⟩ := h1
        obtain ⟨e3, q', l', e4⟩ := h2
        subst e1 e3 e2 e4
        exact ⟨rfl, q, l', rfl⟩

/-- **The scratch registers never matter.**  Whatever an earlier call - completed or abandoned by an exception half
    way through a list or a paragraph - left in `lists.ids` and `spans.savedReplacements`, a `render` call (with or
    without reset) returns the same html, reports the same messages and leaves the same definitions, options and pending
    attributes: a top-level list starts by emptying the stack of open ids, `spans.render` starts by emptying the
    placeholder queue, and nothing else looks at either (`NIP`, pushed through every function of the model by
    `nip_go`; `Lemmas/NIP*.lean`). -/
theorem render_ignores_scratch_registers (env : Env) (fuel : Nat) (src : Str) (o : RenderOptions) (s : Session)
    (q : List Fragment) (l : List Str) :
    SameUpToScratch ((apiRender env fuel src o).run s) ((apiRender env fuel src o).run { s with saved := q, listIds := l }) := by
  have h1 := apiRender_nip (b := .saved) env fuel src o s q []
  have h2 := apiRender_nip (b := .ids) env fuel src o (pert .saved q [] s) [] l
  exact SameUpToScratch.of_agree h1 h2

/-- **C05, without a hypothesis on the scratch registers.**  With reset requested, the call returns the same html (or
    the same exception) and the same messages from any two sessions whatever; the final sessions are equal up to the two
    scratch registers. -/
theorem reset_render_depends_on_nothing (env : Env) (fuel : Nat) (src : Str) (o : RenderOptions) (s₁ s₂ : Session)
    (hreset : o.reset = .bool true ∨ o.reset = .str "true".toList) (hl : s₁.log = s₂.log) :
    SameUpToScratch ((apiRender env fuel src o).run s₁) ((apiRender env fuel src o).run s₂) := by
  have h := render_ignores_scratch_registers env fuel src o s₁ s₂.saved s₂.listIds
  rw [reset_render_is_pure env fuel src o { s₁ with saved := s₂.saved, listIds := s₂.listIds } s₂ hreset hl rfl rfl] at h
  exact h

/-- the session without its three registers of history: placeholder queue, open list ids, message log -/
def erase3 (s : Session) : Session := { s with saved := [], listIds := [], log := [] }

/-- same exception, or same html and final sessions that agree outside the three registers -/
def Same3 {α : Type} (r₁ r₂ : Except PyErr (α × Session)) : Prop :=
  match r₁, r₂ with
  | .ok (a, t1), .ok (a', t2) => a = a' ∧ erase3 t1 = erase3 t2
  | .error e, .error e' => e = e'
  | _, _ => False

theorem Same3.of_agree {α : Type} {b : Reg} {r₁ r₂ : Except PyErr (α × Session)} (h : AgreeP b r₁ r₂) : Same3 r₁ r₂ := by
  cases r₁ with
  | error e => cases r₂ with
    | error e' => exact h
    | ok _ => exact h.elim
  | ok x =>
    obtain ⟨a, t1⟩ := x
    cases r₂ with
    | error e' => exact h.elim
    | ok y =>
      obtain ⟨a', t2⟩ := y
      obtain ⟨e1, q, l, e2⟩ := h
      subst e1 e2
      exact ⟨rfl, by cases b <;> rfl⟩

theorem Same3.symm {α : Type} {r₁ r₂ : Except PyErr (α × Session)} (h : Same3 r₁ r₂) : Same3 r₂ r₁ := by
  cases r₁ with
  | error e => cases r₂ with
    | error e' => exact Eq.symm (α := PyErr) h
    | ok _ => exact h.elim
  | ok x =>
    obtain ⟨a, t1⟩ := x
    cases r₂ with
    | error e' => exact h.elim
    | ok y => obtain ⟨a', t2⟩ := y; exact ⟨h.1.symm, h.2.symm⟩

theorem Same3.trans {α : Type} {r₁ r₂ r₃ : Except PyErr (α × Session)} (h1 : Same3 r₁ r₂) (h2 : Same3 r₂ r₃) : Same3 r₁ r₃ := by
  cases r₁ with
  | error e =>
    cases r₂ with
    | error e' => cases r₃ with
      | error e'' => exact Eq.trans (α := PyErr) h1 h2
      | ok _ => exact h2.elim
    | ok _ => exact h1.elim
  | ok x =>
    obtain ⟨a, t1⟩ := x
    cases r₂ with
    | error e' => exact h1.elim
    | ok y =>
      obtain ⟨a', t2⟩ := y
      cases r₃ with
      | error e'' => exact h2.elim
      | ok z => obtain ⟨a'', t3⟩ := z; exact ⟨h1.1.trans h2.1, h1.2.trans h2.2⟩

/-- **What was reported before does not matter either.**  A `render` call from a session and from the same session with
    any messages already in its log: same html or exception, same final session outside the log. -/
theorem render_ignores_earlier_messages (env : Env) (fuel : Nat) (src : Str) (o : RenderOptions) (s : Session) (L : List Str) :
    Same3 ((apiRender env fuel src o).run s) ((apiRender env fuel src o).run { s with log := L ++ s.log }) :=
  Same3.of_agree (apiRender_nip (b := .log) env fuel src o s [] L)

/-- **C05, with no hypothesis on the sessions at all.**  With reset requested, the call returns the same html (or ends in
    the same exception) from *any* two sessions, and the final sessions agree in everything but the placeholder queue, the
    stack of open list ids and the message log - whatever was rendered, defined, configured, left pending or reported
    before. -/
theorem reset_render_depends_only_on_source_and_options (env : Env) (fuel : Nat) (src : Str) (o : RenderOptions)
    (s₁ s₂ : Session) (hreset : o.reset = .bool true ∨ o.reset = .str "true".toList) :
    Same3 ((apiRender env fuel src o).run s₁) ((apiRender env fuel src o).run s₂) := by
  have e1 : ({ ({ s₁ with log := [] } : Session) with log := s₁.log ++ [] } : Session) = s₁ := by simp
  have e2 : ({ ({ s₂ with log := [] } : Session) with log := s₂.log ++ [] } : Session) = s₂ := by simp
  have h1 := render_ignores_earlier_messages env fuel src o { s₁ with log := [] } s₁.log
  have h2 := render_ignores_earlier_messages env fuel src o { s₂ with log := [] } s₂.log
  rw [e1] at h1
  rw [e2] at h2
  have hm := reset_render_depends_on_nothing env fuel src o { s₁ with log := [] } { s₂ with log := [] } hreset rfl
  have hm3 : Same3 ((apiRender env fuel src o).run { s₁ with log := [] }) ((apiRender env fuel src o).run { s₂ with log := [] }) := by
    revert hm
    generalize (apiRender env fuel src o).run { s₁ with log := [] } = r₁
    generalize (apiRender env fuel src o).run { s₂ with log := [] } = r₂
    intro hm
    cases r₁ with
    | error e => cases r₂ with
      | error e' => exact hm
      | ok _ => exact hm.elim
    | ok x =>
      obtain ⟨a, t1⟩ := x
      cases r₂ with
      | error e' => exact hm.elim
      | ok y =>
        obtain ⟨a', t2⟩ := y
        obtain ⟨ea, q, l, et⟩ := hm
        subst ea et
        exact ⟨rfl, rfl⟩
  exact (h1.symm.trans hm3).trans h2

/-- Non-vacuity of the perturbation: a stale stack of open list ids and a stale placeholder queue, then a list whose
    markers are on the stale stack. -/
example :
    (match (apiRender ⟨fun _ _ => .error⟩ 30 "- a\n* b `c`".toList {}).run Session.uninit,
           (apiRender ⟨fun _ _ => .error⟩ 30 "- a\n* b `c`".toList {}).run
             { Session.uninit with listIds := ["*".toList, "-".toList], saved := [{ text := "x".toList, done := true }] } with
     | .ok (h1, _), .ok (h2, t2) => h1 == h2 && h1 == "<ul><li>a<ul><li>b <code>c</code></li></ul></li></ul>".toList && t2.listIds == []
     | _, _ => false) = true := by decide +kernel

/-- Non-vacuity: a session that customised every kind of definition, then the reset render of a source using them. -/
example :
    (match (apiRender ⟨fun _ _ => .error⟩ 30 "= = '<u>|</u>'\n\n{m} = 'v'\n\n.cls #i\n".toList {}).run Session.uninit with
     | .ok (_, s) =>
       (match (apiRender ⟨fun _ _ => .error⟩ 30 "=a= {m}".toList { reset := .bool true }).run s,
              (apiRender ⟨fun _ _ => .error⟩ 30 "=a= {m}".toList { reset := .bool true }).run Session.uninit with
        | .ok (h1, _), .ok (h2, _) => h1 == h2 && s.quoteDefs.length == 8 && s.classes == "cls".toList
        | _, _ => false)
     | .error _ => false) = true := by decide +kernel

end Props.C05
