import RimuModel.Block

namespace Props.C05
open Rimu

/-- placeholder while the pipeline is brought up -/
theorem documentInit_const (s₁ s₂ : Session) (h : s₁.listIds = s₂.listIds ∧ s₁.saved = s₂.saved ∧ s₁.log = s₂.log) :
    (documentInit.run s₁) = (documentInit.run s₂) := by
  obtain ⟨h1, h2, h3⟩ := h
  simp [documentInit, modify, modifyGet, MonadStateOf.modifyGet, StateT.modifyGet, StateT.run, pure, Except.pure, h1, h2, h3]

end Props.C05
