import RimuProofs.Props.C20

/-!
# C05  reset makes render a pure function of source and options

`document.init()` overwrites every module table and option with a constant before anything reads session
state; the two scratch registers it does not touch (`lists.ids`, `spans.savedReplacements`) and the message log
are the only residue.  In the model a `render` call with `reset=True` / `'true'` therefore returns the same
html, the same messages and the same final state from any two sessions that agree on those three fields, in
particular the same as on the state of a fresh process.
-/

namespace Props.C05
open Rimu Props.C04 Props.C20

/-- **C05.**  With reset requested, the whole result of the call (html or exception, messages, final state) does not
    depend on the session it is made in, beyond `lists.ids`, `spans.savedReplacements` and the log. -/
theorem reset_render_is_pure (env : Env) (fuel : Nat) (src : Str) (o : RenderOptions) (s₁ s₂ : Session)
    (hreset : o.reset = .bool true ∨ o.reset = .str "true".toList)
    (hl : s₁.log = s₂.log) (hi : s₁.listIds = s₂.listIds) (hs : s₁.saved = s₂.saved) :
    (apiRender env fuel src o).run s₁ = (apiRender env fuel src o).run s₂ := by
  rw [apiRender_eq, run_bind, run_bind, apiPrefix_reset o s₁ s₂ hreset hl hi hs]

/-- ... in particular it equals the same call made first in a fresh process. -/
theorem reset_render_equals_fresh_process (env : Env) (fuel : Nat) (src : Str) (o : RenderOptions) (s : Session)
    (hreset : o.reset = .bool true ∨ o.reset = .str "true".toList)
    (hl : s.log = []) (hi : s.listIds = []) (hs : s.saved = []) :
    (apiRender env fuel src o).run s = (apiRender env fuel src o).run Session.uninit :=
  reset_render_is_pure env fuel src o s Session.uninit hreset hl hi hs

/-- The residue cannot influence span rendering: `spans.render` empties the placeholder queue before it reads it. -/
theorem spansRender_ignores_saved (rec : Rec) (env : Env) (src : Str) (s : Session) (q : List Fragment) :
    (spansRender rec env src).run { s with saved := q } = (spansRender rec env src).run s := by
  unfold spansRender preReplacements
  simp only [bind_assoc, run_bind, run_modify]

/-- Non-vacuity: a session that customised every kind of definition, then the reset render of a source using them. -/
example :
    (match (apiRender ⟨fun _ _ => .error⟩ 30 "= = '<u>|</u>'\n\n{m} = 'v'\n\n.cls #i\n".toList {}).run Session.uninit with
     | .ok (_, s) =>
       (match (apiRender ⟨fun _ _ => .error⟩ 30 "=a= {m}".toList { reset := .bool true }).run s,
              (apiRender ⟨fun _ _ => .error⟩ 30 "=a= {m}".toList { reset := .bool true }).run Session.uninit with
        | .ok (h1, _), .ok (h2, _) => h1 == h2 && s.quoteDefs.length == 8 && s.classes == "cls".toList
        | _, _ => false)
     | .error _ => false) = true := by decide +kernel

end Props.C05
