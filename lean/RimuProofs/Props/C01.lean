import RimuProofs.Lemmas.Fuel
import RimuProofs.Props.C20

/-!
# C01  render() is total: always returns a string, never raises

In the model a Python exception is an `.error e` result with `e` one of the `PyErr` constructors, raised exactly
where the Python code would raise.  Proved here (for every text, session, nested renderer and `compile` oracle):

* **options**: applying any combination of API option values, legal or not, never raises (`options_never_raise`);
* **degenerate replacement definitions** (the session history may have installed any pattern whatever):
  - an ill-formed regular expression is reported through the callback and ignored (`ill_formed_regex_is_reported`),
  - a template group that did not participate in the match is blank (`non_participating_group_is_blank`), one that
    the pattern does not have is reported and blank (`undefined_group_is_reported`),
  - a pattern that can match the empty string cannot stall or exhaust the fragmenting loop, which terminates within
    `|text| + 1` steps for every pattern (`fragmenting_terminates_for_every_pattern`);
* the inline layer as a whole (`macros.render`, `utils.replace*`, all of `spans.render` up to quote fragmenting) can
  run out of fuel only through a nested span render (`inline_layer_fuel`), which is the known finding F5;
* placeholders: a missing queue entry is the only exception of `postReplacements` (C16).

Not proved: absence of the other exception kinds at every call site of the block layer for every input (it needs a
group-participation fact per pattern and call site); they are covered by the correspondence check, whose two sides
must raise the same kind of exception or none, on generated, malformed, mutated and stress inputs.
-/

namespace Props.C01
open Rimu Py Props.C20

/-- **Illegal option values never raise**: `options.updateFrom` always returns, whatever the option values. -/
theorem options_never_raise (o : RenderOptions) (s : Session) : ∃ s', (updateFrom o).run s = .ok ((), s') :=
  ⟨_, updateFrom_run o s⟩

/-- **An ill-formed replacement pattern is reported and ignored.** -/
theorem ill_formed_regex_is_reported (env : Env) (pattern flags replacement : Str) (s : Session)
    (h : env.compile pattern ((if flags.contains 'i' then 2 else 0) ||| (if flags.contains 'm' then 8 else 0)) = .error) :
    (replSetDefinition env pattern flags replacement).run s =
      (errorCallback ("illegal replacement regular expression: /".toList ++ pattern ++ "/".toList ++ flags ++
        "='".toList ++ replacement ++ "'".toList)).run s := by
  unfold replSetDefinition
  simp only [h]

/-- **A group that did not participate in the match is blank** (never `None`): reading it cannot raise when the
    pattern has that group. -/
theorem non_participating_group_is_blank (mt : Match) (i : Nat) (s : Session) (h : i ≤ mt.ngroups) :
    (mt.orEmpty i).run s = .ok ((mt.res.group mt.inp i).getD [], s) := by
  unfold Match.orEmpty Match.opt
  have : ¬ (i > mt.ngroups) := by omega
  simp only [this, if_false]
  rw [run_bind, run_pure]
  cases mt.res.group mt.inp i <;> rfl

/-- **A template that names a group the pattern does not have** is reported and contributes nothing. -/
theorem undefined_group_is_reported (rec : Rec) (env : Env) (mt : Match) (e : Expand) (m : Match) (s : Session)
    (dollars digit : Str) (i : Int)
    (h1 : (m.str 1).run s = .ok (dollars, s)) (h2 : (m.str 2).run s = .ok (digit, s))
    (hi : pyInt digit = some i) (hgt : i.toNat > mt.ngroups) :
    (replaceMatchGroup rec env mt e m).run s =
      .ok ([], if s.callback then { s with log := s.log ++ ["undefined replacement group: ".toList ++ m.whole] } else s) := by
  unfold replaceMatchGroup
  rw [run_bind, h1]
  simp only []
  rw [run_bind, h2]
  simp only [hi]
  rw [run_bind, run_pure]
  simp only [hgt, if_true]
  rw [run_bind, run_errorCallback]
  rfl

/-- **Fragmenting terminates for every replacement pattern**, empty-matching and unanchored ones included: with the
    fuel the model gives it (`|text| + 1`) `fragReplacement` cannot run out of fuel except through a nested render. -/
theorem fragmenting_terminates_for_every_pattern (rec : Rec) (env : Env) (hs : ∀ x, Safe NoFuel (rec.spans x))
    (rdef : ReplDef) (f : Fragment) (s : Session) :
    (fragReplacement rec env rdef f).run s ≠ .error .outOfFuel := by
  intro h
  exact fragReplacement_nofuel rec env hs rdef f s _ h rfl

/-- **The inline layer runs out of fuel only through nested span renders.** -/
theorem inline_layer_fuel (rec : Rec) (env : Env) (hs : ∀ x, Safe NoFuel (rec.spans x)) :
    (∀ text silent, Safe NoFuel (macrosRender rec env text silent)) ∧
    (∀ text e, Safe NoFuel (replaceInline rec env text e)) ∧
    (∀ mt r e, Safe NoFuel (replaceMatch rec env mt r e)) ∧
    (∀ text, Safe NoFuel (preReplacements rec env text)) ∧
    (∀ text, Safe NoFuel (postReplacements text)) :=
  ⟨macrosRender_nofuel rec env hs, replaceInline_nofuel rec env hs, replaceMatch_nofuel rec env hs,
   preReplacements_nofuel rec env hs, postReplacements_nofuel⟩

/-- Concrete histories with degenerate definitions (kernel evaluation): a non-participating group, an undefined group,
    an empty-matching pattern, a pattern that matches everything - every render returns. -/
example :
    let env : Env := ⟨fun p _ =>
      if p == "(a)|(b)".toList then .ok { re := .alt (.grp 1 (.chr ⟨[(97,97)], false⟩)) (.grp 2 (.chr ⟨[(98,98)], false⟩)), ngroups := 2 }
      else if p == "x*".toList then .ok { re := .rep (.chr ⟨[(120,120)], false⟩) 0 none true, ngroups := 0 }
      else .error⟩
    (match (apiRender env 40 "/(a)|(b)/ = '[$2$9]'\n/x*/ = 'y'\n/(/ = 'z'\n\nab xx".toList { callback := true }).run Session.uninit with
     | .ok (html, s) => html == "<p>[][b] xx</p>".toList && s.log.length == 3
     | .error _ => false) = true := by decide +kernel

end Props.C01
