import RimuProofs.Lemmas.Fuel
import RimuProofs.Lemmas.Groups
import RimuProofs.Facts
import RimuProofs.Props.C20
import RimuProofs.Lemmas.SafeBlock

/-!
# C01  render() is total: always returns a string, never raises

In the model a Python exception is an `.error e` result with `e` one of the `PyErr` constructors, raised exactly
where the Python code would raise.  Proved here (for every text, session, nested renderer and `compile` oracle):

* **options**: applying any combination of API option values, legal or not, never raises (`options_never_raise`);
* **degenerate replacement definitions** (the session history may have installed any pattern whatever):
  - an ill-formed regular expression is reported through the callback and ignored (`ill_formed_regex_is_reported`),
  - a template group that did not participate in the match is blank (`non_participating_group_is_blank`), one that
    the pattern does not have is reported and blank (`undefined_group_is_reported`),
  - a pattern that can match the empty string cannot stall or exhaust the fragmenting loop, which terminates within
    `|text| + 1` steps for every pattern (`fragmenting_terminates_for_every_pattern`);
* the inline layer as a whole (`macros.render`, `utils.replace*`, all of `spans.render` up to quote fragmenting) can
  run out of fuel only through a nested span render (`inline_layer_fuel`), which is the known finding F5;
* placeholders: a missing queue entry is the only exception of `postReplacements` (C16).

* **the exception footprint of the whole renderer** (`render_raises_only_allowed_outcomes`,
  `render_from_any_reachable_session`): from a freshly imported package and from every session that any history of
  `render` calls can reach - whatever the sources, option values and `compile` oracles of that history - a `render` call
  either returns (in a session that again satisfies the invariant `Inv`) or ends in an outcome that is `Allowed`:
  an outcome of the model that is not a Python exception (`modelOnly`: fuel exhausted, a run-time pattern outside the
  modelled fragment) or one of the raise sites enumerated in `residual`.  Every other raise site of the model is
  unreachable: no `match[i]` read as a string is `None` or missing (all 50 call sites, including the delimiter,
  class-name, marker, term and definition groups of every line-block, list and delimited-block rule and of every
  redefinable delimited-block table a session can hold), no `params[0]`, `opt[0]`, `match[1][0]`, `match[0][0]` (line,
  list and non-paragraph block rules) indexes an empty string, the reader is never read at end of input, the stack of open
  list ids is never popped when empty, `int()` accepts the digits of every `$n` (`Regex/Digits.lean`: the table of decimal
  digits that `int()` uses covers `\d`), the quote that the quote pattern captures is a non-empty quote of the table, the
  close tag of a block definition is never `None`.  `not_residual_examples` lists them as corollaries.

Not excluded (`residual`, each named by its site): the placeholder queue (`savedReplacements.pop(0)`, needs the
placeholder accounting of `spans.render`; cf. C16), the three
assertions `m is not None` and `match[0][0]` of a paragraph (need completeness of the matcher), the filter groups of a
default replacement definition whose pattern text a document re-compiled (`htmlSafeModeFilter(match[1])`,
`entity match[1]`).  For these the correspondence check (same exception kind or none on both sides) is what decides.
-/

namespace Props.C01
open Rimu Py Props.C20

/-- **Illegal option values never raise**: `options.updateFrom` always returns, whatever the option values. -/
theorem options_never_raise (o : RenderOptions) (s : Session) : ∃ s', (updateFrom o).run s = .ok ((), s') :=
  ⟨_, updateFrom_run o s⟩

/-- **An ill-formed replacement pattern is reported and ignored.** -/
theorem ill_formed_regex_is_reported (env : Env) (pattern flags replacement : Str) (s : Session)
    (h : env.compile pattern ((if flags.contains 'i' then 2 else 0) ||| (if flags.contains 'm' then 8 else 0)) = .error) :
    (replSetDefinition env pattern flags replacement).run s =
      (errorCallback ("illegal replacement regular expression: /".toList ++ pattern ++ "/".toList ++ flags ++
        "='".toList ++ replacement ++ "'".toList)).run s := by
  unfold replSetDefinition
  simp only [h]

/-- **A group that did not participate in the match is blank** (never `None`): reading it cannot raise when the
    pattern has that group. -/
theorem non_participating_group_is_blank (mt : Match) (i : Nat) (s : Session) (h : i ≤ mt.ngroups) :
    (mt.orEmpty i).run s = .ok ((mt.res.group mt.inp i).getD [], s) := by
  unfold Match.orEmpty Match.opt
  have : ¬ (i > mt.ngroups) := by omega
  simp only [this, if_false]
  rw [run_bind, run_pure]
  cases mt.res.group mt.inp i <;> rfl

/-- **A template that names a group the pattern does not have** is reported and contributes nothing. -/
theorem undefined_group_is_reported (rec : Rec) (env : Env) (mt : Match) (e : Expand) (m : Match) (s : Session)
    (dollars digit : Str) (i : Int)
    (h1 : (m.str 1).run s = .ok (dollars, s)) (h2 : (m.str 2).run s = .ok (digit, s))
    (hi : pyInt digit = some i) (hgt : i.toNat > mt.ngroups) :
    (replaceMatchGroup rec env mt e m).run s =
      .ok ([], if s.callback then { s with log := s.log ++ ["undefined replacement group: ".toList ++ m.whole] } else s) := by
  unfold replaceMatchGroup
  rw [run_bind, h1]
  simp only []
  rw [run_bind, h2]
  simp only [hi]
  rw [run_bind, run_pure]
  simp only [hgt, if_true]
  rw [run_bind, run_errorCallback]
  rfl

/-- **Fragmenting terminates for every replacement pattern**, empty-matching and unanchored ones included: with the
    fuel the model gives it (`|text| + 1`) `fragReplacement` cannot run out of fuel except through a nested render. -/
theorem fragmenting_terminates_for_every_pattern (rec : Rec) (env : Env) (hs : ∀ x, Safe NoFuel (rec.spans x))
    (rdef : ReplDef) (f : Fragment) (s : Session) :
    (fragReplacement rec env rdef f).run s ≠ .error .outOfFuel := by
  intro h
  exact fragReplacement_nofuel rec env hs rdef f s _ h rfl

/-- **The inline layer runs out of fuel only through nested span renders.** -/
theorem inline_layer_fuel (rec : Rec) (env : Env) (hs : ∀ x, Safe NoFuel (rec.spans x)) :
    (∀ text silent, Safe NoFuel (macrosRender rec env text silent)) ∧
    (∀ text e, Safe NoFuel (replaceInline rec env text e)) ∧
    (∀ mt r e, Safe NoFuel (replaceMatch rec env mt r e)) ∧
    (∀ text, Safe NoFuel (preReplacements rec env text)) ∧
    (∀ text, Safe NoFuel (postReplacements text)) :=
  ⟨macrosRender_nofuel rec env hs, replaceInline_nofuel rec env hs, replaceMatch_nofuel rec env hs,
   preReplacements_nofuel rec env hs, postReplacements_nofuel⟩

/-- Concrete histories with degenerate definitions (kernel evaluation): a non-participating group, an undefined group,
    an empty-matching pattern, a pattern that matches everything - every render returns. -/
example :
    let env : Env := ⟨fun p _ =>
      if p == "(a)|(b)".toList then .ok { re := .alt (.grp 1 (.chr ⟨[(97,97)], false⟩)) (.grp 2 (.chr ⟨[(98,98)], false⟩)), ngroups := 2 }
      else if p == "x*".toList then .ok { re := .rep (.chr ⟨[(120,120)], false⟩) 0 none true, ngroups := 0 }
      else .error⟩
    (match (apiRender env 40 "/(a)|(b)/ = '[$2$9]'\n/x*/ = 'y'\n/(/ = 'z'\n\nab xx".toList { callback := true }).run Session.uninit with
     | .ok (html, s) => html == "<p>[][b] xx</p>".toList && s.log.length == 3
     | .error _ => false) = true := by decide +kernel


/-! ## `match[i]` used as a string is never `None`

The F2 class of crash (`AttributeError` / `TypeError` on a group that did not take part in the match).  For every
place where the code reads a group as a string, every match of the pattern in the current source sets that group -
for all texts.  The static analysis `Rx.setsGroup` is sound for every expression and input
(`Rx.Matches.setsGroup`); the per-site facts are re-evaluated on the regenerated patterns (`Facts`, A5). -/

/-- fixed patterns: class / style injection, macro names, invocations, formal parameters, template groups -/
theorem static_site_groups_are_strings (p : Pat) (gs : List Nat) (hp : (p, gs) ∈ Facts.strSites) (m : Match) (hm : m.Of p)
    (i : Nat) (hi : i ∈ gs) (site : String) (s : Session) : ∃ g, (m.str i site).run s = .ok (g, s) := by
  have h := Facts.strSites_set
  rw [List.all_eq_true] at h
  have h2 := h _ hp
  rw [List.all_eq_true] at h2
  exact hm.str (h2 i hi) site s

/-- line blocks: the groups each filter reads, for every line that the definition's pattern matches -/
theorem line_block_groups_are_strings (d : LineDef) (hd : d ∈ Gen.lineDefs) (line : Str) (mt : Match)
    (h : d.pat.search line = some mt) (i : Nat) (hi : i ∈ Facts.lineFilterGroups d.filter) (site : String) (s : Session) :
    ∃ g, (mt.str i site).run s = .ok (g, s) := by
  have h1 := Facts.lineDefs_set
  rw [List.all_eq_true] at h1
  have h2 := h1 d hd
  rw [List.all_eq_true] at h2
  exact (Pat.search_of (Nat.zero_le _) h).str (h2 i hi) site s

/-- delimited blocks: the delimiter and class-name groups of the opening line -/
theorem block_open_groups_are_strings (d : BlockDef) (hd : d ∈ Gen.blockDefaultDefs) (line : Str) (mt : Match)
    (h : d.openMatch.search line = some mt) (i : Nat) (hi : i ∈ Facts.blockOpenGroups d) (site : String) (s : Session) :
    ∃ g, (mt.str i site).run s = .ok (g, s) := by
  have h1 := Facts.blockDefs_set
  rw [List.all_eq_true] at h1
  have h2 := h1 d hd
  simp only [Bool.and_eq_true] at h2
  have h3 := h2.1
  rw [List.all_eq_true] at h3
  exact (Pat.search_of (Nat.zero_le _) h).str (h3 i hi) site s

/-- ... and the text before the closing delimiter that `readTo` keeps (closing patterns that have a group) -/
theorem block_close_group_is_string (d : BlockDef) (hd : d ∈ Gen.blockDefaultDefs) (hg : d.closeMatch.ngroups > 0)
    (line : Str) (mt : Match) (h : d.closeMatch.search line = some mt) (site : String) (s : Session) :
    ∃ g, (mt.str 1 site).run s = .ok (g, s) := by
  have h1 := Facts.blockDefs_set
  rw [List.all_eq_true] at h1
  have h2 := h1 d hd
  simp only [Bool.and_eq_true, Bool.or_eq_true, decide_eq_true_eq] at h2
  rcases h2.2 with h0 | hs
  · omega
  · exact (Pat.search_of (Nat.zero_le _) h).str hs site s

/-- definition lists: the term -/
theorem list_term_is_string (d : ListDef) (hd : d ∈ Gen.listDefs) (ht : d.termOpenTag ≠ []) (line : Str) (mt : Match)
    (h : d.pat.search line = some mt) (site : String) (s : Session) : ∃ g, (mt.str 1 site).run s = .ok (g, s) := by
  have h1 := Facts.listDefs_set
  rw [List.all_eq_true] at h1
  have h2 := h1 d hd
  simp only [Bool.or_eq_true, beq_iff_eq] at h2
  rcases h2 with h0 | hs
  · exact absurd h0 ht
  · exact (Pat.search_of (Nat.zero_le _) h).str hs site s

/-- the HTML-tag and entity filters of the default replacement definitions -/
theorem replacement_filter_group_is_string (d : ReplDef) (hd : d ∈ Gen.replDefaultDefs)
    (hf : d.filter = .html ∨ d.filter = .entity) (m : Match) (hm : m.Of d.pat) (site : String) (s : Session) :
    ∃ g, (m.str 1 site).run s = .ok (g, s) := by
  have h1 := Facts.replDefaults_set
  rw [List.all_eq_true] at h1
  have h2 := h1 d hd
  simp only [Bool.or_eq_true, Bool.and_eq_true, bne_iff_ne, ne_eq] at h2
  rcases h2 with h0 | hs
  · rcases hf with hf | hf
    · exact absurd hf h0.1
    · exact absurd hf h0.2
  · exact hm.str hs site s

/-- quotes, **for every quote table** a session can hold: the delimiter and the quoted text -/
theorem quote_groups_are_strings (defs : List QuoteDef) (text : Str) (start : Nat) (hs : start ≤ text.length) (mt : Match)
    (h : (quotesRe defs).search text start = some mt) (site : String) (s : Session) :
    (∃ q, (mt.str 1 site).run s = .ok (q, s)) ∧ (∃ t, (mt.str 2 site).run s = .ok (t, s)) :=
  ⟨(Pat.search_of hs h).str (Facts.quotesRe_set defs).1 site s, (Pat.search_of hs h).str (Facts.quotesRe_set defs).2 site s⟩

/-- `Safe E (m.str i)` for every footprint `E`: reading a group that is set cannot raise -/
theorem safe_str {E : PyErr → Prop} {m : Match} {p : Pat} {i : Nat} (h : m.Of p) (hp : p.Sets i = true) (site : String) :
    Safe E (m.str i site) := by
  intro s e he
  obtain ⟨g, hg⟩ := h.str hp site s
  rw [hg] at he
  cases he

/-- **Attribute injection never raises**, whatever is pending and whatever the tag looks like: the two places where
    it reads match groups (an existing `class="…"` / `style="…"` in the tag) are covered by the facts above. -/
theorem injectHtmlAttributes_never_raises (tag : Str) (consume : Bool) : Safe (fun _ => False) (injectHtmlAttributes tag consume) := by
  have hc : ∀ classes t, Safe (fun _ => False) (injectClasses classes t) := by
    intro classes t
    unfold injectClasses
    split
    · exact Safe.pure _
    · split
      · next mt hm =>
        have hof := Pat.search_of (Nat.zero_le _) hm
        have h1 := safe_str (E := fun _ => False) hof (by decide +kernel : Gen.P.blockattributes_injectHtmlAttributes_0.Sets 1 = true) "group"
        have h2 := safe_str (E := fun _ => False) hof (by decide +kernel : Gen.P.blockattributes_injectHtmlAttributes_0.Sets 2 = true) "group"
        safe_go
      · exact Safe.pure _
  have hcss : ∀ css r a, Safe (fun _ => False) (injectCss css r a) := by
    intro css r a
    unfold injectCss
    split
    · exact Safe.pure _
    · split
      · next mt hm =>
        have hof := Pat.search_of (Nat.zero_le _) hm
        have h1 := safe_str (E := fun _ => False) hof (by decide +kernel : Gen.P.blockattributes_injectHtmlAttributes_2.Sets 1 = true) "group"
        have h2 := safe_str (E := fun _ => False) hof (by decide +kernel : Gen.P.blockattributes_injectHtmlAttributes_2.Sets 2 = true) "group"
        safe_go
      · exact Safe.pure _
  have hec : ∀ msg, Safe (fun _ => False) (errorCallback msg) := by
    intro msg; unfold errorCallback; safe_go
  have hid : ∀ sid ids r a, Safe (fun _ => False) (injectId sid ids r a) := by
    intro sid ids r a
    unfold injectId
    safe_go
  unfold injectHtmlAttributes
  safe_go

/-! ## The exception footprint of `render`, from every reachable session -/

/-- **Every `render` call returns or ends in an `Allowed` outcome**, from a freshly imported package or a session that
    satisfies the invariant, and the invariant holds again afterwards. -/
theorem render_raises_only_allowed_outcomes (env : Env) (fuel : Nat) (src : Str) (opts : RenderOptions) (s : Session)
    (h : s.safeMode = -1 ∨ Inv s) :
    match (apiRender env fuel src opts).run s with
    | .ok (_, s') => Inv s'
    | .error e => Allowed e := by
  have := apiRender_ok env fuel src opts s h
  unfold wpE at this
  split at this
  · next a s' hr => rw [hr]; exact this
  · next e hr => rw [hr]; exact this

/-- every session that a history of `render` calls can reach is uninitialised or satisfies the invariant -/
theorem reach_inv {s : Session} (h : Reach s) : s.safeMode = -1 ∨ Inv s := by
  induction h with
  | fresh => exact .inl rfl
  | render env fuel src opts html _ hr ih => exact .inr (wpE_ok (apiRender_ok env fuel src opts _ ih) hr)

/-- **... hence from every reachable session**: any sources, any option values, any `compile` oracles before. -/
theorem render_from_any_reachable_session {s : Session} (h : Reach s) (env : Env) (fuel : Nat) (src : Str)
    (opts : RenderOptions) (e : PyErr) (he : (apiRender env fuel src opts).run s = .error e) : Allowed e :=
  wpE_err (apiRender_ok env fuel src opts s (reach_inv h)) he

/-- what `Allowed` excludes, spelled out for the exception kinds of the F1 / F2 class: a group read as a string that is
    `None` (any of the default-site reads), a missing close tag, indexing an empty parameter list, option or fence -/
theorem not_residual_examples :
    ¬ Allowed (.noneType "group") ∧ ¬ Allowed (.noneType "closeTag") ∧ ¬ Allowed (.indexError "params[0]") ∧
    ¬ Allowed (.indexError "opt[0]") ∧ ¬ Allowed (.indexError "match[1][0]") ∧ ¬ Allowed (.reError "x") ∧
    ¬ Allowed (.noneType "readTo match[1]") ∧ ¬ Allowed (.indexError "match[0][0] line") ∧
    ¬ Allowed (.indexError "match[0][0] list") ∧ ¬ Allowed (.indexError "match[0][0] block") ∧
    ¬ Allowed (.assertion "not self.eof()") ∧ ¬ Allowed (.indexError "reader.lines[pos:pos]") ∧
    ¬ Allowed (.indexError "group") ∧ ¬ Allowed (.indexError "no such group") ∧ ¬ Allowed (.indexError "quote[0]") ∧
    ¬ Allowed (.assertion "qdef is not None") ∧ ¬ Allowed (.indexError "ids.pop()") ∧
    ¬ Allowed (.valueError "int(mr[2])") ∧ ¬ Allowed (.valueError "int(m[2])") := by
  decide

/-- the outcomes that are allowed and are not Python exceptions -/
theorem allowed_model_outcomes (p : Str) (f : Nat) :
    Allowed .outOfFuel ∧ Allowed (.unsupportedRegex p) ∧ Allowed (.needCompile p f) := ⟨rfl, rfl, rfl⟩

/-- instance (kernel evaluation): a header line sets both groups the header filter reads -/
example : (match Gen.P.lineblocks_defs_6.search "## Title".toList with
    | some mt => mt.res.group mt.inp 1 == some "##".toList && mt.res.group mt.inp 2 == some "Title".toList
    | none => false) = true := by decide +kernel

end Props.C01
