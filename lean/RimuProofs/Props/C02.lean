import RimuProofs.Props.C01
import RimuProofs.Lemmas.Tactic
import RimuProofs.Lemmas.ExtBlock

/-!
# C02  Rendering terminates and cannot be stalled by short input

(a) Termination.  In the model every potentially unbounded loop runs on explicit fuel; running out is the separate
outcome `outOfFuel`.  Proved:
* the fragmenting loop of `spans` terminates within `|text| + 1` steps for *every* replacement pattern, and the
  escaped-quote search within `|text| + 2` (C01 / `Fuel.lean`): the inline layer cannot run out of fuel by itself;
* **line-macro expansion is bounded in depth** (`expansion_depth_bounded`): however macros are defined, the reader never
  has more than `MAX_EXPANSION_DEPTH` nested expansions open, and an expansion refused at the limit inserts nothing
  - the mechanism that makes mutually / self recursive line macros terminate;
* every pattern that a `sub` / `split` / fragmenting loop iterates over consumes at least one character per match
  (`Facts.sub_patterns_minLen`, `Facts.replDefaults_minLen`, regenerated from the source);
* the suffix search of `slugify` returns (C15 `suffix_spec` is stated for every fuel; its successful outcome is the
  least free suffix).
Not proved: a fuel bound for the block-level loops (`document.render`, lists) as a function of the source, and any
statement about the running time of CPython's `sre` (b).  (b) is explored: every pumped input of 4 KB (quick) /
8 KB (thorough) in safe modes 1-7 must render within a CPU-time ceiling with at most quadratic growth.
-/

namespace Props.C02
open Rimu Py

/-- **Line-macro expansions never nest deeper than the limit**, and **at the limit the expansion is refused and
    nothing is inserted** (the reader's lines and position are unchanged). -/
theorem expansion_depth_bounded (r : Reader) (lines : List Str) (d : Nat) (s : Session) (hd : r.expansions.length ≤ d) :
    wp (r.insertExpansion lines d) (fun res _ =>
      res.2.expansions.length ≤ d ∧ (res.1 = false → res.2.rest = r.rest ∧ res.2.pos = r.pos)) s := by
  have hdw : (r.expansions.dropWhile fun e => r.pos ≥ e).length ≤ r.expansions.length :=
    (List.dropWhile_sublist _).length_le
  unfold Reader.insertExpansion
  wp_go'
  all_goals first
    | (refine ⟨?_, ?_⟩ <;> simp_all <;> omega)
    | (refine ⟨?_, ?_⟩ <;> simp_all)

/-- the limit comes from the source (`lineblocks.MAX_EXPANSION_DEPTH`) and is positive -/
theorem expansion_limit : 0 < Gen.maxExpansionDepth ∧ Gen.maxExpansionDepth ≤ 100 := by decide

/-- **The inline layer terminates on its own fuel** (restated from C01): fragmenting for every pattern, macro
    rendering, template substitution, placeholder restoration. -/
theorem inline_layer_terminates (rec : Rec) (env : Env) (hs : ∀ x, Safe NoFuel (rec.spans x)) :
    (∀ rdef f, Safe NoFuel (fragReplacement rec env rdef f)) ∧
    (∀ text silent, Safe NoFuel (macrosRender rec env text silent)) ∧
    (∀ qre text, Safe NoFuel (findQuote qre text (text.length + 2) 0)) :=
  ⟨fragReplacement_nofuel rec env hs, macrosRender_nofuel rec env hs,
   fun qre text => findQuote_nofuel qre text _ _ (by omega) (by omega)⟩

/-- Concrete recursive-macro documents (kernel evaluation): self-growing and mutually recursive line macros terminate,
    with the nesting-limit diagnostic. -/
example :
    (["{m} = '{m|$1.}'\n{m|a}", "{a} = '{b|$1.}'\n{b} = '{a|$1.}'\n{a|x}", "{m} = 'x\n{m}'\n{m}"].all fun src =>
      match (apiRender ⟨fun _ _ => .error⟩ 60 src.toList { callback := true }).run Session.uninit with
      | .ok (_, s) => s.log.any fun m => startsWith m "macro expansion nesting limit exceeded".toList || startsWith m "undefined macro".toList
      | .error _ => false) = true := by decide +kernel

/-- **Fuel is only a termination device.**  A `render` call of the model that ends in anything but `outOfFuel` - a
    result and a final session, or a Python exception - ends in exactly the same way with any larger fuel: every
    function of the model, the four mutually recursive list functions and the nested span / document renderers
    included, extends itself (`Lemmas/Ext*.lean`).  So what the theorems of C01 - C20 say about "every fuel" is said
    about the one unbounded computation of the implementation whenever that computation ends, and the fuel the
    correspondence check picks cannot change an answer, only withhold it. -/
theorem fuel_is_only_a_termination_device (env : Env) {n m : Nat} (h : n ≤ m) (src : Str) (o : RenderOptions)
    (s : Session) (hn : (apiRender env n src o).run s ≠ .error .outOfFuel) :
    (apiRender env m src o).run s = (apiRender env n src o).run s :=
  apiRender_ext env h src o s hn

/-- Two fuels that both suffice give the same outcome. -/
theorem sufficient_fuels_agree (env : Env) (n m : Nat) (src : Str) (o : RenderOptions) (s : Session)
    (hn : (apiRender env n src o).run s ≠ .error .outOfFuel) (hm : (apiRender env m src o).run s ≠ .error .outOfFuel) :
    (apiRender env n src o).run s = (apiRender env m src o).run s := by
  rcases Nat.le_total n m with h | h
  · exact (fuel_is_only_a_termination_device env h src o s hn).symm
  · exact fuel_is_only_a_termination_device env h src o s hm

/-- Not vacuous: fuel 7 suffices for a document with a list in a container block (6 does not). -/
example :
    (match (apiRender ⟨fun _ _ => .error⟩ 7 "..\n- a\n\n  b\n..".toList {}).run Session.uninit with
      | .error .outOfFuel => false
      | .error _ => true
      | .ok (out, _) => out == "<ul><li>a<pre><code>b</code></pre></li></ul>".toList) = true ∧
    (match (apiRender ⟨fun _ _ => .error⟩ 6 "..\n- a\n\n  b\n..".toList {}).run Session.uninit with
      | .error .outOfFuel => true
      | _ => false) = true := by
  constructor <;> decide +kernel

end Props.C02
