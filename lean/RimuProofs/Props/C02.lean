import RimuProofs.Props.C01
import RimuProofs.Lemmas.Tactic
import RimuProofs.Lemmas.ExtBlock

/-!
# C02  Rendering terminates and cannot be stalled by short input

(a) Termination.  In the model every potentially unbounded loop runs on explicit fuel; running out is the separate
outcome `outOfFuel`.  Proved:
* the fragmenting loop of `spans` terminates within `|text| + 1` steps for *every* replacement pattern, and the
  escaped-quote search within `|text| + 2` (C01 / `Fuel.lean`): the inline layer cannot run out of fuel by itself;
* **line-macro expansion is bounded in depth** (`expansion_depth_bounded`): however macros are defined, the reader never
  has more than `MAX_EXPANSION_DEPTH` nested expansions open, and an expansion refused at the limit inserts nothing
  - the mechanism that makes mutually / self recursive line macros terminate; **the limit holds across container
  blocks** (F36): `RInv` (depth the reader was created at + expansions it records <= limit) is an invariant of every
  sequence of reader operations (`reader_stays_within_limit`), a container's content gets a reader created at the
  nesting of the container's opening line (`container_reader_inv`), so the nesting reported anywhere is within the
  limit;
* every pattern that a `sub` / `split` / fragmenting loop iterates over consumes at least one character per match
  (`Facts.sub_patterns_minLen`, `Facts.replDefaults_minLen`, regenerated from the source);
* the suffix search of `slugify` returns (C15 `suffix_spec` is stated for every fuel; its successful outcome is the
  least free suffix).
Not proved: a fuel bound for the block-level loops (`document.render`, lists) as a function of the source, and any
statement about the running time of CPython's `sre` (b).  (b) is explored: every pumped input of 4 KB (quick) /
8 KB (thorough) in safe modes 1-7 must render within a CPU-time ceiling with at most quadratic growth.
-/

namespace Props.C02
open Rimu Py

/-- **Line-macro expansions never nest deeper than the limit**, and **at the limit the expansion is refused and
    nothing is inserted** (the reader's lines and position are unchanged). -/
theorem expansion_depth_bounded (r : Reader) (lines : List Str) (d : Nat) (s : Session) (hd : r.expansions.length ≤ d) :
    wp (r.insertExpansion lines d) (fun res _ =>
      res.2.expansions.length ≤ d ∧ (res.1 = false → res.2.rest = r.rest ∧ res.2.pos = r.pos)) s := by
  have hdw : (r.expansions.dropWhile fun e => r.pos ≥ e).length ≤ r.expansions.length :=
    (List.dropWhile_sublist _).length_le
  unfold Reader.insertExpansion
  wp_go'
  all_goals first
    | (refine ⟨?_, ?_⟩ <;> simp_all <;> omega)
    | (refine ⟨?_, ?_⟩ <;> simp_all)

/-- the limit comes from the source (`lineblocks.MAX_EXPANSION_DEPTH`) and is positive -/
theorem expansion_limit : 0 < Gen.maxExpansionDepth ∧ Gen.maxExpansionDepth ≤ 100 := by decide

/-- The reader's bookkeeping is within the limit: the expansions around this reader (its `depth`, fixed at creation)
    plus those it records itself. -/
def RInv (r : Reader) : Prop := r.depth + r.expansions.length ≤ Gen.maxExpansionDepth

theorem nesting_le (r : Reader) (h : RInv r) : r.nesting ≤ Gen.maxExpansionDepth := by
  have hdw : (r.expansions.dropWhile fun e => r.pos ≥ e).length ≤ r.expansions.length :=
    (List.dropWhile_sublist _).length_le
  unfold Reader.nesting; unfold RInv at h; omega

/-- a fresh reader for a top-level document -/
theorem ofText_inv (t : Str) : RInv (Reader.ofText t) := by
  unfold RInv Reader.ofText; simp

/-- **The limit is carried into containers**: the reader of a container's content starts at the nesting of the
    container's opening line (`renderBlockBody` passes `reader.nesting` to `document`, which passes it to
    `Reader.ofText`), so it is within the limit if the enclosing reader is. -/
theorem container_reader_inv (r : Reader) (t : Str) (h : RInv r) : RInv (Reader.ofText t r.nesting) := by
  have := nesting_le r h
  unfold RInv Reader.ofText; simpa using this

/-- the operations of `io.Reader` -/
inductive ROp
  | next | skipBlankLines | readTo (p : Pat) | setCursor (v : Str) | unescape | insertExpansion (lines : List Str)

def ROp.run : ROp → Reader → M Reader
  | .next, r => pure r.next
  | .skipBlankLines, r => pure r.skipBlankLines
  | .readTo p, r => do let (_, r') ← r.readTo p; pure r'
  | .setCursor v, r => r.setCursor v
  | .unescape, r => r.unescape
  | .insertExpansion lines, r => do let (_, r') ← r.insertExpansion lines Gen.maxExpansionDepth; pure r'

theorem readTo_go_keeps (r : Reader) (p : Pat) (s : Session) : ∀ rest pos acc,
    wp (Reader.readTo.go r p rest pos acc) (fun res _ => res.2.depth = r.depth ∧ res.2.expansions = r.expansions) s := by
  intro rest
  induction rest with
  | nil => intro pos acc; unfold Reader.readTo.go; wp_go'; all_goals exact ⟨rfl, rfl⟩
  | cons l t ih =>
    intro pos acc
    unfold Reader.readTo.go
    repeat (any_goals (first | exact ih _ _ | wp_step | wp_skip_call))
    all_goals exact ⟨rfl, rfl⟩

theorem skipBlankLines_go_keeps (r : Reader) : ∀ rest pos,
    (Reader.skipBlankLines.go r rest pos).depth = r.depth ∧
    (Reader.skipBlankLines.go r rest pos).expansions = r.expansions := by
  intro rest
  induction rest with
  | nil => intro pos; unfold Reader.skipBlankLines.go; exact ⟨rfl, rfl⟩
  | cons l t ih =>
    intro pos
    unfold Reader.skipBlankLines.go
    split
    · exact ih _
    · exact ⟨rfl, rfl⟩

/-- one operation keeps the invariant (and never changes the depth the reader was created with) -/
theorem rop_inv (op : ROp) (r : Reader) (s : Session) (h : RInv r) :
    wp (op.run r) (fun r' _ => RInv r' ∧ r'.depth = r.depth) s := by
  cases op with
  | next =>
    simp only [ROp.run]; unfold Reader.next; wp_go'
    all_goals (split <;> exact ⟨h, rfl⟩)
  | skipBlankLines =>
    simp only [ROp.run]; unfold Reader.skipBlankLines; wp_go'
    obtain ⟨h1, h2⟩ := skipBlankLines_go_keeps r r.rest r.pos
    exact ⟨by unfold RInv at *; rw [h1, h2]; exact h, h1⟩
  | readTo p =>
    simp only [ROp.run]; unfold Reader.readTo
    wp_step
    refine wp_mono (readTo_go_keeps r p s _ _ _) ?_
    rintro ⟨l, r'⟩ s' ⟨h1, h2⟩
    wp_go'
    exact ⟨by unfold RInv at *; simp only at h1 h2; rw [h1, h2]; exact h, h1⟩
  | setCursor v =>
    simp only [ROp.run]; unfold Reader.setCursor; wp_go'
    all_goals exact ⟨h, rfl⟩
  | unescape =>
    simp only [ROp.run]; unfold Reader.unescape Reader.setCursor Reader.cursor; wp_go'
    all_goals exact ⟨h, rfl⟩
  | insertExpansion lines =>
    have hdw : (r.expansions.dropWhile fun e => r.pos ≥ e).length ≤ r.expansions.length :=
      (List.dropWhile_sublist _).length_le
    simp only [ROp.run]; unfold Reader.insertExpansion
    wp_go'
    all_goals (unfold RInv at *; refine ⟨?_, rfl⟩; simp_all <;> omega)

/-- **Every reachable reader is within the limit**: whatever sequence of reader operations the block layer performs
    on a reader that started within the limit, the reader stays within it, and so does the nesting it reports. -/
theorem reader_stays_within_limit (ops : List ROp) (r : Reader) (s : Session) (h : RInv r) :
    wp (ops.foldlM (fun r op => op.run r) r) (fun r' _ => RInv r' ∧ r'.nesting ≤ Gen.maxExpansionDepth) s := by
  induction ops generalizing r s with
  | nil => simp only [List.foldlM]; exact wp_pure _ ⟨h, nesting_le r h⟩
  | cons op ops ih =>
    simp only [List.foldlM]
    apply wp_bind
    refine wp_mono (rop_inv op r s h) ?_
    intro r' s' ⟨h', _⟩
    exact ih r' s' h'

/-- Not vacuous: two nested expansions at the first line of a reader created at depth 3 report nesting 5; after
    the inner one is passed, 4. -/
example :
    (match (([ROp.insertExpansion ["x".toList, "y".toList], .next, .insertExpansion ["z".toList], .next] : List ROp).foldlM
              (fun (r : Reader) (op : ROp) => op.run r) (Reader.ofText "a\nb".toList 3)).run Session.uninit with
     | .ok (r, _) => r.nesting == 5 && r.next.nesting == 4 && r.rest.length == 3
     | .error _ => false) = true := by decide +kernel

/-- **The inline layer terminates on its own fuel** (restated from C01): fragmenting for every pattern, macro
    rendering, template substitution, placeholder restoration. -/
theorem inline_layer_terminates (rec : Rec) (env : Env) (hs : ∀ x, Safe NoFuel (rec.spans x)) :
    (∀ rdef f, Safe NoFuel (fragReplacement rec env rdef f)) ∧
    (∀ text silent, Safe NoFuel (macrosRender rec env text silent)) ∧
    (∀ qre text, Safe NoFuel (findQuote qre text (text.length + 2) 0)) :=
  ⟨fragReplacement_nofuel rec env hs, macrosRender_nofuel rec env hs,
   fun qre text => findQuote_nofuel qre text _ _ (by omega) (by omega)⟩

/-- Concrete recursive-macro documents (kernel evaluation): self-growing and mutually recursive line macros terminate,
    with the nesting-limit diagnostic. -/
example :
    (["{m} = '{m|$1.}'\n{m|a}", "{a} = '{b|$1.}'\n{b} = '{a|$1.}'\n{a|x}", "{m} = 'x\n{m}'\n{m}"].all fun src =>
      match (apiRender ⟨fun _ _ => .error⟩ 60 src.toList { callback := true }).run Session.uninit with
      | .ok (_, s) => s.log.any fun m => startsWith m "macro expansion nesting limit exceeded".toList || startsWith m "undefined macro".toList
      | .error _ => false) = true := by decide +kernel

/-- **Fuel is only a termination device.**  A `render` call of the model that ends in anything but `outOfFuel` - a
    result and a final session, or a Python exception - ends in exactly the same way with any larger fuel: every
    function of the model, the four mutually recursive list functions and the nested span / document renderers
    included, extends itself (`Lemmas/Ext*.lean`).  So what the theorems of C01 - C20 say about "every fuel" is said
    about the one unbounded computation of the implementation whenever that computation ends, and the fuel the
    correspondence check picks cannot change an answer, only withhold it. -/
theorem fuel_is_only_a_termination_device (env : Env) {n m : Nat} (h : n ≤ m) (src : Str) (o : RenderOptions)
    (s : Session) (hn : (apiRender env n src o).run s ≠ .error .outOfFuel) :
    (apiRender env m src o).run s = (apiRender env n src o).run s :=
  apiRender_ext env h src o s hn

/-- Two fuels that both suffice give the same outcome. -/
theorem sufficient_fuels_agree (env : Env) (n m : Nat) (src : Str) (o : RenderOptions) (s : Session)
    (hn : (apiRender env n src o).run s ≠ .error .outOfFuel) (hm : (apiRender env m src o).run s ≠ .error .outOfFuel) :
    (apiRender env n src o).run s = (apiRender env m src o).run s := by
  rcases Nat.le_total n m with h | h
  · exact (fuel_is_only_a_termination_device env h src o s hn).symm
  · exact fuel_is_only_a_termination_device env h src o s hm

/-- Not vacuous: fuel 7 suffices for a document with a list in a container block (6 does not). -/
example :
    (match (apiRender ⟨fun _ _ => .error⟩ 7 "..\n- a\n\n  b\n..".toList {}).run Session.uninit with
      | .error .outOfFuel => false
      | .error _ => true
      | .ok (out, _) => out == "<ul><li>a<pre><code>b</code></pre></li></ul>".toList) = true ∧
    (match (apiRender ⟨fun _ _ => .error⟩ 6 "..\n- a\n\n  b\n..".toList {}).run Session.uninit with
      | .error .outOfFuel => true
      | _ => false) = true := by
  constructor <;> decide +kernel

end Props.C02
