import RimuProofs.Lemmas.Run
import RimuProofs.Lemmas.StepBlock

/-!
# C12  Block Attributes apply once, to the next block only

The consume-once state machine of `blockattributes`, independent of what any regular expression matches.
-/

namespace Props.C12
open Rimu Py

/-- nothing pending -/
def NoPending (s : Session) : Prop := s.classes = [] ∧ s.id = [] ∧ s.css = [] ∧ s.attributes = []

/-- **Consumed by the first non-empty tag.**  After `injectHtmlAttributes tag` (consuming, the default) on a
    non-empty tag nothing is left pending, whatever was accumulated and whatever the tag looks like. -/
theorem inject_consumes (tag : Str) (s : Session) (ht : tag ≠ []) :
    wp (injectHtmlAttributes tag true) (fun _ s' => NoPending s') s := by
  have hb : (tag == []) = false := by simpa using ht
  unfold injectHtmlAttributes
  simp only [hb]
  wp_go'
  all_goals first
    | exact ⟨rfl, rfl, rfl, rfl⟩
    | simp_all

/-- **An empty tag consumes nothing** (a block that renders to nothing leaves the attributes pending). -/
theorem inject_empty_tag (consume : Bool) (s : Session) :
    (injectHtmlAttributes [] consume).run s = .ok ([], s) := by
  unfold injectHtmlAttributes
  rfl

theorem injectClasses_none (tag : Str) (s : Session) : (injectClasses [] tag).run s = .ok ((tag, []), s) := by
  unfold injectClasses; rfl

theorem injectId_none (ids : List Str) (r a : Str) (s : Session) : (injectId [] ids r a).run s = .ok (a, s) := by
  unfold injectId; rfl

theorem injectCss_none (r a : Str) (s : Session) : (injectCss [] r a).run s = .ok ((r, a), s) := by
  unfold injectCss; rfl

theorem injectAttrs_none (r : Str) : injectAttrs r [] = r := by
  unfold injectAttrs; rfl

/-- **... and to nothing after it.**  With nothing pending, injection returns the tag unchanged and changes no
    state: blocks after the one that consumed the attributes are rendered without them. -/
theorem inject_without_pending (tag : Str) (consume : Bool) (s : Session) (h : NoPending s) :
    (injectHtmlAttributes tag consume).run s = .ok (tag, s) := by
  obtain ⟨h1, h2, h3, h4⟩ := h
  unfold injectHtmlAttributes
  by_cases ht : (tag == []) = true
  · simp only [ht, if_true]
    rfl
  · simp only [ht, Bool.false_eq_true, if_false]
    rw [run_bind, run_get]
    simp only [h1, h2, h3, h4]
    rw [run_bind, injectClasses_none]
    simp only []
    rw [run_bind, injectId_none]
    simp only []
    rw [run_bind, injectCss_none]
    simp only [bne_self_eq_false, Bool.false_eq_true, if_false, injectAttrs_none]
    cases consume
    · rfl
    · simp only [if_true]
      rw [run_bind, run_modify]
      simp only [run_pure]
      congr 2
      cases s
      simp_all

/-- **With safe-mode bit 4 the lines are ignored altogether**: a Block Attributes line is accepted (and so
    produces no output) without any effect on the session. -/
theorem attributes_line_ignored_with_bit4 (rec : Rec) (env : Env) (attrs : Str) (s : Session)
    (h : pyAnd s.safeMode 4 ≠ 0) : wp (battrParse rec env attrs) (fun r s' => r = true ∧ s' = s) s := by
  have hb : (pyAnd s.safeMode 4 != 0) = true := by simpa using h
  unfold battrParse skipBlockAttributes
  wp_step; wp_step; wp_step; wp_step
  wp_step
  · wp_step
    exact ⟨rfl, rfl⟩
  · next hn => exact absurd hb hn

/-- **Block options alter the processing of one delimited block only**: every delimited-block step ends with the
    pending options cleared, skipped or not, whatever the block is. -/
theorem block_options_cleared (rec : Rec) (env : Env) (d : BlockDef) (mt : Match) (r : Reader) (w : Writer) (s : Session) :
    wp (renderBlock rec env d mt r w) (fun _ s' => s'.opts = {}) s := by
  unfold renderBlock
  wp_go'
  all_goals rfl

/-- Non-vacuity and the full sequence on concrete documents (evaluated in the kernel). -/
example :
    (match (apiRender ⟨fun _ _ => .error⟩ 30 ".cls #i \"color:red\"\n\nfirst\n\nsecond".toList {}).run Session.uninit with
     | .ok (html, _) => html == "<p class=\"cls\" id=\"i\" style=\"color:red\">first</p>\n<p>second</p>".toList
     | .error _ => false) = true := by decide +kernel

example :
    (match (apiRender ⟨fun _ _ => .error⟩ 30 ".cls\n\nfirst".toList { safeMode := .int 4 }).run Session.uninit with
     | .ok (html, _) => html == "<p>first</p>".toList
     | .error _ => false) = true := by decide +kernel

end Props.C12
