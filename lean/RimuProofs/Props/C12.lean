import RimuProofs.Lemmas.Run
import RimuProofs.Lemmas.StepBlock

/-!
# C12  Block Attributes apply once, to the next block only

The consume-once state machine of `blockattributes`, independent of what any regular expression matches.
-/

namespace Props.C12
open Rimu Py

/-- nothing pending -/
def NoPending (s : Session) : Prop := s.classes = [] ∧ s.id = [] ∧ s.css = [] ∧ s.attributes = []

/-- **Consumed by the first non-empty tag.**  After `injectHtmlAttributes tag` (consuming, the default) on a
    non-empty tag nothing is left pending, whatever was accumulated and whatever the tag looks like. -/
theorem inject_consumes (tag : Str) (s : Session) (ht : tag ≠ []) :
    wp (injectHtmlAttributes tag true) (fun _ s' => NoPending s') s := by
  have hb : (tag == []) = false := by simpa using ht
  unfold injectHtmlAttributes
  simp only [hb]
  wp_go'
  all_goals first
    | exact ⟨rfl, rfl, rfl, rfl⟩
    | simp_all

/-- **An empty tag consumes nothing** (a block that renders to nothing leaves the attributes pending). -/
theorem inject_empty_tag (consume : Bool) (s : Session) :
    (injectHtmlAttributes [] consume).run s = .ok ([], s) := by
  unfold injectHtmlAttributes
  rfl

theorem injectClasses_none (tag : Str) (s : Session) : (injectClasses [] tag).run s = .ok ((tag, []), s) := by
  unfold injectClasses; rfl

theorem injectId_none (ids : List Str) (r a : Str) (s : Session) : (injectId [] ids r a).run s = .ok (a, s) := by
  unfold injectId; rfl

theorem injectCss_none (r a : Str) (s : Session) : (injectCss [] r a).run s = .ok ((r, a), s) := by
  unfold injectCss; rfl

theorem injectAttrs_none (r : Str) : injectAttrs r [] = r := by
  unfold injectAttrs; rfl

/-- **... and to nothing after it.**  With nothing pending, injection returns the tag unchanged and changes no
    state: blocks after the one that consumed the attributes are rendered without them. -/
theorem inject_without_pending (tag : Str) (consume : Bool) (s : Session) (h : NoPending s) :
    (injectHtmlAttributes tag consume).run s = .ok (tag, s) := by
  obtain ⟨h1, h2, h3, h4⟩ := h
  unfold injectHtmlAttributes
  by_cases ht : (tag == []) = true
  · simp only [ht, if_true]
    rfl
  · simp only [ht, Bool.false_eq_true, if_false]
    rw [run_bind, run_get]
    simp only [h1, h2, h3, h4]
    rw [run_bind, injectClasses_none]
    simp only []
    rw [run_bind, injectId_none]
    simp only []
    rw [run_bind, injectCss_none]
    simp only [bne_self_eq_false, Bool.false_eq_true, if_false, injectAttrs_none]
    cases consume
    · rfl
    · simp only [if_true]
      rw [run_bind, run_modify]
      simp only [run_pure]
      congr 2
      cases s
      simp_all

/-- **With safe-mode bit 4 the lines are ignored altogether**: whatever the line holds, nothing of it reaches the
    session - no class name, id, css, attribute or option becomes pending, no definition or option changes; only the
    message log and the placeholder queue can differ (the silent macro pass that decides whether the line *is* a Block
    Attributes line may span-render a `$$n` parameter).  A line that only starts like one is refused (`false`: it is
    paragraph text, F49), as in every other safe mode. -/
theorem attributes_line_ignored_with_bit4 (rec : Rec) (env : Env) (hs : ∀ x, Pres Frame (rec.spans x)) (attrs : Str)
    (s : Session) (h : pyAnd s.safeMode 4 ≠ 0) : wp (battrParse rec env attrs) (fun _ s' => Frame s s') s := by
  have hb : (pyAnd s.safeMode 4 != 0) = true := by simpa using h
  have hm := macrosRender_frame rec env hs
  unfold battrParse skipBlockAttributes
  simp only [bind_assoc, pure_bind]
  apply wp_bind
  apply wp_get
  simp only [hb, if_true]
  apply wp_bind
  refine wp_mono (hm attrs true s) ?_
  intro text s1 hf
  repeat (any_goals (first | wp_step | exact hf))

/-- **Block options alter the processing of one delimited block only**: every delimited-block step ends with the
    pending options cleared, skipped or not, whatever the block is. -/
theorem block_options_cleared (rec : Rec) (env : Env) (d : BlockDef) (mt : Match) (r : Reader) (w : Writer) (s : Session) :
    wp (renderBlock rec env d mt r w) (fun _ s' => s'.opts = {}) s := by
  unfold renderBlock
  wp_go'
  all_goals rfl

/-! ### Every rule that writes a tag hands it to the injector first -/

/-- the pending block options are the same (scratch relation for the opening part of a delimited block) -/
def KeepOpts (s s' : Session) : Prop := s'.opts = s.opts

instance : IsPre KeepOpts := ⟨fun _ => rfl, fun h1 h2 => h2.trans h1⟩

@[frame] theorem pres_keepOpts_of_frame {α} {act : M α} (h : Pres Frame act) : Pres KeepOpts act = True :=
  eq_true (fun s a s' hr => by obtain ⟨l, v, rfl⟩ := h s a s' hr; rfl)

theorem NoPending.frame {s s' : Session} (h : NoPending s) (f : Frame s s') : NoPending s' := by
  obtain ⟨l, v, rfl⟩ := f; exact h

/-- **A line block that writes anything has consumed the pending attributes**: whichever line rule matches (header,
    macro line, any redefinition of a rule's replacement), text that reaches the writer went through the injector
    first, and nothing is pending afterwards. -/
theorem line_block_consumes (rec : Rec) (env : Env) (allowed : List Str) (defs : List LineDef) (r : Reader) (w : Writer)
    (s : Session) :
    wp (lineblocksGo rec env allowed defs r w) (fun res s' => res.2.2 ≠ w → NoPending s') s := by
  induction defs generalizing r s with
  | nil => unfold lineblocksGo; wp_go'; all_goals (rename_i h; exact (h rfl).elim)
  | cons d rest ih =>
    unfold lineblocksGo
    repeat (any_goals (first
      | exact ih _ _
      | (refine wp_mono (ih _ _) ?_; intro _ _ _)
      | (refine wp_mono (inject_consumes _ _ (by rename_i h; simpa using h)) ?_; intro _ _ _)
      | wp_step
      | wp_skip_call))
    all_goals first
      | (intro h; exact (h rfl).elim)
      | (intro _; assumption)
      | assumption
      | (rename_i h; exact (h rfl).elim)

/-- every list definition of the source has non-empty list and item opening tags: `renderList` and `renderListItem`
    hand them to the injector (`inject_consumes`), so a list takes the pending attributes on its first tag -/
theorem list_open_tags_nonempty : ∀ d ∈ Gen.listDefs, d.listOpenTag ≠ [] ∧ d.itemOpenTag ≠ [] := by decide +kernel

/-- **The first tag of a list consumes the pending attributes.** -/
theorem list_consumes (rec : Rec) (env : Env) (fuel : Nat) (item : ItemInfo) (r : Reader) (w : Writer)
    (hd : item.listdef ∈ Gen.listDefs) :
    ∃ rest : Str → M (Option ItemInfo × Reader × Writer),
      renderList rec env (fuel + 1) item r w =
        (do modify fun s => { s with listIds := s.listIds ++ [item.id] }
            let tag ← injectHtmlAttributes item.listdef.listOpenTag
            modify fun s => { s with opts := {} }
            rest tag) ∧
      item.listdef.listOpenTag ≠ [] :=
  ⟨fun tag => renderListLoop rec env fuel item r (w.write tag), by rw [renderList], (list_open_tags_nonempty _ hd).1⟩

theorem blockExpand_container (d : BlockDef) (s : Session) :
    wp (blockExpand d) (fun e s' => s' = s ∧ e.container = (d.expand.merge s.opts).container) s := by
  unfold blockExpand
  wp_go'
  all_goals exact ⟨rfl, rfl⟩

theorem container_false {d : BlockDef} {e : Expand} {s s2 : Session}
    (he : e.container = (d.expand.merge s2.opts).container) (ho : s.opts.container = none)
    (hd : d.expand.container ≠ some true) (hk : KeepOpts s s2) : (e.container == some true) = true → False := by
  have : s2.opts = s.opts := hk
  intro h
  rw [he, Expand.merge, this, ho] at h
  simp at h
  exact hd h

set_option maxHeartbeats 1600000 in
/-- **A delimited block that writes anything has consumed the pending attributes** (blocks that are not containers:
    the content of a container is a document of its own and may end in a Block Attributes line, which then stays
    pending for the block after the container, as it would after any other block).  `d` is any definition - default
    or redefined - with a non-empty opening tag, other than the HTML block rule (which injects into its first line
    instead); no `+container` option is pending. -/
theorem delimited_block_consumes (rec : Rec) (env : Env) (hs : ∀ x, Pres Frame (rec.spans x))
    (d : BlockDef) (mt : Match) (r : Reader) (w : Writer) (s : Session)
    (hd : d.expand.container ≠ some true) (ho : s.opts.container = none)
    (ht : d.openTag ≠ []) (hh : d.name ≠ "html".toList) :
    wp (renderBlockBody rec env d mt r w) (fun res s' => res.2 ≠ w → NoPending s') s := by
  have hr := replaceInline_frame rec env hs
  have hhtml : (d.name == "html".toList) = false := by simpa using hh
  have hcur : KeepOpts s s := rfl
  unfold renderBlockBody
  simp only [hhtml, Bool.false_eq_true, if_false]
  repeat (any_goals (first
    | (refine wp_mono (inject_consumes _ _ ht) ?_; intro _ s1 hnp; have hf := Frame.refl s1)
    | (refine wp_mono (blockExpand_container d _) ?_; rintro e s2 ⟨rfl, he⟩
       have hcf : (e.container == some true) = false := by
         cases h : (e.container == some true)
         · rfl
         · exact (container_false he ho hd (by assumption) h).elim
       simp only [hcf, Bool.false_and, Bool.false_eq_true, if_false])
    | wp_step
    | (refine wp_ite ?_ ?_ <;> intro _)
    | wp_skip_call))
  all_goals first
    | (intro h; exact (h rfl).elim)
    | (rename_i h; exact (h rfl).elim)
    | (intro _; exact NoPending.frame ‹_› ‹_›)
    | exact NoPending.frame ‹_› ‹_›


/-- ... for the model's own renderers at every fuel -/
theorem delimited_block_consumes_mk (env : Env) (fuel : Nat) (d : BlockDef) (mt : Match) (r : Reader) (w : Writer)
    (s : Session) (hd : d.expand.container ≠ some true) (ho : s.opts.container = none)
    (ht : d.openTag ≠ []) (hh : d.name ≠ "html".toList) :
    wp (renderBlockBody (mkRec env fuel) env d mt r w) (fun res s' => res.2 ≠ w → NoPending s') s :=
  delimited_block_consumes (mkRec env fuel) env (mkRec_spec env fuel).1 d mt r w s hd ho ht hh

/-- Not vacuous: the default definitions (regenerated from the source) that meet the hypotheses. -/
example : (Gen.blockDefaultDefs.filter fun d =>
      d.expand.container != some true && d.openTag != [] && d.name != "html".toList).map (·.name) =
    ["code".toList, "indented".toList, "quote-paragraph".toList, "paragraph".toList] := by decide +kernel

/-- Non-vacuity and the full sequence on concrete documents (evaluated in the kernel). -/
example :
    (match (apiRender ⟨fun _ _ => .error⟩ 30 ".cls #i \"color:red\"\n\nfirst\n\nsecond".toList {}).run Session.uninit with
     | .ok (html, _) => html == "<p class=\"cls\" id=\"i\" style=\"color:red\">first</p>\n<p>second</p>".toList
     | .error _ => false) = true := by decide +kernel

example :
    (match (apiRender ⟨fun _ _ => .error⟩ 30 ".cls\n\nfirst".toList { safeMode := .int 4 }).run Session.uninit with
     | .ok (html, _) => html == "<p>first</p>".toList
     | .error _ => false) = true := by decide +kernel

end Props.C12
