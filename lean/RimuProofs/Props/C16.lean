import RimuProofs.Lemmas.Run
import RimuProofs.Lemmas.PatLemmas
import RimuProofs.Facts
import RimuProofs.Regex.Newlines
import RimuModel.Block

/-!
# C16  Line endings and reserved control characters never affect rendering

Proved for the model:
* reserved code points are blanks: a source and the same source with U+0000-2 replaced by blanks have the same
  reader, hence the same rendering, messages and final state (`reserved_are_blanks`, `render_reserved_are_blanks`);
* no line that the reader hands to the renderer contains a reserved code point (`reader_lines_have_no_reserved`);
* placeholders are restored from the queue in order, each exactly once (`postReplacements_restores_in_order`), text
  without placeholders is left alone and consumes nothing (`postReplacements_plain`), and a missing queue entry is
  an `IndexError`, never a leaked placeholder;
* the split pattern of the reader is `\r\n|\r|\n` (fact of the generated pattern, as an alternation tree), and for this
  pattern the model's matcher is characterised completely: the reader's lines are the lines of the list function `splitNl`
  (`reader_lines_are_the_lines`), so re-encoding CR LF and CR as LF changes nothing (`line_terminators_are_interchangeable`).
-/

namespace Props.C16
open Rimu Rx Py

def blank (c : Char) : Char := if c.toNat ≤ 2 then ' ' else c

/-- **U+0000, U+0001 and U+0002 in a source are treated as blanks.** -/
theorem reserved_are_blanks (src : Str) : Reader.ofText src = Reader.ofText (src.map blank) := by
  unfold Reader.ofText
  simp only [List.map_map]
  congr 2
  apply List.map_congr_left
  intro c _
  simp only [Function.comp, blank]
  by_cases h : c.toNat ≤ 2
  · simp [h]
  · simp [h]

theorem render_reserved_are_blanks (rec : Rec) (env : Env) (fuel : Nat) (src : Str) :
    documentRender rec env fuel src = documentRender rec env fuel (src.map blank) := by
  unfold documentRender
  rw [reserved_are_blanks]

/-- every piece of `Pat.split` consists of characters of the text -/
theorem pieces_go_chars (p : Pat) (inp : Array Char) : ∀ (ms : List Match) (pos : Nat) (x : Char),
    (x ∈ (Pat.pieces.go inp pos ms).2 ∨ ∃ b ∈ (Pat.pieces.go inp pos ms).1, x ∈ b.1) → x ∈ inp.toList := by
  intro ms
  induction ms with
  | nil =>
    intro pos x h
    simp only [Pat.pieces.go] at h
    rcases h with h | ⟨b, hb, _⟩
    · obtain ⟨k, _, _, hk, rfl⟩ := mem_slice h
      exact Array.getElem_mem_toList hk
    · simp at hb
  | cons mt rest ih =>
    intro pos x h
    simp only [Pat.pieces.go] at h
    rcases h with h | ⟨b, hb, hx⟩
    · exact ih mt.stop x (.inl h)
    · simp only [List.mem_cons] at hb
      rcases hb with rfl | hb
      · obtain ⟨k, _, _, hk, rfl⟩ := mem_slice hx
        exact Array.getElem_mem_toList hk
      · exact ih mt.stop x (.inr ⟨b, hb, hx⟩)

theorem split_chars (p : Pat) (s : Str) (line : Str) (hl : line ∈ p.split s) : ∀ x ∈ line, x ∈ s := by
  intro x hx
  unfold Pat.split Pat.pieces at hl
  simp only [List.mem_append, List.mem_map, List.mem_singleton] at hl
  have := pieces_go_chars p s.toArray (p.findAll s) 0 x
  simp only [List.toList_toArray] at this
  apply this
  rcases hl with ⟨b, hb, rfl⟩ | rfl
  · exact .inr ⟨b, hb, hx⟩
  · exact .inl hx

/-- **No line handed to the renderer contains a reserved code point.** -/
theorem reader_lines_have_no_reserved (src : Str) : ∀ line ∈ (Reader.ofText src).rest, ∀ c ∈ line, c.toNat > 2 := by
  intro line hl c hc
  unfold Reader.ofText at hl
  have := split_chars _ _ line hl c hc
  simp only [List.mem_map] at this
  obtain ⟨d, _, rfl⟩ := this
  by_cases h : d.toNat ≤ 2
  · simp [h]
  · simp [h]; omega

/-! ## placeholders -/

/-- text without placeholders is returned unchanged and the queue is not touched -/
theorem postReplacements_plain : ∀ (text : Str) (s : Session), (∀ c ∈ text, c.toNat > 1) →
    (postReplacements text).run s = .ok (text, s) := by
  intro text
  induction text with
  | nil => intro s _; rfl
  | cons c rest ih =>
    intro s h
    have hc := h c List.mem_cons_self
    have : (c.toNat == 0 || c.toNat == 1) = false := by
      simp only [Bool.or_eq_false_iff, beq_eq_false_iff_ne]; omega
    unfold postReplacements
    simp only [this, Bool.false_eq_true, if_false]
    rw [run_bind, ih s (fun d hd => h d (List.mem_cons_of_mem _ hd))]
    rfl

/-- **Each replaced element is restored exactly once and in order**: a placeholder takes the head of the queue (its
    rendered text for U+0000, its escaped source for U+0001) and the rest of the text sees the tail of the queue. -/
theorem postReplacements_restores_in_order (c : Char) (rest : Str) (f : Fragment) (more : List Fragment) (s : Session)
    (hc : c.toNat = 0 ∨ c.toNat = 1) (hq : s.saved = f :: more) :
    (postReplacements (c :: rest)).run s =
      match (postReplacements rest).run { s with saved := more } with
      | .ok (t, s') => .ok ((if c.toNat == 0 then f.text else replaceSpecialChars f.verbatim) ++ t, s')
      | .error e => .error e := by
  have : (c.toNat == 0 || c.toNat == 1) = true := by
    rcases hc with h | h <;> simp [h]
  conv => lhs; unfold postReplacements
  simp only [this, if_true]
  rw [run_bind, run_get]
  simp only [hq]
  rw [run_bind, run_set]
  simp only []
  rw [run_bind]
  cases (postReplacements rest).run { s with saved := more } with
  | error e => rfl
  | ok r => rfl

/-- a placeholder with an empty queue is an `IndexError`: it can never be silently left in the output -/
theorem postReplacements_empty_queue (c : Char) (rest : Str) (s : Session)
    (hc : c.toNat = 0 ∨ c.toNat = 1) (hq : s.saved = []) :
    (postReplacements (c :: rest)).run s = .error (.indexError "savedReplacements.pop(0)") := by
  have : (c.toNat == 0 || c.toNat == 1) = true := by
    rcases hc with h | h <;> simp [h]
  unfold postReplacements
  simp only [this, if_true]
  rw [run_bind, run_get]
  simp only [hq]
  rfl

/-- **Successful restoration leaves no placeholder**: no U+0000 / U+0001 in the output of `postReplacements` when
    the restored texts have none. -/
theorem postReplacements_output_clean : ∀ (text : Str) (s s' : Session) (out : Str),
    (∀ f ∈ s.saved, (∀ c ∈ f.text, c.toNat > 1) ∧ (∀ c ∈ replaceSpecialChars f.verbatim, c.toNat > 1)) →
    (postReplacements text).run s = .ok (out, s') → ∀ c ∈ out, c.toNat > 1 := by
  intro text
  induction text with
  | nil =>
    intro s s' out _ h
    have : out = [] := by
      have h' : (pure [] : M Str).run s = .ok (out, s') := h
      simp only [run_pure] at h'
      injection h' with h'; injection h' with h1 _; exact h1.symm
    subst this; intro c hc; cases hc
  | cons c rest ih =>
    intro s s' out hq h
    by_cases hp : (c.toNat == 0 || c.toNat == 1) = true
    · have hc : c.toNat = 0 ∨ c.toNat = 1 := by simpa using hp
      cases hs : s.saved with
      | nil => rw [postReplacements_empty_queue c rest s hc hs] at h; cases h
      | cons f more =>
        rw [postReplacements_restores_in_order c rest f more s hc hs] at h
        cases hr : (postReplacements rest).run { s with saved := more } with
        | error e => rw [hr] at h; cases h
        | ok r =>
          obtain ⟨t, s1⟩ := r
          rw [hr] at h
          simp only at h
          injection h with h; injection h with h1 _
          subst h1
          have hf := hq f (by rw [hs]; exact List.mem_cons_self)
          have hrest := ih { s with saved := more } s1 t
            (fun g hg => hq g (by rw [hs]; exact List.mem_cons_of_mem _ hg)) hr
          intro d hd
          simp only [List.mem_append] at hd
          rcases hd with hd | hd
          · split at hd
            · exact hf.1 d hd
            · exact hf.2 d hd
          · exact hrest d hd
    · have hp' : (c.toNat == 0 || c.toNat == 1) = false := by simpa using hp
      unfold postReplacements at h
      simp only [hp', Bool.false_eq_true, if_false] at h
      rw [run_bind] at h
      cases hr : (postReplacements rest).run s with
      | error e => rw [hr] at h; cases h
      | ok r =>
        obtain ⟨t, s1⟩ := r
        rw [hr] at h
        simp only [run_pure] at h
        injection h with h; injection h with h1 _
        subst h1
        have hrest := ih s s1 t hq hr
        intro d hd
        simp only [List.mem_cons] at hd
        rcases hd with rfl | hd
        · simp only [Bool.or_eq_false_iff, beq_eq_false_iff_ne] at hp'
          omega
        · exact hrest d hd

/-- the reader's split pattern is the alternation `\r\n | \r | \n` -/
theorem split_pattern_shape :
    Gen.P.io_Reader_init_0.re =
      .alt (.seq (.chr ⟨[(13, 13)], false⟩) (.chr ⟨[(10, 10)], false⟩)) (.alt (.chr ⟨[(13, 13)], false⟩) (.chr ⟨[(10, 10)], false⟩)) := by
  decide +kernel

/-- the reader's pattern, as regenerated from the source, is the pattern characterised in `Regex/Newlines.lean` -/
theorem reader_pattern : Gen.P.io_Reader_init_0.re = nlRe ∧ Gen.P.io_Reader_init_0.ngroups = 0 := by
  decide +kernel

/-- **The lines the reader sees** are the lines of the specification `splitNl` (CR LF, CR and LF alike end a line):
    for this one pattern the model's matcher is characterised completely, not only soundly. -/
theorem reader_lines_are_the_lines (src : Str) : (Reader.ofText src).rest = splitNl false [] (src.map blank) := by
  show Gen.P.io_Reader_init_0.split (src.map blank) = _
  exact split_eq_splitNl _ reader_pattern.1 reader_pattern.2 _

theorem toLF_map_blank : ∀ (t : Str) (b : Bool), (toLF b t).map blank = toLF b (t.map blank) := by
  intro t
  induction t with
  | nil => intro b; simp [toLF]
  | cons c t ih =>
    intro b
    by_cases hn : (c == '\n') = true
    · have : c = '\n' := by simpa using hn
      subst this
      have e : blank '\n' = '\n' := by decide
      cases b <;> simp [toLF, e, ih]
    · have hn' : (c == '\n') = false := by simpa using hn
      by_cases hr : (c == '\r') = true
      · have : c = '\r' := by simpa using hr
        subst this
        have e : blank '\r' = '\r' := by decide
        have e2 : blank '\n' = '\n' := by decide
        simp [toLF, e, e2, ih]
      · have hr' : (c == '\r') = false := by simpa using hr
        have hb : (blank c == '\n') = false ∧ (blank c == '\r') = false := by
          unfold blank
          split
          · exact ⟨by decide, by decide⟩
          · exact ⟨hn', hr'⟩
        simp [toLF, hn', hr', hb.1, hb.2, ih]

/-- **Line terminators are interchangeable.**  Re-encoding every CR LF and every lone CR of a source as LF gives the
    reader the same lines, hence the same rendering, messages and final session - for every source, not the sampled ones. -/
theorem line_terminators_are_interchangeable (src : Str) : Reader.ofText (toLF false src) = Reader.ofText src := by
  have h1 := reader_lines_are_the_lines (toLF false src)
  have h2 := reader_lines_are_the_lines src
  rw [toLF_map_blank, splitNl_toLF] at h1
  have : (Reader.ofText (toLF false src)).rest = (Reader.ofText src).rest := by rw [h1, h2]
  unfold Reader.ofText at this ⊢
  simp only at this ⊢
  rw [this]

theorem render_line_terminators_are_interchangeable (rec : Rec) (env : Env) (fuel : Nat) (src : Str) :
    documentRender rec env fuel (toLF false src) = documentRender rec env fuel src := by
  unfold documentRender
  rw [line_terminators_are_interchangeable]

/-- not vacuous: a text with all three terminators -/
example : toLF false "a\r\nb\rc\nd\r\r\n".toList = "a\nb\nc\nd\n\n".toList ∧
    splitNl false [] "a\r\nb\rc\nd".toList = ["a".toList, "b".toList, "c".toList, "d".toList] := by decide

/-- Concrete twins (kernel evaluation): LF / CR LF / CR / mixed terminators and reserved characters. -/
example :
    let run (src : String) := match (apiRender ⟨fun _ _ => .error⟩ 40 src.toList {}).run Session.uninit with
      | .ok (h, _) => h | .error _ => "ERROR".toList
    (run "# T\n\n- a\n- b\n\n*x*\ny" == run "# T\r\n\r\n- a\r\n- b\r\n\r\n*x*\r\ny" &&
     run "# T\n\n- a\n- b\n\n*x*\ny" == run "# T\r\r- a\r- b\r\r*x*\ry" &&
     run "# T\n\n- a\n- b\n\n*x*\ny" == run "# T\r\n\n- a\r- b\n\r\n*x*\ry" &&
     run "a\x00b `c\x01d` \x02" == run "a b `c d`  ") = true := by
  decide +kernel

end Props.C16
