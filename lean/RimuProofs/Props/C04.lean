import RimuProofs.Lemmas.StepBlock

/-!
# C04  Safe-mode input cannot change definitions or options

Model statement.  `apiRender` is `rimu.render`; it first applies the call's own API options
(`apiPrefix`: implicit initialisation, `options.updateFrom`) and then renders the document.
Whatever the document contains, the rendering part relates the state `s₁` it starts from and the
state `s₂` it ends in by `Step`; when the safe mode in force is not 0 this says that the quote,
replacement and delimited-block definitions, the replacement text and the safe mode are unchanged,
and the macro definitions too unless bit 8 is set.  The quantifiers are over every source, every
session state (hence every trusted preamble), every fuel and every `compile` oracle (`env`).
-/

namespace Props.C04
open Rimu

/-- the part of `rimu.render` that applies the call's own options -/
def apiPrefix (opts : RenderOptions) : M Unit := do
  if (← get).safeMode == -1 then documentInit
  updateFrom opts

theorem apiRender_eq (env : Env) (fuel : Nat) (src : Str) (opts : RenderOptions) :
    apiRender env fuel src opts = (apiPrefix opts >>= fun _ => (mkRec env fuel).document 0 src) := by
  unfold apiRender apiPrefix
  simp only [bind_assoc]
  congr 1
  funext x
  split <;> simp [bind_assoc]

/-- Every document render, nested or not, at every fuel, preserves `Step`. -/
theorem document_step (env : Env) (fuel : Nat) (src : Str) (s s' : Session) (html : Str)
    (h : ((mkRec env fuel).document 0 src).run s = .ok (html, s')) : Step s s' :=
  (mkRec_spec env fuel).2 0 src s html s' h

/-- **C04 (full).**  A source rendered in a non-zero safe mode changes none of the definition tables nor the
    options; macro definitions only with bit 8. -/
theorem untrusted_source_cannot_change_definitions (env : Env) (fuel : Nat) (src : Str) (s s' : Session) (html : Str)
    (h : ((mkRec env fuel).document 0 src).run s = .ok (html, s')) (hmode : s.safeMode ≠ 0) :
    s'.safeMode = s.safeMode ∧ s'.htmlReplacement = s.htmlReplacement ∧
    s'.quoteDefs = s.quoteDefs ∧ s'.replDefs = s.replDefs ∧ s'.blockDefs = s.blockDefs ∧
    (pyAnd s.safeMode 8 = 0 → s'.macroDefs = s.macroDefs) := by
  have st := document_step env fuel src s s' html h
  obtain ⟨q, r, b, hr⟩ := st.defs hmode
  refine ⟨?_, hr, q, r, b, st.macros hmode⟩
  rcases st.mode with e | ⟨z, _, _⟩
  · exact e
  · exact absurd z hmode

/-- The same at the API: the state `s₁` after the call's own options were applied and the final state. -/
theorem api_untrusted_source_cannot_change_definitions (env : Env) (fuel : Nat) (src : Str) (opts : RenderOptions)
    (s s₂ : Session) (html : Str) (h : (apiRender env fuel src opts).run s = .ok (html, s₂)) :
    ∃ s₁, (apiPrefix opts).run s = .ok ((), s₁) ∧
      (s₁.safeMode ≠ 0 →
        s₂.safeMode = s₁.safeMode ∧ s₂.htmlReplacement = s₁.htmlReplacement ∧
        s₂.quoteDefs = s₁.quoteDefs ∧ s₂.replDefs = s₁.replDefs ∧ s₂.blockDefs = s₁.blockDefs ∧
        (pyAnd s₁.safeMode 8 = 0 → s₂.macroDefs = s₁.macroDefs)) := by
  rw [apiRender_eq] at h
  simp only [Bind.bind, StateT.bind, StateT.run] at h
  cases hp : apiPrefix opts s with
  | error e => simp [hp, Except.bind] at h
  | ok r =>
    obtain ⟨u, s₁⟩ := r
    simp only [hp, Except.bind] at h
    exact ⟨s₁, hp, untrusted_source_cannot_change_definitions env fuel src s₁ s₂ html h⟩

/-- Consequence for later documents: two sessions that agree on a field keep agreeing after the untrusted render
    has run in one of them, for each of the protected fields; so a later render can differ only through the
    fields that the property exempts (ids, pending Block Attributes, macros under bit 8). -/
theorem later_render_sees_same_definitions (env : Env) (fuel : Nat) (untrusted : Str) (s s' : Session) (html : Str)
    (h : ((mkRec env fuel).document 0 untrusted).run s = .ok (html, s')) (hmode : s.safeMode ≠ 0) (h8 : pyAnd s.safeMode 8 = 0) :
    ({ s' with ids := s.ids, classes := s.classes, id := s.id, css := s.css, attributes := s.attributes, opts := s.opts,
               log := s.log, listIds := s.listIds, saved := s.saved, callback := s.callback } : Session) = s := by
  obtain ⟨h1, h2, h3, h4, h5, h6⟩ := untrusted_source_cannot_change_definitions env fuel untrusted s s' html h hmode
  have h6 := h6 h8
  cases s; cases s'
  simp_all

/-- the initialised session put into safe mode 5 -/
def mode5 : Session :=
  match documentInit.run Session.uninit with
  | .ok (_, s) => { s with safeMode := 5 }
  | .error _ => Session.uninit

/-- Non-vacuity: from a state in safe mode 5 the render of a source full of definition and option elements
    succeeds (so the hypotheses of the theorems above are met by a concrete run), and indeed leaves the
    quote table alone. -/
example :
    (match ((mkRec ⟨fun _ _ => .error⟩ 50).document 0 "x = '<u>|</u>'\n\n{m} = 'v'\n\n.safeMode = '0'\n\n/a/ = 'b'".toList).run mode5 with
     | .ok (_, s') => s'.safeMode == 5 && s'.quoteDefs.length == mode5.quoteDefs.length && mode5.safeMode != 0
     | .error _ => false) = true := by
  decide +kernel

end Props.C04
