import RimuProofs.Lemmas.Run
import RimuProofs.Props.C01
import RimuProofs.Props.C11

/-!
# C19  Diagnostics are complete and never spurious for the documented errors

Emission conditions, as equations of the model (each diagnostic is issued exactly under its condition and has no
other effect on the session):

* `unterminated_block_reported_iff`: an "unterminated <name> block" message is issued iff the reader is at end of
  input after the search for the closing delimiter and the block is a code, comment, division or quote block;
* undefined macro: C11 `simple_invocation`; illegal option values: C20 `setOption_safeMode_rejects`; ill-formed
  replacement pattern: C01 `ill_formed_regex_is_reported`;
* `illegal_block_option_reported`, `unknown_block_name_reported`;
* `diagnostic_without_callback_is_a_noop`: without a callback a diagnostic changes nothing at all, and with one it only
  appends to the message log (`diagnostic_only_appends`): no renderer state depends on it.

Not proved: that the *html* of a whole render is the same with and without a callback (a two-run statement), and
that generated well-formed documents produce no diagnostic; both are decided by the check's oracle on generated
documents and their single-fault mutations.
-/

namespace Props.C19
open Rimu Py

theorem diagnostic_without_callback_is_a_noop (msg : Str) (s : Session) (h : s.callback = false) :
    (errorCallback msg).run s = .ok ((), s) := by
  rw [run_errorCallback]; simp [h]

theorem diagnostic_only_appends (msg : Str) (s : Session) (h : s.callback = true) :
    (errorCallback msg).run s = .ok ((), { s with log := s.log ++ [msg] }) := by
  rw [run_errorCallback]; simp [h]

/-- **Each unterminated code, comment, division or quote block produces its diagnostic, and only those do.** -/
theorem unterminated_block_reported_iff (d : BlockDef) (mt : Match) (r : Reader) (s : Session) :
    (unterminatedCheck d mt r).run s =
      if r.eof && blockNamesWithUnterminated.contains d.name then
        (errorCallback ("unterminated ".toList ++ d.name ++ " block: ".toList ++ mt.whole)).run s
      else .ok ((), s) := by
  unfold unterminatedCheck
  split <;> rfl

/-- the four block names are the documented ones, in the generated table -/
theorem unterminated_names :
    blockNamesWithUnterminated = ["code".toList, "comment".toList, "division".toList, "quote".toList] ∧
    blockNamesWithUnterminated.all (fun n => Gen.blockDefaultDefs.any (·.name == n)) = true := by
  decide +kernel

/-- **An illegal block option produces its diagnostic** and sets nothing. -/
theorem illegal_block_option_reported (e : Expand) (opt : Str) (s : Session)
    (hsafe : ((s.safeMode != 0) && opt == "-specials".toList) = false)
    (hno : Gen.P.expansion_Expand_parse_1.matchStart opt = none) :
    (expandParseOne e opt).run s = (do errorCallback ("illegal block option: ".toList ++ opt); pure e : M Expand).run s := by
  unfold expandParseOne
  rw [run_bind, run_isSafeModeNz]
  simp only [hsafe, Bool.false_eq_true, if_false, hno]

/-- **A definition for an unknown delimited block name produces its diagnostic** and changes no definition. -/
theorem unknown_block_name_reported (name value : Str) (s : Session) (h : blockGetDefinition s.blockDefs name = none) :
    (blockSetDefinition name value).run s =
      (errorCallback ("illegal delimited block name: ".toList ++ name ++ ": |".toList ++ name ++ "|='".toList ++ value ++ "'".toList)).run s := by
  unfold blockSetDefinition
  rw [run_bind, run_get]
  simp only [h]

/-- Concrete documents (kernel evaluation): a well-formed document produces no diagnostic; each single fault produces
    exactly its diagnostic; the html is the same with and without a callback. -/
example :
    let env : Env := ⟨fun p _ => if p == "teh".toList then .ok { re := .seq (.chr ⟨[(116,116)], false⟩) (.seq (.chr ⟨[(101,101)], false⟩) (.chr ⟨[(104,104)], false⟩)), ngroups := 0 } else .error⟩
    let run (cb : Bool) (src : String) := match (apiRender env 40 src.toList { callback := cb }).run Session.uninit with
      | .ok (h, s) => (h, s.log) | .error _ => ("ERROR".toList, [])
    ((run true "{m} = 'v'\n\n{m} x\n\n```\ncode\n```\n\n/teh/ = 'the'\n\n.+skip\n\"\"\nq\n\"\"").2 == [] &&
     (run true "```\ncode").2 == ["unterminated code block: ```".toList] &&
     (run true "a {nope} b").2 == ["undefined macro: {nope}: a {nope} b".toList] &&
     (run true "/(/ = 'x'").2 == ["illegal replacement regular expression: /(/='x'".toList] &&
     (run true ".+bogus\npara").2 == ["illegal block option: +bogus".toList] &&
     (run true "|bogus| = '<p>|</p>'").2 == ["illegal delimited block name: bogus: |bogus|='<p>|</p>'".toList] &&
     (run true ".safeMode = 'x'").2 == ["illegal safeMode API option value: x".toList] &&
     (run true "```\ncode\n\n{nope}").1 == (run false "```\ncode\n\n{nope}").1) = true := by
  decide +kernel

end Props.C19
