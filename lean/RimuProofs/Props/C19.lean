import RimuProofs.Lemmas.Run
import RimuProofs.Props.C01
import RimuProofs.Props.C11
import RimuProofs.Props.C20
import RimuProofs.Lemmas.NITop

/-!
# C19  Diagnostics are complete and never spurious for the documented errors

Emission conditions, as equations of the model (each diagnostic is issued exactly under its condition and has no
other effect on the session):

* `unterminated_block_reported_iff`: an "unterminated <name> block" message is issued iff the reader is at end of
  input after the search for the closing delimiter and the block is a code, comment, division or quote block;
* undefined macro: C11 `simple_invocation`; illegal option values: C20 `setOption_safeMode_rejects`; ill-formed
  replacement pattern: C01 `ill_formed_regex_is_reported`;
* `illegal_block_option_reported`, `unknown_block_name_reported`;
* `diagnostic_without_callback_is_a_noop`: without a callback a diagnostic changes nothing at all, and with one it only
  appends to the message log (`diagnostic_only_appends`): no renderer state depends on it.

* **the html does not depend on the callback** (`callback_does_not_influence_rendering`, a two-run statement): from any
  two sessions that differ at most in the installed callback and the messages logged so far, `render` with option
  sets that differ at most in the callback returns the same html (or fails in the same way) and leaves sessions that
  again differ at most there.  Proved by pushing the relation `NI` (run from `s` and from `mute s` agree) through
  every function of the model (`Lemmas/NI*.lean`), for every source, fuel and `compile` oracle.

Not proved: that generated well-formed documents produce no diagnostic; decided by the check's oracle on generated
documents and their single-fault mutations.
-/

namespace Props.C19
open Rimu Py Props.C20

theorem diagnostic_without_callback_is_a_noop (msg : Str) (s : Session) (h : s.callback = false) :
    (errorCallback msg).run s = .ok ((), s) := by
  rw [run_errorCallback]; simp [h]

theorem diagnostic_only_appends (msg : Str) (s : Session) (h : s.callback = true) :
    (errorCallback msg).run s = .ok ((), { s with log := s.log ++ [msg] }) := by
  rw [run_errorCallback]; simp [h]

/-- **Each unterminated code, comment, division or quote block produces its diagnostic, and only those do.** -/
theorem unterminated_block_reported_iff (d : BlockDef) (mt : Match) (r : Reader) (s : Session) :
    (unterminatedCheck d mt r).run s =
      if r.eof && blockNamesWithUnterminated.contains d.name then
        (errorCallback ("unterminated ".toList ++ d.name ++ " block: ".toList ++ mt.whole)).run s
      else .ok ((), s) := by
  unfold unterminatedCheck
  split <;> rfl

/-- the four block names are the documented ones, in the generated table -/
theorem unterminated_names :
    blockNamesWithUnterminated = ["code".toList, "comment".toList, "division".toList, "quote".toList] ∧
    blockNamesWithUnterminated.all (fun n => Gen.blockDefaultDefs.any (·.name == n)) = true := by
  decide +kernel

/-- **An illegal block option produces its diagnostic** and sets nothing. -/
theorem illegal_block_option_reported (e : Expand) (opt : Str) (s : Session)
    (hsafe : ((s.safeMode != 0) && opt == "-specials".toList) = false)
    (hno : Gen.P.expansion_Expand_parse_1.matchStart opt = none) :
    (expandParseOne e opt).run s = (do errorCallback ("illegal block option: ".toList ++ opt); pure e : M Expand).run s := by
  unfold expandParseOne
  rw [run_bind, run_isSafeModeNz]
  simp only [hsafe, Bool.false_eq_true, if_false, hno]

/-- **A definition for an unknown delimited block name produces its diagnostic** and changes no definition. -/
theorem unknown_block_name_reported (name value : Str) (s : Session) (h : blockGetDefinition s.blockDefs name = none) :
    (blockSetDefinition name value).run s =
      (errorCallback ("illegal delimited block name: ".toList ++ name ++ ": |".toList ++ name ++ "|='".toList ++ value ++ "'".toList)).run s := by
  unfold blockSetDefinition
  rw [run_bind, run_get]
  simp only [h]

/-- `setOption` on states commutes with muting (from its non-interference) -/
theorem setOptionPure_mute (n : Str) (v : PyVal) (t : Session) :
    setOptionPure n v (mute t) = mute (setOptionPure n v t) := by
  have h := setOption_ni n v t
  rw [setOption_run, setOption_run] at h
  exact h.2

theorem setOptionPure_congr (n : Str) (v : PyVal) {t₁ t₂ : Session} (h : mute t₁ = mute t₂) :
    mute (setOptionPure n v t₁) = mute (setOptionPure n v t₂) := by
  rw [← setOptionPure_mute, ← setOptionPure_mute, h]

theorem mute_ite_callback (c : Bool) (b : Bool) (t : Session) :
    mute (if b then { t with callback := c } else t) = mute t := by
  cases b <;> rfl

/-- applying two option sets that differ in the callback only, to sessions that agree once muted -/
theorem updateFromPure_congr (o : RenderOptions) (c₁ c₂ : Bool) {s₁ s₂ : Session} (h : mute s₁ = mute s₂) :
    mute (updateFromPure { o with callback := c₁ } s₁) = mute (updateFromPure { o with callback := c₂ } s₂) := by
  unfold updateFromPure
  simp only []
  have e1 : mute (if c₁ then { s₁ with callback := true } else s₁) = mute (if c₂ then { s₂ with callback := true } else s₂) := by
    rw [mute_ite_callback, mute_ite_callback, h]
  have e2 := setOptionPure_congr "reset".toList o.reset e1
  generalize setOptionPure "reset".toList o.reset (if c₁ then { s₁ with callback := true } else s₁) = u₁ at e2 ⊢
  generalize setOptionPure "reset".toList o.reset (if c₂ then { s₂ with callback := true } else s₂) = u₂ at e2 ⊢
  have e3 : mute (if c₁ then { u₁ with callback := true } else u₁) = mute (if c₂ then { u₂ with callback := true } else u₂) := by
    rw [mute_ite_callback, mute_ite_callback, e2]
  generalize (if c₁ then { u₁ with callback := true } else u₁) = v₁ at e3 ⊢
  generalize (if c₂ then { u₂ with callback := true } else u₂) = v₂ at e3 ⊢
  have e4 : mute (if o.safeMode != .none then setOptionPure "safeMode".toList (.str o.safeMode.toStr) v₁ else v₁) =
      mute (if o.safeMode != .none then setOptionPure "safeMode".toList (.str o.safeMode.toStr) v₂ else v₂) := by
    split
    · exact setOptionPure_congr _ _ e3
    · exact e3
  generalize (if o.safeMode != .none then setOptionPure "safeMode".toList (.str o.safeMode.toStr) v₁ else v₁) = w₁ at e4 ⊢
  generalize (if o.safeMode != .none then setOptionPure "safeMode".toList (.str o.safeMode.toStr) v₂ else v₂) = w₂ at e4 ⊢
  split
  · exact setOptionPure_congr _ _ e4
  · exact e4

theorem updateFrom_NI2 (o : RenderOptions) (c₁ c₂ : Bool) :
    NI2 (updateFrom { o with callback := c₁ }) (updateFrom { o with callback := c₂ }) := by
  intro s₁ s₂ h
  rw [updateFrom_run, updateFrom_run]
  exact ⟨rfl, updateFromPure_congr o c₁ c₂ h⟩

/-- **Whether a callback is supplied makes no difference to what is rendered** (model): from any two sessions that
    differ at most in the installed callback and the messages logged so far, `render` with option sets that differ at
    most in the callback returns the same html (or fails in the same way), and leaves sessions that again differ at
    most in the callback and the log.  For every source, every fuel, every `compile` oracle. -/
theorem callback_does_not_influence_rendering (env : Env) (fuel : Nat) (src : Str) (o : RenderOptions) (c₁ c₂ : Bool)
    (s₁ s₂ : Session) (h : mute s₁ = mute s₂) :
    Same ((apiRender env fuel src { o with callback := c₁ }).run s₁) ((apiRender env fuel src { o with callback := c₂ }).run s₂) := by
  have hdoc := (mkRec_ni env fuel).2 0 src
  have hpre : NI2 (Props.C04.apiPrefix { o with callback := c₁ }) (Props.C04.apiPrefix { o with callback := c₂ }) := by
    intro t₁ t₂ ht
    rw [apiPrefix_run, apiPrefix_run]
    refine updateFrom_NI2 o c₁ c₂ _ _ ?_
    have hsm : (mute t₁).safeMode = (mute t₂).safeMode := by rw [ht]
    change t₁.safeMode = t₂.safeMode at hsm
    have hi : ∀ t : Session, mute (initState t) = mute (initState (mute t)) := fun _ => rfl
    rw [hsm]
    split
    · rw [hi t₁, hi t₂, ht]
    · exact ht
  rw [Props.C04.apiRender_eq, Props.C04.apiRender_eq]
  exact NI2.bind hpre (fun _ => hdoc.to_NI2) s₁ s₂ h

/-- in particular: the same call with and without a callback, from the same session -/
theorem html_same_with_and_without_callback (env : Env) (fuel : Nat) (src : Str) (o : RenderOptions) (s : Session)
    (html : Str) (s' : Session) (hr : (apiRender env fuel src { o with callback := true }).run s = .ok (html, s')) :
    ∃ t', (apiRender env fuel src { o with callback := false }).run s = .ok (html, t') ∧ mute t' = mute s' := by
  have h := callback_does_not_influence_rendering env fuel src o true false s s rfl
  rw [hr] at h
  unfold Same at h
  cases hr2 : (apiRender env fuel src { o with callback := false }).run s with
  | error e => rw [hr2] at h; simp only at h
  | ok r =>
    obtain ⟨b, t'⟩ := r
    rw [hr2] at h
    simp only at h
    exact ⟨t', by rw [h.1], h.2.symm⟩

/-- Concrete documents (kernel evaluation): a well-formed document produces no diagnostic; each single fault produces
    exactly its diagnostic; the html is the same with and without a callback. -/
example :
    let env : Env := ⟨fun p _ => if p == "teh".toList then .ok { re := .seq (.chr ⟨[(116,116)], false⟩) (.seq (.chr ⟨[(101,101)], false⟩) (.chr ⟨[(104,104)], false⟩)), ngroups := 0 } else .error⟩
    let run (cb : Bool) (src : String) := match (apiRender env 40 src.toList { callback := cb }).run Session.uninit with
      | .ok (h, s) => (h, s.log) | .error _ => ("ERROR".toList, [])
    ((run true "{m} = 'v'\n\n{m} x\n\n```\ncode\n```\n\n/teh/ = 'the'\n\n.+skip\n\"\"\nq\n\"\"").2 == [] &&
     (run true "```\ncode").2 == ["unterminated code block: ```".toList] &&
     (run true "a {nope} b").2 == ["undefined macro: {nope}: a {nope} b".toList] &&
     (run true "/(/ = 'x'").2 == ["illegal replacement regular expression: /(/='x'".toList] &&
     (run true ".+bogus\npara").2 == ["illegal block option: +bogus".toList] &&
     (run true "|bogus| = '<p>|</p>'").2 == ["illegal delimited block name: bogus: |bogus|='<p>|</p>'".toList] &&
     (run true ".safeMode = 'x'").2 == ["illegal safeMode API option value: x".toList] &&
     (run true "```\ncode\n\n{nope}").1 == (run false "```\ncode\n\n{nope}").1) = true := by
  decide +kernel

end Props.C19
