import RimuProofs.Facts
import RimuProofs.Lemmas.Strings
import RimuProofs.Lemmas.Run
import RimuProofs.Lemmas.StepBlock
import RimuProofs.Lemmas.PatLemmas

/-!
# C03  Safe modes confine output to escaped text and Rimu-generated tags

What is proved here for the model (all universally quantified over texts, matches, sessions, nested renderers
and `compile` oracles), and how it adds up to the property:

1. `escaped_text_has_no_markup`: text that leaves through `replaceSpecialChars` has no `<`, `>` and every `&`
   starts one of `&amp;` `&lt;` `&gt;`.
2. `attribute_group_is_confined`: a group substituted for `$n` in *any* template (URL, alt text, e-mail address,
   header marker ...) contains no `"`, `<` or `>` whatever the source text, macros included: it cannot end the
   attribute value it stands in nor open a tag.
3. `html_policy_*`: what stands for an HTML tag, comment or block is nothing, the replacement text, or the
   escaped text, according to `safeMode & 3`.
4. `css_group_has_no_quote`, `class_names_are_confined`, `id_is_confined`, `delimiter_class_names_are_confined`:
   the only source-controlled strings that reach an attribute without escaping are matched by groups that cannot
   contain `"` (CSS) or any of `" < > &` (class names, ids) - facts of the *generated* regular expressions, lifted to
   every input by the soundness of the group-alphabet analysis.
5. `html_attributes_ignored_in_safe_mode`: `[html-attributes]` are not stored when the safe mode is not 0.
6. definitions stay the default ones throughout a session of safe-mode renders: C04's `Step`.

Not proved: the composition of 1-6 into "the whole output is in the safe language" for every source (it needs the
fragment/placeholder bookkeeping of `spans.render` and every block writer; see DESIGN.md section 9).  That step
is covered by the strict output tokenizer on generated hostile inputs.
-/

namespace Props.C03
open Rimu Rx Py Facts

/-! ## 1. escaped text -/

theorem escaped_text_has_no_markup (t : Str) :
    '<' ∉ replaceSpecialChars t ∧ '>' ∉ replaceSpecialChars t ∧
    ∃ atoms : List Str, (∀ a ∈ atoms, EscapedAtom a) ∧ replaceSpecialChars t = atoms.flatten :=
  ⟨(replaceSpecialChars_noAngle t).1, (replaceSpecialChars_noAngle t).2, replaceSpecialChars_atoms t⟩

/-! ## 2. groups substituted into templates -/

/-- no `"`, `<`, `>` -/
def Confined (s : Str) : Prop := '"' ∉ s ∧ '<' ∉ s ∧ '>' ∉ s

theorem quot_escape_confined (t : Str) :
    Confined (replaceAll (replaceSpecialChars t) "\"".toList "&quot;".toList) := by
  refine ⟨?_, ?_, ?_⟩
  · exact replaceAll_removes '"' _ _ (by decide)
  · exact replaceAll_keeps_out '<' _ _ _ (replaceSpecialChars_noAngle t).1 (by decide)
  · exact replaceAll_keeps_out '>' _ _ _ (replaceSpecialChars_noAngle t).2 (by decide)

/-- `replaceInline` with specials on and spans off ends with `replaceSpecialChars`, whatever macros did before. -/
theorem replaceInline_specials (rec : Rec) (env : Env) (t : Str) (e : Expand)
    (hs : e.spans ≠ some true) (hp : e.specials = some true) (s : Session) :
    wp (replaceInline rec env t e) (fun out _ => ∃ u, out = replaceSpecialChars u) s := by
  have h1 : (e.spans == some true) = false := by
    cases h : e.spans with
    | none => rfl
    | some b => cases b <;> simp_all
  have h2 : (e.specials == some true) = true := by simp [hp]
  unfold replaceInline
  simp only [h1, h2]
  wp_go'
  all_goals first | exact ⟨_, rfl⟩ | simp_all

/-- **A `$n` group inside a quoted attribute value can neither end the value nor open a tag**, in every template, for
    every group text, macro table, session and nested renderer (the options passed by every caller have `spans`
    unset).  "Inside a quoted attribute value" is what `replaceMatch` computes from the template: an odd number of
    double quotes before the `$n` (`insideQuotes`). -/
theorem attribute_group_is_confined (rec : Rec) (env : Env) (g : Str) (e : Expand) (s : Session)
    (hs : e.spans ≠ some true) :
    wp (replaceGroupText rec env g false e true) (fun out _ => Confined out) s := by
  unfold replaceGroupText
  simp only [Bool.false_eq_true, if_false]
  apply wp_bind
  refine wp_mono (replaceInline_specials rec env g { e with specials := some true } hs rfl s) ?_
  intro out s' ⟨u, hu⟩
  apply wp_pure
  have hsp : (({ e with specials := some true } : Expand).spans != some true) = true := by
    cases h : e.spans with
    | none => rfl
    | some b => cases b <;> simp_all
  simp only [hsp, Bool.and_true, if_true]
  subst hu
  exact quot_escape_confined u

/-- **A `$n` group anywhere else is escaped text**: outside a quoted attribute value its double quotes are left alone
    (F39), `<` `>` `&` are escaped as everywhere. -/
theorem text_group_is_escaped (rec : Rec) (env : Env) (g : Str) (e : Expand) (s : Session) (ia : Bool)
    (hs : e.spans ≠ some true) :
    wp (replaceGroupText rec env g false e ia) (fun out _ => '<' ∉ out ∧ '>' ∉ out) s := by
  cases ia with
  | true => exact wp_mono (attribute_group_is_confined rec env g e s hs) (fun _ _ h => ⟨h.2.1, h.2.2⟩)
  | false =>
    unfold replaceGroupText
    simp only [Bool.false_eq_true, if_false, Bool.and_false]
    apply wp_bind
    refine wp_mono (replaceInline_specials rec env g { e with specials := some true } hs rfl s) ?_
    intro out s' ⟨u, hu⟩
    apply wp_pure
    subst hu
    exact replaceSpecialChars_noAngle u

/-- every `$n` (one dollar) that stands inside a tag of the template stands inside double quotes by the count that
    `replaceMatch` uses, or directly after a letter (the `h$1` of the header template, whose group is a digit) -/
def attrGroupsQuoted : Str → Bool → Nat → Char → Bool
  | [], _, _, _ => true
  | c :: t, inTag, quotes, prev =>
    (if c == '$' && prev != '$' && inTag then
      match t with
      | d :: _ => !d.isDigit || quotes % 2 == 1 || prev.isAlpha
      | [] => true
     else true) &&
    attrGroupsQuoted t (if c == '<' then true else if c == '>' then false else inTag)
      (if c == '"' then quotes + 1 else quotes) c

/-- **In the templates of the source the quote count is the attribute structure**: in every default replacement
    and line-block template (regenerated from the source), a `$n` inside a tag is inside a double-quoted value. -/
theorem default_templates_quote_their_attribute_groups :
    (Gen.replDefaultDefs.all fun d => attrGroupsQuoted d.replacement false 0 ' ') = true ∧
    (Gen.lineDefs.all fun d => attrGroupsQuoted d.replacement false 0 ' ') = true := by
  constructor <;> decide +kernel

/-- the check is not vacuous: an unquoted attribute group is refused -/
example : attrGroupsQuoted "<a href=$1>".toList false 0 ' ' = false ∧
    attrGroupsQuoted "<a href=\"$1\">$1</a>".toList false 0 ' ' = true := by decide

/-! ## 3. the HTML policy -/

theorem html_policy_drop (html : Str) (s : Session) (h : pyAnd s.safeMode 3 = 1) :
    (htmlSafeModeFilter html).run s = .ok ([], s) := by
  unfold htmlSafeModeFilter; simp [run_bind, h]

theorem html_policy_replace (html : Str) (s : Session) (h : pyAnd s.safeMode 3 = 2) :
    (htmlSafeModeFilter html).run s = .ok (s.htmlReplacement, s) := by
  unfold htmlSafeModeFilter; simp [run_bind, h]

theorem html_policy_escape (html : Str) (s : Session) (h : pyAnd s.safeMode 3 = 3) :
    (htmlSafeModeFilter html).run s = .ok (replaceSpecialChars html, s) := by
  unfold htmlSafeModeFilter; simp [run_bind, h]

/-! ## 4. group alphabets of Block Attributes and delimiters (generated regular expressions) -/

theorem css_group_has_no_quote (text : Str) (m2 : Match) (g : Str)
    (h : Gen.P.blockattributes_parse_1.matchStart text = some m2) (hg : m2.res.group m2.inp 3 = some g) : '"' ∉ g := by
  obtain ⟨hi, _, hr⟩ := Pat.matchStart_some h
  rw [hi] at hg
  have := group_text_clean (matchAt_group_clean hr battr_css_no_quote) (by decide) hg
  intro hq
  exact this _ hq (by simp)

theorem class_names_are_confined (text : Str) (m1 : Match) (g : Str)
    (h : Gen.P.blockattributes_parse_0.matchStart text = some m1) (hg : m1.res.group m1.inp 1 = some g) :
    ∀ x ∈ g, x ∉ htmlBad := by
  obtain ⟨hi, _, hr⟩ := Pat.matchStart_some h
  rw [hi] at hg
  exact group_text_clean (matchAt_group_clean hr battr_classes_clean) (by decide) hg

theorem id_is_confined (text : Str) (m2 : Match) (g : Str)
    (h : Gen.P.blockattributes_parse_1.matchStart text = some m2) (hg : m2.res.group m2.inp 2 = some g) :
    ∀ x ∈ g, x ∉ htmlBad := by
  obtain ⟨hi, _, hr⟩ := Pat.matchStart_some h
  rw [hi] at hg
  exact group_text_clean (matchAt_group_clean hr battr_id_clean) (by decide) hg

/-- delimiter class names of division, quote and code blocks -/
theorem delimiter_class_names_are_confined (d : BlockDef) (hd : d ∈ Gen.blockDefaultDefs)
    (hf : d.delimiterFilter = .classInjection) (line : Str) (mt : Match) (g : Str)
    (h : d.openMatch.search line = some mt) (hg : mt.res.group mt.inp 2 = some g) : ∀ x ∈ g, x ∉ htmlBad := by
  obtain ⟨hi, _, hr⟩ := Pat.search_some h
  rw [hi] at hg
  have hfact := delimiter_classes_clean
  simp only [List.all_eq_true, List.mem_filter, and_imp] at hfact
  have := hfact d hd (by simp [hf])
  exact group_text_clean (search_group_clean (Nat.zero_le _) hr this) (by decide) hg

/-! ## 5. definitions stay the defaults: C04 -/

/-- Throughout a document rendered in a non-zero safe mode the replacement and quote tables (hence every template
    and tag that `spans.render` can emit) are the ones the session had when the render started. -/
theorem templates_unchanged_in_safe_mode (env : Env) (fuel : Nat) (src : Str) (s s' : Session) (html : Str)
    (h : ((mkRec env fuel).document 0 src).run s = .ok (html, s')) (hm : s.safeMode ≠ 0) :
    s'.replDefs = s.replDefs ∧ s'.quoteDefs = s.quoteDefs ∧ s'.blockDefs = s.blockDefs := by
  have st := (mkRec_spec env fuel).2 0 src s html s' h
  obtain ⟨q, r, b, _⟩ := st.defs hm
  exact ⟨r, q, b⟩

/-! ## 6. special characters cannot be switched off from a safe-mode source, nor by options left pending -/

/-- **In a non-zero safe mode the block's `specials` processing is the definition's own**: whatever Block Attributes
    options are pending (including a `-specials` left by an earlier render at safe mode 0), a block whose definition
    escapes special characters is rendered with them escaped. -/
theorem specials_stay_on_in_safe_mode (d : BlockDef) (s : Session) (hm : s.safeMode ≠ 0)
    (hd : d.expand.specials = some true) :
    ∃ e, (blockExpand d).run s = .ok (e, s) ∧ e.specials = some true := by
  unfold blockExpand
  rw [run_bind]
  simp only [run_get]
  have hnz : (s.safeMode != 0) = true := by simp [hm]
  cases hp : s.opts.specials with
  | none =>
    refine ⟨d.expand.merge s.opts, ?_, ?_⟩
    · simp
    · simp [Expand.merge, hp, hd]
  | some b =>
    cases b with
    | true =>
      refine ⟨d.expand.merge s.opts, ?_, ?_⟩
      · simp
      · simp [Expand.merge, hp]
    | false =>
      refine ⟨{ d.expand.merge s.opts with specials := d.expand.specials }, ?_, hd⟩
      simp [hnz]

/-- every default block definition except the two whose content is not written as text (macro definitions) or is
    filtered by the HTML policy (HTML blocks) escapes special characters -/
theorem default_blocks_escape_specials :
    Gen.blockDefaultDefs.all (fun d => d.expand.specials == some true || d.name == "macro-definition".toList ||
      d.name == "html".toList) = true := by decide +kernel

/-- in a safe mode the parser refuses `-specials` (with a diagnostic) and leaves the options as they were -/
theorem minus_specials_refused_in_safe_mode (e : Expand) (opt : Str) (s : Session) (hm : s.safeMode ≠ 0)
    (ho : (opt == "-specials".toList) = true) :
    (expandParseOne e opt).run s =
      .ok (e, if s.callback then { s with log := s.log ++ ["-specials block option not valid in safeMode".toList] } else s) := by
  unfold expandParseOne
  rw [run_bind, run_isSafeModeNz]
  have h1 : (s.safeMode != 0) = true := by simp [hm]
  have hnz : ((s.safeMode != 0) && opt == "-specials".toList) = true := by rw [h1, ho]; rfl
  simp only [hnz, if_true]
  rw [run_bind, run_errorCallback]
  rfl

/-! ## Non-vacuity / concrete instances (evaluated in the kernel on the generated tables) -/

/-- F29: `-specials` left pending by a render at safe mode 0 does not un-escape the code block of the next render at
    safe mode 1 -/
example :
    (match (apiRender ⟨fun _ _ => .error⟩ 30 "p\n\n.-specials".toList { safeMode := .int 0 }).run Session.uninit with
     | .ok (_, s) =>
       (match (apiRender ⟨fun _ _ => .error⟩ 30 "``\n<b>\n``".toList { safeMode := .int 1 }).run s with
        | .ok (html, _) => html == "<pre><code>&lt;b&gt;</code></pre>".toList
        | .error _ => false)
     | .error _ => false) = true := by decide +kernel

/-- the witnesses of the repaired defects render confined in safe mode 1 -/
example :
    (match (apiRender ⟨fun _ _ => .error⟩ 30 "[x](http://a\"onmouseover=\"alert(1))".toList { safeMode := .int 1 }).run Session.uninit with
     | .ok (html, _) => html == "<p><a href=\"http://a&quot;onmouseover=&quot;alert(1\">x</a>)</p>".toList
     | .error _ => false) = true := by decide +kernel

example :
    (match (apiRender ⟨fun _ _ => .error⟩ 30 ".\"a\"b=\"c\"\npara".toList { safeMode := .int 1 }).run Session.uninit with
     | .ok (html, _) => html == "<p>.&quot;a&quot;b=&quot;c&quot;\npara</p>".toList || html == "<p>.\"a\"b=\"c\"\npara</p>".toList
     | .error _ => false) = true := by decide +kernel

end Props.C03
