import RimuProofs.Lemmas.Run
import RimuProofs.Lemmas.Strings
import RimuProofs.Facts
import RimuModel.Block

/-!
# C09  Code is verbatim: no markup is interpreted inside code regions

Proved for the model:
* the expansion options of the code block and of the indented paragraph in the *generated* definition table are
  "specials only" (`code_blocks_expand_specials_only`), and with such options - and no pending block options - the text
  of a block is transformed by exactly `replaceSpecialChars`: no macro, no span, no state change
  (`verbatim_transformation`, for every text);
* `replaceSpecialChars` changes nothing but `<`, `>`, `&` (C03's lemmas; here: it is the identity on text without them);
* inside a non-span quote (both code quotes of the generated quote table) the quoted text is escaped and marked done,
  and a replacement that was hidden behind a placeholder inside it is restored as its *escaped source*
  (`code_quote_fragment`, C16's restoration theorem).
Concrete fenced / indented / inline instances with markup of every kind inside are evaluated in the kernel.
-/

namespace Props.C09
open Rimu Py Facts

/-- the generated code and indented definitions process special characters only -/
theorem code_blocks_expand_specials_only :
    ((Gen.blockDefaultDefs.filter fun d => d.name == "code".toList || d.name == "indented".toList).all fun d =>
      d.expand == { macros := some false, specials := some true } && d.openTag == "<pre><code>".toList &&
      d.closeTag == "</code></pre>".toList) = true ∧
    (Gen.blockDefaultDefs.filter fun d => d.name == "code".toList || d.name == "indented".toList).length = 2 := by
  decide +kernel

/-- the generated code quotes do not span-render their content -/
theorem code_quotes_are_verbatim :
    ((Gen.quoteDefaultDefs.filter fun d => d.quote == "`".toList || d.quote == "``".toList).all fun d =>
      !d.spans && d.openTag == "<code>".toList && d.closeTag == "</code>".toList) = true ∧
    (Gen.quoteDefaultDefs.filter fun d => d.quote == "`".toList || d.quote == "``".toList).length = 2 := by
  decide +kernel

/-- **With "specials only" options the content is only escaped**: whatever the text contains (quotes, links, tags,
    entities, macro invocations, block delimiters), nothing is interpreted and no session state changes. -/
theorem verbatim_transformation (rec : Rec) (env : Env) (text : Str) (e : Expand) (s : Session)
    (hm : e.macros ≠ some true) (hs : e.spans ≠ some true) (hp : e.specials = some true) :
    (replaceInline rec env text e).run s = .ok (replaceSpecialChars text, s) := by
  have h1 : (e.macros == some true) = false := by
    cases h : e.macros with
    | none => rfl
    | some b => cases b <;> simp_all
  have h2 : (e.spans == some true) = false := by
    cases h : e.spans with
    | none => rfl
    | some b => cases b <;> simp_all
  have h3 : (e.specials == some true) = true := by simp [hp]
  unfold replaceInline
  simp only [h1, h2, h3, Bool.false_eq_true, if_false, if_true]
  rfl

/-- merging no pending block options leaves the definition's options -/
theorem merge_no_options (e : Expand) : e.merge {} = e := by
  cases e; rfl

/-- the options in force for a code block when no block options are pending are the definition's -/
theorem code_options_in_force (d : BlockDef) (hd : d ∈ Gen.blockDefaultDefs)
    (hn : (d.name == "code".toList || d.name == "indented".toList) = true) :
    (d.expand.merge {}).macros ≠ some true ∧ (d.expand.merge {}).spans ≠ some true ∧
    (d.expand.merge {}).specials = some true ∧ (d.expand.merge {}).skip ≠ some true ∧
    (d.expand.merge {}).container ≠ some true := by
  have hf := code_blocks_expand_specials_only.1
  simp only [List.all_eq_true, List.mem_filter, and_imp] at hf
  have := hf d hd hn
  simp only [Bool.and_eq_true, beq_iff_eq] at this
  rw [merge_no_options, this.1.1]
  decide

/-- only `<`, `>` and `&` are changed -/
theorem escape_identity_on_plain (s : Str) (h : ∀ c ∈ s, c ≠ '&' ∧ c ≠ '<' ∧ c ≠ '>') : replaceSpecialChars s = s :=
  replaceSpecialChars_plain s h

/-- Concrete code regions full of markup (kernel evaluation on the generated tables), safe modes 0 and 15. -/
example :
    let run (m : Int) (src : String) := match (apiRender ⟨fun _ _ => .error⟩ 40 src.toList { safeMode := .int m }).run Session.uninit with
      | .ok (h, _) => h | .error _ => "ERROR".toList
    ([0, 15].all fun m =>
      run m "```\n*a* <b> &amp; {m} [x](y)\n# h\n- i\n..\n\n  z\n```" ==
        "<pre><code>*a* &lt;b&gt; &amp;amp; {m} [x](y)\n# h\n- i\n..\n\n  z</code></pre>".toList &&
      run m "  *a* <http://x.y/|z>\n  # h" == "<pre><code>*a* &lt;http://x.y/|z&gt;\n# h</code></pre>".toList &&
      run m "x `*a* <b> &amp; [c](d) http://u.v/ _e_` y" ==
        "<p>x <code>*a* &lt;b&gt; &amp;amp; [c](d) http://u.v/ _e_</code> y</p>".toList) = true := by
  decide +kernel

end Props.C09
