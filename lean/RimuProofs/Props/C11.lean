import RimuProofs.Lemmas.Run
import RimuProofs.Lemmas.StepBlock

/-!
# C11  Macro invocation equals textual substitution of the defined value

The macro table (`macros.setValue` / `getValue`) and the invocation cases of `macros.render`, as equations of the
model; the substitution itself is `Pat.subM` over the two invocation patterns.
-/

namespace Props.C11
open Rimu Py

/-- **Definitions are ignored where macro definitions are not allowed** (non-zero safe mode without bit 8). -/
theorem setValue_skipped (name value : Str) (s : Session)
    (h : (s.safeMode != 0 && pyAnd s.safeMode 8 == 0) = true) :
    (macrosSetValue name value).run s = .ok ((), s) := by
  unfold macrosSetValue
  rw [run_bind, run_skipMacroDefs]
  simp only [h, if_true, run_pure]

/-- **The blank macro stays blank**: redefining `--` to a non-blank value changes nothing and is reported. -/
theorem blank_macro_stays_blank (value : Str) (s : Session) (hv : value ≠ [])
    (h : (s.safeMode != 0 && pyAnd s.safeMode 8 == 0) = false) :
    (macrosSetValue "--".toList value).run s =
      (errorCallback "the predefined blank '--' macro cannot be redefined".toList).run s := by
  have e1 : endsWith "--".toList "?".toList = false := by decide
  have e2 : ("--".toList == "--".toList) = true := by decide
  have e3 : (value != []) = true := by simpa using hv
  unfold macrosSetValue
  rw [run_bind, run_skipMacroDefs]
  simp only [h, Bool.false_eq_true, if_false, e1, e2, e3, Bool.and_self, if_true]
  rw [run_bind]
  cases (errorCallback "the predefined blank '--' macro cannot be redefined".toList).run s with
  | error e => rfl
  | ok r => rfl

/-- **A later definition replaces the value; an existential definition never overrides an existing value**: the
    table after `setValue` on a name that is already defined. -/
theorem setValue_existing (name value : Str) (s : Session)
    (h : (s.safeMode != 0 && pyAnd s.safeMode 8 == 0) = false)
    (hq : endsWith name "?".toList = false) (hb : (name == "--".toList && value != []) = false)
    (hex : (s.macroDefs.any fun d => d.name == name) = true) :
    (macrosSetValue name value).run s = .ok ((), { s with macroDefs := macrosSetValue.updFirst value s.macroDefs name }) := by
  unfold macrosSetValue
  rw [run_bind, run_skipMacroDefs]
  simp only [h, Bool.false_eq_true, if_false, hq, hb]
  rw [run_bind, run_get]
  simp only [hex, if_true, Bool.not_false]
  rfl

theorem setValue_existential_keeps (name value : Str) (s : Session)
    (h : (s.safeMode != 0 && pyAnd s.safeMode 8 == 0) = false)
    (hq : endsWith name "?".toList = true) (hb : (name.dropLast == "--".toList && value != []) = false)
    (hex : (s.macroDefs.any fun d => d.name == name.dropLast) = true) :
    (macrosSetValue name value).run s = .ok ((), s) := by
  unfold macrosSetValue
  rw [run_bind, run_skipMacroDefs]
  simp only [h, Bool.false_eq_true, if_false, hq, if_true, hb]
  rw [run_bind, run_get]
  simp only [hex, if_true, Bool.not_true, Bool.false_eq_true, if_false]
  rfl

/-- a new name is appended with its value -/
theorem setValue_new (name value : Str) (s : Session)
    (h : (s.safeMode != 0 && pyAnd s.safeMode 8 == 0) = false)
    (hq : endsWith name "?".toList = false) (hb : (name == "--".toList && value != []) = false)
    (hex : (s.macroDefs.any fun d => d.name == name) = false) :
    (macrosSetValue name value).run s = .ok ((), { s with macroDefs := s.macroDefs ++ [{ name := name, value := value }] }) := by
  unfold macrosSetValue
  rw [run_bind, run_skipMacroDefs]
  simp only [h, Bool.false_eq_true, if_false, hq, hb]
  rw [run_bind, run_get]
  simp only [hex, Bool.false_eq_true, if_false]
  rfl

/-- `updFirst` replaces the value of the first definition with that name and nothing else -/
theorem updFirst_lookup (value : Str) : ∀ (defs : List MacroDef) (name : Str),
    (defs.any fun d => d.name == name) = true →
    ((macrosSetValue.updFirst value defs name).find? (·.name == name)).map (·.value) = some value := by
  intro defs
  induction defs with
  | nil => intro name h; simp at h
  | cons d rest ih =>
    intro name h
    unfold macrosSetValue.updFirst
    by_cases hd : (d.name == name) = true
    · simp [hd]
    · simp only [hd, Bool.false_eq_true, if_false, List.find?_cons]
      simp only [List.any_cons, hd, Bool.false_or] at h
      exact ih name h

/-! ## invocation cases of `macros.render` -/

/-- **An escaped invocation is left as written**, without the backslash; in the silent pass of a line macro, whose
    result is read and rendered again, with the backslash still in place (F40: it is that second rendering which
    leaves it as written). -/
theorem escaped_invocation (rec : Rec) (env : Env) (text : Str) (silent simple : Bool) (mt : Match) (body : Str)
    (s : Session) (h : mt.whole = '\\' :: body) :
    (macroRepl rec env text silent simple mt).run s = .ok (if silent then '\\' :: body else body, s) := by
  have hsw : startsWith ('\\' :: body) "\\".toList = true := by
    show ('\\' == '\\' && startsWith body []) = true
    cases body <;> rfl
  unfold macroRepl
  simp only [h, hsw, if_true]
  cases silent <;> rfl

/-- **A simple invocation of a defined macro is replaced by its value**; **an undefined one is left as written,
    with a diagnostic** unless the pass is silent. -/
theorem simple_invocation (rec : Rec) (env : Env) (text : Str) (silent : Bool) (mt : Match) (name : Str) (s : Session)
    (hesc : startsWith mt.whole "\\".toList = false)
    (h2 : (mt.str 2).run s = .ok ([], s)) (h1 : (mt.str 1).run s = .ok (name, s)) :
    (macroRepl rec env text silent true mt).run s =
      match (s.macroDefs.find? (·.name == name)).map (·.value) with
      | some v => .ok (v, s)
      | none =>
        if silent then .ok (mt.whole, s)
        else .ok (mt.whole, if s.callback then { s with log := s.log ++ ["undefined macro: ".toList ++ mt.whole ++ ": ".toList ++ text] } else s) := by
  have hq : startsWith ([] : Str) "?".toList = false := by decide
  unfold macroRepl
  simp only [hesc, Bool.false_eq_true, if_false]
  rw [run_bind, h2]
  simp only [hq, Bool.false_eq_true, if_false]
  rw [run_bind, h1]
  simp only []
  rw [run_bind, run_macrosGetValue]
  cases hv : (s.macroDefs.find? (·.name == name)).map (·.value) with
  | some v => simp only [if_true]; rfl
  | none =>
    simp only []
    cases silent
    · simp only [Bool.not_false, if_true]
      rw [run_bind, run_errorCallback]
      rfl
    · rfl

/-- Concrete documents (kernel evaluation): parameters, defaults, `$$n`, existential definition, the blank macro,
    inclusion / exclusion with full-string match, undefined and escaped invocations. -/
example :
    (match (apiRender ⟨fun p _ => if p == "^.*$".toList then .ok { re := .seq .bol (.seq (.rep (.chr ⟨[(10,10)], true⟩) 0 none true) .eol), ngroups := 0 } else .error⟩ 40
        "{m} = '$1:dflt$ and $$2'\n{m?} = 'ignored'\n{--} = 'x'\n\nA {m|a|*b*} B {m||c} {--} \\{m} {u}".toList { callback := true }).run Session.uninit with
     | .ok (html, s) =>
       html == "<p>A a and <em>b</em> B dflt and c  {m} {u}</p>".toList && s.log.length == 2
     | .error _ => false) = true := by decide +kernel

end Props.C11
