import RimuProofs.Props.C20

/-!
# C14  Rendering a document in parts equals rendering it whole

What is proved: the API layer adds nothing between calls.  A `render` call without options on an initialised
session is exactly `document.render` on the session state the previous call left (only the callback registration
is dropped), so definitions, options, allocated ids and pending Block Attributes carry across calls exactly as
they carry across blocks inside `document.render`.  What is *not* proved is the sequencing property of
`document.render` itself (C08: the blocks of `A`, blank lines, `B` are rendered as `A` then `B`); it is checked on
generated pairs and triples of complete documents.
-/

namespace Props.C14
open Rimu Props.C04 Props.C20

/-- **A call without options is `document.render` on the carried-over state.** -/
theorem render_without_options (env : Env) (fuel : Nat) (src : Str) (s : Session) (h : s.safeMode ≠ -1) :
    (apiRender env fuel src {}).run s =
      ((mkRec env fuel).document 0 src).run s := by
  rw [apiRender_eq, run_bind, apiPrefix_run]
  have : (s.safeMode == -1) = false := by simpa using h
  simp only [this, Bool.false_eq_true, if_false, updateFrom_none]

/-- **Everything carries across calls**: the second of two successive calls starts from exactly the state the
    first one ended in (all definition tables, options, ids, pending attributes and block options), for every
    first call that succeeded. -/
theorem state_carries_across_calls (env : Env) (fuel : Nat) (a b : Str) (o : RenderOptions) (s s₁ : Session) (h₁ : Str)
    (hr : (apiRender env fuel a o).run s = .ok (h₁, s₁)) (hinit : s.safeMode = -1 ∨ ModeOk s) :
    (apiRender env fuel b {}).run s₁ =
      ((mkRec env fuel).document 0 b).run s₁ := by
  have hm := apiRender_modeOk env fuel a o s s₁ h₁ hinit hr
  exact render_without_options env fuel b s₁ (by unfold ModeOk at hm; omega)

/-- Concrete pair (kernel evaluation): a definition, a pending attribute and an id allocated by the first call are
    seen by the second exactly as inside one document. -/
example :
    (match (apiRender ⟨fun _ _ => .error⟩ 40 "{m} = 'M'\n\n# a\n\n.cls".toList {}).run Session.uninit with
     | .ok (h1, s1) =>
       (match (apiRender ⟨fun _ _ => .error⟩ 40 "{m} text\n\n.#a\nnext".toList { callback := true }).run s1,
              (apiRender ⟨fun _ _ => .error⟩ 40 "{m} = 'M'\n\n# a\n\n.cls\n\n{m} text\n\n.#a\nnext".toList {}).run Session.uninit with
        | .ok (h2, _), .ok (h, _) => (h1 ++ h2 == h) && h2 == "<p class=\"cls\">M text</p>\n<p id=\"a\">next</p>".toList
        | _, _ => false)
     | .error _ => false) = true := by decide +kernel

end Props.C14
