import RimuProofs.Props.C03

/-!
# C13  The three HTML policies differ only at the HTML elements

The policy (`safeMode & 3`) is read in exactly one model function, `htmlSafeModeFilter`, which is applied to the
text of an inline tag or comment (the `html` replacement filter) and to the expanded text of an HTML block.
Proved: what it returns under each policy, and that what an inline HTML element becomes is that value whatever the
definition's template is.  Not proved: that the rest of the rendering is independent of the policy bits (a relational
statement about two runs); that is the alignment check on generated sources.
-/

namespace Props.C13
open Rimu Py Props.C03

/-- **What stands at an HTML element**: nothing, one copy of the replacement text, or its text with special
    characters escaped (and the text itself when no policy is selected). -/
theorem policy_cases (html : Str) (s : Session) :
    (htmlSafeModeFilter html).run s = .ok (
      (if pyAnd s.safeMode 3 = 0 then html
       else if pyAnd s.safeMode 3 = 1 then []
       else if pyAnd s.safeMode 3 = 2 then s.htmlReplacement
       else if pyAnd s.safeMode 3 = 3 then replaceSpecialChars html
       else []), s) := by
  unfold htmlSafeModeFilter
  rw [run_bind, run_get]
  simp only [beq_iff_eq]
  split <;> (try split) <;> (try split) <;> (try split) <;> rfl

/-- the policy value is in 0..3 whatever the safe mode -/
theorem policy_range (n : Int) (h : 0 ≤ n) : pyAnd n 3 ≤ 3 := by
  unfold pyAnd
  simp only [h, ge_iff_le, if_true]
  exact Nat.and_le_right

/-- **An unescaped inline HTML tag or comment becomes the policy value of its own text**, whatever replacement
    template the definition carries; the session is unchanged. -/
theorem inline_html_element (rec : Rec) (env : Env) (rdef : ReplDef) (mt : Match) (g : Str) (s : Session)
    (hf : rdef.filter = .html) (hesc : startsWith mt.whole "\\".toList = false)
    (hg : (mt.str 1 "htmlSafeModeFilter(match[1])").run s = .ok (g, s)) :
    (replacementText rec env rdef mt).run s = (htmlSafeModeFilter g).run s := by
  unfold replacementText
  simp only [hesc, Bool.false_eq_true, if_false, hf]
  rw [run_bind, hg]

/-- Concrete triple (kernel evaluation): drop / replace / escape outputs of one source with an inline tag, a comment
    and an HTML block differ exactly at those elements. -/
example :
    let src := "a <b>b</b> c <!-- x -->\n\n<div>\nraw\n</div>\n\n*after*".toList
    let run (m : Int) := match (apiRender ⟨fun _ _ => .error⟩ 40 src { safeMode := .int m, htmlReplacement := .str "@".toList }).run Session.uninit with
      | .ok (h, _) => h | .error _ => []
    (run 1 == "<p>a b c </p>\n<p><em>after</em></p>".toList &&
     run 2 == "<p>a @b@ c @</p>\n@\n<p><em>after</em></p>".toList &&
     run 3 == "<p>a &lt;b&gt;b&lt;/b&gt; c &lt;!-- x --&gt;</p>\n&lt;div&gt;\nraw\n&lt;/div&gt;\n<p><em>after</em></p>".toList) = true := by
  decide +kernel

end Props.C13
