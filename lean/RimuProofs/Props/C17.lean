import RimuProofs.Lemmas.Run
import RimuProofs.Lemmas.StepBlock

/-!
# C17  A leading backslash makes markup literal

Line level.  Whatever the rule and whatever the line: when the first rule that matches the cursor line matches it
with its leading backslash, the rule's filter is **not** run, no session state changes, nothing is written, and
the reader is left on the same line without the backslash and marked escaped; from then on no line rule, no list
rule and no delimited-block rule other than the paragraph accepts that line.  So the element's line-level effect
(definition, option, header, list, delimiter, comment, Block Attributes) cannot happen, and the line is rendered
as paragraph text.

Inline level: `spans_escaped_replacement` - an escaped match of a replacement definition becomes the escaped literal
text of the match without the backslash, marked done (never re-scanned).
-/

namespace Props.C17
open Rimu Py

/-- the reader after `reader.unescape()` on a line `'\\' :: rest` -/
def unescaped (r : Reader) (cur : Str) (t : List Str) : Reader :=
  { r with rest := cur.drop 1 :: t, escaped := some r.pos }

theorem run_cursor (r : Reader) (cur : Str) (t : List Str) (h : r.rest = cur :: t) (s : Session) :
    r.cursor.run s = .ok (cur, s) := by
  unfold Reader.cursor; rw [h]; rfl

theorem run_unescape (r : Reader) (cur : Str) (t : List Str) (h : r.rest = cur :: t) (s : Session) :
    r.unescape.run s = .ok (unescaped r cur t, s) := by
  unfold Reader.unescape Reader.cursor Reader.setCursor unescaped
  rw [h]
  rfl

/-- **An escaped line-level element has no effect** (line rules: comments, macro lines, definitions of every kind,
    headers, block images and anchors, Block Attributes, API options). -/
theorem escaped_line_rule_has_no_effect (rec : Rec) (env : Env) (allowed : List Str) (d : LineDef) (rest : List LineDef)
    (r : Reader) (w : Writer) (cur : Str) (t : List Str) (mt : Match) (body : Str) (s : Session)
    (hr : r.rest = cur :: t)
    (hallowed : (!allowed.isEmpty && !allowed.contains d.name) = false)
    (hm : d.pat.search cur = some mt) (hesc : mt.whole = '\\' :: body) :
    (lineblocksGo rec env allowed (d :: rest) r w).run s = .ok ((false, unescaped r cur t, w), s) := by
  unfold lineblocksGo
  simp only [hallowed, Bool.false_eq_true, if_false]
  rw [run_bind, run_cursor r cur t hr]
  simp only [hm, hesc]
  simp only [beq_self_eq_true, if_true]
  rw [run_bind, run_unescape r cur t hr]
  rfl

/-- a rule that is not allowed or does not match the line is passed over -/
theorem line_rule_skipped (rec : Rec) (env : Env) (allowed : List Str) (d : LineDef) (rest : List LineDef)
    (r : Reader) (w : Writer) (cur : Str) (t : List Str) (s : Session) (hr : r.rest = cur :: t)
    (h : (!allowed.isEmpty && !allowed.contains d.name) = true ∨ d.pat.search cur = none) :
    (lineblocksGo rec env allowed (d :: rest) r w).run s = (lineblocksGo rec env allowed rest r w).run s := by
  conv => lhs; unfold lineblocksGo
  by_cases ha : (!allowed.isEmpty && !allowed.contains d.name) = true
  · simp only [ha, if_true]
  · have hs : d.pat.search cur = none := by
      rcases h with h | h
      · exact absurd h ha
      · exact h
    have ha' : (!allowed.isEmpty && !allowed.contains d.name) = false := by simpa using ha
    simp only [ha', Bool.false_eq_true, if_false]
    rw [run_bind, run_cursor r cur t hr]
    simp only [hs]

/-- **Once escaped, the line is not a line-level element any more**: no line rule is tried on it ... -/
theorem escaped_line_not_a_line_block (rec : Rec) (env : Env) (r : Reader) (w : Writer) (allowed : List Str) (s : Session)
    (hne : r.eof = false) (he : r.isEscaped = true) :
    (lineblocksRender rec env r w allowed).run s = .ok ((false, r, w), s) := by
  unfold lineblocksRender
  simp only [hne, he, Bool.false_eq_true, if_false, if_true]
  rfl

/-- ... it is not a list item ... -/
theorem escaped_line_not_a_list_item (r : Reader) (s : Session) (he : r.isEscaped = true) :
    (matchItem r).run s = .ok ((none, r), s) := by
  unfold matchItem
  by_cases hne : r.eof = true
  · simp only [hne, if_true]; rfl
  · simp only [hne, he, if_true]; rfl

/-- ... and every delimited-block rule except the paragraph passes it over. -/
theorem escaped_line_only_paragraph (rec : Rec) (env : Env) (allowed : List Str) (d : BlockDef) (rest : List BlockDef)
    (r : Reader) (w : Writer) (s : Session) (he : r.isEscaped = true) (hp : (d.name == "paragraph".toList) = false) :
    (delimitedGo rec env allowed (d :: rest) r w).run s = (delimitedGo rec env allowed rest r w).run s := by
  conv => lhs; unfold delimitedGo
  by_cases ha : (!allowed.isEmpty && !allowed.contains d.name) = true
  · simp only [ha, if_true]
  · have ha' : (!allowed.isEmpty && !allowed.contains d.name) = false := by simpa using ha
    simp only [ha', hp, he, Bool.false_eq_true, if_false, Bool.not_false, Bool.and_self, if_true]

/-- **An escaped block delimiter has no effect**: a delimited-block rule other than the paragraph that matches the
    line with its backslash only removes the backslash (the line is then left to the paragraph rule, by the
    lemma above). -/
theorem escaped_delimiter_has_no_effect (rec : Rec) (env : Env) (allowed : List Str) (d : BlockDef) (rest : List BlockDef)
    (r : Reader) (w : Writer) (cur : Str) (t : List Str) (mt : Match) (body : Str) (s : Session)
    (hr : r.rest = cur :: t) (hne : r.isEscaped = false)
    (hallowed : (!allowed.isEmpty && !allowed.contains d.name) = false)
    (hp : (d.name == "paragraph".toList) = false)
    (hm : d.openMatch.search cur = some mt) (hesc : mt.whole = '\\' :: body) :
    (delimitedGo rec env allowed (d :: rest) r w).run s =
      (delimitedGo rec env allowed rest (unescaped r cur t) w).run s := by
  conv => lhs; unfold delimitedGo
  simp only [hallowed, hp, hne, Bool.false_eq_true, if_false, Bool.and_false, Bool.false_and]
  rw [run_bind, run_cursor r cur t hr]
  simp only [hm, hesc]
  simp only [beq_self_eq_true, Bool.not_false, Bool.and_self, if_true]
  rw [run_bind, run_unescape r cur t hr]

/-- **Inline: an escaped match of any replacement definition is its literal text** (without the backslash, special
    characters escaped), whatever the definition's template or filter is, and no state changes. -/
theorem spans_escaped_replacement (rec : Rec) (env : Env) (rdef : ReplDef) (mt : Match) (body : Str) (s : Session)
    (hesc : mt.whole = '\\' :: body) :
    (replacementText rec env rdef mt).run s = .ok (replaceSpecialChars body, s) := by
  unfold replacementText
  have hsw : startsWith ('\\' :: body) "\\".toList = true := by
    show ('\\' == '\\' && startsWith body []) = true
    cases body <;> rfl
  simp only [hesc, hsw, if_true]
  rfl

/-- Concrete instances for every kind of line-level element (kernel evaluation on the generated rule tables):
    the escaped element renders as a paragraph of its literal text and the session tables are untouched. -/
example :
    (["\\# Header", "\\- item", "\\.. item", "\\term:: def", "\\..", "\\\"\"", "\\>>", "\\``", "\\// comment", "\\/*", "\\.cls",
      "\\{m9} = 'v'", "\\/teh/ = 'the'", "\\|code| = '+skip'", "\\~ = 'a|b'", "\\.safeMode = '1'", "\\<image:u>", "\\<<#a1>>"].all fun src =>
      match (apiRender ⟨fun _ _ => .error⟩ 30 src.toList {}).run Session.uninit with
      | .ok (html, s) =>
        html == "<p>".toList ++ replaceSpecialChars (src.toList.drop 1) ++ "</p>".toList &&
        s.safeMode == 0 && s.macroDefs.length == 2 && s.quoteDefs.length == 7 && s.replDefs.length == 16 && s.classes == []
      | .error _ => false) = true := by decide +kernel

end Props.C17
