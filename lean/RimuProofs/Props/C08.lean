import RimuProofs.Lemmas.Run
import RimuProofs.Props.C12
import RimuProofs.Props.C09
import RimuProofs.Facts
import RimuProofs.Lemmas.RelBlock

/-!
# C08  Blocks render independently, in order, each to its own element

Proved for the model:
* **locality of block content**: reading a block up to its closing delimiter does not depend on the lines after
  the delimiter - they are carried along untouched (`readTo_is_local`), and skipping blank lines likewise
  (`skipBlankLines_is_local`);
* **no state leaks from a block except what the property exempts**: every delimited-block step ends with the block
  options cleared (C12 `block_options_cleared`) and, if it wrote a tag, with no Block Attributes pending
  (C12 `inject_consumes`); definitions and options change only through definition / option elements (C04);
* **kind to element**: the generated definition table maps paragraph, fenced code, indented, quote, division,
  quote paragraph to `p`, `pre/code`, `pre/code`, `blockquote`, `div`, `blockquote/p`, comments and macro
  definitions to nothing, and headers to `h` + marker length (`block_elements`, `header_level_is_marker_length`).
Not proved: the sequencing theorem (the rendering of `A`, blank lines, `B` is the rendering of `A` followed by that of
`B` from the state `A` left) for arbitrary blocks - lists are the laborious case; decided by the block-grammar
oracle (document output = concatenation of its blocks rendered alone, containers = tag pair around their content).
-/

namespace Props.C08
open Rimu Py

/-- **The lines after the closing delimiter do not influence the block's content**: with no match among `pre` and a
    match on `m`, `readTo` returns `pre` (plus the delimiter's group) and leaves the reader on `m` followed by
    exactly the untouched `post`. -/
theorem readTo_is_local (r : Reader) (p : Pat) (hg : p.ngroups = 0) (m : Str) (mt : Match) (hm : p.search m = some mt) :
    ∀ (pre post : List Str) (pos : Nat) (acc : List Str) (s : Session), (∀ l ∈ pre, p.search l = none) →
      (Reader.readTo.go r p (pre ++ m :: post) pos acc).run s =
        .ok ((acc.reverse ++ pre, { r with rest := m :: post, pos := pos + pre.length }), s) := by
  intro pre
  induction pre with
  | nil =>
    intro post pos acc s _
    unfold Reader.readTo.go
    simp [hm, hg]
  | cons l pre ih =>
    intro post pos acc s hpre
    have hl := hpre l List.mem_cons_self
    simp only [List.cons_append]
    unfold Reader.readTo.go
    simp only [hl]
    rw [ih post (pos + 1) (l :: acc) s (fun x hx => hpre x (List.mem_cons_of_mem _ hx))]
    simp only [List.reverse_cons, List.append_assoc, List.singleton_append, List.length_cons]
    have : pos + 1 + pre.length = pos + (pre.length + 1) := by omega
    rw [this]

/-- **Blank lines between blocks are skipped without looking at what follows.** -/
theorem skipBlankLines_is_local (r : Reader) (line : Str) (hl : strip line ≠ []) :
    ∀ (blanks rest : List Str) (pos : Nat), (∀ b ∈ blanks, strip b = []) →
      Reader.skipBlankLines.go r (blanks ++ line :: rest) pos = { r with rest := line :: rest, pos := pos + blanks.length } := by
  intro blanks
  induction blanks with
  | nil =>
    intro rest pos _
    unfold Reader.skipBlankLines.go
    have : (strip line == []) = false := by simpa using hl
    simp [this]
  | cons b blanks ih =>
    intro rest pos hb
    have h0 := hb b List.mem_cons_self
    simp only [List.cons_append]
    unfold Reader.skipBlankLines.go
    simp only [h0, beq_self_eq_true, if_true]
    rw [ih rest (pos + 1) (fun x hx => hb x (List.mem_cons_of_mem _ hx))]
    simp only [List.length_cons]
    congr 1
    omega

/-- **Each block kind becomes its own element** (generated delimited-block table). -/
theorem block_elements :
    (Gen.blockDefaultDefs.map fun d => (d.name, d.openTag, d.closeTag)) =
      [("macro-definition".toList, [], []), ("comment".toList, [], []),
       ("division".toList, "<div>".toList, "</div>".toList),
       ("quote".toList, "<blockquote>".toList, "</blockquote>".toList),
       ("code".toList, "<pre><code>".toList, "</code></pre>".toList),
       ("html".toList, [], []),
       ("indented".toList, "<pre><code>".toList, "</code></pre>".toList),
       ("quote-paragraph".toList, "<blockquote><p>".toList, "</p></blockquote>".toList),
       ("paragraph".toList, "<p>".toList, "</p>".toList)] := by
  decide +kernel

/-- a comment is skipped, containers render their content recursively -/
theorem block_processing :
    (Gen.blockDefaultDefs.filter (fun d => d.expand.skip == some true)).map (·.name) = ["comment".toList] ∧
    (Gen.blockDefaultDefs.filter (fun d => d.expand.container == some true)).map (·.name) = ["division".toList, "quote".toList] := by
  decide +kernel

/-- **Headers become h1-h6 by marker length**: the header filter rewrites `<h###>` to `<h3>`; for all six marker
    lengths and both marker characters (kernel evaluation of the generated line rules). -/
theorem header_level_is_marker_length :
    ((List.range 6).all fun k =>
      ['#', '='].all fun c =>
        let mark := List.replicate (k + 1) c
        match (apiRender ⟨fun _ _ => .error⟩ 30 (mark ++ " T x".toList) {}).run Session.uninit with
        | .ok (html, _) => html == "<h".toList ++ natToStr (k + 1) ++ ">T x</h".toList ++ natToStr (k + 1) ++ ">".toList
        | .error _ => false) = true := by
  decide +kernel

/-- **Blocks are rendered in order and independently of the output so far.**  Rendering the rest of a document from
    a writer that already holds some output is the same as rendering it from an empty writer and putting the earlier output
    in front: same exception or same final session, and the new writer is the old one extended.  So nothing that has been
    written is ever read back or rewritten, and the html of a block cannot depend on the html of the blocks before it (only
    on the session they leave).  Holds for every line block, delimited block, list and nested container (`Rel`, the two
    programs walked in lockstep by `rel_go`; `Lemmas/Rel*.lean`). -/
theorem earlier_output_is_never_read_or_rewritten (rec : Rec) (env : Env) (fuel : Nat) (r : Reader) (w : Writer) (s : Session) :
    (documentLoop rec env fuel r w).run s =
      ((fun w2 => w.extend w2) <$> documentLoop rec env fuel r {}).run s := by
  have h := documentLoop_rel rec env w fuel r w {} (WR.start w) s
  rw [show ((fun w2 => w.extend w2) <$> documentLoop rec env fuel r {}) =
        (documentLoop rec env fuel r {} >>= fun w2 => pure (w.extend w2)) from (bind_pure_comp _ _).symm, run_bind]
  cases h1 : (documentLoop rec env fuel r w).run s with
  | error e =>
    cases h2 : (documentLoop rec env fuel r {}).run s with
    | error e' => rw [h1, h2] at h; simp only at h; rw [h]
    | ok x => rw [h1, h2] at h; exact h.elim
  | ok x =>
    obtain ⟨w1, s1⟩ := x
    cases h2 : (documentLoop rec env fuel r {}).run s with
    | error e' => rw [h1, h2] at h; exact h.elim
    | ok y =>
      obtain ⟨w2, s2⟩ := y
      rw [h1, h2] at h
      obtain ⟨hw, rfl⟩ := h
      have : w1 = w.extend w2 := by
        cases w1; cases w2; cases w
        simp only [WR, Writer.extend] at hw ⊢
        rw [hw]
      rw [this]
      rfl

/-- ... in terms of the html: the text rendered so far is a prefix of the final text. -/
theorem output_so_far_is_a_prefix (rec : Rec) (env : Env) (fuel : Nat) (r : Reader) (w w' : Writer) (s s' : Session)
    (h : (documentLoop rec env fuel r w).run s = .ok (w', s')) : ∃ rest, w'.toStr = w.toStr ++ rest := by
  have h0 := documentLoop_rel rec env w fuel r w {} (WR.start w) s
  rw [h] at h0
  cases h2 : (documentLoop rec env fuel r {}).run s with
  | error e' => rw [h2] at h0; exact h0.elim
  | ok y =>
    obtain ⟨w2, s2⟩ := y
    rw [h2] at h0
    exact ⟨w2.toStr, WR.toStr h0.1⟩

/-- Concrete document of all block kinds (kernel evaluation): rendered in order, each to its element, nested
    containers around their content. -/
example :
    (match (apiRender ⟨fun _ _ => .error⟩ 60
      "para\n\n## H\n\n```\ncode\n```\n\n  ind\n\n\"\"\nq1\n\n..cls\nd1\n..\n\"\"\n\n// c\n\n>qp\n\n..\nplain div\n..".toList {}).run Session.uninit with
     | .ok (html, _) => html ==
       "<p>para</p>\n<h2>H</h2>\n<pre><code>code</code></pre>\n<pre><code>ind</code></pre>\n<blockquote><p>q1</p>\n<div class=\"cls\"><p>d1</p></div></blockquote>\n<blockquote><p>qp</p></blockquote>\n<p>plain div</p>".toList
     | .error _ => false) = true := by decide +kernel

end Props.C08
