import RimuProofs.Lemmas.Run
import RimuModel.Cli

/-!
# C18  rimupy output is the ordered concatenation of trusted and untrusted renders

`cliMain` is `rimuc.main()`; the file system, stdin, `~/.rimurc` and the resources are parameters.
The theorems are about the plan (`planInputs`), the trust assignment (`classifyInput`, `inputMode`), the output
joining and the exit status; the rendering of each input is `apiRender` (the other properties).
-/

namespace Props.C18
open Rimu Py

/-! ## order -/

/-- **The documented order**: `.rimurc`, `--prepend-file` files, `--prepend` text; then layout header, named files
    (or stdin), layout footer.  The planned inputs are exactly these entries, classified position by position. -/
theorem plan_is_ordered_concatenation (env : CliEnv) (p : CliPlan) :
    (planInputs env p).1 =
      ((List.range (prependedEntries env p ++ namedEntries p).length).zip (prependedEntries env p ++ namedEntries p)).map
        fun (i, n) => classifyInput (prependedEntries env p).length i n := rfl

theorem prepended_order (env : CliEnv) (p : CliPlan) :
    prependedEntries env p =
      (if !p.noRimurc && (lookupStr env.rimurcPath env.files).isSome then [env.rimurcPath] else []) ++ p.prependFiles ++
      (if p.prepend != [] then [prependTag] else []) := by
  unfold prependedEntries
  split <;> split <;> simp

theorem named_order (p : CliPlan) :
    namedEntries p =
      (if p.layout != [] then [resourceTag ++ p.layout ++ "-header.rmu".toList] else []) ++
      (if p.files.isEmpty then ["-".toList] else p.files) ++
      (if p.layout != [] then [resourceTag ++ p.layout ++ "-footer.rmu".toList] else []) := by
  unfold namedEntries
  by_cases hl : (p.layout != []) = true
  · simp [hl]
  · have : (p.layout != []) = false := by simpa using hl
    simp [this]

/-! ## trust -/

/-- **Trust is decided by position, never by name**: an entry at or beyond the prepended ones that is not a
    resource tag, `-` or the prepend tag is a file rendered under the *requested* safe mode - even if a prepended
    file has the same name. -/
theorem named_file_not_trusted (trusted idx : Nat) (name : Str) (h : trusted ≤ idx)
    (h1 : startsWith name resourceTag = false) (h2 : (name == "-".toList) = false) (h3 : (name == prependTag) = false) :
    classifyInput trusted idx name = .file name false := by
  unfold classifyInput
  simp only [h1, h2, h3, Bool.false_eq_true, if_false]
  congr
  simp; omega

theorem prepended_file_trusted (trusted idx : Nat) (name : Str) (h : idx < trusted)
    (h1 : startsWith name resourceTag = false) (h2 : (name == "-".toList) = false) (h3 : (name == prependTag) = false) :
    classifyInput trusted idx name = .file name true := by
  unfold classifyInput
  simp only [h1, h2, h3, Bool.false_eq_true, if_false]
  congr
  simp; omega

/-- **Named files and stdin are rendered under the requested safe mode, everything else at safe mode 0.** -/
theorem mode_of_named_file (p : CliPlan) (name : Str) :
    inputMode p (.file name false) = (match p.safeMode with | some n => .int n | none => .none) := rfl
theorem mode_of_stdin (p : CliPlan) :
    inputMode p .stdin = (match p.safeMode with | some n => .int n | none => .none) := rfl
theorem mode_of_trusted (p : CliPlan) (name : Str) :
    inputMode p (.file name true) = .int 0 ∧ inputMode p (.resource name) = .int 0 ∧ inputMode p .prepend = .int 0 :=
  ⟨rfl, rfl, rfl⟩

/-! ## usage errors -/

/-- **Usage errors print one line on stderr, nothing on stdout, and exit 1.** -/
theorem die_shape (msg : Str) (h : msg ≠ []) :
    (die msg).exit = 1 ∧ (die msg).stdout = [] ∧ (die msg).stderr = msg ++ "\n".toList ∧ (die msg).outfile = none := by
  unfold die
  have : (msg == []) = false := by simpa using h
  simp [this]

/-- an illegal `--safe-mode` value (not an integer, or out of 0..15) is a usage error, whatever else is on the
    command line and in the environment -/
theorem illegal_safe_mode_is_usage_error (env : CliEnv) (v : Str) (rest : List Str) (p : CliPlan) (fuel : Nat)
    (h : pyInt v = none ∨ ∃ n, pyInt v = some n ∧ (n < 0 ∨ n > 15)) :
    parseArgs env (fuel + 1) ("--safe-mode".toList :: v :: rest) p =
      .done (die ("illegal --safe-mode option value: ".toList ++ v)) := by
  have e : optOf "--safe-mode".toList = .safeMode := by decide
  unfold parseArgs
  simp only [e, popArg]
  rcases h with h | ⟨n, h, hr⟩
  · simp only [h]
  · have : (decide (n < 0) || decide (n > 15)) = true := by rcases hr with hr | hr <;> simp [hr]
    simp only [h, this, if_true]

theorem unknown_layout_is_usage_error (env : CliEnv) (v : Str) (rest : List Str) (p : CliPlan) (fuel : Nat)
    (h : layouts.contains v = false) :
    parseArgs env (fuel + 1) ("--layout".toList :: v :: rest) p = .done (die ("illegal --layout: ".toList ++ v)) := by
  have e : optOf "--layout".toList = .layout := by decide
  unfold parseArgs
  simp only [e, popArg, h, Bool.not_false, if_true]

theorem missing_option_value_is_usage_error (env : CliEnv) (p : CliPlan) (fuel : Nat) (arg : Str)
    (h : optOf arg ∈ [Opt.output, .prepend, .prependFile, .safeMode, .htmlReplacement, .stylingValue, .layout]) :
    parseArgs env (fuel + 1) [arg] p = .done (die ("missing ".toList ++ arg ++ " option value".toList)) := by
  unfold parseArgs
  simp only [List.mem_cons, List.mem_nil_iff, or_false] at h
  rcases h with h | h | h | h | h | h | h <;> simp only [h, popArg]

/-! ## output and exit status -/

/-- **Exit status 1 if and only if an error diagnostic was reported** (once the plan is rendered), and the html goes
    to stdout or the output file, trimmed. -/
theorem result_of_rendered_plan (renv : Env) (fuel : Nat) (env : CliEnv) (argv : List Str) (p : CliPlan) (st : LoopState)
    (hp : parseArgs env (argv.length + 1) argv
      { safeMode := none, htmlReplacement := none, layout := [], noRimurc := false, prependFiles := [],
        passThrough := false, prepend := [], outfile := [], files := [] } = .plan p)
    (hr : renderInputs renv fuel env p { session := Session.uninit } (planInputs env p).1 = .ok st) :
    let r := cliMain renv fuel env argv
    (r.exit = 1 ↔ st.errors > 0) ∧ r.stderr = st.stderr ∧
    (((planInputs env p).2.isEmpty || (planInputs env p).2 == "-".toList) = true →
        r.stdout = strip st.output ∧ r.outfile = none) ∧
    (((planInputs env p).2.isEmpty || (planInputs env p).2 == "-".toList) = false →
        r.stdout = [] ∧ r.outfile = some ((planInputs env p).2, strip st.output)) := by
  unfold cliMain
  simp only [hp]
  generalize planInputs env p = pl at hr ⊢
  obtain ⟨inputs, outfile⟩ := pl
  simp only [hr]
  refine ⟨?_, ?_, ?_, ?_⟩
  · by_cases he : st.errors > 0
    · simp [he]
    · simp [he]
  · first | rfl | trivial
  · intro h
    have h' : outfile = [] ∨ outfile = ['-'] := by
      simp only [Bool.or_eq_true, List.isEmpty_iff, beq_iff_eq] at h
      exact h
    rcases h' with h' | h' <;> simp [h']
  · intro h
    have h' : outfile ≠ [] ∧ outfile ≠ ['-'] := by
      simp only [Bool.or_eq_false_iff, List.isEmpty_eq_false_iff, beq_eq_false_iff_ne] at h
      exact h
    simp [h'.1, h'.2]

/-- Concrete runs (kernel evaluation): the F17 scenario - a named file that has the name of a prepended file is
    rendered under the requested safe mode - and a usage error. -/
example :
    let env : CliEnv := { files := [("a.rmu".toList, "<b>x</b>".toList)], stdin := [], resources := [] }
    (cliMain ⟨fun _ _ => .error⟩ 30 env ["--safe-mode".toList, "1".toList, "--prepend-file".toList, "a.rmu".toList, "a.rmu".toList]).stdout
      == "<p><b>x</b></p>\n<p>x</p>".toList := by decide +kernel

example :
    (cliMain ⟨fun _ _ => .error⟩ 30 { files := [], stdin := [], resources := [] } ["--safe-mode".toList, "junk".toList]) =
      { exit := 1, stdout := [], stderr := "illegal --safe-mode option value: junk\n".toList } := by decide +kernel

end Props.C18
