import RimuProofs.Lemmas.Run
import RimuProofs.Lemmas.PatLemmas
import RimuProofs.Lemmas.Strings
import RimuProofs.Lemmas.FrameInline
import RimuProofs.Facts
import RimuProofs.Regex.Leftmost

/-!
# C07  Inline markup renders to exactly the intended element structure

Universal part (every text, every definition table, every nested renderer):
* **partition**: the fragments produced for one replacement definition partition the text - the concatenation of
  their sources (the matched text of a replaced fragment, the text of an untouched one) is the text itself
  (`replacement_fragments_partition`), so all other characters come through and nothing is duplicated or lost;
* **earlier constructs are never re-interpreted by later ones**: a replaced fragment is marked done and every later
  definition, and the quote pass, returns it untouched (`done_fragment_is_opaque`); definitions are applied in table
  order (`definitions_applied_in_order`), so links and images take precedence over tags, URLs and quotes;
* **each replacement pass takes the leftmost match**: the text before a replaced fragment holds no position at which
  the definition's pattern matches (`replacement_takes_the_leftmost_match`), and a text that is left untouched holds
  none at all (`untouched_text_has_no_match`) - `search` is characterised as the leftmost successful `match`
  (`Regex/Leftmost.lean`), which is as much completeness as the matcher has;
* text outside markup is escaped (C03 lemmas).
The element structure of each construct kind (the 7 quotes, the 11 replacement forms) for generated terms is
evaluated in the kernel on instances and checked by the term-grammar oracle; a grammar-level theorem is not proved.
-/

namespace Props.C07
open Rimu Rx Py

/-- **A replacement pass takes the leftmost match of its pattern**: at no earlier position does the pattern match. -/
theorem replacement_takes_the_leftmost_match (p : Pat) (text : Str) (start : Nat) (mt : Match)
    (h : p.search text start = some mt) :
    matchAt text.toArray p.re p.ngroups mt.start = some mt.res ∧
    ∀ q, start ≤ q → q < mt.start → matchAt text.toArray p.re p.ngroups q = none := by
  obtain ⟨_, _, hr⟩ := Pat.search_some h
  exact search_leftmost hr

/-- **A text in which a pattern is not found holds no match of it at any position.** -/
theorem untouched_text_has_no_match (p : Pat) (text : Str) (h : p.search text = none) :
    ∀ q, q ≤ text.length → matchAt text.toArray p.re p.ngroups q = none := by
  have hn : Rx.search text.toArray p.re p.ngroups 0 = none := by
    unfold Pat.search at h
    dsimp only at h
    split at h
    · cases h
    · assumption
  intro q hq
  exact search_none (Nat.zero_le _) hn q (Nat.zero_le _) (by simpa using hq)

/-- the source text a fragment stands for -/
def srcOf (f : Fragment) : Str := if f.done then f.verbatim else f.text

theorem take_slice_drop (text : Str) (a b : Nat) (hab : a ≤ b) (hb : b ≤ text.length) :
    text.take a ++ slice text.toArray a b ++ text.drop b = text := by
  have hs : slice text.toArray a b = (text.drop a).take (b - a) := by
    unfold slice
    simp [Array.toList_extract, List.extract_eq_take_drop]
  rw [hs]
  have : text.drop b = (text.drop a).drop (b - a) := by
    rw [List.drop_drop]; congr 1; omega
  rw [this, List.append_assoc, List.take_append_drop, List.take_append_drop]

/-- **The fragments of one replacement pass partition the text.** -/
theorem replacement_fragments_partition (rec : Rec) (env : Env) (rdef : ReplDef) :
    ∀ fuel text s, wp (fragReplacementLoop rec env rdef fuel text) (fun frags _ => frags.flatMap srcOf = text) s := by
  intro fuel
  induction fuel with
  | zero => intro text s; unfold fragReplacementLoop; exact wp_raise _
  | succ n ih =>
    intro text s
    unfold fragReplacementLoop
    split
    · apply wp_pure; simp [srcOf]
    · next mt hm =>
      split
      · apply wp_pure; simp [srcOf]
      · apply wp_bind
        refine wp_forall ?_
        intro replacement s1
        apply wp_bind
        refine wp_mono (ih (text.drop mt.stop) s1) ?_
        intro rest s2 hrest
        apply wp_pure
        have hb := Pat.search_bounds (Nat.zero_le _) hm
        obtain ⟨hinp, _, _⟩ := Pat.search_some hm
        simp only [List.flatMap_cons, srcOf, hrest, Bool.false_eq_true, if_false, if_true]
        have hw : mt.whole = slice text.toArray mt.start mt.stop := by
          unfold Match.whole Match.start Match.stop at *
          rw [hinp]
        rw [hw, ← List.append_assoc]
        exact take_slice_drop text mt.start mt.stop hb.2.1 hb.2.2

/-- **A replaced fragment is opaque to every later definition.** -/
theorem done_fragment_is_opaque (rec : Rec) (env : Env) (rdef : ReplDef) (f : Fragment) (h : f.done = true) (s : Session) :
    (fragReplacement rec env rdef f).run s = .ok ([f], s) := by
  unfold fragReplacement
  simp only [h, if_true]
  rfl

/-- ... and to the quote pass. -/
theorem done_fragment_is_opaque_to_quotes (defs : List QuoteDef) (f : Fragment) (h : f.done = true) (s : Session) :
    (fragQuote defs f).run s = .ok ([f], s) := by
  unfold fragQuote
  simp only [h, if_true]
  rfl

/-- **Definitions are applied in table order**: the pass for the first definition runs over the whole fragment
    list before the pass of any later definition. -/
theorem definitions_applied_in_order (rec : Rec) (env : Env) (d : ReplDef) (ds : List ReplDef) (frags : List Fragment) :
    fragReplacements rec env (d :: ds) frags =
      (fragReplacementAll rec env d frags >>= fun tmp => fragReplacements rec env ds tmp) := by
  rw [fragReplacements]

/-- the order of the generated table: images, e-mail and the caret/bracket links come before `<url|caption>`, which
    comes before inline HTML tags, `<url>`, bare URLs and entities -/
theorem default_replacement_order :
    Gen.replDefaultDefs.map (fun d => (d.replacement, d.filter)) =
      [("<span id=\"$1\"></span>".toList, .anchor), ("<img src=\"$1\" alt=\"$2\">".toList, .none),
       ("<img src=\"$1\" alt=\"$1\">".toList, .none), ("<img src=\"$2\" alt=\"$1\">".toList, .none),
       ("<a href=\"mailto:$1\">$$2</a>".toList, .none), ("<a href=\"mailto:$1\">$1</a>".toList, .none),
       ("<a href=\"$2\" target=\"_blank\">$$1</a>".toList, .none), ("<a href=\"$2\">$$1</a>".toList, .none),
       ("<a href=\"$1\">$$2</a>".toList, .none), ([], .html), ("<a href=\"$1\">$1</a>".toList, .none),
       ("<a href=\"$1\">$1</a>".toList, .none), ([], .entity), ("<br>$1".toList, .none), ("$1".toList, .none),
       ("$1".toList, .none)] := by
  decide +kernel

/-- rendering a paragraph from a fresh process, for the kernel-evaluated instances below -/
def runPara (src : String) : Str :=
  match (apiRender ⟨fun _ _ => .error⟩ 40 src.toList {}).run Session.uninit with
  | .ok (h, _) => h
  | .error _ => "ERROR".toList

/-! Concrete terms (kernel evaluation on the generated tables; one instance per declaration keeps the memory of the
    kernel evaluation low): every quote kind, nesting by differing delimiter, the replacement forms, isolated specials,
    an earlier construct protecting its content from later ones. -/

example : (runPara "x *a* **b** _c_ __d__ `e` ``f`` ~~g~~" ==
    "<p>x <em>a</em> <strong>b</strong> <em>c</em> <strong>d</strong> <code>e</code> <code>f</code> <del>g</del></p>".toList) = true := by
  decide +kernel

example : (runPara "x *a _b `c-d` e_ f* < & >" ==
    "<p>x <em>a <em>b <code>c-d</code> e</em> f</em> &lt; &amp; &gt;</p>".toList) = true := by
  decide +kernel

example : (runPara "x <http://a.com/|*cap* it> [c](http://b.org/) ^[d](http://c.net/) <http://e.f/> http://g.h/i &copy;" ==
    "<p>x <a href=\"http://a.com/\"><em>cap</em> it</a> <a href=\"http://b.org/\">c</a> <a href=\"http://c.net/\" target=\"_blank\">d</a> <a href=\"http://e.f/\">http://e.f/</a> <a href=\"http://g.h/i\">http://g.h/i</a> &copy;</p>".toList) = true := by
  decide +kernel

example : (runPara "x <image:u.png|alt t> ![a b](v.png) <joe@foo.com> <joe@foo.com|J> y \\\nz" ==
    "<p>x <img src=\"u.png\" alt=\"alt t\"> <img src=\"v.png\" alt=\"a b\"> <a href=\"mailto:joe@foo.com\">joe@foo.com</a> <a href=\"mailto:joe@foo.com\">J</a> y<br>\nz</p>".toList) = true := by
  decide +kernel

example : (runPara "x [*not em*](http://a_b_c.com/*y*)" ==
    "<p>x <a href=\"http://a_b_c.com/*y*\"><em>not em</em></a></p>".toList) = true := by
  decide +kernel

end Props.C07
