import RimuProofs.Regex.Sound

/-!
# Static analyses of regular expressions, sound against the declarative semantics

Each analysis is a computable function on `Re`; its soundness theorem is proved once for every regex and every
input; the property proofs then instantiate it on the *generated* patterns by `decide`, so the facts are re-proved
against whatever the source says now.

* `minLen`   : every match consumes at least that many characters (A2)
* `avoids`   : no match contains one of the listed characters (used for group alphabets, A4)
* `setsGroup`: the group participates in every match (A3)
-/

namespace Rx

/-! ## A2: minimum match length -/

def minLen : Re → Nat
  | .chr _ => 1
  | .seq a b => minLen a + minLen b
  | .alt a b => min (minLen a) (minLen b)
  | .grp _ r => minLen r
  | .rep r mn _ _ => mn * minLen r
  | _ => 0

/-- characters still owed after `n` iterations -/
def owed : Re → Nat → Nat
  | .rep r mn _ _, n => (mn - n) * minLen r
  | r, _ => minLen r

theorem owed_zero (r : Re) : owed r 0 = minLen r := by
  cases r <;> simp [owed, minLen]

theorem Matches.owed_le {inp : Array Char} {r n pos caps p c} (h : Matches inp r n pos caps p c) :
    pos + owed r n ≤ p := by
  induction h with
  | eps => simp [owed, minLen]
  | chr _ _ => simp [owed, minLen]
  | seq _ _ ih1 ih2 =>
    simp only [owed_zero] at ih1 ih2
    simp only [owed, minLen]; omega
  | altL _ ih => simp only [owed_zero] at ih; simp only [owed, minLen]; omega
  | altR _ ih => simp only [owed_zero] at ih; simp only [owed, minLen]; omega
  | grp _ ih => simp only [owed_zero] at ih; simp only [owed, minLen]; omega
  | @repDone mn cnt r mx g pos caps h =>
    simp only [owed]
    have : mn - cnt = 0 := by omega
    simp [this]
  | @repStep r pos caps p1 c1 mn mx g cnt p2 c2 _ _ ih1 ih2 =>
    simp only [owed_zero] at ih1
    simp only [owed] at ih2 ⊢
    by_cases hc : mn ≤ cnt
    · have : mn - cnt = 0 := by omega
      simp [this]; omega
    · have e : mn - cnt = (mn - (cnt + 1)) + 1 := by omega
      rw [e, Nat.succ_mul]
      omega
  | bol => simp [owed, minLen]
  | eol _ => simp [owed, minLen]
  | mbol _ => simp [owed, minLen]
  | meol _ => simp [owed, minLen]
  | eos => simp [owed, minLen]
  | bref _ _ => simp [owed, minLen]
  | look _ _ => simp [owed, minLen]
  | nlook => simp [owed, minLen]
  | wordb _ => simp [owed, minLen]

/-- **A2.**  A successful search returns a match of at least `minLen r` characters. -/
theorem search_minLen {inp : Array Char} {r : Re} {n start : Nat} {mr : MatchRes} (hs : start ≤ inp.size)
    (h : search inp r n start = some mr) : mr.start + minLen r ≤ mr.stop := by
  obtain ⟨_, _, _, hM⟩ := search_sound hs h
  have := hM.owed_le
  rwa [owed_zero] at this

/-! ## A4: characters that no match can contain -/

/-- no `chr` node of `r` accepts a character of `bad`; back-references are not allowed (they copy text matched
    elsewhere) -/
def avoids (bad : List Char) : Re → Bool
  | .chr s => bad.all fun q => !s.mem q
  | .seq a b => avoids bad a && avoids bad b
  | .alt a b => avoids bad a && avoids bad b
  | .grp _ r => avoids bad r
  | .rep r _ _ _ => avoids bad r
  | .bref _ => false
  | _ => true

/-- all characters of `inp[a, b)` are outside `bad` -/
def CleanRange (bad : List Char) (inp : Array Char) (a b : Nat) : Prop :=
  ∀ k, a ≤ k → k < b → ∀ h : k < inp.size, inp[k] ∉ bad

theorem CleanRange.append {bad inp a b c} (h1 : CleanRange bad inp a b) (h2 : CleanRange bad inp b c) :
    CleanRange bad inp a c := by
  intro k hk1 hk2 hlt
  by_cases hb : k < b
  · exact h1 k hk1 hb hlt
  · exact h2 k (by omega) hk2 hlt

theorem CleanRange.empty {bad inp a} : CleanRange bad inp a a := by
  intro k h1 h2; omega

theorem Matches.clean {bad : List Char} {inp : Array Char} {r n pos caps p c}
    (h : Matches inp r n pos caps p c) (hr : avoids bad r = true) : CleanRange bad inp pos p := by
  induction h with
  | eps => exact .empty
  | @chr pos s caps hlt hm =>
    intro k hk1 hk2 hk
    have : k = pos := by omega
    subst this
    intro hin
    simp only [avoids, List.all_eq_true] at hr
    have := hr _ hin
    simp [hm] at this
  | seq _ _ ih1 ih2 =>
    simp only [avoids, Bool.and_eq_true] at hr
    exact (ih1 hr.1).append (ih2 hr.2)
  | altL _ ih => simp only [avoids, Bool.and_eq_true] at hr; exact ih hr.1
  | altR _ ih => simp only [avoids, Bool.and_eq_true] at hr; exact ih hr.2
  | grp _ ih => exact ih (by simpa [avoids] using hr)
  | repDone _ => exact .empty
  | repStep _ _ ih1 ih2 =>
    exact (ih1 (by simpa [avoids] using hr)).append (ih2 hr)
  | bol => exact .empty
  | eol _ => exact .empty
  | mbol _ => exact .empty
  | meol _ => exact .empty
  | eos => exact .empty
  | bref _ _ => simp [avoids] at hr
  | look _ _ => exact .empty
  | nlook => exact .empty
  | wordb _ => exact .empty

/-- every `grp i ·` node of `r` has a body that avoids `bad` -/
def groupAvoids (bad : List Char) (i : Nat) : Re → Bool
  | .seq a b => groupAvoids bad i a && groupAvoids bad i b
  | .alt a b => groupAvoids bad i a && groupAvoids bad i b
  | .grp j r => (if j = i then avoids bad r else true) && groupAvoids bad i r
  | .rep r _ _ _ => groupAvoids bad i r
  | .look r => groupAvoids bad i r
  | .nlook _ => true
  | _ => true

/-- group `i` of the table is unset or spans a clean range -/
def CapClean (bad : List Char) (inp : Array Char) (caps : Caps) (i : Nat) : Prop :=
  ∀ a b, caps.getD i none = some (a, b) → CleanRange bad inp a b

theorem capClean_set {bad inp} {caps : Caps} {i j : Nat} {v : Nat × Nat}
    (h : CapClean bad inp caps i) (hv : j = i → CleanRange bad inp v.1 v.2) :
    CapClean bad inp (Caps.set caps j v) i := by
  intro a b hab
  unfold Caps.set at hab
  by_cases hji : j = i
  · subst hji
    by_cases hlt : j < caps.length
    · simp [List.getD_eq_getElem?_getD, List.getElem?_set, hlt] at hab
      obtain ⟨rfl, rfl⟩ := hab
      exact hv rfl
    · have : List.set caps j (some v) = caps := by
        apply List.set_eq_of_length_le; omega
      rw [this] at hab
      exact h a b hab
  · have : (List.set caps j (some v)).getD i none = caps.getD i none := by
      simp [List.getD_eq_getElem?_getD, List.getElem?_set, hji]
    rw [this] at hab
    exact h a b hab

theorem Matches.capClean {bad : List Char} {inp : Array Char} {i : Nat} {r n pos caps p c}
    (h : Matches inp r n pos caps p c) (hr : groupAvoids bad i r = true) (hc : CapClean bad inp caps i) :
    CapClean bad inp c i := by
  induction h with
  | eps => exact hc
  | chr _ _ => exact hc
  | seq _ _ ih1 ih2 =>
    simp only [groupAvoids, Bool.and_eq_true] at hr
    exact ih2 hr.2 (ih1 hr.1 hc)
  | altL _ ih => simp only [groupAvoids, Bool.and_eq_true] at hr; exact ih hr.1 hc
  | altR _ ih => simp only [groupAvoids, Bool.and_eq_true] at hr; exact ih hr.2 hc
  | @grp r pos caps p c j hm ih =>
    simp only [groupAvoids, Bool.and_eq_true] at hr
    refine capClean_set (ih hr.2 hc) ?_
    intro hji
    have := hr.1
    simp only [hji, if_true] at this
    exact hm.clean this
  | repDone _ => exact hc
  | repStep _ _ ih1 ih2 =>
    exact ih2 hr (ih1 (by simpa [groupAvoids] using hr) hc)
  | bol => exact hc
  | eol _ => exact hc
  | mbol _ => exact hc
  | meol _ => exact hc
  | eos => exact hc
  | bref _ _ => exact hc
  | look _ ih => exact ih (by simpa [groupAvoids] using hr) hc
  | nlook => exact hc
  | wordb _ => exact hc

/-- **A4.**  After a successful search, group `i` (if it participated) contains no character of `bad`. -/
theorem search_group_clean {bad : List Char} {inp : Array Char} {r : Re} {n start i : Nat} {mr : MatchRes}
    (hs : start ≤ inp.size) (h : search inp r n start = some mr) (hr : groupAvoids bad i r = true) :
    CapClean bad inp mr.caps i := by
  obtain ⟨_, _, _, hM⟩ := search_sound hs h
  refine hM.capClean hr ?_
  intro a b hab
  simp [List.getD_eq_getElem?_getD, List.getElem?_replicate] at hab
  split at hab <;> simp at hab

/-- the characters of `slice inp a b` are characters of `inp` at positions in `[a, b)` -/
theorem mem_slice {inp : Array Char} {a b : Nat} {x : Char} (h : x ∈ slice inp a b) :
    ∃ k, a ≤ k ∧ k < b ∧ ∃ hk : k < inp.size, inp[k] = x := by
  unfold slice at h
  rw [Array.toList_extract] at h
  simp only [List.extract_eq_take_drop] at h
  rw [List.mem_iff_getElem] at h
  obtain ⟨i, hi, hx⟩ := h
  simp only [List.length_take, List.length_drop, Array.length_toList] at hi
  refine ⟨a + i, by omega, by omega, by omega, ?_⟩
  simp only [List.getElem_take, List.getElem_drop] at hx
  simpa using hx

theorem CleanRange.slice {bad inp a b} (h : CleanRange bad inp a b) : ∀ x ∈ slice inp a b, x ∉ bad := by
  intro x hx
  obtain ⟨k, h1, h2, hk, rfl⟩ := mem_slice hx
  exact h k h1 h2 hk

/-- **A4 for `pattern.match`.** -/
theorem matchAt_group_clean {bad : List Char} {inp : Array Char} {r : Re} {n pos i : Nat} {mr : MatchRes}
    (h : matchAt inp r n pos = some mr) (hr : groupAvoids bad i r = true) :
    CapClean bad inp mr.caps i := by
  obtain ⟨_, hM⟩ := matchAt_sound h
  refine hM.capClean hr ?_
  intro a b hab
  simp [List.getD_eq_getElem?_getD, List.getElem?_replicate] at hab
  split at hab <;> simp at hab

/-- the text of group `i ≥ 1` of a match result, when it participated, has no character of `bad` -/
theorem group_text_clean {bad : List Char} {inp : Array Char} {mr : MatchRes} {i : Nat} {g : List Char}
    (hc : CapClean bad inp mr.caps i) (hi : i ≠ 0) (hg : mr.group inp i = some g) : ∀ x ∈ g, x ∉ bad := by
  unfold MatchRes.group MatchRes.span at hg
  simp only [hi, if_false] at hg
  split at hg
  · next a b hab =>
    cases hg
    exact (hc a b hab).slice
  · cases hg

end Rx
