import RimuProofs.Regex.Sound

/-!
# `search` is the leftmost successful `matchAt`

What `pattern.search(text, start)` means in terms of `pattern.match` at a position: it returns what `matchAt` returns
at the first position at or after `start` where `matchAt` succeeds, and `none` exactly when `matchAt` fails at every
position from `start` to the end of the text (the end included: patterns can match the empty string there).
-/

namespace Rx

theorem searchFrom_leftmost {inp : Array Char} {r : Re} {n : Nat} :
    ∀ fuel pos mr, searchFrom inp r n fuel pos = some mr →
      matchAt inp r n mr.start = some mr ∧ ∀ q, pos ≤ q → q < mr.start → matchAt inp r n q = none := by
  intro fuel
  induction fuel with
  | zero => intro pos mr h; simp [searchFrom] at h
  | succ fuel ih =>
    intro pos mr h
    unfold searchFrom at h
    split at h
    · next res hres =>
      cases h
      obtain ⟨hs, _⟩ := matchAt_sound hres
      refine ⟨by rw [hs]; exact hres, ?_⟩
      intro q h1 h2
      omega
    · next hnone =>
      split at h
      · next hlt =>
        obtain ⟨h1, h2⟩ := ih _ _ h
        refine ⟨h1, ?_⟩
        intro q hq1 hq2
        by_cases he : q = pos
        · subst he; exact hnone
        · exact h2 q (by omega) hq2
      · cases h

theorem searchFrom_none {inp : Array Char} {r : Re} {n : Nat} :
    ∀ fuel pos, pos ≤ inp.size → inp.size + 1 ≤ pos + fuel → searchFrom inp r n fuel pos = none →
      ∀ q, pos ≤ q → q ≤ inp.size → matchAt inp r n q = none := by
  intro fuel
  induction fuel with
  | zero => intro pos hp hf _ q h1 h2; omega
  | succ fuel ih =>
    intro pos hp hf h q h1 h2
    unfold searchFrom at h
    split at h
    · cases h
    · next hnone =>
      by_cases he : q = pos
      · subst he; exact hnone
      · split at h
        · exact ih (pos + 1) (by omega) (by omega) h q (by omega) h2
        · omega

/-- **`search` returns the leftmost match**: `matchAt` succeeds with that very result at its start and fails at every
    earlier position from `start` on. -/
theorem search_leftmost {inp : Array Char} {r : Re} {n start : Nat} {mr : MatchRes} (h : search inp r n start = some mr) :
    matchAt inp r n mr.start = some mr ∧ ∀ q, start ≤ q → q < mr.start → matchAt inp r n q = none :=
  searchFrom_leftmost _ _ _ h

/-- **`search` fails only if `matchAt` fails everywhere** from `start` to the end of the text. -/
theorem search_none {inp : Array Char} {r : Re} {n start : Nat} (hs : start ≤ inp.size) (h : search inp r n start = none) :
    ∀ q, start ≤ q → q ≤ inp.size → matchAt inp r n q = none := by
  unfold search at h
  exact searchFrom_none _ _ hs (by omega) h

end Rx
