import RimuProofs.Regex.Analysis
import RimuProofs.Regex.Participation

/-!
# A generic analysis of what a capture group spans

`groupAll chk i r`: every `grp i ·` node of `r` has a body accepted by the check `chk`.  If the check is sound for a
property `P` of spans (every declarative match of an accepted body spans a range with `P`), then after any match of
`r` group `i` is unset or spans a range with `P` (`Matches.capSat`).  `groupAvoids` of `Analysis.lean` is the instance
"no character of a given list"; here it is used for "at least one character" and "one of a given list of strings".
-/

namespace Rx

def groupAll (chk : Re → Bool) (i : Nat) : Re → Bool
  | .seq a b => groupAll chk i a && groupAll chk i b
  | .alt a b => groupAll chk i a && groupAll chk i b
  | .grp j r => (if j = i then chk r else true) && groupAll chk i r
  | .rep r _ _ _ => groupAll chk i r
  | .look r => groupAll chk i r
  | .nlook _ => true
  | _ => true

/-- group `i` of the table is unset or spans a range with `P` -/
def CapSat (P : Nat → Nat → Prop) (caps : Caps) (i : Nat) : Prop :=
  ∀ a b, caps.getD i none = some (a, b) → P a b

theorem capSat_set {P : Nat → Nat → Prop} {caps : Caps} {i j : Nat} {v : Nat × Nat}
    (h : CapSat P caps i) (hv : j = i → P v.1 v.2) : CapSat P (Caps.set caps j v) i := by
  intro a b hab
  unfold Caps.set at hab
  by_cases hji : j = i
  · subst hji
    by_cases hlt : j < caps.length
    · simp [List.getD_eq_getElem?_getD, List.getElem?_set, hlt] at hab
      obtain ⟨rfl, rfl⟩ := hab
      exact hv rfl
    · have : List.set caps j (some v) = caps := by
        apply List.set_eq_of_length_le; omega
      rw [this] at hab
      exact h a b hab
  · have : (List.set caps j (some v)).getD i none = caps.getD i none := by
      simp [List.getD_eq_getElem?_getD, List.getElem?_set, hji]
    rw [this] at hab
    exact h a b hab

theorem capSat_init (P : Nat → Nat → Prop) (n i : Nat) : CapSat P (List.replicate n none) i := by
  intro a b hab
  simp [List.getD_eq_getElem?_getD, List.getElem?_replicate] at hab
  split at hab <;> simp at hab

theorem Matches.capSat {P : Nat → Nat → Prop} {chk : Re → Bool} {inp : Array Char} {i : Nat}
    (hchk : ∀ body pos caps p c, chk body = true → pos ≤ inp.size → Matches inp body 0 pos caps p c → P pos p)
    {r n pos caps p c} (h : Matches inp r n pos caps p c) (hpos : pos ≤ inp.size) (hr : groupAll chk i r = true)
    (hc : CapSat P caps i) : CapSat P c i := by
  induction h with
  | eps => exact hc
  | chr _ _ => exact hc
  | seq h1 _ ih1 ih2 =>
    simp only [groupAll, Bool.and_eq_true] at hr
    exact ih2 (h1.bounds hpos).2 hr.2 (ih1 hpos hr.1 hc)
  | altL _ ih => simp only [groupAll, Bool.and_eq_true] at hr; exact ih hpos hr.1 hc
  | altR _ ih => simp only [groupAll, Bool.and_eq_true] at hr; exact ih hpos hr.2 hc
  | @grp r pos caps p c j hm ih =>
    simp only [groupAll, Bool.and_eq_true] at hr
    refine capSat_set (ih hpos hr.2 hc) ?_
    intro hji
    have := hr.1
    simp only [hji, if_true] at this
    exact hchk _ _ _ _ _ this hpos hm
  | repDone _ => exact hc
  | repStep h1 _ ih1 ih2 =>
    exact ih2 (h1.bounds hpos).2 hr (ih1 hpos (by simpa [groupAll] using hr) hc)
  | bol => exact hc
  | eol _ => exact hc
  | mbol _ => exact hc
  | meol _ => exact hc
  | eos => exact hc
  | bref _ _ => exact hc
  | look _ ih => exact ih hpos (by simpa [groupAll] using hr) hc
  | nlook => exact hc
  | wordb _ => exact hc

/-- the span of group `i ≥ 1` of a match result -/
theorem group_span {mr : MatchRes} {inp : Array Char} {i : Nat} {g : List Char} (hi : i ≠ 0)
    (hg : mr.group inp i = some g) : ∃ a b, mr.caps.getD i none = some (a, b) ∧ g = slice inp a b := by
  unfold MatchRes.group MatchRes.span at hg
  simp only [hi, if_false] at hg
  split at hg
  · next a b hab => cases hg; exact ⟨a, b, hab, rfl⟩
  · cases hg

/-! ## instance: the group is not empty -/

/-- check: the body consumes at least one character -/
def nonEmptyBody (r : Re) : Bool := decide (1 ≤ minLen r)

theorem nonEmptyBody_sound {inp : Array Char} (body : Re) (pos : Nat) (caps : Caps) (p : Nat) (c : Caps)
    (h : nonEmptyBody body = true) (hm : Matches inp body 0 pos caps p c) : pos < p := by
  have := hm.owed_le
  rw [owed_zero] at this
  unfold nonEmptyBody at h
  simp only [decide_eq_true_eq] at h
  omega

theorem slice_length_pos {inp : Array Char} {a b : Nat} (hab : a < b) (hb : b ≤ inp.size) : slice inp a b ≠ [] := by
  intro h
  have hl : (slice inp a b).length = 0 := by rw [h]; rfl
  unfold slice at hl
  simp only [Array.length_toList, Array.size_extract] at hl
  omega

end Rx
