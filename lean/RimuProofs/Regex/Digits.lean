import RimuProofs.Regex.GroupProp
import RimuModel.Py

/-!
# `int()` accepts what `\d+` matches

`onlyChars ok r`: every character set of `r` is a (non-negated) union of ranges all of whose code points pass the test
`ok`.  Every character that a match of such an expression consumes passes the test (`Matches.allOk`).  With the test
"a decimal digit according to the table `int()` uses, not white space, not a sign or an underscore" this gives: the text
of a `(\d+)` group is accepted by `int()` (`pyInt_of_digits`).
-/

namespace Rx

/-- all code points of the ranges pass the test -/
def rangesAll (ok : Nat → Bool) : List (Nat × Nat) → Bool
  | [] => true
  | (lo, hi) :: rest => (List.range' lo (hi + 1 - lo)).all ok && rangesAll ok rest

theorem inRanges_ok {ok : Nat → Bool} : ∀ {rs : List (Nat × Nat)} {n : Nat}, rangesAll ok rs = true → inRanges n rs = true → ok n = true := by
  intro rs
  induction rs with
  | nil => intro n _ h; simp [inRanges] at h
  | cons r rest ih =>
    obtain ⟨lo, hi⟩ := r
    intro n hall hin
    unfold rangesAll at hall
    simp only [Bool.and_eq_true] at hall
    unfold inRanges at hin
    split at hin
    · cases hin
    · next hlo =>
      simp only [Bool.or_eq_true, decide_eq_true_eq] at hin
      rcases hin with hhi | hrest
      · have := List.all_eq_true.mp hall.1 n (by rw [List.mem_range']; exact ⟨n - lo, by omega, by omega⟩)
        exact this
      · exact ih hall.2 hrest

def onlyChars (ok : Nat → Bool) : Re → Bool
  | .chr s => !s.neg && rangesAll ok s.ranges
  | .seq a b => onlyChars ok a && onlyChars ok b
  | .alt a b => onlyChars ok a && onlyChars ok b
  | .grp _ r => onlyChars ok r
  | .rep r _ _ _ => onlyChars ok r
  | .bref _ => false
  | _ => true

/-- all characters of `inp[a, b)` pass the test -/
def OkRange (ok : Nat → Bool) (inp : Array Char) (a b : Nat) : Prop :=
  ∀ k, a ≤ k → k < b → ∀ h : k < inp.size, ok inp[k].toNat = true

theorem OkRange.append {ok inp a b c} (h1 : OkRange ok inp a b) (h2 : OkRange ok inp b c) : OkRange ok inp a c := by
  intro k hk1 hk2 hlt
  by_cases hb : k < b
  · exact h1 k hk1 hb hlt
  · exact h2 k (by omega) hk2 hlt

theorem OkRange.empty {ok inp a} : OkRange ok inp a a := by
  intro k h1 h2; omega

theorem Matches.allOk {ok : Nat → Bool} {inp : Array Char} {r n pos caps p c}
    (h : Matches inp r n pos caps p c) (hr : onlyChars ok r = true) : OkRange ok inp pos p := by
  induction h with
  | eps => exact .empty
  | @chr pos s caps hlt hm =>
    intro k hk1 hk2 hk
    have : k = pos := by omega
    subst this
    simp only [onlyChars, Bool.and_eq_true, Bool.not_eq_true'] at hr
    unfold CSet.mem at hm
    rw [hr.1] at hm
    simp only [bne_iff_ne, ne_eq, Bool.not_eq_false] at hm
    exact inRanges_ok hr.2 hm
  | seq _ _ ih1 ih2 =>
    simp only [onlyChars, Bool.and_eq_true] at hr
    exact (ih1 hr.1).append (ih2 hr.2)
  | altL _ ih => simp only [onlyChars, Bool.and_eq_true] at hr; exact ih hr.1
  | altR _ ih => simp only [onlyChars, Bool.and_eq_true] at hr; exact ih hr.2
  | grp _ ih => exact ih (by simpa [onlyChars] using hr)
  | repDone _ => exact .empty
  | repStep _ _ ih1 ih2 => exact (ih1 (by simpa [onlyChars] using hr)).append (ih2 hr)
  | bol => exact .empty
  | eol _ => exact .empty
  | mbol _ => exact .empty
  | meol _ => exact .empty
  | eos => exact .empty
  | bref _ _ => simp [onlyChars] at hr
  | look _ _ => exact .empty
  | nlook => exact .empty
  | wordb _ => exact .empty

theorem OkRange.slice {ok inp a b} (h : OkRange ok inp a b) : ∀ x ∈ slice inp a b, ok x.toNat = true := by
  intro x hx
  obtain ⟨k, h1, h2, hk, rfl⟩ := mem_slice hx
  exact h k h1 h2 hk

end Rx

namespace Py
open Rx

/-- a code point that `int()` reads as a decimal digit and that is neither white space nor a sign nor an underscore -/
def digitCode (n : Nat) : Bool :=
  (digitVal.go n Gen.decimalZeros).isSome && !inRanges n Gen.spaceSet.ranges && n != 45 && n != 43 && n != 95

theorem lstrip_of_no_space : ∀ s : Str, (∀ c ∈ s, isSpace c = false) → lstrip s = s := by
  intro s h
  unfold lstrip
  cases s with
  | nil => rfl
  | cons c t => simp [List.dropWhile, h c (by simp)]

theorem strip_of_no_space (s : Str) (h : ∀ c ∈ s, isSpace c = false) : strip s = s := by
  unfold strip
  rw [lstrip_of_no_space s h]
  unfold rstrip
  have h' : ∀ c ∈ s.reverse, isSpace c = false := fun c hc => h c (List.mem_reverse.mp hc)
  have := lstrip_of_no_space s.reverse h'
  unfold lstrip at this
  rw [this, List.reverse_reverse]

theorem parseDigits_some : ∀ (s : Str) (acc : Option Nat), (∀ c ∈ s, c ≠ '_' ∧ (digitVal c).isSome = true) →
    (s ≠ [] ∨ acc.isSome = true) → (parseDigits s acc false).isSome = true := by
  intro s
  induction s with
  | nil =>
    intro acc _ h
    rcases h with h | h
    · exact absurd rfl h
    · unfold parseDigits; simpa using h
  | cons c t ih =>
    intro acc hall _
    obtain ⟨hne, hd⟩ := hall c (by simp)
    unfold parseDigits
    have : (c == '_') = false := by simpa using hne
    simp only [this, Bool.false_eq_true, if_false]
    obtain ⟨d, hd'⟩ := Option.isSome_iff_exists.mp hd
    simp only [hd']
    exact ih _ (fun x hx => hall x (List.mem_cons_of_mem _ hx)) (.inr rfl)

/-- **`int()` accepts every non-empty string of digit code points.** -/
theorem pyInt_of_digits (s : Str) (hne : s ≠ []) (h : ∀ c ∈ s, digitCode c.toNat = true) : (pyInt s).isSome = true := by
  have hsp : ∀ c ∈ s, isSpace c = false := by
    intro c hc
    have := h c hc
    unfold digitCode at this
    simp only [Bool.and_eq_true, Bool.not_eq_true'] at this
    unfold isSpace CSet.mem
    have hneg : Gen.spaceSet.neg = false := rfl
    rw [hneg, this.1.1.1.2]; rfl
  have hdig : ∀ c ∈ s, c ≠ '_' ∧ (digitVal c).isSome = true := by
    intro c hc
    have := h c hc
    unfold digitCode at this
    simp only [Bool.and_eq_true, bne_iff_ne, ne_eq] at this
    refine ⟨?_, ?_⟩
    · intro he; subst he; exact this.2 rfl
    · unfold digitVal; exact this.1.1.1.1
  unfold pyInt
  rw [strip_of_no_space s hsp]
  cases s with
  | nil => exact absurd rfl hne
  | cons c t =>
    have hc := h c (by simp)
    unfold digitCode at hc
    simp only [Bool.and_eq_true, bne_iff_ne, ne_eq] at hc
    have hm : c ≠ '-' := by intro he; subst he; exact hc.1.1.2 rfl
    have hp : c ≠ '+' := by intro he; subst he; exact hc.1.2 rfl
    have hps := parseDigits_some (c :: t) none hdig (.inl (by simp))
    show (match c :: t with
      | '-' :: r => Option.map (fun n => -Int.ofNat n) (parseDigits r none false)
      | '+' :: r => Option.map Int.ofNat (parseDigits r none false)
      | r => Option.map Int.ofNat (parseDigits r none false)).isSome = true
    split
    · next r heq => cases heq; exact absurd rfl hm
    · next r heq => cases heq; exact absurd rfl hp
    · simpa using hps

end Py
