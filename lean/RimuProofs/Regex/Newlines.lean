import RimuProofs.Regex.Literal
import RimuModel.Base

/-!
# The reader's split pattern, decided completely

For the one pattern `\r\n|\r|\n` the matcher is characterised exactly (soundness *and* completeness): `Pat.split` is the
list function `splitNl`.  This is what makes "the three line terminators are interchangeable" a theorem about the model.
-/

namespace Rimu
open Rx

def crSet : CSet := ⟨[(13, 13)], false⟩
def lfSet : CSet := ⟨[(10, 10)], false⟩
def nlRe : Re := .alt (.seq (.chr crSet) (.chr lfSet)) (.alt (.chr crSet) (.chr lfSet))

/-- the specification: lines of a text, the three terminators alike (`afterCR`: the previous character was a CR, so a
    LF now belongs to the same terminator) -/
def splitNl : Bool → Str → Str → List Str
  | _, cur, [] => [cur.reverse]
  | afterCR, cur, c :: t =>
    if c == '\n' then
      if afterCR then splitNl false cur t else cur.reverse :: splitNl false [] t
    else if c == '\r' then cur.reverse :: splitNl true [] t
    else splitNl false (c :: cur) t

theorem single_mem_eq (k : Nat) (c : Char) : (⟨[(k, k)], false⟩ : CSet).mem c = (c.toNat == k) := by
  simp only [CSet.mem, inRanges, Bool.or_false, Bool.xor_false]
  by_cases h1 : c.toNat < k
  · have : c.toNat ≠ k := by omega
    simp [h1, this]
  · by_cases h2 : c.toNat = k
    · simp [h2]
    · have : ¬ c.toNat ≤ k := by omega
      simp [h1, h2, this]

theorem toNat_beq (c d : Char) : (c.toNat == d.toNat) = (c == d) := by
  by_cases h : c = d
  · subst h; simp
  · have : c.toNat ≠ d.toNat := fun e => h (Char.toNat_inj.mp e)
    rw [beq_eq_false_iff_ne.mpr this, beq_eq_false_iff_ne.mpr h]

theorem crSet_mem (c : Char) : crSet.mem c = (c == '\r') := by
  rw [crSet, single_mem_eq]; exact toNat_beq c '\r'
theorem lfSet_mem (c : Char) : lfSet.mem c = (c == '\n') := by
  rw [lfSet, single_mem_eq]; exact toNat_beq c '\n'

/-- what `matchAt` does with the pattern at one position, completely -/
def nlAt (inp : Array Char) (pos : Nat) : Nat :=
  if h : pos < inp.size then
    if inp[pos] == '\r' then
      (if h2 : pos + 1 < inp.size then (if inp[pos+1] == '\n' then 2 else 1) else 1)
    else if inp[pos] == '\n' then 1 else 0
  else 0

theorem matchAt_nl (inp : Array Char) (pos : Nat) :
    matchAt inp nlRe 0 pos =
      if nlAt inp pos = 0 then none else some { start := pos, stop := pos + nlAt inp pos, caps := [none] } := by
  unfold matchAt nlRe nlAt
  simp only [m, crSet_mem, lfSet_mem, List.replicate]
  by_cases h : pos < inp.size
  · simp only [h, ↓reduceDIte]
    by_cases hc : (inp[pos] == '\r') = true
    · simp only [hc, ↓reduceIte]
      by_cases h2 : pos + 1 < inp.size
      · simp only [h2, ↓reduceDIte]
        by_cases hl : (inp[pos + 1] == '\n') = true
        · simp [hl]
        · simp [hl]
      · simp [h2]
    · simp only [hc, Bool.false_eq_true, ↓reduceIte]
      by_cases hl : (inp[pos] == '\n') = true
      · simp [hl]
      · simp [hl]
  · simp [h]

/-- the same on the list suffix at that position -/
def nlLenL : Str → Nat
  | [] => 0
  | c :: t =>
    if c == '\r' then
      (match t with
       | d :: _ => if d == '\n' then 2 else 1
       | [] => 1)
    else if c == '\n' then 1 else 0

theorem nlAt_eq (s : Str) (pos : Nat) : nlAt s.toArray pos = nlLenL (s.drop pos) := by
  unfold nlAt
  by_cases h : pos < s.length
  · have e1 : s.drop pos = s[pos] :: s.drop (pos + 1) := List.drop_eq_getElem_cons h
    rw [e1]
    simp only [List.size_toArray, h, ↓reduceDIte, List.getElem_toArray, nlLenL]
    by_cases h2 : pos + 1 < s.length
    · have e2 : s.drop (pos + 1) = s[pos + 1] :: s.drop (pos + 1 + 1) := List.drop_eq_getElem_cons h2
      rw [e2]
      simp only [h2, ↓reduceDIte]
    · have e2 : s.drop (pos + 1) = [] := List.drop_eq_nil_of_le (by omega)
      rw [e2]
      simp only [h2, ↓reduceDIte]
  · have e1 : s.drop pos = [] := List.drop_eq_nil_of_le (by omega)
    rw [e1]
    simp [h, nlLenL]

theorem nlLenL_le (t : Str) : nlLenL t ≤ t.length := by
  unfold nlLenL
  split
  · simp
  · split
    · split
      · split <;> simp <;> omega
      · simp
    · split <;> simp

/-- the flag only matters in front of a LF -/
theorem splitNl_flag (cur t : Str) (h : ∀ t', t ≠ '\n' :: t') : splitNl true cur t = splitNl false cur t := by
  cases t with
  | nil => simp [splitNl]
  | cons c t' =>
    have : (c == '\n') = false := by
      rw [beq_eq_false_iff_ne]; intro e; exact h t' (by rw [e])
    simp [splitNl, this]

/-- at a terminator: the current line ends, the rest follows after the terminator -/
theorem splitNl_at_nl (cur t : Str) (h : nlLenL t ≠ 0) :
    splitNl false cur t = cur.reverse :: splitNl false [] (t.drop (nlLenL t)) := by
  cases t with
  | nil => simp [nlLenL] at h
  | cons c t' =>
    by_cases hc : (c == '\r') = true
    · have hn : (c == '\n') = false := by
        rw [beq_iff_eq] at hc; subst hc; decide
      cases t' with
      | nil => simp [splitNl, nlLenL, hc, hn]
      | cons d t'' =>
        by_cases hd : (d == '\n') = true
        · simp [splitNl, nlLenL, hc, hn, hd]
        · have hd' : (d == '\n') = false := by simpa using hd
          simp only [splitNl, nlLenL, hc, hn, hd', Bool.false_eq_true, ↓reduceIte, List.drop_succ_cons, List.drop_zero]
    · have hc' : (c == '\r') = false := by simpa using hc
      by_cases hn : (c == '\n') = true
      · simp [splitNl, nlLenL, hc', hn]
      · simp [nlLenL, hc', hn] at h

/-- not at a terminator: the character joins the current line -/
theorem splitNl_plain (cur : Str) (c : Char) (t : Str) (h : nlLenL (c :: t) = 0) :
    splitNl false cur (c :: t) = splitNl false (c :: cur) t := by
  have hc : (c == '\r') = false := by
    cases hcc : (c == '\r') with
    | false => rfl
    | true =>
      exfalso
      simp only [nlLenL, hcc, ↓reduceIte] at h
      split at h
      · split at h <;> omega
      · omega
  have hn : (c == '\n') = false := by
    cases hcc : (c == '\n') with
    | false => rfl
    | true => exfalso; simp [nlLenL, hc, hcc] at h
  simp [splitNl, hc, hn]

/-- the first position at or after `pos` where the pattern matches -/
def nextNl (inp : Array Char) : Nat → Nat → Option Nat
  | 0, _ => none
  | f+1, pos => if nlAt inp pos ≠ 0 then some pos else if pos < inp.size then nextNl inp f (pos + 1) else none

theorem searchFrom_nl (inp : Array Char) : ∀ f pos,
    searchFrom inp nlRe 0 f pos =
      (nextNl inp f pos).map fun q => { start := q, stop := q + nlAt inp q, caps := [none] } := by
  intro f
  induction f with
  | zero => intro pos; simp [searchFrom, nextNl]
  | succ f ih =>
    intro pos
    unfold searchFrom nextNl
    rw [matchAt_nl]
    by_cases h : nlAt inp pos = 0
    · simp only [h, ↓reduceIte, ne_eq, not_true_eq_false]
      by_cases h2 : pos < inp.size
      · simp only [h2, ↓reduceIte]; exact ih (pos + 1)
      · simp [h2]
    · simp [h]

theorem nextNl_spec (s : Str) : ∀ f pos, pos ≤ s.length → f ≥ s.length - pos + 1 →
    match nextNl s.toArray f pos with
    | none => ∀ cur, splitNl false cur (s.drop pos) = [cur.reverse ++ s.drop pos]
    | some q => pos ≤ q ∧ q < s.length ∧ nlAt s.toArray q ≠ 0 ∧
        ∀ cur, splitNl false cur (s.drop pos) =
          (cur.reverse ++ slice s.toArray pos q) :: splitNl false [] (s.drop (q + nlAt s.toArray q)) := by
  intro f
  induction f with
  | zero => intro pos _ hf; omega
  | succ f ih =>
    intro pos hp hf
    unfold nextNl
    by_cases h : nlAt s.toArray pos = 0
    · simp only [h, ne_eq, not_true_eq_false, ↓reduceIte, List.size_toArray]
      by_cases h2 : pos < s.length
      · simp only [h2, ↓reduceIte]
        have e1 : s.drop pos = s[pos] :: s.drop (pos + 1) := List.drop_eq_getElem_cons h2
        have hz : nlLenL (s[pos] :: s.drop (pos + 1)) = 0 := by rw [← e1, ← nlAt_eq]; exact h
        have := ih (pos + 1) (by omega) (by omega)
        split at this
        · intro cur
          rw [e1, splitNl_plain _ _ _ hz, this]
          simp
        · next q =>
          obtain ⟨l1, l2, l3, l4⟩ := this
          refine ⟨by omega, l2, l3, ?_⟩
          intro cur
          rw [e1, splitNl_plain _ _ _ hz, l4]
          congr 1
          rw [← slice_append (Nat.le_succ pos) l1, slice_one (by simpa using h2)]
          simp
      · simp only [h2, ↓reduceIte]
        have e1 : s.drop pos = [] := List.drop_eq_nil_of_le (by omega)
        intro cur
        rw [e1]; simp [splitNl]
    · simp only [h, ne_eq, not_false_eq_true, ↓reduceIte]
      have hlt : pos < s.length := by
        cases Nat.lt_or_ge pos s.length with
        | inl hh => exact hh
        | inr hh =>
          exfalso; apply h
          unfold nlAt
          have : ¬ pos < s.toArray.size := by simp; omega
          rw [dif_neg this]
      refine ⟨Nat.le_refl _, hlt, (by simpa using h), ?_⟩
      intro cur
      have hz : nlLenL (s.drop pos) ≠ 0 := by rw [← nlAt_eq]; exact h
      rw [splitNl_at_nl _ _ hz, slice_self, List.append_nil, nlAt_eq, List.drop_drop]

theorem nlAt_le (s : Str) (q : Nat) (hq : q ≤ s.length) : q + nlAt s.toArray q ≤ s.length := by
  rw [nlAt_eq]
  have := nlLenL_le (s.drop q)
  simp only [List.length_drop] at this
  omega

/-- the lines `Pat.split` produces from position `pos` on -/
def outOf (x : List (Str × Match) × Str) : List Str := x.1.map (·.1) ++ [x.2]

theorem split_go (p : Pat) (hre : p.re = nlRe) (hng : p.ngroups = 0) (s : Str) :
    ∀ n pos fuel, s.length - pos = n → pos ≤ s.length → fuel ≥ n + 1 →
      outOf (Pat.pieces.go s.toArray pos (Pat.findAll.go p s.toArray fuel pos)) = splitNl false [] (s.drop pos) := by
  intro n
  induction n using Nat.strongRecOn with
  | _ n ih =>
    intro pos fuel hn hp hf
    cases fuel with
    | zero => omega
    | succ f =>
      unfold Pat.findAll.go
      have hgt : ¬ pos > s.toArray.size := by simp; omega
      rw [if_neg hgt]
      unfold Rx.search
      rw [hre, hng, searchFrom_nl]
      have hspec := nextNl_spec s (s.toArray.size + 2 - pos) pos hp (by simp; omega)
      split at hspec
      · next hnone =>
        rw [hnone]
        simp only [Option.map_none, Pat.pieces.go, outOf, List.map_nil, List.nil_append]
        rw [hspec []]
        simp only [List.reverse_nil, List.nil_append, List.cons.injEq, and_true]
        unfold slice
        simp only [List.extract_toArray, List.size_toArray, List.extract_eq_take_drop]
        exact List.take_of_length_le (by simp)
      · next q hsome =>
        rw [hsome]
        obtain ⟨l1, l2, l3, l4⟩ := hspec
        simp only [Option.map_some]
        have hlen : nlAt s.toArray q > 0 := Nat.pos_of_ne_zero l3
        have hstop : q + nlAt s.toArray q > q := by omega
        rw [if_pos hstop]
        unfold Pat.pieces.go
        simp only [Match.stop, Match.start, outOf, List.map_cons, List.cons_append]
        have hle := nlAt_le s q (Nat.le_of_lt l2)
        have := ih (s.length - (q + nlAt s.toArray q)) (by omega) (q + nlAt s.toArray q) f rfl hle (by omega)
        simp only [outOf] at this
        rw [this, l4 []]
        simp

/-- **`Pat.split` on the reader's pattern is `splitNl`.** -/
theorem split_eq_splitNl (p : Pat) (hre : p.re = nlRe) (hng : p.ngroups = 0) (s : Str) :
    p.split s = splitNl false [] s := by
  have := split_go p hre hng s s.length 0 (s.toArray.size + 2) (by simp) (Nat.zero_le _) (by simp)
  simp only [List.drop_zero] at this
  rw [← this]
  unfold Pat.split Pat.pieces Pat.findAll outOf
  rfl

/-- one terminator for another: CR LF and CR become LF -/
def toLF : Bool → Str → Str
  | _, [] => []
  | afterCR, c :: t =>
    if c == '\n' then (if afterCR then toLF false t else '\n' :: toLF false t)
    else if c == '\r' then '\n' :: toLF true t
    else c :: toLF false t

theorem splitNl_toLF : ∀ (t : Str) (b : Bool) (cur : Str), splitNl false cur (toLF b t) = splitNl b cur t := by
  intro t
  induction t with
  | nil => intro b cur; simp [toLF, splitNl]
  | cons c t ih =>
    intro b cur
    by_cases hn : (c == '\n') = true
    · cases b with
      | true => simp only [toLF, splitNl, hn, ↓reduceIte]; exact ih false cur
      | false =>
        simp only [toLF, splitNl, hn, ↓reduceIte, Bool.false_eq_true]
        have : ('\n' == '\n') = true := by decide
        simp only [this, ↓reduceIte]
        rw [ih false []]
    · have hn' : (c == '\n') = false := by simpa using hn
      by_cases hr : (c == '\r') = true
      · simp only [toLF, splitNl, hn', hr, ↓reduceIte, Bool.false_eq_true]
        have : ('\n' == '\n') = true := by decide
        simp only [this, ↓reduceIte]
        rw [ih true []]
      · have hr' : (c == '\r') = false := by simpa using hr
        simp only [toLF, splitNl, hn', hr', ↓reduceIte, Bool.false_eq_true]
        exact ih false (c :: cur)

end Rimu
