import RimuProofs.Regex.Analysis

/-!
# Static analysis: groups that take part in every match

`setsGroup i r`: every successful match of `r` sets group `i` (so `match[i]` is a string, never `None`).  Sound for
every regular expression and every input (`Matches.setsGroup`), lifted to `search` and `matchAt`.  The per-site facts
are evaluated on the regenerated patterns in `Facts.lean`: an edit of a pattern in `/repo` that makes a dereferenced
group optional stops the build.
-/

namespace Rx

/-- every successful match of the expression sets group `i` -/
def setsGroup (i : Nat) : Re → Bool
  | .seq a b => setsGroup i a || setsGroup i b
  | .alt a b => setsGroup i a && setsGroup i b
  | .grp j r => j == i || setsGroup i r
  | .rep r mn _ _ => decide (1 ≤ mn) && setsGroup i r
  | .look r => setsGroup i r
  | _ => false

/-- the same with the iteration count of the declarative semantics: a repeat that still owes iterations -/
def setsGroupAt (i : Nat) (r : Re) (n : Nat) : Bool :=
  match r with
  | .rep r' mn _ _ => decide (n < mn) && setsGroup i r'
  | r => setsGroup i r

theorem setsGroupAt_zero (i : Nat) (r : Re) : setsGroupAt i r 0 = setsGroup i r := by
  cases r <;> simp only [setsGroupAt, setsGroup]
  rfl

def IsSet (caps : Caps) (i : Nat) : Prop := ∃ v, caps.getD i none = some v

theorem Caps.length_set (c : Caps) (i : Nat) (v : Nat × Nat) : (Caps.set c i v).length = c.length := by
  unfold Caps.set; simp

theorem Matches.length_caps {inp : Array Char} {r n pos caps p c} (h : Matches inp r n pos caps p c) :
    c.length = caps.length := by
  induction h with
  | seq _ _ ih1 ih2 => rw [ih2, ih1]
  | grp _ ih => rw [Caps.length_set, ih]
  | repStep _ _ ih1 ih2 => rw [ih2, ih1]
  | altL _ ih => exact ih
  | altR _ ih => exact ih
  | look _ ih => exact ih
  | _ => rfl

theorem isSet_set_self {c : Caps} {i : Nat} {v : Nat × Nat} (h : i < c.length) : IsSet (Caps.set c i v) i := by
  refine ⟨v, ?_⟩
  unfold Caps.set
  simp [List.getD_eq_getElem?_getD, h]

theorem isSet_set_of {c : Caps} {i j : Nat} {v : Nat × Nat} (h : IsSet c i) : IsSet (Caps.set c j v) i := by
  obtain ⟨w, hw⟩ := h
  unfold Caps.set
  by_cases hji : j = i
  · subst hji
    by_cases hlt : j < c.length
    · exact ⟨v, by simp [List.getD_eq_getElem?_getD, hlt]⟩
    · have : List.set c j (some v) = c := by apply List.set_eq_of_length_le; omega
      rw [this]; exact ⟨w, hw⟩
  · refine ⟨w, ?_⟩
    have : (List.set c j (some v)).getD i none = c.getD i none := by
      simp [List.getD_eq_getElem?_getD, hji]
    rw [this]; exact hw

/-- a group that is set stays set -/
theorem Matches.isSet_mono {inp : Array Char} {r n pos caps p c} {i : Nat} (h : Matches inp r n pos caps p c)
    (hs : IsSet caps i) : IsSet c i := by
  induction h with
  | seq _ _ ih1 ih2 => exact ih2 (ih1 hs)
  | grp _ ih => exact isSet_set_of (ih hs)
  | repStep _ _ ih1 ih2 => exact ih2 (ih1 hs)
  | altL _ ih => exact ih hs
  | altR _ ih => exact ih hs
  | look _ ih => exact ih hs
  | _ => exact hs

/-- **Soundness**: a match of an expression that `setsGroup i` leaves group `i` set. -/
theorem Matches.setsGroup {inp : Array Char} {r n pos caps p c} {i : Nat} (h : Matches inp r n pos caps p c)
    (hr : setsGroupAt i r n = true) (hi : i < caps.length) : IsSet c i := by
  induction h with
  | eps => simp [setsGroupAt, Rx.setsGroup] at hr
  | chr _ _ => simp [setsGroupAt, Rx.setsGroup] at hr
  | @seq a pos caps p1 c1 b p2 c2 h1 h2 ih1 ih2 =>
    simp only [setsGroupAt, Rx.setsGroup, Bool.or_eq_true] at hr
    rcases hr with ha | hb
    · exact h2.isSet_mono (ih1 (by rw [setsGroupAt_zero]; exact ha) hi)
    · exact ih2 (by rw [setsGroupAt_zero]; exact hb) (by rw [h1.length_caps]; exact hi)
  | altL _ ih =>
    simp only [setsGroupAt, Rx.setsGroup, Bool.and_eq_true] at hr
    exact ih (by rw [setsGroupAt_zero]; exact hr.1) hi
  | altR _ ih =>
    simp only [setsGroupAt, Rx.setsGroup, Bool.and_eq_true] at hr
    exact ih (by rw [setsGroupAt_zero]; exact hr.2) hi
  | @grp r pos caps p c j hm ih =>
    simp only [setsGroupAt, Rx.setsGroup, Bool.or_eq_true, beq_iff_eq] at hr
    rcases hr with hj | hr
    · subst hj
      exact isSet_set_self (by rw [hm.length_caps]; exact hi)
    · exact isSet_set_of (ih (by rw [setsGroupAt_zero]; exact hr) hi)
  | repDone hle =>
    simp only [setsGroupAt, Bool.and_eq_true, decide_eq_true_eq] at hr
    omega
  | repStep h1 h2 ih1 _ =>
    simp only [setsGroupAt, Bool.and_eq_true, decide_eq_true_eq] at hr
    exact h2.isSet_mono (ih1 (by rw [setsGroupAt_zero]; exact hr.2) hi)
  | bol => simp [setsGroupAt, Rx.setsGroup] at hr
  | eol _ => simp [setsGroupAt, Rx.setsGroup] at hr
  | mbol _ => simp [setsGroupAt, Rx.setsGroup] at hr
  | meol _ => simp [setsGroupAt, Rx.setsGroup] at hr
  | eos => simp [setsGroupAt, Rx.setsGroup] at hr
  | bref _ _ => simp [setsGroupAt, Rx.setsGroup] at hr
  | look _ ih =>
    simp only [setsGroupAt, Rx.setsGroup] at hr
    exact ih (by rw [setsGroupAt_zero]; exact hr) hi
  | nlook => simp [setsGroupAt, Rx.setsGroup] at hr
  | wordb _ => simp [setsGroupAt, Rx.setsGroup] at hr

theorem group_of_isSet {mr : MatchRes} {inp : Array Char} {i : Nat} (h : IsSet mr.caps i) :
    ∃ g, mr.group inp i = some g := by
  unfold MatchRes.group MatchRes.span
  by_cases h0 : i = 0
  · simp [h0]
  · obtain ⟨⟨a, b⟩, hv⟩ := h
    simp only [h0, if_false, hv]
    exact ⟨_, rfl⟩

/-- **After `pattern.search`, a group that `setsGroup` is a string.** -/
theorem search_group_some {inp : Array Char} {r : Re} {n start i : Nat} {mr : MatchRes}
    (hs : start ≤ inp.size) (h : search inp r n start = some mr) (hr : setsGroup i r = true) (hi : i ≤ n) :
    ∃ g, mr.group inp i = some g := by
  obtain ⟨_, _, _, hM⟩ := search_sound hs h
  exact group_of_isSet (hM.setsGroup (by rw [setsGroupAt_zero]; exact hr) (by simp; omega))

/-- ... and after `pattern.match`. -/
theorem matchAt_group_some {inp : Array Char} {r : Re} {n pos i : Nat} {mr : MatchRes}
    (h : matchAt inp r n pos = some mr) (hr : setsGroup i r = true) (hi : i ≤ n) :
    ∃ g, mr.group inp i = some g := by
  obtain ⟨_, hM⟩ := matchAt_sound h
  exact group_of_isSet (hM.setsGroup (by rw [setsGroupAt_zero]; exact hr) (by simp; omega))

end Rx

namespace Rx

/-! ## Groups that are set together -/

/-- the expression contains a `grp i` node -/
def mentions (i : Nat) : Re → Bool
  | .seq a b => mentions i a || mentions i b
  | .alt a b => mentions i a || mentions i b
  | .grp j r => j == i || mentions i r
  | .rep r _ _ _ => mentions i r
  | .look r => mentions i r
  | _ => false

/-- in every match, if group `i` is set at the end (and `i set → j set` held at the start) then group `j` is set -/
def coSets (i j : Nat) (r : Re) : Bool :=
  !mentions i r || setsGroup j r ||
    match r with
    | .seq a b => coSets i j a && coSets i j b
    | .alt a b => coSets i j a && coSets i j b
    | .grp k r => k != i && coSets i j r
    | .rep r _ _ _ => coSets i j r
    | .look r => coSets i j r
    | _ => false

theorem getD_set_ne {c : Caps} {i k : Nat} {v : Nat × Nat} (h : k ≠ i) : (Caps.set c k v).getD i none = c.getD i none := by
  unfold Caps.set
  simp [List.getD_eq_getElem?_getD, h]

/-- a group that the expression does not mention is left as it was -/
theorem Matches.unmentioned {inp : Array Char} {r n pos caps p c} {i : Nat} (h : Matches inp r n pos caps p c)
    (hr : mentions i r = false) : c.getD i none = caps.getD i none := by
  induction h with
  | seq _ _ ih1 ih2 =>
    simp only [mentions, Bool.or_eq_false_iff] at hr
    rw [ih2 hr.2, ih1 hr.1]
  | altL _ ih => simp only [mentions, Bool.or_eq_false_iff] at hr; exact ih hr.1
  | altR _ ih => simp only [mentions, Bool.or_eq_false_iff] at hr; exact ih hr.2
  | grp _ ih =>
    simp only [mentions, Bool.or_eq_false_iff, beq_eq_false_iff_ne, ne_eq] at hr
    rw [getD_set_ne hr.1, ih hr.2]
  | repStep _ _ ih1 ih2 =>
    rw [ih2 hr, ih1 (by simpa [mentions] using hr)]
  | look _ ih => exact ih (by simpa [mentions] using hr)
  | _ => rfl

theorem Matches.coSets {inp : Array Char} {r n pos caps p c} {i j : Nat} (h : Matches inp r n pos caps p c)
    (hr : coSets i j r = true) (hj : j < caps.length) (himp : IsSet caps i → IsSet caps j) :
    IsSet c i → IsSet c j := by
  induction h with
  | eps => exact himp
  | chr _ _ => exact himp
  | bol => exact himp
  | eol _ => exact himp
  | mbol _ => exact himp
  | meol _ => exact himp
  | eos => exact himp
  | bref _ _ => exact himp
  | nlook => exact himp
  | wordb _ => exact himp
  | repDone _ => exact himp
  | @seq a pos caps p1 c1 b p2 c2 h1 h2 ih1 ih2 =>
    unfold Rx.coSets at hr
    simp only [Bool.or_eq_true, Bool.not_eq_true', Bool.and_eq_true] at hr
    rcases hr with (hm | hs) | hc
    · intro hi
      have hu := (Matches.seq h1 h2).unmentioned hm
      exact (Matches.seq h1 h2).isSet_mono (himp (by obtain ⟨v, hv⟩ := hi; exact ⟨v, by rw [← hu]; exact hv⟩))
    · intro _
      exact (Matches.seq h1 h2).setsGroup (by rw [setsGroupAt_zero]; exact hs) hj
    · exact ih2 hc.2 (by rw [h1.length_caps]; exact hj) (ih1 hc.1 hj himp)
  | @altL a pos caps p c b h1 ih =>
    unfold Rx.coSets at hr
    simp only [Bool.or_eq_true, Bool.not_eq_true', Bool.and_eq_true] at hr
    rcases hr with (hm | hs) | hc
    · intro hi
      have hu := (Matches.altL (b := b) h1).unmentioned hm
      exact h1.isSet_mono (himp (by obtain ⟨v, hv⟩ := hi; exact ⟨v, by rw [← hu]; exact hv⟩))
    · intro _
      exact (Matches.altL (b := b) h1).setsGroup (by rw [setsGroupAt_zero]; exact hs) hj
    · exact ih hc.1 hj himp
  | @altR b pos caps p c a h1 ih =>
    unfold Rx.coSets at hr
    simp only [Bool.or_eq_true, Bool.not_eq_true', Bool.and_eq_true] at hr
    rcases hr with (hm | hs) | hc
    · intro hi
      have hu := (Matches.altR (a := a) h1).unmentioned hm
      exact h1.isSet_mono (himp (by obtain ⟨v, hv⟩ := hi; exact ⟨v, by rw [← hu]; exact hv⟩))
    · intro _
      exact (Matches.altR (a := a) h1).setsGroup (by rw [setsGroupAt_zero]; exact hs) hj
    · exact ih hc.2 hj himp
  | @grp r pos caps p c k h1 ih =>
    unfold Rx.coSets at hr
    simp only [Bool.or_eq_true, Bool.not_eq_true', Bool.and_eq_true, bne_iff_ne, ne_eq] at hr
    rcases hr with (hm | hs) | hc
    · intro hi
      have hu := (Matches.grp (i := k) h1).unmentioned hm
      exact (Matches.grp (i := k) h1).isSet_mono (himp (by obtain ⟨v, hv⟩ := hi; exact ⟨v, by rw [← hu]; exact hv⟩))
    · intro _
      exact (Matches.grp (i := k) h1).setsGroup (by rw [setsGroupAt_zero]; exact hs) hj
    · intro hi
      have hi' : IsSet c i := by
        obtain ⟨v, hv⟩ := hi
        exact ⟨v, by rw [← getD_set_ne hc.1]; exact hv⟩
      exact isSet_set_of (ih hc.2 hj himp hi')
  | @repStep r pos caps p1 c1 mn mx g cnt p2 c2 h1 h2 ih1 ih2 =>
    -- the hypothesis on the repeat is about its body; the count plays no role
    have hbody : Rx.coSets i j (.rep r mn mx g) = true := hr
    unfold Rx.coSets at hr
    simp only [Bool.or_eq_true, Bool.not_eq_true', Bool.and_eq_true] at hr
    rcases hr with (hm | hs) | hc
    · intro hi
      have hu := (Matches.repStep h1 h2).unmentioned hm
      exact (Matches.repStep h1 h2).isSet_mono (himp (by obtain ⟨v, hv⟩ := hi; exact ⟨v, by rw [← hu]; exact hv⟩))
    · -- setsGroup j (rep ..) needs an owed iteration; fall back on the body: one iteration was made
      simp only [Rx.setsGroup, Bool.and_eq_true, decide_eq_true_eq] at hs
      intro _
      exact h2.isSet_mono (h1.setsGroup (by rw [setsGroupAt_zero]; exact hs.2) hj)
    · exact ih2 hbody (by rw [h1.length_caps]; exact hj) (ih1 hc hj himp)
  | @look r pos caps p c h1 ih =>
    unfold Rx.coSets at hr
    simp only [Bool.or_eq_true, Bool.not_eq_true', Bool.and_eq_true] at hr
    rcases hr with (hm | hs) | hc
    · intro hi
      have hu := (Matches.look h1).unmentioned hm
      exact h1.isSet_mono (himp (by obtain ⟨v, hv⟩ := hi; exact ⟨v, by rw [← hu]; exact hv⟩))
    · intro _
      exact (Matches.look h1).setsGroup (by rw [setsGroupAt_zero]; exact hs) hj
    · exact ih hc hj himp

end Rx
