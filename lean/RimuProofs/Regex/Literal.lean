import RimuProofs.Regex.GroupProp
import RimuProofs.Lemmas.Groups
import RimuModel.Inline

/-!
# Literal alternations

`altsRe qs` (the `'|'.join(quotes)` of `quotes.initializeRegExps`, with every quote escaped) matches exactly one of the
strings of `qs` - for the declarative semantics, hence for whatever the matcher returns.
-/

namespace Rimu
open Rx

theorem slice_append {inp : Array Char} {a b c : Nat} (hab : a ≤ b) (hbc : b ≤ c) :
    slice inp a b ++ slice inp b c = slice inp a c := by
  unfold slice
  rw [← Array.toList_append]
  congr 1
  exact Array.extract_append_extract |>.trans (by simp [Nat.min_eq_left hab, Nat.max_eq_right hbc])

theorem slice_self (inp : Array Char) (a : Nat) : slice inp a a = [] := by
  unfold slice; simp

theorem slice_one {inp : Array Char} {a : Nat} (h : a < inp.size) : slice inp a (a + 1) = [inp[a]] := by
  unfold slice
  apply List.ext_getElem
  · simp; omega
  · intro i h1 h2
    simp at h1
    have : i = 0 := by omega
    subst this
    simp

theorem single_mem {c ch : Char} (h : CSet.mem ⟨[(c.toNat, c.toNat)], false⟩ ch = true) : ch = c := by
  unfold CSet.mem inRanges inRanges at h
  simp at h
  have : ch.toNat = c.toNat := by omega
  exact Char.toNat_inj.mp this |> fun h => h

theorem litRe_matches {inp : Array Char} : ∀ (q : Str) {n pos caps p c},
    Matches inp (litRe q) n pos caps p c → pos ≤ inp.size → slice inp pos p = q ∧ pos ≤ p ∧ p ≤ inp.size := by
  intro q
  induction q with
  | nil =>
    intro n pos caps p c h hp
    unfold litRe at h
    cases h
    exact ⟨slice_self _ _, Nat.le_refl _, hp⟩
  | cons ch rest ih =>
    intro n pos caps p c h hp
    cases rest with
    | nil =>
      unfold litRe at h
      cases h with
      | chr hlt hm =>
        refine ⟨?_, Nat.le_succ _, hlt⟩
        rw [slice_one hlt, single_mem hm]
    | cons c2 r2 =>
      unfold litRe at h
      cases h with
      | seq h1 h2 =>
        cases h1 with
        | chr hlt hm =>
          obtain ⟨e, l1, l2⟩ := ih h2 hlt
          refine ⟨?_, by omega, l2⟩
          rw [← slice_append (Nat.le_succ _) l1, slice_one hlt, single_mem hm, e]
          rfl

theorem altsRe_matches {inp : Array Char} : ∀ (qs : List Str), qs ≠ [] → ∀ {n pos caps p c},
    Matches inp (altsRe qs) n pos caps p c → pos ≤ inp.size → slice inp pos p ∈ qs := by
  intro qs
  induction qs with
  | nil => intro h; exact absurd rfl h
  | cons q rest ih =>
    intro _ n pos caps p c h hp
    cases rest with
    | nil =>
      unfold altsRe at h
      rw [(litRe_matches q h hp).1]
      exact List.mem_cons_self
    | cons q2 r2 =>
      unfold altsRe at h
      cases h with
      | altL h1 => rw [(litRe_matches q h1 hp).1]; exact List.mem_cons_self
      | altR h2 => exact List.mem_cons_of_mem _ (ih (by simp) h2 hp)

end Rimu

namespace Rimu
open Rx

theorem groupAll_litRe (chk : Re → Bool) (i : Nat) : ∀ q : Str, groupAll chk i (litRe q) = true := by
  intro q
  induction q with
  | nil => rfl
  | cons c rest ih =>
    cases rest with
    | nil => rfl
    | cons c2 r2 => unfold litRe; simp only [groupAll, Bool.and_eq_true]; exact ⟨trivial, ih⟩

theorem groupAll_altsRe (chk : Re → Bool) (i : Nat) : ∀ qs : List Str, groupAll chk i (altsRe qs) = true := by
  intro qs
  induction qs with
  | nil => rfl
  | cons q rest ih =>
    cases rest with
    | nil => unfold altsRe; exact groupAll_litRe chk i q
    | cons q2 r2 => unfold altsRe; simp only [groupAll, Bool.and_eq_true]; exact ⟨groupAll_litRe chk i q, ih⟩

/-- **The delimiter that the quote pattern captures is one of the quotes of the table.** -/
theorem quote_in_table (defs : List QuoteDef) (hne : defs ≠ []) {mt : Match} (hm : mt.Of (quotesRe defs)) {q : Str}
    (hg : mt.res.group mt.inp 1 = some q) : q ∈ defs.map (·.quote) := by
  obtain ⟨_, hM, hst⟩ := hm
  have hqs : defs.map (·.quote) ≠ [] := by simpa using hne
  have hr : groupAll (fun body => body == altsRe (defs.map (·.quote))) 1 (quotesRe defs).re = true := by
    have h1 := groupAll_altsRe (fun body => body == altsRe (defs.map (·.quote))) 1 (defs.map (·.quote))
    simp [quotesRe, Gen.P.quotesReOf, groupAll, h1]
  have hsat := hM.capSat (P := fun a b => slice mt.inp a b ∈ defs.map (·.quote))
    (chk := fun body => body == altsRe (defs.map (·.quote))) (i := 1)
    (fun body pos caps p c hc hp hmm => by
      have : body = altsRe (defs.map (·.quote)) := by simpa using hc
      subst this
      exact altsRe_matches _ hqs hmm hp)
    hst hr (capSat_init _ _ _)
  obtain ⟨a, b, hab, rfl⟩ := group_span (by decide) hg
  exact hsat a b hab

/-- ... hence its definition is found -/
theorem quote_definition_found (defs : List QuoteDef) (hne : defs ≠ []) {mt : Match} (hm : mt.Of (quotesRe defs)) {q : Str}
    (hg : mt.res.group mt.inp 1 = some q) : ∃ d, quotesGetDefinition defs q = some d ∧ d ∈ defs ∧ d.quote = q := by
  have hin := quote_in_table defs hne hm hg
  rw [List.mem_map] at hin
  obtain ⟨d0, hd0, hq0⟩ := hin
  unfold quotesGetDefinition
  have hsome : (defs.find? (fun x => x.quote == q)).isSome = true := by
    rw [List.find?_isSome]
    exact ⟨d0, hd0, by simp [hq0]⟩
  obtain ⟨d, hd⟩ := Option.isSome_iff_exists.mp hsome
  refine ⟨d, hd, List.mem_of_find?_eq_some hd, ?_⟩
  have := List.find?_some hd
  simpa using this

end Rimu
