import RimuProofs.Lemmas.Eqns
import RimuModel.Regex

/-!
# Declarative semantics of the matcher and soundness

`Matches inp r pos caps pos' caps'`: regex `r` can consume `inp[pos, pos')` turning the group table `caps`
into `caps'`.  `m_sound`: whenever the backtracking matcher returns a result through continuation `k`, there is a
declarative match whose end state `k` accepted.  Everything the proofs need to know about what a successful
`search` returned is derived from `Matches` by induction (bounds, minimum length, group alphabets).
-/

namespace Rx

/-- The extra `Nat` index is the number of iterations already made (meaningful for `.rep` only, 0 elsewhere); it
    lets `repDone` require that the minimum count was reached. -/
inductive Matches (inp : Array Char) : Re → Nat → Nat → Caps → Nat → Caps → Prop where
  | eps : Matches inp .eps 0 pos caps pos caps
  | chr (h : pos < inp.size) (hm : s.mem inp[pos] = true) : Matches inp (.chr s) 0 pos caps (pos+1) caps
  | seq : Matches inp a 0 pos caps p1 c1 → Matches inp b 0 p1 c1 p2 c2 → Matches inp (.seq a b) 0 pos caps p2 c2
  | altL : Matches inp a 0 pos caps p c → Matches inp (.alt a b) 0 pos caps p c
  | altR : Matches inp b 0 pos caps p c → Matches inp (.alt a b) 0 pos caps p c
  | grp : Matches inp r 0 pos caps p c → Matches inp (.grp i r) 0 pos caps p (Caps.set c i (pos, p))
  | repDone (h : mn ≤ cnt) : Matches inp (.rep r mn mx g) cnt pos caps pos caps
  | repStep : Matches inp r 0 pos caps p1 c1 → Matches inp (.rep r mn mx g) (cnt+1) p1 c1 p2 c2 →
      Matches inp (.rep r mn mx g) cnt pos caps p2 c2
  | bol : Matches inp .bol 0 0 caps 0 caps
  | eol (h : (pos == inp.size || (pos + 1 == inp.size && isNl inp pos)) = true) : Matches inp .eol 0 pos caps pos caps
  | mbol (h : (pos == 0 || isNl inp (pos - 1)) = true) : Matches inp .mbol 0 pos caps pos caps
  | meol (h : (pos == inp.size || isNl inp pos) = true) : Matches inp .meol 0 pos caps pos caps
  | eos : Matches inp .eos 0 inp.size caps inp.size caps
  | bref (h : caps.getD i none = some (a, b)) (hm : matchLit inp (slice inp a b) pos = true) :
      Matches inp (.bref i) 0 pos caps (pos + (slice inp a b).length) caps
  | look : Matches inp r 0 pos caps p c → Matches inp (.look r) 0 pos caps pos c
  | nlook : Matches inp (.nlook r) 0 pos caps pos caps
  | wordb (h : (atBoundary w inp pos != neg) = true) : Matches inp (.wordb w neg) 0 pos caps pos caps

/-- A matcher `f` is sound for regex `r`. -/
def SoundFor (inp : Array Char) (f : M) (r : Re) : Prop :=
  ∀ k pos caps res, f k pos caps = some res →
    ∃ p c, Matches inp r 0 pos caps p c ∧ k p c = some res

theorem repM_sound (inp : Array Char) (body : M) (r : Re) (hb : SoundFor inp body r)
    (mn : Nat) (mx : Option Nat) (g : Bool) :
    ∀ fuel cnt k pos caps res, repM body mn mx g fuel cnt k pos caps = some res →
      ∃ p c, Matches inp (.rep r mn mx g) cnt pos caps p c ∧ k p c = some res := by
  intro fuel
  induction fuel with
  | zero => intro cnt k pos caps res h; simp [repM] at h
  | succ fuel ih =>
    intro cnt k pos caps res h
    have more_sound : ∀ res,
        body (fun p c => if (cnt ≥ mn && p ≤ pos) = true then none
                         else repM body mn mx g fuel (cnt+1) k p c) pos caps = some res →
        ∃ p c, Matches inp (.rep r mn mx g) cnt pos caps p c ∧ k p c = some res := by
      intro res hm
      obtain ⟨p1, c1, hm1, hk1⟩ := hb _ _ _ _ hm
      split at hk1
      · cases hk1
      · obtain ⟨p2, c2, hm2, hk2⟩ := ih _ _ _ _ _ hk1
        exact ⟨p2, c2, .repStep hm1 hm2, hk2⟩
    have done_sound : mn ≤ cnt → ∀ res, k pos caps = some res →
        ∃ p c, Matches inp (.rep r mn mx g) cnt pos caps p c ∧ k p c = some res :=
      fun hc res hk => ⟨pos, caps, .repDone hc, hk⟩
    unfold repM at h
    simp only at h
    cases mx with
    | none =>
      simp only at h
      split at h
      · exact more_sound _ h
      · next hlt =>
        have hge : mn ≤ cnt := by omega
        split at h
        · split at h
          · next r' hr' => cases h; exact more_sound _ hr'
          · exact done_sound hge _ h
        · split at h
          · next r' hr' => cases h; exact done_sound hge _ hr'
          · exact more_sound _ h
    | some m' =>
      simp only at h
      by_cases hc : cnt ≥ m'
      · simp only [hc, if_true] at h
        split at h
        · cases h
        · next hlt =>
          have hge : mn ≤ cnt := by omega
          split at h
          · exact done_sound hge _ h
          · split at h
            · next r' hr' => cases h; exact done_sound hge _ hr'
            · cases h
      · simp only [hc, if_false] at h
        split at h
        · exact more_sound _ h
        · next hlt =>
          have hge : mn ≤ cnt := by omega
          split at h
          · split at h
            · next r' hr' => cases h; exact more_sound _ hr'
            · exact done_sound hge _ h
          · split at h
            · next r' hr' => cases h; exact done_sound hge _ hr'
            · exact more_sound _ h

theorem m_sound (inp : Array Char) : ∀ r, SoundFor inp (m inp r) r := by
  intro r
  induction r with
  | eps => intro k pos caps res h; exact ⟨pos, caps, .eps, by simpa [m] using h⟩
  | chr s =>
    intro k pos caps res h
    simp only [m] at h
    split at h
    · next hlt =>
      split at h
      · next hm => exact ⟨pos+1, caps, .chr hlt hm, h⟩
      · cases h
    · cases h
  | seq a b iha ihb =>
    intro k pos caps res h
    simp only [m] at h
    obtain ⟨p1, c1, h1, hk1⟩ := iha _ _ _ _ h
    obtain ⟨p2, c2, h2, hk2⟩ := ihb _ _ _ _ hk1
    exact ⟨p2, c2, .seq h1 h2, hk2⟩
  | alt a b iha ihb =>
    intro k pos caps res h
    simp only [m] at h
    split at h
    · next r' hr' =>
      cases h
      obtain ⟨p, c, h1, hk⟩ := iha _ _ _ _ hr'
      exact ⟨p, c, .altL h1, hk⟩
    · obtain ⟨p, c, h1, hk⟩ := ihb _ _ _ _ h
      exact ⟨p, c, .altR h1, hk⟩
  | grp i r ih =>
    intro k pos caps res h
    simp only [m] at h
    obtain ⟨p, c, h1, hk⟩ := ih _ _ _ _ h
    exact ⟨p, _, .grp h1, hk⟩
  | rep r mn mx g ih =>
    intro k pos caps res h
    simp only [m] at h
    exact repM_sound inp _ r ih mn mx g _ _ _ _ _ _ h
  | bol =>
    intro k pos caps res h
    simp only [m] at h
    split at h
    · next hp => simp at hp; subst hp; exact ⟨0, caps, .bol, h⟩
    · cases h
  | eol =>
    intro k pos caps res h
    simp only [m] at h
    split at h
    · next hp => exact ⟨pos, caps, .eol hp, h⟩
    · cases h
  | mbol =>
    intro k pos caps res h
    simp only [m] at h
    split at h
    · next hp => exact ⟨pos, caps, .mbol hp, h⟩
    · cases h
  | meol =>
    intro k pos caps res h
    simp only [m] at h
    split at h
    · next hp => exact ⟨pos, caps, .meol hp, h⟩
    · cases h
  | eos =>
    intro k pos caps res h
    simp only [m] at h
    split at h
    · next hp => simp at hp; subst hp; exact ⟨_, caps, .eos, h⟩
    · cases h
  | bref i =>
    intro k pos caps res h
    simp only [m] at h
    split at h
    · next a b hab =>
      split at h
      · next hm => exact ⟨_, caps, .bref hab hm, h⟩
      · cases h
    · cases h
  | look r ih =>
    intro k pos caps res h
    simp only [m] at h
    split at h
    · next p0 c0 hr =>
      obtain ⟨p', c', h1, hk⟩ := ih _ _ _ _ hr
      simp at hk
      obtain ⟨rfl, rfl⟩ := hk
      exact ⟨pos, c', .look h1, h⟩
    · cases h
  | nlook r _ =>
    intro k pos caps res h
    simp only [m] at h
    split at h
    · cases h
    · exact ⟨pos, caps, .nlook, h⟩
  | wordb w neg =>
    intro k pos caps res h
    simp only [m] at h
    split at h
    · next hp => exact ⟨pos, caps, .wordb hp, h⟩
    · cases h

/-- Positions are monotone and in bounds. -/
theorem Matches.bounds {inp : Array Char} {r n pos caps p c} (h : Matches inp r n pos caps p c)
    (hp : pos ≤ inp.size) : pos ≤ p ∧ p ≤ inp.size := by
  induction h with
  | eps => exact ⟨Nat.le_refl _, hp⟩
  | chr h _ => exact ⟨Nat.le_succ _, h⟩
  | seq _ _ ih1 ih2 =>
    have := ih1 hp; have := ih2 this.2; omega
  | altL _ ih => exact ih hp
  | altR _ ih => exact ih hp
  | grp _ ih => exact ih hp
  | repDone _ => exact ⟨Nat.le_refl _, hp⟩
  | repStep _ _ ih1 ih2 => have := ih1 hp; have := ih2 this.2; omega
  | bol => exact ⟨Nat.le_refl _, hp⟩
  | eol _ => exact ⟨Nat.le_refl _, hp⟩
  | mbol _ => exact ⟨Nat.le_refl _, hp⟩
  | meol _ => exact ⟨Nat.le_refl _, hp⟩
  | eos => exact ⟨Nat.le_refl _, hp⟩
  | @bref caps i a b pos h hm =>
    refine ⟨Nat.le_add_right _ _, ?_⟩
    simp only [matchLit, slice] at hm ⊢
    have := congrArg List.length (eq_of_beq hm)
    simp at this ⊢
    omega
  | look _ _ => exact ⟨Nat.le_refl _, hp⟩
  | nlook => exact ⟨Nat.le_refl _, hp⟩
  | wordb _ => exact ⟨Nat.le_refl _, hp⟩

/-- What a successful `matchAt` returned is a declarative match from the empty group table. -/
theorem matchAt_sound {inp : Array Char} {r : Re} {n pos : Nat} {mr : MatchRes}
    (h : matchAt inp r n pos = some mr) :
    mr.start = pos ∧ Matches inp r 0 pos (List.replicate (n+1) none) mr.stop mr.caps := by
  unfold matchAt at h
  split at h
  · next e c hm =>
    cases h
    obtain ⟨p, c', hM, hk⟩ := m_sound inp r _ _ _ _ hm
    simp at hk
    obtain ⟨rfl, rfl⟩ := hk
    exact ⟨rfl, hM⟩
  · cases h

theorem searchFrom_sound {inp : Array Char} {r : Re} {n : Nat} :
    ∀ fuel pos mr, pos ≤ inp.size → searchFrom inp r n fuel pos = some mr →
      pos ≤ mr.start ∧ mr.start ≤ inp.size ∧ Matches inp r 0 mr.start (List.replicate (n+1) none) mr.stop mr.caps := by
  intro fuel
  induction fuel with
  | zero => intro pos mr _ h; simp [searchFrom] at h
  | succ fuel ih =>
    intro pos mr hp h
    unfold searchFrom at h
    split at h
    · next res hres =>
      cases h
      obtain ⟨hs, hM⟩ := matchAt_sound hres
      exact ⟨by omega, by omega, by rw [hs]; exact hM⟩
    · split at h
      · next hlt =>
        obtain ⟨h1, h2, h3⟩ := ih _ _ (by omega) h
        exact ⟨by omega, h2, h3⟩
      · cases h

/-- **What `pattern.search(text, start)` returns**: a declarative match that starts at or after `start`, inside the
    text, and ends inside the text. -/
theorem search_sound {inp : Array Char} {r : Re} {n start : Nat} {mr : MatchRes} (hs : start ≤ inp.size)
    (h : search inp r n start = some mr) :
    start ≤ mr.start ∧ mr.start ≤ mr.stop ∧ mr.stop ≤ inp.size ∧
      Matches inp r 0 mr.start (List.replicate (n+1) none) mr.stop mr.caps := by
  obtain ⟨h1, h2, h3⟩ := searchFrom_sound _ _ _ hs h
  have := h3.bounds h2
  exact ⟨h1, this.1, this.2, h3⟩

end Rx
