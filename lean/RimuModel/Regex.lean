/-!
# A backtracking regular-expression matcher with Python `re` (sre) semantics

Continuation-passing, structurally recursive on the syntax tree; repetition recurses on an
explicit fuel.  Ordered alternation, greedy / lazy quantifiers, capture groups restored on
backtracking, back-references, look-ahead, `^`/`$` with and without MULTILINE.

Core Lean only (no imports), so that the driver links as a native executable.
-/

namespace Rx

/-- A resolved character set: code-point ranges (inclusive), possibly negated. -/
structure CSet where
  ranges : List (Nat × Nat)
  neg : Bool := false
deriving Repr, DecidableEq, Inhabited

/-- Membership in a list of ranges sorted by lower bound (the translator emits them sorted and
    merged); the scan stops at the first range that starts beyond `n`. -/
def inRanges (n : Nat) : List (Nat × Nat) → Bool
  | [] => false
  | (lo, hi) :: rest => if n < lo then false else (n ≤ hi || inRanges n rest)

def CSet.mem (s : CSet) (c : Char) : Bool :=
  inRanges c.toNat s.ranges != s.neg

inductive Re where
  | eps
  | chr (s : CSet)
  | seq (a b : Re)
  | alt (a b : Re)
  | grp (i : Nat) (r : Re)
  | rep (r : Re) (min : Nat) (max : Option Nat) (greedy : Bool)
  | bol                      -- `^` without MULTILINE, `\A`
  | eol                      -- `$` without MULTILINE: at end, or before a final `\n`
  | mbol                     -- `^` with MULTILINE
  | meol                     -- `$` with MULTILINE
  | eos                      -- `\Z`
  | bref (i : Nat)
  | look (r : Re)
  | nlook (r : Re)
  | wordb (w : CSet) (neg : Bool)   -- `\b` / `\B`; `w` is the word-character set
deriving Repr, Inhabited, DecidableEq

abbrev Caps := List (Option (Nat × Nat))

def Caps.set (c : Caps) (i : Nat) (v : Nat × Nat) : Caps := List.set c i (some v)

abbrev Res := Nat × Caps
abbrev K := Nat → Caps → Option Res
abbrev M := K → Nat → Caps → Option Res

/-- Repeat combinator; `fuel` bounds the number of iterations.  An iteration beyond `min` must
    advance (sre's guard against looping on empty matches). -/
def repM (body : M) (min : Nat) (max : Option Nat) (greedy : Bool) : Nat → Nat → M
  | 0, _, _, _, _ => none
  | fuel+1, cnt, k, pos, caps =>
    let more : Unit → Option Res := fun _ =>
      match max with
      | some m => if cnt ≥ m then none else
          body (fun p c => if cnt ≥ min && p ≤ pos then none else repM body min max greedy fuel (cnt+1) k p c) pos caps
      | none =>
          body (fun p c => if cnt ≥ min && p ≤ pos then none else repM body min max greedy fuel (cnt+1) k p c) pos caps
    if cnt < min then more ()
    else if greedy then
      match more () with
      | some r => some r
      | none => k pos caps
    else
      match k pos caps with
      | some r => some r
      | none => more ()

def slice (inp : Array Char) (a b : Nat) : List Char := (inp.extract a b).toList

def matchLit (inp : Array Char) (lit : List Char) (pos : Nat) : Bool :=
  slice inp pos (pos + lit.length) == lit

def isNl (inp : Array Char) (i : Nat) : Bool :=
  if h : i < inp.size then inp[i] == '\n' else false

def isWordAt (w : CSet) (inp : Array Char) (i : Nat) : Bool :=
  if h : i < inp.size then w.mem inp[i] else false

/-- `\b` holds at `pos` iff exactly one of the neighbours is a word character. -/
def atBoundary (w : CSet) (inp : Array Char) (pos : Nat) : Bool :=
  let before := if pos = 0 then false else isWordAt w inp (pos - 1)
  let after := isWordAt w inp pos
  before != after

def m (inp : Array Char) : Re → M
  | .eps, k, pos, caps => k pos caps
  | .chr s, k, pos, caps =>
      if h : pos < inp.size then
        if s.mem inp[pos] then k (pos+1) caps else none
      else none
  | .seq a b, k, pos, caps => m inp a (fun p c => m inp b k p c) pos caps
  | .alt a b, k, pos, caps =>
      match m inp a k pos caps with
      | some r => some r
      | none => m inp b k pos caps
  | .grp i r, k, pos, caps => m inp r (fun p c => k p (Caps.set c i (pos, p))) pos caps
  | .rep r mn mx g, k, pos, caps => repM (m inp r) mn mx g (inp.size + mn + 2) 0 k pos caps
  | .bol, k, pos, caps => if pos == 0 then k pos caps else none
  | .eol, k, pos, caps =>
      if pos == inp.size || (pos + 1 == inp.size && isNl inp pos) then k pos caps else none
  | .mbol, k, pos, caps => if pos == 0 || isNl inp (pos - 1) then k pos caps else none
  | .meol, k, pos, caps => if pos == inp.size || isNl inp pos then k pos caps else none
  | .eos, k, pos, caps => if pos == inp.size then k pos caps else none
  | .bref i, k, pos, caps =>
      match caps.getD i none with
      | some (a, b) =>
          let lit := slice inp a b
          if matchLit inp lit pos then k (pos + lit.length) caps else none
      | none => none
  | .look r, k, pos, caps =>
      match m inp r (fun p c => some (p, c)) pos caps with
      | some (_, c) => k pos c
      | none => none
  | .nlook r, k, pos, caps =>
      match m inp r (fun p c => some (p, c)) pos caps with
      | some _ => none
      | none => k pos caps
  | .wordb w neg, k, pos, caps =>
      if atBoundary w inp pos != neg then k pos caps else none

/-- A successful match: overall span and the group table (index 0 unused, groups from 1). -/
structure MatchRes where
  start : Nat
  stop : Nat
  caps : Caps
deriving Repr, Inhabited

def matchAt (inp : Array Char) (r : Re) (ngroups : Nat) (pos : Nat) : Option MatchRes :=
  match m inp r (fun p c => some (p, c)) pos (List.replicate (ngroups+1) none) with
  | some (e, c) => some { start := pos, stop := e, caps := c }
  | none => none

def searchFrom (inp : Array Char) (r : Re) (ngroups : Nat) : Nat → Nat → Option MatchRes
  | 0, _ => none
  | fuel+1, pos =>
    match matchAt inp r ngroups pos with
    | some res => some res
    | none => if pos < inp.size then searchFrom inp r ngroups fuel (pos+1) else none

/-- `pattern.search(text, start)`. -/
def search (inp : Array Char) (r : Re) (ngroups : Nat) (start : Nat := 0) : Option MatchRes :=
  searchFrom inp r ngroups (inp.size + 2 - start) start

/-- Span of group `i` (`0` is the whole match); `none` when the group did not participate. -/
def MatchRes.span (mr : MatchRes) (i : Nat) : Option (Nat × Nat) :=
  if i = 0 then some (mr.start, mr.stop) else mr.caps.getD i none

def MatchRes.group (mr : MatchRes) (inp : Array Char) (i : Nat) : Option (List Char) :=
  match mr.span i with
  | some (a, b) => some (slice inp a b)
  | none => none

/-- Size of the matcher's own work: number of continuation invocations is not observable from a
    pure function, so the step counter is a separate instrumented copy (see `Steps.lean`). -/
def Re.size : Re → Nat
  | .seq a b => a.size + b.size + 1
  | .alt a b => a.size + b.size + 1
  | .grp _ r => r.size + 1
  | .rep r _ _ _ => r.size + 1
  | .look r => r.size + 1
  | .nlook r => r.size + 1
  | _ => 1

end Rx
