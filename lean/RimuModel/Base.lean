import RimuModel.Types

/-!
# Session state, the exception monad and Python `re` objects of the model
-/

namespace Rimu
open Rx

/-- Python exceptions that rimu-py can raise, plus the model's own "out of fuel" outcome and the
    driver-only request for a pattern that the compile oracle has not been given yet. -/
inductive PyErr where
  | indexError (site : String)       -- string / list index out of range, `no such group`
  | noneType (site : String)         -- attribute access or operation on `None`
  | assertion (site : String)        -- `assert`
  | valueError (site : String)
  | reError (site : String)          -- `re.error` escaping from `re.compile`
  | unsupportedRegex (pattern : Str) -- user pattern outside the modelled fragment (driver: skip)
  | needCompile (pattern : Str) (flags : Nat)  -- driver protocol only
  | outOfFuel
deriving Repr, DecidableEq, Inhabited

/-- `re.compile` on a run-time pattern.  The model is parametric in this function. -/
inductive CompileResult where
  | ok (p : Pat)
  | error            -- `re.error` (or `OverflowError`)
  | unsupported      -- valid for CPython but outside the modelled fragment
  | missing          -- driver protocol only: not supplied yet
deriving Repr, Inhabited

structure Env where
  /-- pattern text, flags (bit 1 = IGNORECASE `2`, bit 3 = MULTILINE `8`, as in `re`) -/
  compile : Str → Nat → CompileResult

/-- `spans.Fragment` -/
structure Fragment where
  text : Str
  done : Bool
  verbatim : Str := []
deriving Repr, DecidableEq, Inhabited

/-- All module-level mutable state of rimu-py. -/
structure Session where
  -- options
  safeMode : Int := -1
  htmlReplacement : Str := []
  callback : Bool := false
  log : List Str := []            -- texts of the `error` messages delivered to the callback
  -- definition tables
  quoteDefs : List QuoteDef := []
  replDefs : List ReplDef := []
  blockDefs : List BlockDef := []
  macroDefs : List MacroDef := []
  -- blockattributes
  classes : Str := []
  id : Str := []
  css : Str := []
  attributes : Str := []
  opts : Expand := {}
  ids : List Str := []
  -- lists.ids
  listIds : List Str := []
  -- spans.savedReplacements
  saved : List Fragment := []
deriving Repr, Inhabited

/-- State of a freshly imported `rimu` package (before the first `render`). -/
def Session.uninit : Session := {}

abbrev M := StateT Session (Except PyErr)

def raise {α} (e : PyErr) : M α := throw e

/-- `options.errorCallback(message)` -/
def errorCallback (msg : Str) : M Unit :=
  modify fun s => if s.callback then { s with log := s.log ++ [msg] } else s

/-! ## Python match objects -/

structure Match where
  inp : Array Char
  res : MatchRes
  ngroups : Nat
deriving Repr, Inhabited

namespace Match

def start (m : Match) : Nat := m.res.start
def stop (m : Match) : Nat := m.res.stop

/-- `match[0]` -/
def whole (m : Match) : Str := slice m.inp m.res.start m.res.stop

/-- `match[i]`: `IndexError` for a group the pattern does not have, `none` for a group that did
    not participate. -/
def opt (m : Match) (i : Nat) : M (Option Str) :=
  if i > m.ngroups then raise (.indexError "no such group")
  else pure (m.res.group m.inp i)

/-- `match[i]` used as a string: raises where Python would (`IndexError` for a group the pattern does not have, the
    failure on `None` for one that did not participate); both carry the call site. -/
def str (m : Match) (i : Nat) (site : String := "group") : M Str :=
  if i > m.ngroups then raise (.indexError site)
  else match m.res.group m.inp i with
    | some s => pure s
    | none => raise (.noneType site)

/-- `match[i] or ''` -/
def orEmpty (m : Match) (i : Nat) : M Str := do
  match ← m.opt i with
  | some s => pure s
  | none => pure []

end Match

namespace Pat

/-- `pattern.search(text, start)` -/
def search (p : Pat) (s : Str) (start : Nat := 0) : Option Match :=
  let inp := s.toArray
  match Rx.search inp p.re p.ngroups start with
  | some r => some { inp := inp, res := r, ngroups := p.ngroups }
  | none => none

/-- `pattern.match(text)` -/
def matchStart (p : Pat) (s : Str) : Option Match :=
  let inp := s.toArray
  match Rx.matchAt inp p.re p.ngroups 0 with
  | some r => some { inp := inp, res := r, ngroups := p.ngroups }
  | none => none

/-- All non-overlapping matches, left to right, as `pattern.finditer` / `sub` / `split` see them.
    After an empty match the scan resumes one character further on. -/
def findAll (p : Pat) (s : Str) : List Match :=
  let inp := s.toArray
  go inp (inp.size + 2) 0
where
  go (inp : Array Char) : Nat → Nat → List Match
    | 0, _ => []
    | fuel+1, pos =>
      if pos > inp.size then [] else
      match Rx.search inp p.re p.ngroups pos with
      | none => []
      | some r =>
        let mt : Match := { inp := inp, res := r, ngroups := p.ngroups }
        if r.stop > r.start then mt :: go inp fuel r.stop
        else mt :: go inp fuel (r.stop + 1)

/-- Pieces of `s` between the matches: `(text before match, match)` pairs and the tail. -/
def pieces (p : Pat) (s : Str) : List (Str × Match) × Str :=
  let ms := p.findAll s
  let inp := s.toArray
  go inp 0 ms
where
  go (inp : Array Char) (pos : Nat) : List Match → List (Str × Match) × Str
    | [] => ([], slice inp pos inp.size)
    | mt :: rest =>
      let (ps, tail) := go inp mt.stop rest
      ((slice inp pos mt.start, mt) :: ps, tail)

def subGo (f : Match → M Str) : List (Str × Match) → M Str
  | [] => pure []
  | (before, mt) :: rest => do
    let r ← f mt
    let t ← subGo f rest
    pure (before ++ r ++ t)

/-- `pattern.sub(f, s)` with a monadic replacement function (called left to right). -/
def subM (p : Pat) (s : Str) (f : Match → M Str) : M Str := do
  let (ps, tail) := p.pieces s
  let out ← subGo f ps
  pure (out ++ tail)

/-- `pattern.sub(f, s)` with a pure replacement function. -/
def sub (p : Pat) (s : Str) (f : Match → Str) : Str :=
  let (ps, tail) := p.pieces s
  (ps.foldl (fun acc (bm : Str × Match) => acc ++ bm.1 ++ f bm.2) []) ++ tail

/-- `pattern.split(s)` for a pattern without groups. -/
def split (p : Pat) (s : Str) : List Str :=
  let (ps, tail) := p.pieces s
  ps.map (·.1) ++ [tail]

end Pat

/-- `utils.replaceSpecialChars` -/
def escapeChar (c : Char) : Str :=
  if c == '&' then "&amp;".toList
  else if c == '>' then "&gt;".toList
  else if c == '<' then "&lt;".toList
  else [c]

def replaceSpecialChars (s : Str) : Str := s.flatMap escapeChar

/-- U+0000, U+0001 and U+0002 (placeholders of the span and macro passes) become blanks. -/
def blankReserved (s : Str) : Str := s.map fun c => if c.toNat ≤ 2 then ' ' else c

/-! ## Reader and Writer (`rimu.io`) -/

/-- The reader never looks back, so it is the list of lines from the cursor on plus the number of
    lines already passed (`pos`); `escaped` is the `pos` of the last unescaped line. -/
structure Reader where
  rest : List Str
  pos : Nat := 0
  escaped : Option Nat := none
  /-- end line indexes of the nested line-macro expansions enclosing the cursor, innermost first -/
  expansions : List Nat := []
  /-- number of line-macro expansions around this reader (the content of a container block has a reader of its own) -/
  depth : Nat := 0
  /-- number of container blocks around this reader -/
  level : Nat := 0
deriving Repr, DecidableEq, Inhabited

/-- What `document.render` is told about where its source stands: the numbers of line-macro expansions (`nesting`)
    and of container blocks (`level`) around it. -/
structure Depth where
  nesting : Nat := 0
  level : Nat := 0
deriving Repr, DecidableEq, Inhabited

/-- a top-level document -/
instance : OfNat Depth 0 := ⟨{}⟩

/-- The writer buffer, most recent chunk first. -/
structure Writer where
  chunks : List Str := []
deriving Repr, DecidableEq, Inhabited

namespace Writer
def write (w : Writer) (s : Str) : Writer := { chunks := s :: w.chunks }
def toStr (w : Writer) : Str := w.chunks.reverse.flatten
/-- `writer.buffer.extend(other.buffer)` -/
def extend (w other : Writer) : Writer := { chunks := other.chunks ++ w.chunks }
end Writer

end Rimu
