import RimuModel.Regex
import RimuModel.Generated.Unicode

/-!
# Python `str` operations on `List Char`

Each function mirrors one Python `str` method used by rimu-py.  All are total; the partial
Python operations (`int()`, indexing) return `Option` and the caller raises.
-/

abbrev Str := List Char

namespace Py

open Rx

def isSpace (c : Char) : Bool := Gen.spaceSet.mem c
def isWord (c : Char) : Bool := Gen.wordSet.mem c

/-- `s.startswith(p)`. -/
def startsWith : Str → Str → Bool
  | _, [] => true
  | [], _ :: _ => false
  | c :: s, d :: p => c == d && startsWith s p

/-- `s.endswith(p)`. -/
def endsWith (s p : Str) : Bool := startsWith s.reverse p.reverse

/-- `p in s` (substring test). -/
def contains : Str → Str → Bool
  | [], p => p.isEmpty
  | c :: s, p => startsWith (c :: s) p || contains s p

/-- `s.replace(old, new)` for non-empty `old` (the only use in rimu-py); empty `old` returns `s`. -/
def replaceAll (s old new : Str) : Str :=
  if old.isEmpty then s else go s.length s
where
  go : Nat → Str → Str
    | 0, s => s
    | _, [] => []
    | fuel+1, c :: s =>
      if startsWith (c :: s) old then new ++ go fuel ((c :: s).drop old.length)
      else c :: go fuel s

/-- `s.replace(old, new, 1)`. -/
def replaceFirst (s old new : Str) : Str :=
  if old.isEmpty then new ++ s else go s
where
  go : Str → Str
    | [] => []
    | c :: s =>
      if startsWith (c :: s) old then new ++ (c :: s).drop old.length
      else c :: go s

/-- `s.split(sep)` for a single-character separator. -/
def splitChar (s : Str) (sep : Char) : List Str :=
  go s []
where
  go : Str → Str → List Str
    | [], acc => [acc.reverse]
    | c :: s, acc => if c == sep then acc.reverse :: go s [] else go s (c :: acc)

/-- `sep.join(parts)`. -/
def join (sep : Str) : List Str → Str
  | [] => []
  | [a] => a
  | a :: rest => a ++ sep ++ join sep rest

def lstrip (s : Str) : Str := s.dropWhile isSpace
def rstrip (s : Str) : Str := (s.reverse.dropWhile isSpace).reverse
/-- `s.strip()`. -/
def strip (s : Str) : Str := rstrip (lstrip s)

/-- `s[a:b]` for `0 ≤ a`. -/
def sliceStr (s : Str) (a b : Nat) : Str := (s.drop a).take (b - a)

/-! ## `str.lower()` -/

def lookupLower (n : Nat) : List (Nat × List Nat) → Option (List Nat)
  | [] => none
  | (k, v) :: rest => if k == n then some v else lookupLower n rest

def lowerChar (c : Char) : Str :=
  let n := c.toNat
  if n < 128 then
    (if 65 ≤ n && n ≤ 90 then [Char.ofNat (n + 32)] else [c])
  else match lookupLower n Gen.lowerTable with
    | some v => v.map Char.ofNat
    | none => [c]

def isIgnorable (c : Char) : Bool := inRanges c.toNat Gen.caseIgnorable
def isCasedNI (c : Char) : Bool := inRanges c.toNat Gen.casedNotIgnorable

/-- CPython's final-sigma rule.  `before` is the text preceding the sigma reversed, `after` the
    text following it. -/
def finalSigma (before after : Str) : Bool :=
  let b := before.dropWhile isIgnorable
  let a := after.dropWhile isIgnorable
  (match b with | c :: _ => isCasedNI c | [] => false) &&
  (match a with | c :: _ => !(isCasedNI c) | [] => true)

def lowerGo : Str → Str → Str
  | _, [] => []
  | before, c :: rest =>
    (if c.toNat == 0x3A3 then
      [if finalSigma before rest then Char.ofNat 0x3C2 else Char.ofNat 0x3C3]
     else lowerChar c) ++ lowerGo (c :: before) rest

/-- `s.lower()`. -/
def lower (s : Str) : Str := lowerGo [] s

/-! ## `int(str)` and `str(int)` -/

/-- Decimal value of a Unicode decimal digit. -/
def digitVal (c : Char) : Option Nat :=
  let n := c.toNat
  go n Gen.decimalZeros
where
  go (n : Nat) : List Nat → Option Nat
    | [] => none
    | z :: rest => if z ≤ n && n ≤ z + 9 then some (n - z) else go n rest

/-- digits with single underscores between them -/
def parseDigits : Str → Option Nat → Bool → Option Nat
  | [], acc, lastUnderscore => if lastUnderscore then none else acc
  | c :: s, acc, lastUnderscore =>
    if c == '_' then
      (if lastUnderscore || acc.isNone then none else parseDigits s acc true)
    else match digitVal c with
      | some d => parseDigits s (some ((acc.getD 0) * 10 + d)) false
      | none => none

/-- `int(s)` for a `str` argument: surrounding white space, optional sign, decimal digits with
    single underscores.  `none` is `ValueError`. -/
def pyInt (s : Str) : Option Int :=
  let t := strip s
  match t with
  | '-' :: r => (parseDigits r none false).map fun n => -(Int.ofNat n)
  | '+' :: r => (parseDigits r none false).map Int.ofNat
  | r => (parseDigits r none false).map Int.ofNat

def natToStr (n : Nat) : Str := (toString n).toList
def intToStr (i : Int) : Str := (toString i).toList

end Py
