import RimuModel.Block

/-!
# `rimuc.main()`: the `rimupy` command line

The file system, stdin, `~/.rimurc` and the packaged resources are parameters (`CliEnv`).
-/

namespace Rimu
open Py

structure CliEnv where
  files : List (Str × Str)          -- regular files that exist (`~/.rimurc` included under `rimurcPath`), name ↦ content
  stdin : Str
  resources : List (Str × Str)      -- `rimuc.resources`
  rimurcPath : Str := "~/.rimurc".toList

structure CliResult where
  exit : Nat
  stdout : Str
  stderr : Str
  outfile : Option (Str × Str) := none
  /-- `rimu.render` raised (a traceback in Python); also carries the driver's compile requests -/
  raised : Option PyErr := none
deriving Repr, DecidableEq, Inhabited

/-- what `main` does before it starts rendering: either an immediate result or the plan -/
structure CliPlan where
  safeMode : Option Int
  htmlReplacement : Option Str
  layout : Str
  noRimurc : Bool
  prependFiles : List Str
  passThrough : Bool
  prepend : Str
  outfile : Str
  files : List Str
deriving Repr, DecidableEq, Inhabited

def lookupStr (k : Str) : List (Str × Str) → Option Str
  | [] => none
  | (a, b) :: rest => if a == k then some b else lookupStr k rest

def stylingOptions : List Str :=
  ["--highlightjs", "--mathjax", "--section-numbers", "--theme", "--title", "--lang", "--toc", "--no-toc",
   "--sidebar-toc", "--dropdown-toc", "--custom-toc", "--header-ids", "--header-links"].map String.toList

def layouts : List Str := ["classic", "flex", "plain", "sequel", "v8"].map String.toList

def die (msg : Str) : CliResult :=
  { exit := 1, stdout := [], stderr := if msg == [] then [] else msg ++ "\n".toList }

/-- `os.path.splitext(p)` -/
def splitext (p : Str) : Str × Str :=
  -- basename starts after the last '/'
  let rev := p.reverse
  let baseRev := rev.takeWhile (· != '/')
  let base := baseRev.reverse
  let dirLen := p.length - base.length
  -- leading dots of the basename are not an extension separator
  let lead := (base.takeWhile (· == '.')).length
  let body := base.drop lead
  match (body.reverse.takeWhile (· != '.')).length, body.contains '.' with
  | n, true => (p.take (dirLen + lead + (body.length - n - 1)), p.drop (dirLen + lead + (body.length - n - 1)))
  | _, false => (p, [])

inductive ArgOutcome where
  | done (r : CliResult)           -- --help, --version or a usage error
  | plan (p : CliPlan)

/-- which branch of the option loop an argument takes -/
inductive Opt where
  | help | version | lint | output | pass | prepend | prependFile | noRimurc | safeMode | htmlReplacement
  | stylingValue | stylingFlag | layout | styled | other
deriving Repr, DecidableEq, Inhabited

def optOf (arg : Str) : Opt :=
  let a := String.ofList arg
  if a == "--help" || a == "-h" then .help
  else if a == "--version" then .version
  else if a == "--lint" || a == "-l" then .lint
  else if a == "--output" || a == "-o" then .output
  else if a == "--pass" then .pass
  else if a == "--prepend" || a == "-p" then .prepend
  else if a == "--prepend-file" then .prependFile
  else if a == "--no-rimurc" then .noRimurc
  else if a == "--safe-mode" || a == "--safeMode" then .safeMode
  else if a == "--html-replacement" || a == "--htmlReplacement" then .htmlReplacement
  else if stylingOptions.contains arg then
    (if a == "--lang" || a == "--title" || a == "--theme" then .stylingValue else .stylingFlag)
  else if a == "--layout" || a == "--styled-name" then .layout
  else if a == "--styled" || a == "-s" then .styled
  else .other

/-- `popArg`: the value of an option, or the usage error -/
def popArg (arg : Str) (rest : List Str) (k : Str → List Str → ArgOutcome) : ArgOutcome :=
  match rest with
  | [] => .done (die ("missing ".toList ++ arg ++ " option value".toList))
  | v :: rest' => k v rest'

/-- The option loop of `main`. -/
def parseArgs (env : CliEnv) : Nat → List Str → CliPlan → ArgOutcome
  | 0, _, p => .plan p
  | fuel+1, args, p =>
    match args with
    | [] => .plan p
    | arg :: rest =>
      match optOf arg with
      | .help =>
        match lookupStr "manpage.txt".toList env.resources with
        | none => .done (die "missing resource: manpage.txt".toList)
        | some man =>
          let man := Gen.P.rimuc_main_0.sub man fun _ => "rimupy".toList
          .done { exit := 0, stdout := "\n".toList ++ man ++ "\n".toList, stderr := [] }
      | .version => .done { exit := 0, stdout := Gen.cliVersion ++ "\n".toList, stderr := [] }
      | .lint => parseArgs env fuel rest p
      | .output => popArg arg rest fun v r => parseArgs env fuel r { p with outfile := v }
      | .pass => parseArgs env fuel rest { p with passThrough := true }
      | .prepend => popArg arg rest fun v r => parseArgs env fuel r { p with prepend := p.prepend ++ v ++ "\n".toList }
      | .prependFile => popArg arg rest fun v r => parseArgs env fuel r { p with prependFiles := p.prependFiles ++ [v] }
      | .noRimurc => parseArgs env fuel rest { p with noRimurc := true }
      | .safeMode =>
        popArg arg rest fun v r =>
          match pyInt v with
          | some n =>
            if n < 0 || n > 15 then .done (die ("illegal --safe-mode option value: ".toList ++ v))
            else parseArgs env fuel r { p with safeMode := some n }
          | none => .done (die ("illegal --safe-mode option value: ".toList ++ v))
      | .htmlReplacement => popArg arg rest fun v r => parseArgs env fuel r { p with htmlReplacement := some v }
      | .stylingValue =>
        popArg arg rest fun v r =>
          parseArgs env fuel r { p with prepend := p.prepend ++ "{".toList ++ arg ++ "}='".toList ++ v ++ "'\n".toList }
      | .stylingFlag =>
        parseArgs env fuel rest { p with prepend := p.prepend ++ "{".toList ++ arg ++ "}='true'\n".toList }
      | .layout =>
        popArg arg rest fun v r =>
          if !layouts.contains v then .done (die ("illegal --layout: ".toList ++ v))
          else parseArgs env fuel r { p with layout := v, prepend := p.prepend ++ "{--header-ids}='true'\n".toList }
      | .styled =>
        parseArgs env fuel rest
          { p with prepend := p.prepend ++ "{--header-ids}='true'\n".toList ++ "{--no-toc}='true'\n".toList,
                   layout := "sequel".toList }
      | .other => .plan { p with files := arg :: rest }

inductive Input where
  | resource (name : Str)
  | stdin
  | prepend
  | file (name : Str) (trusted : Bool)
deriving Repr, DecidableEq, Inhabited

def resourceTag : Str := "resource:".toList
def prependTag : Str := "--prepend options".toList

/-- What one entry of `files` is: a resource, stdin, the prepend text, or a file; a file is trusted exactly when
    its position is among the leading prepended ones (`idx < trusted`). -/
def classifyInput (trusted idx : Nat) (name : Str) : Input :=
  if startsWith name resourceTag then .resource (name.drop resourceTag.length)
  else if name == "-".toList then .stdin
  else if name == prependTag then .prepend
  else .file name (idx < trusted)

/-- the prepended (trusted) entries: `~/.rimurc` if it exists and is wanted, the `--prepend-file`s, the prepend text -/
def prependedEntries (env : CliEnv) (p : CliPlan) : List Str :=
  let pre0 := if !p.noRimurc && (lookupStr env.rimurcPath env.files).isSome then env.rimurcPath :: p.prependFiles
    else p.prependFiles
  if p.prepend != [] then pre0 ++ [prependTag] else pre0

/-- the named entries with the layout envelope -/
def namedEntries (p : CliPlan) : List Str :=
  let files0 := if p.files.isEmpty then ["-".toList] else p.files
  if p.layout != [] then
    [resourceTag ++ p.layout ++ "-header.rmu".toList] ++ files0 ++ [resourceTag ++ p.layout ++ "-footer.rmu".toList]
  else files0

/-- The ordered list of inputs `main` renders (after the option loop), and the output file name. -/
def planInputs (env : CliEnv) (p : CliPlan) : List Input × Str :=
  let outfile :=
    if p.files.length == 1 && p.layout != [] && p.files.head? != some "-".toList && p.outfile.isEmpty then
      (splitext (p.files.headD [])).1 ++ ".html".toList
    else p.outfile
  let pre := prependedEntries env p
  let all := pre ++ namedEntries p
  (((List.range all.length).zip all).map fun (i, n) => classifyInput pre.length i n, outfile)

/-- the safe mode an input is rendered under: the requested one for named files and stdin, 0 for everything else -/
def inputMode (p : CliPlan) : Input → PyVal
  | .file _ false => (match p.safeMode with | some n => .int n | none => .none)
  | .stdin => (match p.safeMode with | some n => .int n | none => .none)
  | _ => .int 0

def formatMessage (infile : Str) (text : Str) : Str :=
  let msg := "error: ".toList ++ infile ++ ": ".toList ++ text
  if msg.length > 120 then msg.take 117 ++ "...".toList else msg

structure LoopState where
  session : Session
  output : Str := []
  stderr : Str := []
  errors : Nat := 0
  stdinRead : Bool := false       -- `sys.stdin.read()` returns '' the second time

/-- One iteration of the `for infile in files` loop.  `none` = `die`. -/
def renderInput (renv : Env) (fuel : Nat) (env : CliEnv) (p : CliPlan) (st : LoopState) (inp : Input) :
    Except CliResult LoopState := do
  let mode := inputMode p inp
  let (name, source, ext) ← match inp with
    | .resource n =>
      match lookupStr n env.resources with
      | some s => pure (n, s, ([] : Str))
      | none => throw { die [] with stderr := st.stderr ++ "missing resource: ".toList ++ n ++ "\n".toList }
    | .stdin => pure ("-".toList, (if st.stdinRead then [] else env.stdin), [])
    | .prepend => pure (prependTag, p.prepend, [])
    | .file n _ =>
      match lookupStr n env.files with
      | none => throw { die ("source file does not exist: ".toList ++ n) with stderr := st.stderr ++ "source file does not exist: ".toList ++ n ++ "\n".toList }
      | some s => pure (n, s, (splitext n).2)
  let st := if inp == .stdin then { st with stdinRead := true } else st
  let skip := ext == ".html".toList || (p.passThrough && inp == .stdin)
  let (rendered, st) ←
    if skip then pure (source, st)
    else
      let opts : RenderOptions :=
        { safeMode := mode, htmlReplacement := match p.htmlReplacement with | some h => .str h | none => .none,
          callback := true }
      let s0 := { st.session with log := [] }
      match (apiRender renv fuel source opts).run s0 with
      | .ok (html, s') =>
        let shown := if inp == .stdin then "/dev/stdin".toList else name
        let msgs := s'.log.map (formatMessage shown)
        pure (html, { st with session := { s' with log := [] },
                              stderr := st.stderr ++ (msgs.flatMap fun m => m ++ "\n".toList),
                              errors := st.errors + msgs.length })
      | .error e => throw { exit := 1, stdout := [], stderr := st.stderr ++ "Traceback".toList, raised := some e }
  let src := strip rendered
  pure (if src != [] then { st with output := st.output ++ src ++ "\n".toList } else st)

def renderInputs (renv : Env) (fuel : Nat) (env : CliEnv) (p : CliPlan) : LoopState → List Input → Except CliResult LoopState
  | st, [] => pure st
  | st, i :: rest => do
    let st' ← renderInput renv fuel env p st i
    renderInputs renv fuel env p st' rest

/-- `rimuc.main()` on a fresh process. -/
def cliMain (renv : Env) (fuel : Nat) (env : CliEnv) (argv : List Str) : CliResult :=
  let p0 : CliPlan := { safeMode := none, htmlReplacement := none, layout := [], noRimurc := false, prependFiles := [],
                        passThrough := false, prepend := [], outfile := [], files := [] }
  match parseArgs env (argv.length + 1) argv p0 with
  | .done r => r
  | .plan p =>
    let (inputs, outfile) := planInputs env p
    match renderInputs renv fuel env p { session := Session.uninit } inputs with
    | .error r => r
    | .ok st =>
      let output := strip st.output
      let toStdout := outfile.isEmpty || outfile == "-".toList
      { exit := if st.errors > 0 then 1 else 0,
        stdout := if toStdout then output else [],
        stderr := st.stderr,
        outfile := if toStdout then none else some (outfile, output) }

end Rimu
