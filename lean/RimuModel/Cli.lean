import RimuModel.Block

/-!
# `rimuc.main()`: the `rimupy` command line

The file system, stdin, `~/.rimurc` and the packaged resources are parameters (`CliEnv`).
-/

namespace Rimu
open Py

structure CliEnv where
  files : List (Str × Str)          -- regular files that exist (`~/.rimurc` included under `rimurcPath`), name ↦ content
  stdin : Str
  resources : List (Str × Str)      -- `rimuc.resources`
  rimurcPath : Str := "~/.rimurc".toList

structure CliResult where
  exit : Nat
  stdout : Str
  stderr : Str
  outfile : Option (Str × Str) := none
  /-- `rimu.render` raised (a traceback in Python); also carries the driver's compile requests -/
  raised : Option PyErr := none
deriving Repr, DecidableEq, Inhabited

/-- what `main` does before it starts rendering: either an immediate result or the plan -/
structure CliPlan where
  safeMode : Option Int
  htmlReplacement : Option Str
  layout : Str
  noRimurc : Bool
  prependFiles : List Str
  passThrough : Bool
  prepend : Str
  outfile : Str
  files : List Str
deriving Repr, DecidableEq, Inhabited

def lookupStr (k : Str) : List (Str × Str) → Option Str
  | [] => none
  | (a, b) :: rest => if a == k then some b else lookupStr k rest

def stylingOptions : List Str :=
  ["--highlightjs", "--mathjax", "--section-numbers", "--theme", "--title", "--lang", "--toc", "--no-toc",
   "--sidebar-toc", "--dropdown-toc", "--custom-toc", "--header-ids", "--header-links"].map String.toList

def layouts : List Str := ["classic", "flex", "plain", "sequel", "v8"].map String.toList

def die (msg : Str) : CliResult :=
  { exit := 1, stdout := [], stderr := if msg == [] then [] else msg ++ "\n".toList }

/-- `os.path.splitext(p)` -/
def splitext (p : Str) : Str × Str :=
  -- basename starts after the last '/'
  let rev := p.reverse
  let baseRev := rev.takeWhile (· != '/')
  let base := baseRev.reverse
  let dirLen := p.length - base.length
  -- leading dots of the basename are not an extension separator
  let lead := (base.takeWhile (· == '.')).length
  let body := base.drop lead
  match (body.reverse.takeWhile (· != '.')).length, body.contains '.' with
  | n, true => (p.take (dirLen + lead + (body.length - n - 1)), p.drop (dirLen + lead + (body.length - n - 1)))
  | _, false => (p, [])

inductive ArgOutcome where
  | done (r : CliResult)           -- --help, --version or a usage error
  | plan (p : CliPlan)

/-- The option loop of `main`. -/
def parseArgs (env : CliEnv) : Nat → List Str → CliPlan → ArgOutcome
  | 0, _, p => .plan p
  | fuel+1, args, p =>
    match args with
    | [] => .plan p
    | arg :: rest =>
      let a := String.ofList arg
      let popArg (k : Str → List Str → ArgOutcome) : ArgOutcome :=
        match rest with
        | [] => .done (die ("missing ".toList ++ arg ++ " option value".toList))
        | v :: rest' => k v rest'
      if a == "--help" || a == "-h" then
        match lookupStr "manpage.txt".toList env.resources with
        | none => .done (die "missing resource: manpage.txt".toList)
        | some man =>
          let man := Gen.P.rimuc_main_0.sub man fun _ => "rimupy".toList
          .done { exit := 0, stdout := "\n".toList ++ man ++ "\n".toList, stderr := [] }
      else if a == "--version" then
        .done { exit := 0, stdout := Gen.cliVersion ++ "\n".toList, stderr := [] }
      else if a == "--lint" || a == "-l" then parseArgs env fuel rest p
      else if a == "--output" || a == "-o" then
        popArg fun v r => parseArgs env fuel r { p with outfile := v }
      else if a == "--pass" then parseArgs env fuel rest { p with passThrough := true }
      else if a == "--prepend" || a == "-p" then
        popArg fun v r => parseArgs env fuel r { p with prepend := p.prepend ++ v ++ "\n".toList }
      else if a == "--prepend-file" then
        popArg fun v r => parseArgs env fuel r { p with prependFiles := p.prependFiles ++ [v] }
      else if a == "--no-rimurc" then parseArgs env fuel rest { p with noRimurc := true }
      else if a == "--safe-mode" || a == "--safeMode" then
        popArg fun v r =>
          match pyInt v with
          | some n =>
            if n < 0 || n > 15 then .done (die ("illegal --safe-mode option value: ".toList ++ v))
            else parseArgs env fuel r { p with safeMode := some n }
          | none => .done (die ("illegal --safe-mode option value: ".toList ++ v))
      else if a == "--html-replacement" || a == "--htmlReplacement" then
        popArg fun v r => parseArgs env fuel r { p with htmlReplacement := some v }
      else if stylingOptions.contains arg then
        if a == "--lang" || a == "--title" || a == "--theme" then
          popArg fun v r =>
            parseArgs env fuel r { p with prepend := p.prepend ++ "{".toList ++ arg ++ "}='".toList ++ v ++ "'\n".toList }
        else
          parseArgs env fuel rest { p with prepend := p.prepend ++ "{".toList ++ arg ++ "}='true'\n".toList }
      else if a == "--layout" || a == "--styled-name" then
        popArg fun v r =>
          if !layouts.contains v then .done (die ("illegal --layout: ".toList ++ v))
          else parseArgs env fuel r { p with layout := v, prepend := p.prepend ++ "{--header-ids}='true'\n".toList }
      else if a == "--styled" || a == "-s" then
        parseArgs env fuel rest
          { p with prepend := p.prepend ++ "{--header-ids}='true'\n".toList ++ "{--no-toc}='true'\n".toList,
                   layout := "sequel".toList }
      else .plan { p with files := arg :: rest }

inductive Input where
  | resource (name : Str)
  | stdin
  | prepend
  | file (name : Str) (trusted : Bool)
deriving Repr, DecidableEq, Inhabited

def resourceTag : Str := "resource:".toList
def prependTag : Str := "--prepend options".toList

/-- The ordered list of inputs `main` renders (after the option loop). -/
def planInputs (env : CliEnv) (p : CliPlan) : List Input × Str :=
  let files0 := if p.files.isEmpty then ["-".toList] else p.files
  let outfile :=
    if p.files.length == 1 && p.layout != [] && p.files.head? != some "-".toList && p.outfile.isEmpty then
      (splitext (p.files.headD [])).1 ++ ".html".toList
    else p.outfile
  let files1 := if p.layout != [] then
      [resourceTag ++ p.layout ++ "-header.rmu".toList] ++ files0 ++ [resourceTag ++ p.layout ++ "-footer.rmu".toList]
    else files0
  let pre0 := if !p.noRimurc && (lookupStr env.rimurcPath env.files).isSome then env.rimurcPath :: p.prependFiles
    else p.prependFiles
  let pre := if p.prepend != [] then pre0 ++ [prependTag] else pre0
  let trusted := pre.length
  let all := pre ++ files1
  let classify (idx : Nat) (name : Str) : Input :=
    if startsWith name resourceTag then .resource (name.drop resourceTag.length)
    else if name == "-".toList then .stdin
    else if name == prependTag then .prepend
    else .file name (idx < trusted)
  ((List.range all.length).zip all |>.map fun (i, n) => classify i n, outfile)

def formatMessage (infile : Str) (text : Str) : Str :=
  let msg := "error: ".toList ++ infile ++ ": ".toList ++ text
  if msg.length > 120 then msg.take 117 ++ "...".toList else msg

structure LoopState where
  session : Session
  output : Str := []
  stderr : Str := []
  errors : Nat := 0
  stdinRead : Bool := false       -- `sys.stdin.read()` returns '' the second time

/-- One iteration of the `for infile in files` loop.  `none` = `die`. -/
def renderInput (renv : Env) (fuel : Nat) (env : CliEnv) (p : CliPlan) (st : LoopState) (inp : Input) :
    Except CliResult LoopState := do
  let reqMode : PyVal := match p.safeMode with | some n => .int n | none => .none
  let (name, source, mode, ext) ← match inp with
    | .resource n =>
      match lookupStr n env.resources with
      | some s => pure (n, s, PyVal.int 0, ([] : Str))
      | none => throw { die [] with stderr := st.stderr ++ "missing resource: ".toList ++ n ++ "\n".toList }
    | .stdin => pure ("-".toList, (if st.stdinRead then [] else env.stdin), reqMode, [])
    | .prepend => pure (prependTag, p.prepend, PyVal.int 0, [])
    | .file n trusted =>
      match lookupStr n env.files with
      | none => throw { die ("source file does not exist: ".toList ++ n) with stderr := st.stderr ++ "source file does not exist: ".toList ++ n ++ "\n".toList }
      | some s => pure (n, s, (if trusted then PyVal.int 0 else reqMode), (splitext n).2)
  let st := if inp == .stdin then { st with stdinRead := true } else st
  let skip := ext == ".html".toList || (p.passThrough && inp == .stdin)
  let (rendered, st) ←
    if skip then pure (source, st)
    else
      let opts : RenderOptions :=
        { safeMode := mode, htmlReplacement := match p.htmlReplacement with | some h => .str h | none => .none,
          callback := true }
      let s0 := { st.session with log := [] }
      match (apiRender renv fuel source opts).run s0 with
      | .ok (html, s') =>
        let shown := if inp == .stdin then "/dev/stdin".toList else name
        let msgs := s'.log.map (formatMessage shown)
        pure (html, { st with session := { s' with log := [] },
                              stderr := st.stderr ++ (msgs.flatMap fun m => m ++ "\n".toList),
                              errors := st.errors + msgs.length })
      | .error e => throw { exit := 1, stdout := [], stderr := st.stderr ++ "Traceback".toList, raised := some e }
  let src := strip rendered
  pure (if src != [] then { st with output := st.output ++ src ++ "\n".toList } else st)

def renderInputs (renv : Env) (fuel : Nat) (env : CliEnv) (p : CliPlan) : LoopState → List Input → Except CliResult LoopState
  | st, [] => pure st
  | st, i :: rest => do
    let st' ← renderInput renv fuel env p st i
    renderInputs renv fuel env p st' rest

/-- `rimuc.main()` on a fresh process. -/
def cliMain (renv : Env) (fuel : Nat) (env : CliEnv) (argv : List Str) : CliResult :=
  let p0 : CliPlan := { safeMode := none, htmlReplacement := none, layout := [], noRimurc := false, prependFiles := [],
                        passThrough := false, prepend := [], outfile := [], files := [] }
  match parseArgs env (argv.length + 1) argv p0 with
  | .done r => r
  | .plan p =>
    let (inputs, outfile) := planInputs env p
    match renderInputs renv fuel env p { session := Session.uninit } inputs with
    | .error r => r
    | .ok st =>
      let output := strip st.output
      let toStdout := outfile.isEmpty || outfile == "-".toList
      { exit := if st.errors > 0 then 1 else 0,
        stdout := if toStdout then output else [],
        stderr := st.stderr,
        outfile := if toStdout then none else some (outfile, output) }

end Rimu
