import RimuModel.Py

/-!
# Data types shared by the generated tables and the hand-written model
-/

namespace Rimu

/-- A compiled pattern: syntax tree, number of capture groups and the Python source text
    (`pattern.pattern`, used by `replacements.getDefinition`). -/
structure Pat where
  re : Rx.Re
  ngroups : Nat
  src : Str := []
  flags : Nat := 0      -- `re` flag bits as given to `re.compile` (2 = IGNORECASE, 8 = MULTILINE, 16 = DOTALL)
deriving Repr, Inhabited

/-- `rimu.expansion.Expand`: five optional booleans. -/
structure Expand where
  macros : Option Bool := none
  container : Option Bool := none
  skip : Option Bool := none
  spans : Option Bool := none
  specials : Option Bool := none
deriving Repr, DecidableEq, Inhabited

/-- `rimu.quotes.Def` -/
structure QuoteDef where
  quote : Str
  openTag : Str
  closeTag : Str
  spans : Bool
deriving Repr, DecidableEq, Inhabited

/-- Which Python function a replacement definition's `filter` is. -/
inductive ReplFilter where
  | none       -- default: `replaceMatch(match, replacement)`
  | anchor     -- '' if skipBlockAttributes() else replaceMatch
  | html       -- options.htmlSafeModeFilter(match[1])
  | entity     -- match[1]
deriving Repr, DecidableEq, Inhabited

/-- `rimu.replacements.Def` -/
structure ReplDef where
  pat : Pat
  replacement : Str
  filter : ReplFilter := .none
deriving Repr, Inhabited

inductive BlockVerify where
  | none | macroDef | code | html
deriving Repr, DecidableEq, Inhabited

inductive DelimFilter where
  | none | opening | classInjection
deriving Repr, DecidableEq, Inhabited

inductive ContentFilter where
  | none | macroDef | indented | quoteParagraph
deriving Repr, DecidableEq, Inhabited

/-- `rimu.delimitedblocks.Def` (without `closeMatch` state: see DESIGN.md 3.2). -/
structure BlockDef where
  name : Str
  openTag : Str
  closeTag : Str
  openMatch : Pat
  closeMatch : Pat
  verify : BlockVerify := .none
  delimiterFilter : DelimFilter := .none
  contentFilter : ContentFilter := .none
  expand : Expand := {}
deriving Repr, Inhabited

inductive LineVerify where
  | none | macroLine | attributes
deriving Repr, DecidableEq, Inhabited

inductive LineFilter where
  | none | blank | blockDef | quoteDef | replDef | macroDef | header | anchor | apiOption
deriving Repr, DecidableEq, Inhabited

/-- `rimu.lineblocks.Def` -/
structure LineDef where
  pat : Pat
  replacement : Str := []
  name : Str := []
  verify : LineVerify := .none
  filter : LineFilter := .none
deriving Repr, Inhabited

/-- `rimu.lists.Def` -/
structure ListDef where
  pat : Pat
  listOpenTag : Str
  listCloseTag : Str
  itemOpenTag : Str
  itemCloseTag : Str
  termOpenTag : Str := []
  termCloseTag : Str := []
deriving Repr, Inhabited

structure MacroDef where
  name : Str
  value : Str
deriving Repr, DecidableEq, Inhabited

end Rimu
