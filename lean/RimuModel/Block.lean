import RimuModel.Inline

/-!
# Block layer: `io`, `expansion`, `blockattributes`, `lineblocks`, `delimitedblocks`, `lists`,
`document`, `options.setOption/updateFrom` and the `render` API
-/

namespace Rimu
open Rx Py

/-! ## io.Reader -/

namespace Reader

/-- `Reader(text)`: reserved code points become blanks, then the text is split into lines. -/
def ofText (text : Str) (depth : Nat := 0) (level : Nat := 0) : Reader :=
  let t := text.map fun c => if c.toNat ≤ 2 then ' ' else c
  { rest := Gen.P.io_Reader_init_0.split t, depth := depth, level := level }

/-- `reader.nesting()`: the line-macro expansions the cursor is inside, those around an enclosing container included (the
    pruning of the list that the Python does here is repeated by every later use, so it is not recorded) -/
def nesting (r : Reader) : Nat := r.depth + (r.expansions.dropWhile fun e => r.pos ≥ e).length

def eof (r : Reader) : Bool := r.rest.isEmpty

/-- `reader.cursor` (asserts not eof) -/
def cursor (r : Reader) : M Str :=
  match r.rest with
  | c :: _ => pure c
  | [] => raise (.assertion "not self.eof()")

def setCursor (r : Reader) (v : Str) : M Reader :=
  match r.rest with
  | _ :: t => pure { r with rest := v :: t }
  | [] => raise (.assertion "not self.eof()")

/-- `reader.next()` -/
def next (r : Reader) : Reader :=
  match r.rest with
  | _ :: t => { r with rest := t, pos := r.pos + 1 }
  | [] => r

/-- `reader.unescape()` -/
def unescape (r : Reader) : M Reader := do
  let c ← r.cursor
  let r ← r.setCursor (c.drop 1)
  pure { r with escaped := some r.pos }

def isEscaped (r : Reader) : Bool := r.escaped == some r.pos

/-- `reader.insertExpansion(lines, maxDepth)` -/
def insertExpansion (r : Reader) (lines : List Str) (maxDepth : Nat) : M (Bool × Reader) :=
  let exps := r.expansions.dropWhile fun e => r.pos ≥ e
  if r.depth + exps.length ≥ maxDepth then pure (false, { r with expansions := exps })
  else
    match r.rest with
    | [] => raise (.indexError "reader.lines[pos:pos]")
    | c :: t =>
      let n := lines.length
      pure (true, { r with rest := c :: (lines ++ t),
                           expansions := (r.pos + 1 + n) :: exps.map (· + n) })

/-- `reader.readTo(regexp)` -/
def readTo (r : Reader) (p : Pat) : M (List Str × Reader) :=
  go r.rest r.pos []
where
  go : List Str → Nat → List Str → M (List Str × Reader)
    | [], pos, acc => pure (acc.reverse, { r with rest := [], pos := pos })
    | line :: t, pos, acc =>
      match p.search line with
      | some mt => do
        if p.ngroups > 0 then
          let g ← mt.str 1 "readTo match[1]"
          pure ((g :: acc).reverse, { r with rest := line :: t, pos := pos })
        else pure (acc.reverse, { r with rest := line :: t, pos := pos })
      | none => go t (pos + 1) (line :: acc)

/-- `reader.skipBlankLines()` -/
def skipBlankLines (r : Reader) : Reader :=
  go r.rest r.pos
where
  go : List Str → Nat → Reader
    | [], pos => { r with rest := [], pos := pos }
    | line :: t, pos => if strip line == [] then go t (pos + 1) else { r with rest := line :: t, pos := pos }

end Reader

/-! ## expansion -/

/-- `Expand.merge` -/
def Expand.merge (a b : Expand) : Expand :=
  { macros := b.macros.orElse fun _ => a.macros,
    container := b.container.orElse fun _ => a.container,
    skip := b.skip.orElse fun _ => a.skip,
    spans := b.spans.orElse fun _ => a.spans,
    specials := b.specials.orElse fun _ => a.specials }

def expandParseOne (e : Expand) (opt : Str) : M Expand := do
  if (← isSafeModeNz) && opt == "-specials".toList then
    errorCallback "-specials block option not valid in safeMode".toList
    return e
  match Gen.P.expansion_Expand_parse_1.matchStart opt with
  | some _ =>
    match opt with
    | [] => raise (.indexError "opt[0]")
    | c :: name =>
      let value := c == '+'
      if name == "macros".toList then return { e with macros := some value }
      else if name == "spans".toList then return { e with spans := some value }
      else if name == "specials".toList then return { e with specials := some value }
      else if name == "container".toList then return { e with container := some value }
      else if name == "skip".toList then return { e with skip := some value }
      else return e
  | none =>
    errorCallback ("illegal block option: ".toList ++ opt)
    return e

/-- `Expand.parse(opts)` -/
def expandParse (e : Expand) (opts : Str) : M Expand := do
  if opts == [] then return e
  go e (Gen.P.expansion_Expand_parse_0.split (strip opts))
where
  go (e : Expand) : List Str → M Expand
    | [] => pure e
    | o :: rest => do
      let e' ← expandParseOne e o
      go e' rest

/-! ## blockattributes -/

/-- `blockattributes.parse(attrs)` -/
def battrParse (rec : Rec) (env : Env) (attrs : Str) : M Bool := do
  -- with safe-mode bit 4 a Block Attributes line is ignored altogether (no diagnostics either: the silent pass); a line
  -- that only starts like one is not one in any safe mode
  let skip ← skipBlockAttributes
  let text ← if skip then macrosRender rec env attrs true else replaceInline rec env attrs { macros := some true }
  match Gen.P.blockattributes_parse_0.matchStart text with
  | none => return false
  | some m1 =>
    match Gen.P.blockattributes_parse_1.matchStart (text.drop m1.stop) with
    | none => return false
    | some m2 =>
      if skip then return true
      let g1 ← m1.orEmpty 1
      if g1 != [] then
        modify fun s => { s with classes := strip (s.classes ++ " ".toList ++ strip g1) }
      let g2 ← m2.orEmpty 2
      if g2 != [] then
        modify fun s => { s with id := (strip g2).drop 1 }
      let g3 ← m2.orEmpty 3
      if g3 != [] then
        modify fun s =>
          let css := if s.css != [] && !endsWith s.css ";".toList then s.css ++ ";".toList else s.css
          { s with css := strip (css ++ " ".toList ++ strip g3) }
      let g4 ← m2.orEmpty 4
      if g4 != [] && !(← isSafeModeNz) then
        modify fun s => { s with attributes := strip (s.attributes ++ " ".toList ++ strip ((g4.drop 1).dropLast)) }
      let g5 ← m2.orEmpty 5
      if g5 != [] then
        let o ← expandParse (← get).opts g5
        modify fun s => { s with opts := o }
      return true

/-- class names: injected into an existing `class="…"` of the first tag, else a new attribute.
    Returns the tag text and the attribute text so far. -/
def injectClasses (classes tag : Str) : M (Str × Str) :=
  if classes == [] then pure (tag, [])
  else match Gen.P.blockattributes_injectHtmlAttributes_0.search tag with
    | some mt => do
      let g1 ← mt.str 1
      let g2 ← mt.str 2
      pure (replaceFirst tag mt.whole (g1 ++ classes ++ " ".toList ++ g2 ++ "\"".toList), [])
    | none => pure (tag, "class=\"".toList ++ classes ++ "\"".toList)

/-- id: lower-cased (also in the module global), checked against the ids in use, reported or registered. -/
def injectId (sid : Str) (ids : List Str) (result attrs : Str) : M Str :=
  if sid == [] then pure attrs
  else do
    let id := lower sid
    modify fun s => { s with id := id }
    let hasId := (Gen.P.blockattributes_injectHtmlAttributes_1.search result).isSome
    if hasId || ids.contains id then
      errorCallback ("duplicate 'id' attribute: ".toList ++ id)
    else
      modify fun s => { s with ids := id :: s.ids }
    pure (if !hasId then attrs ++ " id=\"".toList ++ id ++ "\"".toList else attrs)

/-- css: injected into an existing `style="…"` of the first tag, else a new attribute. -/
def injectCss (css result attrs : Str) : M (Str × Str) :=
  if css == [] then pure (result, attrs)
  else match Gen.P.blockattributes_injectHtmlAttributes_2.search result with
    | some mt => do
      let g1 ← mt.str 1
      let g2 ← mt.str 2
      let group2 := strip g2
      let group2 := if !endsWith group2 ";".toList then group2 ++ ";".toList else group2
      pure (replaceFirst result mt.whole (g1 ++ group2 ++ " ".toList ++ css ++ "\"".toList), attrs)
    | none => pure (result, attrs ++ " style=\"".toList ++ css ++ "\"".toList)

/-- the accumulated attribute text goes after the tag name of the first tag -/
def injectAttrs (result attrs : Str) : Str :=
  let attrs := strip attrs
  if attrs == [] then result
  else match Gen.P.blockattributes_injectHtmlAttributes_3.search result with
    | some mt =>
      let n := mt.whole.length
      result.take n ++ " ".toList ++ attrs ++ result.drop n
    | none => result

/-- `blockattributes.injectHtmlAttributes(tag, consume)` -/
def injectHtmlAttributes (tag : Str) (consume : Bool := true) : M Str := do
  if tag == [] then return tag
  let s0 ← get
  let (result, attrs) ← injectClasses s0.classes tag
  let attrs ← injectId s0.id s0.ids result attrs
  let (result, attrs) ← injectCss s0.css result attrs
  let attrs := if s0.attributes != [] then attrs ++ " ".toList ++ s0.attributes else attrs
  let result := injectAttrs result attrs
  if consume then
    modify fun s => { s with classes := [], id := [], css := [], attributes := [] }
  return result

/-- the slug before it is made unique: non-word runs become dashes, dashes are merged and trimmed, lower-cased,
    `x` if nothing is left -/
def slugBase (text : Str) : Str :=
  let slug := Gen.P.blockattributes_slugify_0.sub text fun _ => "-".toList
  let slug := Gen.P.blockattributes_slugify_1.sub slug fun _ => "-".toList
  let slug := Gen.P.blockattributes_slugify_2.sub slug fun _ => []
  let slug := lower slug
  if slug == [] then "x".toList else slug

/-- the `while f'{slug}-{i}' in ids` loop of `slugify`; it needs at most `|ids| + 1` steps -/
def slugSuffix (ids : List Str) (slug : Str) : Nat → Nat → M Str
  | 0, _ => raise .outOfFuel
  | fuel+1, i =>
    if ids.contains (slug ++ "-".toList ++ natToStr i) then slugSuffix ids slug fuel (i + 1)
    else pure (slug ++ "-".toList ++ natToStr i)

/-- `blockattributes.slugify(text)` -/
def slugify (text : Str) : M Str := do
  let slug := slugBase text
  let ids := (← get).ids
  if ids.contains slug then slugSuffix ids slug (ids.length + 2) 2
  else return slug

/-! ## delimitedblocks.setDefinition, options.setOption -/

def blockGetDefinition (defs : List BlockDef) (name : Str) : Option BlockDef :=
  defs.find? (·.name == name)

/-- `delimitedblocks.setDefinition(name, value)` -/
def blockSetDefinition (name value : Str) : M Unit := do
  let s ← get
  match blockGetDefinition s.blockDefs name with
  | none =>
    errorCallback ("illegal delimited block name: ".toList ++ name ++ ": |".toList ++ name ++ "|='".toList ++ value ++ "'".toList)
  | some d =>
    match Gen.P.delimitedblocks_setDefinition_0.search (strip value) with
    | none =>
      errorCallback ("illegal delimited block definition: |".toList ++ name ++ "|='".toList ++ value ++ "'".toList)
    | some mt =>
      let g1 ← mt.opt 1
      let g2 ← mt.opt 2
      let g3 ← mt.opt 3
      let d1 : BlockDef ← match g1 with
        | some o => do
          let c ← match g2 with
            | some c => pure c
            | none => raise (.noneType "closeTag")
          pure { d with openTag := o, closeTag := c }
        | none => pure d
      let d2 : BlockDef ← match g3 with
        | some o => do
          let e ← expandParse d1.expand o
          pure { d1 with expand := e }
        | none => pure d1
      modify fun s => { s with blockDefs := upd s.blockDefs d2 }
where
  upd : List BlockDef → BlockDef → List BlockDef
    | [], _ => []
    | d :: rest, d2 => if d.name == name then d2 :: rest else d :: upd rest d2

/-- `document.init()` -/
def documentInit : M Unit :=
  modify fun s =>
    { s with
      classes := [], id := [], css := [], attributes := [], opts := {}, ids := [],
      safeMode := Gen.defaultSafeMode, htmlReplacement := Gen.defaultHtmlReplacement, callback := false,
      blockDefs := Gen.blockDefaultDefs,
      macroDefs := Gen.macroDefaultDefs,
      quoteDefs := Gen.quoteDefaultDefs,
      replDefs := Gen.replDefaultDefs }

/-- Python values that can be passed as API options. -/
inductive PyVal where
  | none
  | bool (b : Bool)
  | int (i : Int)
  | float (repr : Str) (isZero isOne : Bool)   -- `str()` of a float is never an int literal
  | str (s : Str)
deriving Repr, DecidableEq, Inhabited

/-- `str(value)` -/
def PyVal.toStr : PyVal → Str
  | .none => "None".toList
  | .bool true => "True".toList
  | .bool false => "False".toList
  | .int i => intToStr i
  | .float r _ _ => r
  | .str s => s

/-- `value == False` -/
def PyVal.eqFalse : PyVal → Bool
  | .bool false => true
  | .int 0 => true
  | .float _ z _ => z
  | _ => false

/-- `value == True` -/
def PyVal.eqTrue : PyVal → Bool
  | .bool true => true
  | .int 1 => true
  | .float _ _ o => o
  | _ => false

/-- `options.setOption(name, value)` -/
def setOption (name : Str) (value : PyVal) : M Unit := do
  if name == "safeMode".toList then
    match pyInt value.toStr with
    | none =>
      errorCallback ("illegal safeMode API option value: ".toList ++ value.toStr)
    | some n =>
      if n < 0 || n > 15 then
        errorCallback ("illegal safeMode API option value: ".toList ++ value.toStr)
      else modify fun s => { s with safeMode := n }
  else if name == "reset".toList then
    if value == .none || value.eqFalse || value == .str "false".toList then return
    else if value.eqTrue || value == .str "true".toList then documentInit
    else errorCallback ("illegal reset API option value: ".toList ++ value.toStr)
  else if name == "htmlReplacement".toList then
    -- U+0000..U+0002 are used internally by spans and macros: blanked as in `io.Reader`
    modify fun s => { s with htmlReplacement := blankReserved value.toStr }
  else
    errorCallback ("illegal API option name: ".toList ++ name)

/-- `rimu.RenderOptions`; `callback` is "a callback was supplied". -/
structure RenderOptions where
  safeMode : PyVal := .none
  htmlReplacement : PyVal := .none
  reset : PyVal := .none
  callback : Bool := false
deriving Repr, DecidableEq, Inhabited

/-- `options.updateFrom(options)` -/
def updateFrom (o : RenderOptions) : M Unit := do
  if o.callback then
    modify fun s => { s with callback := true }
  setOption "reset".toList o.reset
  if o.callback then
    modify fun s => { s with callback := true }
  if o.safeMode != .none then
    setOption "safeMode".toList (.str o.safeMode.toStr)
  if o.htmlReplacement != .none then
    setOption "htmlReplacement".toList o.htmlReplacement

/-- `options.setOption` as the API Option element calls it: a reset element restores the option defaults, it does not
    take away the callback of the render call in progress -/
def setOptionInDocument (name : Str) (value : PyVal) : M Unit := do
  let cb := (← get).callback
  setOption name value
  modify fun s => { s with callback := cb }

/-! ## lineblocks -/

/-- `options.panic(message)`; the `print` is not modelled (the call sites are shown unreachable). -/
def panic (msg : Str) : M Unit := errorCallback ("panic: ".toList ++ msg)

/-- `lineblocks.verifyMacroLine(match, reader)` -/
def verifyMacroLine (rec : Rec) (env : Env) (mt : Match) (reader : Reader) : M (Bool × Reader) := do
  let whole := mt.whole
  if (Gen.P.macros_DEF_OPEN.search whole).isSome then return (false, reader)
  let value ← macrosRender rec env whole true
  if startsWith value whole || contains value ("\n".toList ++ whole) then return (false, reader)
  let (ok, reader) ← reader.insertExpansion (splitChar value '\n') Gen.maxExpansionDepth
  if !ok then
    errorCallback ("macro expansion nesting limit exceeded: ".toList ++ whole)
  return (ok, reader)

def lineFilter (rec : Rec) (env : Env) (d : LineDef) (mt : Match) : M Str := do
  match d.filter with
  | .none =>
    if d.replacement != [] then replaceMatch rec env mt d.replacement { macros := some true } else pure []
  | .blank => pure []
  | .blockDef =>
    if ← isSafeModeNz then return []
    let g2 ← mt.str 2
    let value ← replaceInline rec env g2 { macros := some true }
    blockSetDefinition (← mt.str 1) value
    return []
  | .quoteDef =>
    if ← isSafeModeNz then return []
    let q ← mt.str 1
    let o ← replaceInline rec env (← mt.str 2) { macros := some true }
    let c ← replaceInline rec env (← mt.str 4) { macros := some true }
    let sep ← mt.str 3
    quotesSetDefinition { quote := q, openTag := o, closeTag := c, spans := sep == "|".toList }
    return []
  | .replDef =>
    if ← isSafeModeNz then return []
    let pattern ← mt.str 1
    let flags ← mt.str 2
    let replacement ← replaceInline rec env (← mt.str 3) { macros := some true }
    replSetDefinition env pattern flags replacement
    return []
  | .macroDef =>
    let name ← mt.str 1
    let value ← replaceInline rec env (← mt.str 2) { macros := some true }
    macrosSetValue name value
    return []
  | .header =>
    let hid ← macrosGetValue "--header-ids".toList
    if (hid.getD []) != [] && (← get).id == [] then
      let slug ← slugify (← mt.str 2)
      modify fun s => { s with id := slug }
    let result ← replaceMatch rec env mt d.replacement { macros := some true }
    let g1 ← mt.str 1
    -- the level number goes into the two tags of the header, not into the title between them
    let opentag := "<h".toList ++ g1 ++ ">".toList
    let closetag := "</h".toList ++ g1 ++ ">".toList
    if startsWith result opentag && endsWith result closetag then
      let n := natToStr g1.length
      return "<h".toList ++ n ++ ">".toList ++ (result.drop opentag.length).take (result.length - opentag.length - closetag.length)
        ++ "</h".toList ++ n ++ ">".toList
    return result
  | .anchor =>
    if ← skipBlockAttributes then pure []
    else replaceMatch rec env mt d.replacement { macros := some true }
  | .apiOption =>
    if !(← isSafeModeNz) then
      let value ← replaceInline rec env (← mt.str 2) { macros := some true }
      setOptionInDocument (← mt.str 1) (.str value)
    return []

/-- The `for d in defs` loop of `lineblocks.render`. -/
def lineblocksGo (rec : Rec) (env : Env) (allowed : List Str) :
    List LineDef → Reader → Writer → M (Bool × Reader × Writer)
  | [], reader, writer => pure (false, reader, writer)
  | d :: rest, reader, writer => do
    if !allowed.isEmpty && !allowed.contains d.name then
      return ← lineblocksGo rec env allowed rest reader writer
    let cur ← reader.cursor
    match d.pat.search cur with
    | none => lineblocksGo rec env allowed rest reader writer
    | some mt =>
      match mt.whole with
      | [] => raise (.indexError "match[0][0] line")
      | c0 :: _ =>
        if c0 == '\\' then
          let reader ← reader.unescape
          return (false, reader, writer)
        let (ok, reader) ← match d.verify with
          | .none => pure (true, reader)
          | .macroLine => verifyMacroLine rec env mt reader
          | .attributes => do
            let b ← battrParse rec env mt.whole
            pure (b, reader)
        if !ok then
          return ← lineblocksGo rec env allowed rest reader writer
        let text ← lineFilter rec env d mt
        if text != [] then
          let text ← injectHtmlAttributes text
          modify fun s => { s with opts := {} }
          let writer := writer.write text
          let reader := reader.next
          let writer := if !reader.eof then writer.write "\n".toList else writer
          return (true, reader, writer)
        else
          return (true, reader.next, writer)

/-- `lineblocks.render(reader, writer, allowed)` -/
def lineblocksRender (rec : Rec) (env : Env) (reader : Reader) (writer : Writer) (allowed : List Str := []) :
    M (Bool × Reader × Writer) := do
  if reader.eof then panic "premature eof".toList
  if reader.isEscaped then return (false, reader, writer)
  lineblocksGo rec env allowed Gen.lineDefs reader writer

/-! ## delimitedblocks -/

/-- `delimitedblocks.htmlVerify` -/
def htmlVerify (mt : Match) : M Bool := do
  let g2 ← mt.orEmpty 2
  if g2 != [] then pure (Gen.P.delimitedblocks_MATCH_INLINE_TAG.search g2).isNone
  else pure true

/-- `delimitedblocks.macroDefContentFilter` -/
def macroDefContentFilter (rec : Rec) (env : Env) (text : Str) (mt : Match) (expand : Expand) : M Str := do
  let name ← match Gen.P.delimitedblocks_macroDefContentFilter_0.search mt.whole with
    | some m => m.str 1
    | none => raise (.assertion "m is not None")
  let text := Gen.P.delimitedblocks_macroDefContentFilter_1.sub text fun _ => "'\n".toList
  let text := Gen.P.delimitedblocks_macroDefContentFilter_2.sub text fun m =>
    (m.res.group m.inp 1).getD [] ++ "\n".toList
  let text ← replaceInline rec env text expand
  macrosSetValue name text
  return []

/-- `delimitedblocks.indentedContentFilter` -/
def indentedContentFilter (text : Str) : M Str := do
  let firstIndent ← match Gen.P.delimitedblocks_indentedContentFilter_0.search text with
    | some m => pure m.start
    | none => raise (.assertion "m is not None")
  let lines ← (splitChar text '\n').mapM fun line => do
    let indent ← match Gen.P.delimitedblocks_indentedContentFilter_1.search line with
      | some m => pure m.start
      | none => raise (.assertion "m is not None")
    let indent := if indent > firstIndent then firstIndent else indent
    pure (line.drop indent)
  return join "\n".toList lines

/-- `delimitedblocks.quoteParagraphContentFilter` -/
def quoteParagraphContentFilter (text : Str) : Str :=
  join "\n".toList ((splitChar text '\n').map fun line =>
    let line := Gen.P.delimitedblocks_quoteParagraphContentFilter_0.sub line fun _ => []
    Gen.P.delimitedblocks_quoteParagraphContentFilter_1.sub line fun _ => ">".toList)

/-- `re.compile('^' + re.escape(delimiter) + '$')`, the closing pattern that `classInjectionFilter`
    stores in the definition (kept local: every read of it is preceded by this write). -/
def closeOf (delim : Str) : Pat :=
  { re := .seq .bol (.seq (litRe delim) .eol), ngroups := 0 }

def blockNamesWithUnterminated : List Str :=
  ["code".toList, "comment".toList, "division".toList, "quote".toList]

/-- after `readTo`: a code, comment, division or quote block whose closing delimiter was not found (the reader is
    at end of input) is reported -/
def unterminatedCheck (d : BlockDef) (mt : Match) (reader : Reader) : M Unit :=
  if reader.eof && blockNamesWithUnterminated.contains d.name then
    errorCallback ("unterminated ".toList ++ d.name ++ " block: ".toList ++ mt.whole)
  else pure ()

/-- the block's expansion options: those of the definition overridden by the pending Block Attributes options; a
    pending `-specials` is not valid in a non-zero safe mode (not even left pending by an earlier trusted render) -/
def blockExpand (d : BlockDef) : M Expand := do
  let s ← get
  let expand := d.expand.merge s.opts
  if s.safeMode != 0 && s.opts.specials == some false then return { expand with specials := d.expand.specials }
  return expand

/-- The body of `delimitedblocks.render` once definition `d` has matched and been verified, up to (not including)
    the final reset of the consumed block options. -/
def renderBlockBody (rec : Rec) (env : Env) (d : BlockDef) (mt : Match) (reader : Reader) (writer : Writer) :
    M (Reader × Writer) := do
  -- line-macro expansions enclosing the opening line (passed on to the content of a container)
  let nesting := reader.nesting
  -- Process opening delimiter.
  let (delimiterText, closeMatch) ← match d.delimiterFilter with
    | .none => pure (([] : Str), d.closeMatch)
    | .opening => do pure (← mt.str 1, d.closeMatch)
    | .classInjection => do
      let p1 := strip (← mt.str 2)
      if p1 != [] then modify fun s => { s with classes := p1 }
      pure ([], closeOf (← mt.str 1))
  let lines0 : List Str := if delimiterText != [] then [delimiterText] else []
  let reader := reader.next
  let (content, reader) ← reader.readTo closeMatch
  unterminatedCheck d mt reader
  let reader := reader.next
  let lines := lines0 ++ content
  let expand ← blockExpand d
  let writer ← if expand.skip != some true then do
      let text0 := join "\n".toList lines
      let text1 ← match d.contentFilter with
        | .none => pure text0
        | .macroDef => macroDefContentFilter rec env text0 mt expand
        | .indented => indentedContentFilter text0
        | .quoteParagraph => pure (quoteParagraphContentFilter text0)
      let isHtml := d.name == "html".toList
      let text2 ← if isHtml then injectHtmlAttributes text1 else pure text1
      let opentag0 ← if isHtml then pure d.openTag else injectHtmlAttributes d.openTag
      -- too deeply nested to be rendered as a document of its own
      let tooDeep := expand.container == some true && reader.level ≥ Gen.maxContainerDepth
      if tooDeep then errorCallback ("block nesting limit exceeded: ".toList ++ mt.whole)
      let text3 ← if expand.container == some true && !tooDeep then do
          modify fun s => { s with opts := { s.opts with container := none } }
          rec.document { nesting := nesting, level := reader.level + 1 } text2
        else do
          let t ← replaceInline rec env text2 expand
          if isHtml then htmlSafeModeFilter t else pure t
      -- `d.closeTag` is read after the nested render, from the live definition object
      let closeTag0 := match blockGetDefinition (← get).blockDefs d.name with
        | some d' => d'.closeTag
        | none => d.closeTag
      let dropDiv := d.name == "division".toList && opentag0 == "<div>".toList
      let opentag := if dropDiv then [] else opentag0
      let closetag := if dropDiv then [] else closeTag0
      let w := ((writer.write opentag).write text3).write closetag
      pure (if !reader.eof && (opentag ++ text3 ++ closetag) != [] then w.write "\n".toList else w)
    else pure writer
  return (reader, writer)

/-- `renderBlockBody`, then `blockattributes.opts = Expand()` (always, skipped or not). -/
def renderBlock (rec : Rec) (env : Env) (d : BlockDef) (mt : Match) (reader : Reader) (writer : Writer) :
    M (Reader × Writer) := do
  let r ← renderBlockBody rec env d mt reader writer
  modify fun s => { s with opts := {} }
  return r

/-- The `for d in defs` loop of `delimitedblocks.render`. -/
def delimitedGo (rec : Rec) (env : Env) (allowed : List Str) :
    List BlockDef → Reader → Writer → M (Bool × Reader × Writer)
  | [], reader, writer => pure (false, reader, writer)
  | d :: rest, reader, writer => do
    if !allowed.isEmpty && !allowed.contains d.name then
      return ← delimitedGo rec env allowed rest reader writer
    let isPara := d.name == "paragraph".toList
    if reader.isEscaped && !isPara then
      return ← delimitedGo rec env allowed rest reader writer
    let cur ← reader.cursor
    match d.openMatch.search cur with
    | none => delimitedGo rec env allowed rest reader writer
    | some mt =>
      match mt.whole with
      | [] => raise (.indexError (if isPara then "match[0][0] paragraph" else "match[0][0] block"))
      | c0 :: _ =>
        if c0 == '\\' && !isPara then
          let reader ← reader.unescape
          return ← delimitedGo rec env allowed rest reader writer
        let ok ← match d.verify with
          | .none => pure true
          | .macroDef => pure (Gen.P.macros_LINE_DEF.search mt.whole).isNone
          | .code => do
            let g1 ← mt.str 1
            let g2 ← mt.str 2
            match g1 with
            | [] => raise (.indexError "match[1][0]")
            | c :: _ => pure (!(c == '-' && strip g2 != []))
          | .html => htmlVerify mt
        if !ok then
          return ← delimitedGo rec env allowed rest reader writer
        let (reader, writer) ← renderBlock rec env d mt reader writer
        return (true, reader, writer)

/-- `delimitedblocks.render(reader, writer, allowed)` -/
def delimitedRender (rec : Rec) (env : Env) (reader : Reader) (writer : Writer) (allowed : List Str := []) :
    M (Bool × Reader × Writer) := do
  if reader.eof then panic "premature eof".toList
  delimitedGo rec env allowed (← get).blockDefs reader writer

/-! ## lists -/

/-- `lists.ItemInfo` -/
structure ItemInfo where
  mt : Match
  listdef : ListDef
  id : Str
deriving Inhabited

/-- `lists.matchItem(reader)` -/
def matchItem (reader : Reader) : M (Option ItemInfo × Reader) := do
  if reader.eof then return (none, reader)
  if reader.isEscaped then return (none, reader)
  go Gen.listDefs reader
where
  go : List ListDef → Reader → M (Option ItemInfo × Reader)
    | [], reader => pure (none, reader)
    | d :: rest, reader => do
      let cur ← reader.cursor
      match d.pat.search cur with
      | none => go rest reader
      | some mt =>
        match mt.whole with
        | [] => raise (.indexError "match[0][0] list")
        | c0 :: _ =>
          if c0 == '\\' then
            let reader ← reader.unescape
            return (none, reader)
          let id ← mt.str (mt.ngroups - 1)
          return (some { mt := mt, listdef := d, id := id }, reader)

/-- `lists.consumeBlockAttributes(reader, writer)`: number of blank lines read, or -1 at EOF. -/
def consumeBlockAttributes (rec : Rec) (env : Env) : Nat → Nat → Reader → Writer → M (Int × Reader × Writer)
  | 0, _, _, _ => raise .outOfFuel
  | fuel+1, blanks, reader, writer => do
    if reader.eof then return (-1, reader, writer)
    let (done, reader, writer) ← lineblocksRender rec env reader writer ["attributes".toList]
    if done then
      return ← consumeBlockAttributes rec env fuel blanks reader writer
    let cur ← reader.cursor
    if cur != [] then return (Int.ofNat blanks, reader, writer)
    consumeBlockAttributes rec env fuel (blanks + 1) reader.next writer

def attachedAllowed0 : List Str :=
  ["comment".toList, "code".toList, "division".toList, "html".toList, "quote".toList]
def attachedAllowed1 : List Str := ["indented".toList, "quote-paragraph".toList]

mutual

/-- `lists.renderList(item, reader, writer)` -/
def renderList (rec : Rec) (env : Env) : Nat → ItemInfo → Reader → Writer → M (Option ItemInfo × Reader × Writer)
  | 0, _, _, _ => raise .outOfFuel
  | fuel+1, item, reader, writer => do
    modify fun s => { s with listIds := s.listIds ++ [item.id] }
    let tag ← injectHtmlAttributes item.listdef.listOpenTag
    modify fun s => { s with opts := {} }
    renderListLoop rec env fuel item reader (writer.write tag)

/-- the `while True` of `renderList` -/
def renderListLoop (rec : Rec) (env : Env) : Nat → ItemInfo → Reader → Writer → M (Option ItemInfo × Reader × Writer)
  | 0, _, _, _ => raise .outOfFuel
  | fuel+1, item, reader, writer => do
    let (nextItem, reader, writer) ← renderListItem rec env fuel item reader writer
    let continues := match nextItem with
      | some n => n.id == item.id
      | none => false
    if !continues then
      -- `ids.pop()`: IndexError on an empty stack
      if (← get).listIds == [] then raise (.indexError "ids.pop()")
      modify fun s => { s with listIds := s.listIds.dropLast }
      return (nextItem, reader, writer.write item.listdef.listCloseTag)
    match nextItem with
    | some n => renderListLoop rec env fuel n reader writer
    | none => return (nextItem, reader, writer)

/-- `lists.renderListItem(item, reader, writer)` -/
def renderListItem (rec : Rec) (env : Env) : Nat → ItemInfo → Reader → Writer → M (Option ItemInfo × Reader × Writer)
  | 0, _, _, _ => raise .outOfFuel
  | fuel+1, item, reader, writer => do
    let d := item.listdef
    let mt := item.mt
    let writer ← if d.termOpenTag != [] then do
        let t ← injectHtmlAttributes d.termOpenTag false
        modify fun s => { s with id := [] }
        let text ← replaceInline rec env (← mt.str 1) { macros := some true, spans := some true }
        pure (((writer.write t).write text).write d.termCloseTag)
      else pure writer
    let t ← injectHtmlAttributes d.itemOpenTag
    modify fun s => { s with opts := {} }
    let writer := writer.write t
    let text ← mt.str mt.ngroups
    let itemLines : Writer := ({} : Writer).write (text ++ "\n".toList)
    let reader := reader.next
    let (nextItem, reader, itemLines, attachedLines) ←
      renderItemLoop rec env fuel reader itemLines {} false
    let text := strip itemLines.toStr
    let text ← replaceInline rec env text { macros := some true, spans := some true }
    return (nextItem, reader, ((writer.write text).extend attachedLines).write d.itemCloseTag)

/-- the `while True` of `renderListItem`; returns next item, reader, item lines, attached lines -/
def renderItemLoop (rec : Rec) (env : Env) : Nat → Reader → Writer → Writer → Bool →
    M (Option ItemInfo × Reader × Writer × Writer)
  | 0, _, _, _, _ => raise .outOfFuel
  | fuel+1, reader, itemLines, attachedLines, attachedDone => do
    let (blankLines, reader, attachedLines) ←
      consumeBlockAttributes rec env (reader.rest.length + 2) 0 reader attachedLines
    if blankLines ≥ 2 || blankLines == -1 then
      return (none, reader, itemLines, attachedLines)
    let (nextItem, reader) ← matchItem reader
    match nextItem with
    | some n =>
      if (← get).listIds.contains n.id then
        return (some n, reader, itemLines, attachedLines)
      else
        let (nx, reader, attachedLines) ← renderList rec env fuel n reader attachedLines
        return (nx, reader, itemLines, attachedLines)
    | none =>
      if attachedDone then return (none, reader, itemLines, attachedLines)
      if blankLines == 0 then
        let savedIds := (← get).listIds
        modify fun s => { s with listIds := [] }
        let (done, reader, attachedLines) ← delimitedRender rec env reader attachedLines attachedAllowed0
        let (reader, itemLines, attachedDone) ←
          if done then pure (reader, itemLines, true)
          else do
            let cur ← reader.cursor
            pure (reader.next, itemLines.write (cur ++ "\n".toList), attachedDone)
        modify fun s => { s with listIds := savedIds }
        renderItemLoop rec env fuel reader itemLines attachedLines attachedDone
      else if blankLines == 1 then
        -- the attached block may be a container whose content holds lists of its own
        let savedIds := (← get).listIds
        modify fun s => { s with listIds := [] }
        let (done, reader, attachedLines) ← delimitedRender rec env reader attachedLines attachedAllowed1
        modify fun s => { s with listIds := savedIds }
        if done then renderItemLoop rec env fuel reader itemLines attachedLines true
        else return (none, reader, itemLines, attachedLines)
      else
        renderItemLoop rec env fuel reader itemLines attachedLines attachedDone

end

/-- `lists.render(reader, writer)` -/
def listsRender (rec : Rec) (env : Env) (fuel : Nat) (reader : Reader) (writer : Writer) :
    M (Bool × Reader × Writer) := do
  if reader.eof then panic "premature eof".toList
  let (startItem, reader) ← matchItem reader
  match startItem with
  | none => return (false, reader, writer)
  | some item =>
    modify fun s => { s with listIds := [] }
    let (_, reader, writer) ← renderList rec env fuel item reader writer
    if (← get).listIds != [] then panic "list stack failure".toList
    return (true, reader, writer)

/-! ## document -/

/-- The `while not reader.eof()` loop of `document.render`. -/
def documentLoop (rec : Rec) (env : Env) : Nat → Reader → Writer → M Writer
  | 0, _, _ => raise .outOfFuel
  | fuel+1, reader, writer => do
    if reader.eof then return writer
    let reader := reader.skipBlankLines
    if reader.eof then return writer
    let (done, reader, writer) ← lineblocksRender rec env reader writer
    if done then return ← documentLoop rec env fuel reader writer
    let (done, reader, writer) ← listsRender rec env fuel reader writer
    if done then return ← documentLoop rec env fuel reader writer
    let (done, reader, writer) ← delimitedRender rec env reader writer
    if done then return ← documentLoop rec env fuel reader writer
    panic "no matching delimited block found".toList
    documentLoop rec env fuel reader writer

/-- `document.render(source)` with the loop fuel given. -/
def documentRender (rec : Rec) (env : Env) (fuel : Nat) (source : Str) (d : Depth := {}) : M Str := do
  let w ← documentLoop rec env fuel (Reader.ofText source d.nesting d.level) {}
  return w.toStr

/-- Ties the recursion: level `n+1` may nest `n` further span / document renders. -/
def mkRec (env : Env) : Nat → Rec
  | 0 => { spans := fun _ => raise .outOfFuel, document := fun _ _ => raise .outOfFuel }
  | n+1 =>
    { spans := fun s => spansRender (mkRec env n) env s,
      document := fun d s => documentRender (mkRec env n) env (n+1) s d }

/-- The exported `rimu.render(source, opts)`. -/
def apiRender (env : Env) (fuel : Nat) (source : Str) (opts : RenderOptions := {}) : M Str := do
  if (← get).safeMode == -1 then documentInit
  updateFrom opts
  (mkRec env fuel).document 0 source

end Rimu
