import RimuModel.Base
import RimuModel.Generated.Defs

/-!
# Inline layer: `options` predicates, `utils`, `macros`, `quotes`, `replacements`, `spans`

Recursion through `spans.render` (a `$$n` parameter or replacement group is span-rendered) and
through `document.render` (container blocks) goes through the record `Rec`, whose fields are bound
to the next lower fuel level by `Rimu.mkRec` (open recursion; see `Block.lean`).
-/

namespace Rimu
open Rx Py

structure Rec where
  spans : Str → M Str
  /-- `document.render(source, nesting, level)` -/
  document : Depth → Str → M Str

/-- Python's `a & m` for an `int` `a` of either sign and a non-negative mask. -/
def pyAnd (a : Int) (m : Nat) : Nat :=
  if a ≥ 0 then a.toNat &&& m else m - ((-a - 1).toNat &&& m)

/-! ## options -/

def isSafeModeNz : M Bool := do return (← get).safeMode != 0

def skipMacroDefs : M Bool := do
  let s ← get
  return s.safeMode != 0 && pyAnd s.safeMode 8 == 0

def skipBlockAttributes : M Bool := do
  return pyAnd (← get).safeMode 4 != 0

/-- `options.htmlSafeModeFilter` -/
def htmlSafeModeFilter (html : Str) : M Str := do
  let s ← get
  let n := pyAnd s.safeMode 3
  if n == 0 then pure html
  else if n == 1 then pure []
  else if n == 2 then pure s.htmlReplacement
  else if n == 3 then pure (replaceSpecialChars html)
  else pure []

/-! ## macros -/

def macrosGetValue (name : Str) : M (Option Str) := do
  return ((← get).macroDefs.find? (·.name == name)).map (·.value)

/-- `macros.setValue` -/
def macrosSetValue (name value : Str) : M Unit := do
  if ← skipMacroDefs then return
  let existential := endsWith name "?".toList
  let name := if existential then name.dropLast else name
  if name == "--".toList && value != [] then
    errorCallback "the predefined blank '--' macro cannot be redefined".toList
    return
  let s ← get
  if s.macroDefs.any (·.name == name) then
    if !existential then
      set { s with macroDefs := updFirst s.macroDefs name }
    return
  set { s with macroDefs := s.macroDefs ++ [({ name := name, value := value } : MacroDef)] }
where
  updFirst : List MacroDef → Str → List MacroDef
    | [], _ => []
    | d :: rest, name =>
      if d.name == name then ({ d with value := value } : MacroDef) :: rest else d :: updFirst rest name

/-- The inner `repl(mr)` of `macros.render`: substitution of one formal parameter. -/
def paramRepl (rec : Rec) (paramsList : List Str) (mr : Match) : M Str := do
  let whole := mr.whole
  if startsWith whole "\\".toList then
    return whole.drop 1
  let p1 ← mr.str 1
  let p2s ← mr.str 2
  let p2 ← match pyInt p2s with
    | some i => pure i.toNat
    | none => raise (.valueError "int(mr[2])")
  let p3 ← mr.orEmpty 3
  let p4 ← mr.orEmpty 4
  if p2 == 0 then
    return whole
  let param0 : Str := if paramsList.length < p2 then [] else paramsList.getD (p2 - 1) []
  let param : Str :=
    if p3 != [] then
      if startsWith p3 "\\".toList then param0 ++ p3.drop 1
      else if param0 == [] then replaceAll p4 "\\$".toList "$".toList
      else param0
    else param0
  if p1 == "$$".toList then rec.spans param else pure param

/-- The `repl(match)` closure of `macros.render` for one of the two invocation patterns. -/
def macroRepl (rec : Rec) (env : Env) (text : Str) (silent simple : Bool) (mt : Match) : M Str := do
  let whole := mt.whole
  if startsWith whole "\\".toList then
    -- the silent pass is that of a line macro, whose result is read and rendered again: the escape is left for then
    return if silent then whole else whole.drop 1
  let params ← mt.str 2
  if startsWith params "?".toList then
    if !silent then
      errorCallback ("existential macro invocations are deprecated: ".toList ++ whole)
    return whole
  let name ← mt.str 1
  match ← macrosGetValue name with
  | none =>
    if !silent then
      errorCallback ("undefined macro: ".toList ++ whole ++ ": ".toList ++ text)
    return whole
  | some value =>
    if simple then return value
    let params := replaceAll params "\\}".toList "}".toList
    match params with
    | [] => raise (.indexError "params[0]")
    | c :: ptail =>
      if c == '|' then
        let paramsList := splitChar ptail '|'
        Gen.P.macros_render_2.subM value (paramRepl rec paramsList)
      else if c == '!' || c == '=' then
        let pattern := ptail
        match env.compile pattern 0 with
        | .ok p =>
          -- `re.fullmatch(pattern, value)`: the pattern as a whole, up to the end of the value
          let skip0 := (({ p with re := .seq p.re .eos } : Pat).matchStart value).isNone
          let skip := if c == '!' then !skip0 else skip0
          return if skip then [Char.ofNat 2] else []
        | .error =>
          if !silent then
            errorCallback ("illegal macro regular expression: ".toList ++ pattern ++ ": ".toList ++ text)
          return whole
        | .unsupported => raise (.unsupportedRegex pattern)
        | .missing => raise (.needCompile pattern 0)
      else
        errorCallback ("illegal macro syntax: ".toList ++ whole)
        return []

/-- `macros.render(text, silent)` -/
def macrosRender (rec : Rec) (env : Env) (text : Str) (silent : Bool := false) : M Str := do
  let r1 ← Gen.P.macros_render_1.subM text (macroRepl rec env text silent true)
  let r2 ← Gen.P.macros_render_0.subM r1 (macroRepl rec env text silent false)
  if r2.contains (Char.ofNat 2) then
    return join "\n".toList ((splitChar r2 '\n').filter fun line => !line.contains (Char.ofNat 2))
  return r2

/-! ## utils -/

/-- `utils.replaceInline` -/
def replaceInline (rec : Rec) (env : Env) (text : Str) (expand : Expand) : M Str := do
  let result ← if expand.macros == some true then macrosRender rec env text else pure text
  if expand.spans == some true then rec.spans result
  else if expand.specials == some true then pure (replaceSpecialChars result)
  else pure result

/-- What `utils.replaceMatch` does with the text of one group: `$n` (spans = false) adds specials to a copy of the
    expansion options, `$$n` adds spans; the text is expanded and, unless it was span-rendered, its double quotes
    are escaped if it stands inside a quoted attribute value of the template (`inAttr`). -/
def replaceGroupText (rec : Rec) (env : Env) (g : Str) (spans : Bool) (expand : Expand) (inAttr : Bool := true) :
    M Str := do
  let groupExpand : Expand :=
    if spans then { expand with spans := some true } else { expand with specials := some true }
  let result ← replaceInline rec env g groupExpand
  return if groupExpand.spans != some true && inAttr then replaceAll result "\"".toList "&quot;".toList else result

/-- `replacement.count('"', 0, m.start()) % 2 == 1`: the `$n` stands inside a double-quoted attribute value of the
    replacement template -/
def insideQuotes (m : Match) : Bool := ((m.inp.toList.take m.start).count '"') % 2 == 1

/-- The `repl(m)` closure of `utils.replaceMatch`: every `$n` / `$$n` gets its own copy of the
    expansion options. -/
def replaceMatchGroup (rec : Rec) (env : Env) (mt : Match) (expand : Expand) (m : Match) : M Str := do
  let dollars ← m.str 1
  let digit ← m.str 2
  let i ← match pyInt digit with
    | some i => pure i.toNat
    | none => raise (.valueError "int(m[2])")
  if i > mt.ngroups then
    errorCallback ("undefined replacement group: ".toList ++ m.whole)
    return []
  let g ← mt.orEmpty i
  replaceGroupText rec env g (dollars == "$$".toList) expand (insideQuotes m)

/-- `utils.replaceMatch(match, replacement, expand)` -/
def replaceMatch (rec : Rec) (env : Env) (mt : Match) (replacement : Str) (expand : Expand := {}) : M Str :=
  Gen.P.utils_replaceMatch_0.subM replacement (replaceMatchGroup rec env mt expand)

/-! ## quotes -/

def litRe (s : Str) : Re :=
  match s with
  | [] => .eps
  | [c] => .chr ⟨[(c.toNat, c.toNat)], false⟩
  | c :: rest => .seq (.chr ⟨[(c.toNat, c.toNat)], false⟩) (litRe rest)

def altsRe : List Str → Re
  | [] => .eps
  | [q] => litRe q
  | q :: rest => .alt (litRe q) (altsRe rest)

/-- `quotes.quotesRe`, a function of the live quote table (see `initializeRegExps`). -/
def quotesRe (defs : List QuoteDef) : Pat :=
  { re := Gen.P.quotesReOf (altsRe (defs.map (·.quote))), ngroups := Gen.P.quotesReGroups }

def unescapeRe (defs : List QuoteDef) : Pat :=
  { re := Gen.P.unescapeReOf (altsRe (defs.map (·.quote))), ngroups := Gen.P.unescapeReGroups }

def quotesGetDefinition (defs : List QuoteDef) (quote : Str) : Option QuoteDef :=
  defs.find? (·.quote == quote)

/-- `quotes.setDefinition` -/
def quotesSetDefinition (qdef : QuoteDef) : M Unit :=
  modify fun s =>
    if s.quoteDefs.any (·.quote == qdef.quote) then
      { s with quoteDefs := updFirst s.quoteDefs }
    else if qdef.quote.length == 2 then { s with quoteDefs := qdef :: s.quoteDefs }
    else { s with quoteDefs := s.quoteDefs ++ [qdef] }
where
  updFirst : List QuoteDef → List QuoteDef
    | [] => []
    | d :: rest => if d.quote == qdef.quote then qdef :: rest else d :: updFirst rest

/-- `quotes.unescape` -/
def quotesUnescape (defs : List QuoteDef) (s : Str) : Str :=
  (unescapeRe defs).sub s fun m => (m.res.group m.inp 1).getD []

/-! ## replacements -/

/-- `replacements.setDefinition(pattern, flags, replacement)` -/
def replSetDefinition (env : Env) (pattern flags replacement : Str) : M Unit := do
  let flgs : Nat := (if flags.contains 'i' then 2 else 0) ||| (if flags.contains 'm' then 8 else 0)
  match env.compile pattern flgs with
  | .error =>
    errorCallback ("illegal replacement regular expression: /".toList ++ pattern ++ "/".toList ++ flags ++
      "='".toList ++ replacement ++ "'".toList)
  | .unsupported => raise (.unsupportedRegex pattern)
  | .missing => raise (.needCompile pattern flgs)
  | .ok p =>
    let p := { p with src := pattern }
    modify fun s =>
      if s.replDefs.any (·.pat.src == pattern) then
        { s with replDefs := updFirst s.replDefs p }
      else { s with replDefs := s.replDefs ++ [{ pat := p, replacement := replacement }] }
where
  /-- `getDefinition` returns the first definition with that pattern text -/
  updFirst : List ReplDef → Pat → List ReplDef
    | [], _ => []
    | d :: rest, p =>
      if d.pat.src == pattern then ({ d with pat := p, replacement := replacement } : ReplDef) :: rest
      else d :: updFirst rest p

/-! ## spans -/

/-- The replacement text of one match of one definition (`fragReplacement`, inner part). -/
def replacementText (rec : Rec) (env : Env) (rdef : ReplDef) (mt : Match) : M Str := do
  let whole := mt.whole
  if startsWith whole "\\".toList then
    return replaceSpecialChars (whole.drop 1)
  match rdef.filter with
  | .none => replaceMatch rec env mt rdef.replacement
  | .anchor =>
    if ← skipBlockAttributes then pure [] else replaceMatch rec env mt rdef.replacement
  | .html => do
    let g ← mt.str 1 "htmlSafeModeFilter(match[1])"
    htmlSafeModeFilter g
  | .entity => mt.str 1 "entity match[1]"

/-- The loop of `spans.fragReplacement` on the text of a not-done fragment.  Every iteration
    consumes a non-empty match, so `fuel = |text| + 1` always suffices. -/
def fragReplacementLoop (rec : Rec) (env : Env) (rdef : ReplDef) : Nat → Str → M (List Fragment)
  | 0, _ => raise .outOfFuel
  | fuel+1, text =>
    match rdef.pat.search text with
    | none => pure [{ text := text, done := false }]
    | some mt =>
      if mt.stop == mt.start then pure [{ text := text, done := false }]
      else do
        let before := text.take mt.start
        let after := text.drop mt.stop
        let replacement ← replacementText rec env rdef mt
        let restFrags ← fragReplacementLoop rec env rdef fuel after
        pure ({ text := before, done := false } ::
              { text := replacement, done := true, verbatim := mt.whole } :: restFrags)

/-- `spans.fragReplacement(fragment, rdef)` -/
def fragReplacement (rec : Rec) (env : Env) (rdef : ReplDef) (fragment : Fragment) : M (List Fragment) :=
  if fragment.done then pure [fragment]
  else fragReplacementLoop rec env rdef (fragment.text.length + 1) fragment.text

def fragReplacementAll (rec : Rec) (env : Env) (rdef : ReplDef) : List Fragment → M (List Fragment)
  | [] => pure []
  | f :: rest => do
    let a ← fragReplacement rec env rdef f
    let b ← fragReplacementAll rec env rdef rest
    pure (a ++ b)

/-- `spans.fragReplacements(fragments)`: one pass per live replacement definition. -/
def fragReplacements (rec : Rec) (env : Env) : List ReplDef → List Fragment → M (List Fragment)
  | [], frags => pure frags
  | rdef :: rest, frags => do
    let tmp ← fragReplacementAll rec env rdef frags
    fragReplacements rec env rest tmp

/-- `spans.preReplacements(text)` -/
def preReplacements (rec : Rec) (env : Env) (text : Str) : M Str := do
  modify fun s => { s with saved := [] }
  let defs := (← get).replDefs
  let fragments ← fragReplacements rec env defs [{ text := text, done := false }]
  let done := fragments.filter (·.done)
  modify fun s => { s with saved := s.saved ++ done }
  pure (fragments.flatMap fun f => if f.done then [Char.ofNat 0] else f.text)

/-- `spans.postReplacements(text)`: placeholders are restored from the queue, in order. -/
def postReplacements : Str → M Str
  | [] => pure []
  | c :: rest =>
    if c.toNat == 0 || c.toNat == 1 then do
      let s ← get
      match s.saved with
      | [] => raise (.indexError "savedReplacements.pop(0)")
      | f :: more =>
        set { s with saved := more }
        let r := if c.toNat == 0 then f.text else replaceSpecialChars f.verbatim
        let t ← postReplacements rest
        pure (r ++ t)
    else do
      let t ← postReplacements rest
      pure (c :: t)

/-- The inner `while True` of `fragQuote`: find the first unescaped quote at or after `nextIndex`. -/
def findQuote (qre : Pat) (text : Str) : Nat → Nat → M (Option Match)
  | 0, _ => raise .outOfFuel
  | fuel+1, nextIndex =>
    if nextIndex > text.length then pure none else
    match qre.search text nextIndex with
    | none => pure none
    | some mt => do
      if startsWith mt.whole "\\".toList then
        let quote ← mt.str 1
        findQuote qre text fuel (mt.start + quote.length + 1)
      else pure (some mt)

/-- Extend the quoted text over closing quote characters that follow the match
    (`while nextIndex < len(text) and text[nextIndex] == quote[0]`). -/
def extendQuote (q0 : Char) : Str → Nat
  | [] => 0
  | c :: rest => if c == q0 then extendQuote q0 rest + 1 else 0

/-- `spans.fragQuote` on the text of a not-done fragment (outer loop and recursion on the quoted
    text; both strictly shorten the text, so `fuel = |text| + 1` suffices); `depth` is the number of quotes around
    the text: beyond `MAX_QUOTE_DEPTH` the quoted text is left as text. -/
def fragQuoteLoop (defs : List QuoteDef) : Nat → Nat → Str → M (List Fragment)
  | 0, _, _ => raise .outOfFuel
  | fuel+1, depth, text => do
    let qre := quotesRe defs
    match ← findQuote qre text (text.length + 2) 0 with
    | none => pure [{ text := text, done := false }]
    | some mt =>
      let quote ← mt.str 1
      let quoted0 ← mt.str 2
      let qdef ← match quotesGetDefinition defs quote with
        | some d => pure d
        | none => raise (.assertion "qdef is not None")
      let q0 ← match quote with
        | c :: _ => pure c
        | [] => raise (.indexError "quote[0]")
      let extra := extendQuote q0 (text.drop mt.stop)
      let quoted := quoted0 ++ List.replicate extra q0
      let nextIndex := mt.stop + extra
      let before := text.take mt.start
      let after := text.drop nextIndex
      let inner ← if !qdef.spans then
          pure [{ text := replaceAll (replaceSpecialChars quoted) [Char.ofNat 0] [Char.ofNat 1], done := true : Fragment }]
        else if depth ≥ Gen.maxQuoteDepth then do
          -- too deeply nested to go on: the quoted text is text
          errorCallback ("quote nesting limit exceeded: ".toList ++ quote)
          pure [{ text := quoted, done := false : Fragment }]
        else fragQuoteLoop defs fuel (depth + 1) quoted
      let restFrags ← fragQuoteLoop defs fuel depth after
      pure ({ text := before, done := false } :: { text := qdef.openTag, done := true } :: inner ++
            [{ text := qdef.closeTag, done := true }] ++ restFrags)

/-- `spans.fragQuote(fragment)` -/
def fragQuote (defs : List QuoteDef) (fragment : Fragment) : M (List Fragment) :=
  if fragment.done then pure [fragment]
  else fragQuoteLoop defs (fragment.text.length + 1) 0 fragment.text

/-- `spans.render(source)` given the recursion record for nested renders. -/
def spansRender (rec : Rec) (env : Env) (source : Str) : M Str := do
  let result ← preReplacements rec env source
  let defs := (← get).quoteDefs
  let frags ← fragQuote defs { text := result, done := false }
  -- fragQuotes: strip the backslash from escaped quotes in not-done fragments; fragSpecials
  let frags := frags.map fun f =>
    if f.done then f else { f with text := replaceSpecialChars (quotesUnescape defs f.text) }
  postReplacements (frags.flatMap (·.text))

end Rimu
