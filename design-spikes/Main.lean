import Rx.Basic
open Rx

def lit (c : Char) : Re := .chr { ranges := [(c.toNat, c.toNat)] }
def cls (rs : List (Nat × Nat)) (neg := false) : Re := .chr { ranges := rs, neg := neg }
def ws : List (Nat × Nat) := [(9,13),(28,32),(133,133),(160,160)]
def seqs : List Re → Re
  | [] => .eps
  | [r] => r
  | r :: rs => .seq r (seqs rs)
def alts : List Re → Re
  | [] => .eps
  | [r] => r
  | r :: rs => .alt r (alts rs)
def opt (r : Re) : Re := .rep r 0 (some 1) true
-- \\?(\*\*|\*|__|_|``|`|~~)([^\s\\]|\S[\s\S]*?[^\s\\])\1
def quotesRe : Re :=
  seqs [opt (lit '\\'),
        .grp 1 (alts [seqs [lit '*', lit '*'], lit '*', seqs [lit '_', lit '_'], lit '_',
                      seqs [lit '`', lit '`'], lit '`', seqs [lit '~', lit '~']]),
        .grp 2 (alts [cls (ws ++ [(92,92)]) true,
                      seqs [cls ws true, .rep (cls [] true) 0 none false, cls (ws ++ [(92,92)]) true]]),
        .bref 1]

def showRes (inp : Array Char) : Option (Nat × Res) → String
  | none => "none"
  | some (s, (e, caps)) => s!"{s}-{e} " ++ toString (caps.map fun o => o.map fun (a,b) => String.ofList (slice inp a b))

def main (args : List String) : IO Unit := do
  let n := (args.head? >>= String.toNat?).getD 1000
  let t1 := "Hello *Cruel* World **x y** and `co*de`".toList.toArray
  IO.println (showRes t1 (search t1 quotesRe 2))
  IO.println (showRes t1 (search t1 quotesRe 2 13))
  -- pumped: "*a " * n  (no closing) -> quadratic
  let big := (String.join (List.replicate n "*a ")).toList.toArray
  let t0 ← IO.monoMsNow
  IO.println (showRes big (search big quotesRe 2))
  let t1' ← IO.monoMsNow
  IO.println s!"pumped len={big.size} ms={t1' - t0}"
