import Std.Do
import Std.Tactic.Do
open Std.Do

/-! Scratch: a slice of the session model as EStateM-like monad and a frame proof. -/
namespace Exp

inductive Err where
  | indexError | reError | fuel
deriving Repr, DecidableEq

structure QDef where
  quote : String
  openTag : String
  closeTag : String
  spans : Bool
deriving Repr, DecidableEq

structure St where
  safeMode : Int := 0
  htmlReplacement : String := ""
  quoteDefs : List QDef := []
  msgs : List String := []
deriving Repr

abbrev M := StateT St (Except Err)

def errorCallback (msg : String) : M Unit := modify fun s => { s with msgs := s.msgs ++ [msg] }

def isSafeModeNz : M Bool := do return (← get).safeMode != 0

def quoteSetDefinition (d : QDef) : M Unit :=
  modify fun s =>
    if s.quoteDefs.any (·.quote == d.quote) then
      { s with quoteDefs := s.quoteDefs.map fun q => if q.quote == d.quote then d else q }
    else if d.quote.length == 2 then { s with quoteDefs := d :: s.quoteDefs }
    else { s with quoteDefs := s.quoteDefs ++ [d] }

def quoteDefFilter (d : QDef) : M String := do
  if (← isSafeModeNz) then return ""
  quoteSetDefinition d
  return ""

def setSafeMode (v : Option Int) (raw : String) : M Unit := do
  match v with
  | none => errorCallback ("illegal safeMode API option value: " ++ raw)
  | some n =>
    if n < 0 || n > 15 then errorCallback ("illegal safeMode API option value: " ++ raw)
    else modify fun s => { s with safeMode := n }

def apiOptionFilter (v : Option Int) (raw : String) : M String := do
  if !(← isSafeModeNz) then setSafeMode v raw
  return ""

/-- a "line" is abstractly one of the ops -/
inductive Line where
  | qdef (d : QDef) | opt (v : Option Int) (raw : String) | text (s : String)

def step : Line → M String
  | .qdef d => quoteDefFilter d
  | .opt v raw => apiOptionFilter v raw
  | .text s => pure s

def renderLines : List Line → M String
  | [] => pure ""
  | l :: ls => do
    let a ← step l
    let b ← renderLines ls
    return a ++ b

/-- Frame property, direct style. -/
def Frame (s s' : St) : Prop :=
  s'.safeMode = s.safeMode ∧ s'.quoteDefs = s.quoteDefs ∧ s'.htmlReplacement = s.htmlReplacement

theorem step_frame (l : Line) (s : St) (h : s.safeMode ≠ 0) :
    ∀ a s', step l s = .ok (a, s') → Frame s s' := by
  intro a s' hs
  cases l with
  | qdef d =>
    simp [step, quoteDefFilter, isSafeModeNz, h, bind, StateT.bind, Except.bind, get, getThe, MonadStateOf.get, StateT.get, pure, StateT.pure, Except.pure] at hs
    obtain ⟨_, rfl⟩ := hs; exact ⟨rfl, rfl, rfl⟩
  | opt v raw =>
    simp [step, apiOptionFilter, isSafeModeNz, h, bind, StateT.bind, Except.bind, get, getThe, MonadStateOf.get, StateT.get, pure, StateT.pure, Except.pure] at hs
    obtain ⟨_, rfl⟩ := hs; exact ⟨rfl, rfl, rfl⟩
  | text t =>
    simp [step, pure, StateT.pure, Except.pure] at hs
    obtain ⟨_, rfl⟩ := hs; exact ⟨rfl, rfl, rfl⟩

theorem renderLines_frame (ls : List Line) : ∀ (s : St), s.safeMode ≠ 0 →
    ∀ a s', renderLines ls s = .ok (a, s') → Frame s s' := by
  induction ls with
  | nil => intro s h a s' hs; simp [renderLines, pure, StateT.pure, Except.pure] at hs; obtain ⟨_, rfl⟩ := hs; exact ⟨rfl, rfl, rfl⟩
  | cons l ls ih =>
    intro s h a s' hs
    simp only [renderLines, bind, StateT.bind, Except.bind] at hs
    split at hs
    · cases hs
    · next x hx =>
      obtain ⟨a1, s1⟩ := x
      have f1 := step_frame l s h a1 s1 hx
      simp only at hs
      split at hs
      · cases hs
      · next y hy =>
        obtain ⟨a2, s2⟩ := y
        have h1 : s1.safeMode ≠ 0 := by rw [f1.1]; exact h
        have f2 := ih s1 h1 a2 s2 hy
        simp [pure, StateT.pure, Except.pure] at hs
        obtain ⟨_, rfl⟩ := hs
        exact ⟨f2.1.trans f1.1, f2.2.1.trans f1.2.1, f2.2.2.trans f1.2.2⟩

/-- Same with Std.Do triples. -/
theorem step_spec (l : Line) (s0 : St) (h : s0.safeMode ≠ 0) :
    ⦃fun s => ⌜s = s0⌝⦄ step l ⦃⇓ _ s => ⌜Frame s0 s⌝⦄ := by
  cases l <;> mvcgen [step, quoteDefFilter, apiOptionFilter, isSafeModeNz, setSafeMode, quoteSetDefinition, errorCallback]
  all_goals simp_all [Frame]

end Exp
#print axioms Exp.step_spec
#print axioms Exp.renderLines_frame
