/-! Scratch experiment: CPS backtracking regex matcher, structurally recursive. -/

namespace Rx

/-- A resolved character set: sorted code-point ranges, possibly negated. -/
structure CSet where
  ranges : List (Nat × Nat)
  neg : Bool := false
deriving Repr, DecidableEq

def CSet.mem (s : CSet) (c : Char) : Bool :=
  let n := c.toNat
  (s.ranges.any fun (lo, hi) => lo ≤ n && n ≤ hi) != s.neg

inductive Re where
  | eps
  | chr (s : CSet)
  | seq (a b : Re)
  | alt (a b : Re)
  | grp (i : Nat) (r : Re)
  | rep (r : Re) (min : Nat) (max : Option Nat) (greedy : Bool)
  | bol
  | eol
  | bref (i : Nat)
  | look (r : Re)
deriving Repr

abbrev Caps := List (Option (Nat × Nat))

def Caps.set (c : Caps) (i : Nat) (v : Nat × Nat) : Caps := List.set c i (some v)

abbrev Res := Nat × Caps
abbrev K := Nat → Caps → Option Res
abbrev M := K → Nat → Caps → Option Res

/-- repeat combinator; `fuel` bounds the number of iterations. -/
def repM (body : M) (min : Nat) (max : Option Nat) (greedy : Bool) : Nat → Nat → M
  | 0, _, _, _, _ => none
  | fuel+1, cnt, k, pos, caps =>
    let more : Unit → Option Res := fun _ =>
      match max with
      | some m => if cnt ≥ m then none else
          body (fun p c => if cnt ≥ min && p ≤ pos then none else repM body min max greedy fuel (cnt+1) k p c) pos caps
      | none =>
          body (fun p c => if cnt ≥ min && p ≤ pos then none else repM body min max greedy fuel (cnt+1) k p c) pos caps
    if cnt < min then more ()
    else if greedy then
      match more () with
      | some r => some r
      | none => k pos caps
    else
      match k pos caps with
      | some r => some r
      | none => more ()

def slice (inp : Array Char) (a b : Nat) : List Char := (inp.extract a b).toList

def matchLit (inp : Array Char) (lit : List Char) (pos : Nat) : Bool :=
  slice inp pos (pos + lit.length) == lit

def m (inp : Array Char) : Re → M
  | .eps, k, pos, caps => k pos caps
  | .chr s, k, pos, caps =>
      if h : pos < inp.size then
        if s.mem inp[pos] then k (pos+1) caps else none
      else none
  | .seq a b, k, pos, caps => m inp a (fun p c => m inp b k p c) pos caps
  | .alt a b, k, pos, caps =>
      match m inp a k pos caps with
      | some r => some r
      | none => m inp b k pos caps
  | .grp i r, k, pos, caps => m inp r (fun p c => k p (Caps.set c i (pos, p))) pos caps
  | .rep r mn mx g, k, pos, caps => repM (m inp r) mn mx g (inp.size + mn + 2) 0 k pos caps
  | .bol, k, pos, caps => if pos == 0 then k pos caps else none
  | .eol, k, pos, caps => if pos == inp.size then k pos caps else none
  | .bref i, k, pos, caps =>
      match caps.getD i none with
      | some (a, b) =>
          let lit := slice inp a b
          if matchLit inp lit pos then k (pos + lit.length) caps else none
      | none => none
  | .look r, k, pos, caps =>
      match m inp r (fun p c => some (p, c)) pos caps with
      | some (_, c) => k pos c
      | none => none

def matchAt (inp : Array Char) (r : Re) (ngroups : Nat) (pos : Nat) : Option Res :=
  m inp r (fun p c => some (p, c)) pos (List.replicate (ngroups+1) none)

def searchFrom (inp : Array Char) (r : Re) (ngroups : Nat) : Nat → Nat → Option (Nat × Res)
  | 0, _ => none
  | fuel+1, pos =>
    match matchAt inp r ngroups pos with
    | some res => some (pos, res)
    | none => if pos < inp.size then searchFrom inp r ngroups fuel (pos+1) else none

def search (inp : Array Char) (r : Re) (ngroups : Nat) (start : Nat := 0) : Option (Nat × Res) :=
  searchFrom inp r ngroups (inp.size + 2 - start) start

end Rx
