import Rx.Basic

namespace Rx

/-- Declarative semantics: `Matches inp r pos caps pos' caps'`. -/
inductive Matches (inp : Array Char) : Re → Nat → Caps → Nat → Caps → Prop where
  | eps : Matches inp .eps pos caps pos caps
  | chr (h : pos < inp.size) (hm : s.mem inp[pos] = true) : Matches inp (.chr s) pos caps (pos+1) caps
  | seq : Matches inp a pos caps p1 c1 → Matches inp b p1 c1 p2 c2 → Matches inp (.seq a b) pos caps p2 c2
  | altL : Matches inp a pos caps p c → Matches inp (.alt a b) pos caps p c
  | altR : Matches inp b pos caps p c → Matches inp (.alt a b) pos caps p c
  | grp : Matches inp r pos caps p c → Matches inp (.grp i r) pos caps p (Caps.set c i (pos, p))
  | repDone : Matches inp (.rep r mn mx g) pos caps pos caps
  | repStep : Matches inp r pos caps p1 c1 → Matches inp (.rep r mn mx g) p1 c1 p2 c2 →
      Matches inp (.rep r mn mx g) pos caps p2 c2
  | bol : Matches inp .bol 0 caps 0 caps
  | eol : Matches inp .eol inp.size caps inp.size caps
  | bref (h : caps.getD i none = some (a, b)) (hm : matchLit inp (slice inp a b) pos = true) :
      Matches inp (.bref i) pos caps (pos + (slice inp a b).length) caps
  | look : Matches inp r pos caps p c → Matches inp (.look r) pos caps pos c

/-- A matcher `f` is sound for regex `r`. -/
def SoundFor (inp : Array Char) (f : M) (r : Re) : Prop :=
  ∀ k pos caps res, f k pos caps = some res →
    ∃ p c, Matches inp r pos caps p c ∧ k p c = some res

theorem repM_sound (inp : Array Char) (body : M) (r : Re) (hb : SoundFor inp body r)
    (mn : Nat) (mx : Option Nat) (g : Bool) :
    ∀ fuel cnt k pos caps res, repM body mn mx g fuel cnt k pos caps = some res →
      ∃ p c, Matches inp (.rep r mn mx g) pos caps p c ∧ k p c = some res := by
  intro fuel
  induction fuel with
  | zero => intro cnt k pos caps res h; simp [repM] at h
  | succ fuel ih =>
    intro cnt k pos caps res h
    -- the "more" branch yields a step
    have more_sound : ∀ res,
        body (fun p c => if (cnt ≥ mn && p ≤ pos) = true then none
                         else repM body mn mx g fuel (cnt+1) k p c) pos caps = some res →
        ∃ p c, Matches inp (.rep r mn mx g) pos caps p c ∧ k p c = some res := by
      intro res hm
      obtain ⟨p1, c1, hm1, hk1⟩ := hb _ _ _ _ hm
      split at hk1
      · cases hk1
      · obtain ⟨p2, c2, hm2, hk2⟩ := ih _ _ _ _ _ hk1
        exact ⟨p2, c2, .repStep hm1 hm2, hk2⟩
    have done_sound : ∀ res, k pos caps = some res →
        ∃ p c, Matches inp (.rep r mn mx g) pos caps p c ∧ k p c = some res :=
      fun res hk => ⟨pos, caps, .repDone, hk⟩
    unfold repM at h
    simp only at h
    cases mx with
    | none =>
      simp only at h
      split at h
      · exact more_sound _ h
      · split at h
        · split at h
          · next r' hr' => cases h; exact more_sound _ hr'
          · exact done_sound _ h
        · split at h
          · next r' hr' => cases h; exact done_sound _ hr'
          · exact more_sound _ h
    | some m' =>
      simp only at h
      by_cases hc : cnt ≥ m'
      · simp only [hc, if_true] at h
        split at h
        · cases h
        · split at h
          · exact done_sound _ h
          · split at h
            · next r' hr' => cases h; exact done_sound _ hr'
            · cases h
      · simp only [hc, if_false] at h
        split at h
        · exact more_sound _ h
        · split at h
          · split at h
            · next r' hr' => cases h; exact more_sound _ hr'
            · exact done_sound _ h
          · split at h
            · next r' hr' => cases h; exact done_sound _ hr'
            · exact more_sound _ h

theorem m_sound (inp : Array Char) : ∀ r, SoundFor inp (m inp r) r := by
  intro r
  induction r with
  | eps => intro k pos caps res h; exact ⟨pos, caps, .eps, by simpa [m] using h⟩
  | chr s =>
    intro k pos caps res h
    simp only [m] at h
    split at h
    · next hlt =>
      split at h
      · next hm => exact ⟨pos+1, caps, .chr hlt hm, h⟩
      · cases h
    · cases h
  | seq a b iha ihb =>
    intro k pos caps res h
    simp only [m] at h
    obtain ⟨p1, c1, h1, hk1⟩ := iha _ _ _ _ h
    obtain ⟨p2, c2, h2, hk2⟩ := ihb _ _ _ _ hk1
    exact ⟨p2, c2, .seq h1 h2, hk2⟩
  | alt a b iha ihb =>
    intro k pos caps res h
    simp only [m] at h
    split at h
    · next r' hr' =>
      cases h
      obtain ⟨p, c, h1, hk⟩ := iha _ _ _ _ hr'
      exact ⟨p, c, .altL h1, hk⟩
    · obtain ⟨p, c, h1, hk⟩ := ihb _ _ _ _ h
      exact ⟨p, c, .altR h1, hk⟩
  | grp i r ih =>
    intro k pos caps res h
    simp only [m] at h
    obtain ⟨p, c, h1, hk⟩ := ih _ _ _ _ h
    exact ⟨p, _, .grp h1, hk⟩
  | rep r mn mx g ih =>
    intro k pos caps res h
    simp only [m] at h
    exact repM_sound inp _ r ih mn mx g _ _ _ _ _ _ h
  | bol =>
    intro k pos caps res h
    simp only [m] at h
    split at h
    · next hp => simp at hp; subst hp; exact ⟨0, caps, .bol, h⟩
    · cases h
  | eol =>
    intro k pos caps res h
    simp only [m] at h
    split at h
    · next hp => simp at hp; subst hp; exact ⟨_, caps, .eol, h⟩
    · cases h
  | bref i =>
    intro k pos caps res h
    simp only [m] at h
    split at h
    · next a b hab =>
      split at h
      · next hm => exact ⟨_, caps, .bref hab hm, h⟩
      · cases h
    · cases h
  | look r ih =>
    intro k pos caps res h
    simp only [m] at h
    split at h
    · next p0 c0 hr =>
      obtain ⟨p', c', h1, hk⟩ := ih _ _ _ _ hr
      simp at hk
      obtain ⟨rfl, rfl⟩ := hk
      exact ⟨pos, c', .look h1, h⟩
    · cases h

/-- Example analysis: positions are monotone and in-bounds. -/
theorem Matches.bounds {inp : Array Char} {r pos caps p c} (h : Matches inp r pos caps p c)
    (hp : pos ≤ inp.size) : pos ≤ p ∧ p ≤ inp.size := by
  induction h with
  | eps => exact ⟨Nat.le_refl _, hp⟩
  | chr h _ => exact ⟨Nat.le_succ _, h⟩
  | seq _ _ ih1 ih2 =>
    have := ih1 hp; have := ih2 this.2; omega
  | altL _ ih => exact ih hp
  | altR _ ih => exact ih hp
  | grp _ ih => exact ih hp
  | repDone => exact ⟨Nat.le_refl _, hp⟩
  | repStep _ _ ih1 ih2 => have := ih1 hp; have := ih2 this.2; omega
  | bol => exact ⟨Nat.le_refl _, hp⟩
  | eol => exact ⟨Nat.le_refl _, hp⟩
  | @bref caps i a b pos h hm =>
    refine ⟨Nat.le_add_right _ _, ?_⟩
    simp only [matchLit, slice] at hm ⊢
    have := congrArg List.length (eq_of_beq hm)
    simp at this ⊢
    omega
  | look _ _ => exact ⟨Nat.le_refl _, hp⟩

/-- Static analysis: every match of `r` must contain a char satisfying `p`
    (here: syntactic "requires" check). -/
def requires (p : Char → Bool) (allChars : CSet → Bool) : Re → Bool
  | .eps => false
  | .chr s => allChars s
  | .seq a b => requires p allChars a || requires p allChars b
  | .alt a b => requires p allChars a && requires p allChars b
  | .grp _ r => requires p allChars r
  | .rep r mn _ _ => mn ≥ 1 && requires p allChars r
  | .bol => false
  | .eol => false
  | .bref _ => false
  | .look _ => false

end Rx
