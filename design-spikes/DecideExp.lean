import Rx.Basic
open Rx

def lit (c : Char) : Re := .chr { ranges := [(c.toNat, c.toNat)] }
def cls (rs : List (Nat × Nat)) (neg := false) : Re := .chr { ranges := rs, neg := neg }
def ws : List (Nat × Nat) := [(9,13),(28,32),(133,133),(160,160)]
def seqs : List Re → Re
  | [] => .eps
  | [r] => r
  | r :: rs => .seq r (seqs rs)
def alts : List Re → Re
  | [] => .eps
  | [r] => r
  | r :: rs => .alt r (alts rs)
def opt (r : Re) : Re := .rep r 0 (some 1) true
def quotesRe : Re :=
  seqs [opt (lit '\\'),
        .grp 1 (alts [seqs [lit '*', lit '*'], lit '*', seqs [lit '_', lit '_'], lit '_',
                      seqs [lit '`', lit '`'], lit '`', seqs [lit '~', lit '~']]),
        .grp 2 (alts [cls (ws ++ [(92,92)]) true,
                      seqs [cls ws true, .rep (cls [] true) 0 none false, cls (ws ++ [(92,92)]) true]]),
        .bref 1]
-- code block open: ^\\?(-{2,}|`{2,})([\w\s-]*)$
def wordish : List (Nat × Nat) := [(48,57),(65,90),(95,95),(97,122)]
def codeOpen : Re :=
  seqs [.bol, opt (lit '\\'),
        .grp 1 (.alt (.rep (lit '-') 2 none true) (.rep (lit '`') 2 none true)),
        .grp 2 (.rep (cls (wordish ++ ws ++ [(45,45)])) 0 none true), .eol]

example : (search "Hello *Cruel* World".toList.toArray quotesRe 2).map (·.1) = some 6 := by decide +kernel
example : search "``".toList.toArray quotesRe 2 = none := by decide +kernel
example : (search "`` js".toList.toArray codeOpen 2).map (fun r => r.2.1) = some 5 := by decide +kernel
example : search "a plain paragraph line of some length, sixty chars or so....".toList.toArray codeOpen 2 = none := by decide +kernel
example : search "a plain paragraph line of some length, sixty chars or so....".toList.toArray quotesRe 2 = none := by decide +kernel
