import Rx.Basic

namespace Rx

/-- Declarative semantics mirroring the matcher's iteration discipline.
    The extra `Nat` index is the iteration count (meaningful for `.rep` only, 0 elsewhere). -/
inductive Mt (inp : Array Char) : Re → Nat → Nat → Caps → Nat → Caps → Prop where
  | eps : Mt inp .eps 0 pos caps pos caps
  | chr (h : pos < inp.size) (hm : s.mem inp[pos] = true) : Mt inp (.chr s) 0 pos caps (pos+1) caps
  | seq : Mt inp a 0 pos caps p1 c1 → Mt inp b 0 p1 c1 p2 c2 → Mt inp (.seq a b) 0 pos caps p2 c2
  | altL : Mt inp a 0 pos caps p c → Mt inp (.alt a b) 0 pos caps p c
  | altR : Mt inp b 0 pos caps p c → Mt inp (.alt a b) 0 pos caps p c
  | grp : Mt inp r 0 pos caps p c → Mt inp (.grp i r) 0 pos caps p (Caps.set c i (pos, p))
  | repDone : cnt ≥ mn → Mt inp (.rep r mn mx g) cnt pos caps pos caps
  | repStep : (∀ m, mx = some m → cnt < m) → Mt inp r 0 pos caps p1 c1 → (cnt ≥ mn → p1 > pos) →
      Mt inp (.rep r mn mx g) (cnt+1) p1 c1 p2 c2 → Mt inp (.rep r mn mx g) cnt pos caps p2 c2
  | bol : Mt inp .bol 0 0 caps 0 caps
  | eol : Mt inp .eol 0 inp.size caps inp.size caps
  | bref (h : caps.getD i none = some (a, b)) (hm : matchLit inp (slice inp a b) pos = true) :
      Mt inp (.bref i) 0 pos caps (pos + (slice inp a b).length) caps

theorem Mt.bounds {inp : Array Char} {r n pos caps p c} (h : Mt inp r n pos caps p c)
    (hp : pos ≤ inp.size) : pos ≤ p ∧ p ≤ inp.size := by
  induction h with
  | eps => exact ⟨Nat.le_refl _, hp⟩
  | chr h _ => exact ⟨Nat.le_succ _, h⟩
  | seq _ _ ih1 ih2 => have := ih1 hp; have := ih2 this.2; omega
  | altL _ ih => exact ih hp
  | altR _ ih => exact ih hp
  | grp _ ih => exact ih hp
  | repDone => exact ⟨Nat.le_refl _, hp⟩
  | repStep _ _ _ _ ih1 ih2 => have := ih1 hp; have := ih2 this.2; omega
  | bol => exact ⟨Nat.le_refl _, hp⟩
  | eol => exact ⟨Nat.le_refl _, hp⟩
  | @bref caps i a b pos h hm =>
    refine ⟨Nat.le_add_right _ _, ?_⟩
    simp only [matchLit, slice] at hm ⊢
    have := congrArg List.length (eq_of_beq hm)
    simp at this ⊢
    omega

/-- Matcher `f` is complete for `r`. -/
def CompleteFor (inp : Array Char) (f : M) (r : Re) : Prop :=
  ∀ k pos caps p c res, Mt inp r 0 pos caps p c → k p c = some res → ∃ res', f k pos caps = some res'

/-- Completeness of the repeat combinator, given enough fuel:
    fuel must exceed (iterations still owed below `mn`) + (remaining input). -/
theorem repM_complete (inp : Array Char) (body : M) (r : Re) (hb : CompleteFor inp body r)
    (mn : Nat) (mx : Option Nat) (g : Bool) :
    ∀ cnt pos caps p c, Mt inp (.rep r mn mx g) cnt pos caps p c → pos ≤ inp.size →
      ∀ fuel k res, fuel > (mn - cnt) + (inp.size - pos) → k p c = some res →
      ∃ res', repM body mn mx g fuel cnt k pos caps = some res' := by
  intro cnt pos caps p c h
  generalize hr : Re.rep r mn mx g = rr at h
  induction h with
  | eps | chr | seq | altL | altR | grp | bol | eol | bref => cases hr
  | @repDone cnt' mn' r' mx' g' pos' caps' hge =>
    cases hr
    intro hp fuel k res hf hk
    cases fuel with
    | zero => omega
    | succ fuel =>
      unfold repM
      simp only
      have hnlt : ¬ cnt' < mn := by omega
      cases mx with
      | none =>
        simp only [hnlt, if_false]
        cases g with
        | true =>
          simp only [if_true]
          split
          · exact ⟨_, rfl⟩
          · exact ⟨_, hk⟩
        | false =>
          simp only [Bool.false_eq_true, if_false, hk]
          exact ⟨_, rfl⟩
      | some m' =>
        simp only [hnlt, if_false]
        cases g with
        | true =>
          simp only [if_true]
          split
          · exact ⟨_, rfl⟩
          · exact ⟨_, hk⟩
        | false =>
          simp only [Bool.false_eq_true, if_false, hk]
          exact ⟨_, rfl⟩
  | @repStep mx' cnt' r' pos' caps' p1 c1 mn' g' p2 c2 hmx hbody hprog hrest ihb ihr =>
    cases hr
    intro hp fuel k res hf hk
    have hb1 := Mt.bounds hbody hp
    cases fuel with
    | zero => omega
    | succ fuel =>
      -- the inner loop succeeds by IH
      have hfuel' : fuel > (mn - (cnt'+1)) + (inp.size - p1) := by
        by_cases hc : cnt' ≥ mn
        · have := hprog hc; omega
        · omega
      obtain ⟨res1, hres1⟩ := ihr rfl hb1.2 fuel k res hfuel' hk
      -- hence the body (with the loop continuation) succeeds
      have hcont : (fun p c => if (decide (cnt' ≥ mn) && decide (p ≤ pos')) = true then none
                      else repM body mn mx g fuel (cnt'+1) k p c) p1 c1 = some res1 := by
        by_cases hc : cnt' ≥ mn
        · have := hprog hc
          have : ¬ p1 ≤ pos' := by omega
          simp [hc, this, hres1]
        · simp [hc, hres1]
      obtain ⟨res2, hres2⟩ := hb (fun p c => if (decide (cnt' ≥ mn) && decide (p ≤ pos')) = true then none
                      else repM body mn mx g fuel (cnt'+1) k p c) _ _ _ _ _ hbody hcont
      unfold repM
      simp only
      cases mx with
      | none =>
        simp only [hres2]
        split
        · exact ⟨_, rfl⟩
        · split
          · exact ⟨_, rfl⟩
          · split
            · exact ⟨_, rfl⟩
            · exact ⟨_, rfl⟩
      | some m' =>
        have hlt : ¬ cnt' ≥ m' := by have := hmx m' rfl; omega
        simp only [hlt, if_false, hres2]
        split
        · exact ⟨_, rfl⟩
        · split
          · exact ⟨_, rfl⟩
          · split
            · exact ⟨_, rfl⟩
            · exact ⟨_, rfl⟩

end Rx
