#!/bin/bash
# usage: tools/seeded_confirm.sh <seeded dir name>   -- confirms a seeded change in a scratch worktree (never in /repo)
set -u
name="$1"
VERIF=$(cd "$(dirname "$0")/.." && pwd)
REPO=${RIMU_REPO:-/repo}
dir=$VERIF/seeded/$name
wt=/tmp/seeded-confirm-$$
git -C $REPO worktree add -q --detach "$wt" HEAD 2>/dev/null
cd "$wt"
export PYTHONDONTWRITEBYTECODE=1
RIMU_SRC=$wt/src PYTHONPATH=$wt/src /venv/bin/python "$dir/demo.py" "$wt/src" >/dev/null 2>&1; clean=$?
git apply "$dir/patch.diff" || { echo "$name: patch does not apply"; cd /; git -C $REPO worktree remove --force "$wt"; exit 2; }
tests=$(PYTHONPATH=$wt/src /venv/bin/python -m pytest -q -p no:cacheprovider 2>&1 | tail -1)
RIMU_SRC=$wt/src PYTHONPATH=$wt/src /venv/bin/python "$dir/demo.py" "$wt/src" >/dev/null 2>&1; mutated=$?
cd /
git -C $REPO worktree remove --force "$wt"
echo "$name: demo clean=$clean mutated=$mutated tests: $tests"
