"""Development helper: run a property's cases without the Lean build (not registered in the manifest)."""
import json, os, sys, time
HERE = os.path.dirname(os.path.abspath(__file__))
sys.path.insert(0, HERE)
import harness.props as props
pid = sys.argv[1]
n = int(sys.argv[2]) if len(sys.argv) > 2 else 500
seed = int(sys.argv[3]) if len(sys.argv) > 3 else 0
prop = props.REGISTRY[pid]()
prop.quick_cases = n
ctx = props.Context(repo=os.environ.get('RIMU_REPO', '/repo'), seed=seed, tier='quick', model_ok=os.environ.get('NO_MODEL') != '1')
t0 = time.time()
res = props.run_property(prop, ctx)
ctx.close()
print(pid, 'cases', res.evaluations, 'compared', res.compared, 'nontrivial', res.distinct_nontrivial, 'viol', len(res.violations),
      'disagree', len(res.disagreements), 'unsupported', res.unsupported, 'time %.1f' % (time.time() - t0))
print(' dist', json.dumps(res.distribution)[:600])
for v in res.violations[:3]:
    print(' VIOLATION', v['what'][:300]); print('   case', json.dumps(v['case'], ensure_ascii=False)[:900]); print('   obs', str(v.get('observed'))[:900])
for d in res.disagreements[:3]:
    print(' DISAGREE', d['where']); print('   case', json.dumps(d['case'], ensure_ascii=False)[:700]); print('   impl', str(d['impl'])[:500]); print('   model', str(d['model'])[:500])
