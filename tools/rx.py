"""Translate Python regular expressions (as CPython's own parser reads them) into the `Re`
syntax tree of the Lean model.

Used by translate.py (static patterns -> Lean source) and by the harness (patterns that a
document defines at run time -> wire format for the model driver).

The pattern is parsed by `re._parser` (CPython's parser), so escapes, classes, flags, group
numbering and prefix factoring are CPython's reading.  Character atoms are resolved to sorted,
merged code-point ranges; category tables and case-insensitive closures are computed from the
running interpreter (unicode_tables()).
"""
import json
import os
import re
import sys
import unicodedata
import re._parser as sre_parse
import re._constants as C
import _sre

MAXCP = 0x10FFFF


class Unsupported(Exception):
    pass


# ---------------------------------------------------------------------------------------------
# Range-set arithmetic (lists of inclusive (lo, hi), sorted and merged)
# ---------------------------------------------------------------------------------------------

def norm(ranges):
    rs = sorted((lo, hi) for lo, hi in ranges if lo <= hi)
    out = []
    for lo, hi in rs:
        if out and lo <= out[-1][1] + 1:
            if hi > out[-1][1]:
                out[-1] = (out[-1][0], hi)
        else:
            out.append((lo, hi))
    return out


def complement(ranges):
    out = []
    prev = 0
    for lo, hi in norm(ranges):
        if lo > prev:
            out.append((prev, lo - 1))
        prev = hi + 1
    if prev <= MAXCP:
        out.append((prev, MAXCP))
    return out


def from_points(points):
    return norm((p, p) for p in points)


def contains(ranges, n):
    for lo, hi in ranges:
        if n < lo:
            return False
        if n <= hi:
            return True
    return False


# ---------------------------------------------------------------------------------------------
# Unicode tables from the running interpreter (cached per interpreter / Unicode version)
# ---------------------------------------------------------------------------------------------

_TABLES = None


def _compute_tables():
    space, word, digit = [], [], []
    lower = []
    zeros = []
    cased_ni, ignorable = [], []
    casechars = set()
    SIG = 'Σ'
    FS = 'ς'
    for c in range(MAXCP + 1):
        ch = chr(c)
        if ch.isspace():
            space.append(c)
        if ch.isalnum() or ch == '_':
            word.append(c)
        if ch.isdecimal():
            digit.append(c)
            if unicodedata.decimal(ch) == 0:
                zeros.append(c)
        if 0xD800 <= c <= 0xDFFF:
            continue
        lo = ch.lower()
        if lo != ch and c >= 128 and c != 0x3A3:
            lower.append((c, [ord(x) for x in lo]))
        a = (ch + SIG).lower().endswith(FS)
        b = ('a' + ch + SIG).lower().endswith(FS)
        if a:
            cased_ni.append(c)
        elif b:
            ignorable.append(c)
        l1 = _sre.unicode_tolower(c)
        if l1 != c or _sre.unicode_iscased(c):
            casechars.add(c)
            casechars.add(l1)
    # sre's extra equivalences ("fixes") are between characters with the same lower/upper images.
    try:
        import re._casefix as casefix
        for k, vs in casefix._EXTRA_CASES.items():
            casechars.add(k)
            casechars.update(vs)
    except Exception:
        pass
    # every run of decimal digits is ten consecutive code points starting at a zero
    for z in zeros:
        for d in range(10):
            assert unicodedata.decimal(chr(z + d)) == d
    assert len(digit) == 10 * len(zeros)
    return {
        'version': sys.version + ' unidata ' + unicodedata.unidata_version,
        'space': from_points(space),
        'word': from_points(word),
        'digit': from_points(digit),
        'zeros': zeros,
        'lower': lower,
        'cased_ni': from_points(cased_ni),
        'ignorable': from_points(ignorable),
        'casechars': sorted(casechars),
    }


def unicode_tables(cache_dir=None):
    global _TABLES
    if _TABLES is not None:
        return _TABLES
    version = sys.version + ' unidata ' + unicodedata.unidata_version
    path = None
    if cache_dir:
        path = os.path.join(cache_dir, 'unicode-tables.json')
        try:
            with open(path) as f:
                t = json.load(f)
            if t.get('version') == version:
                for k in ('space', 'word', 'digit', 'cased_ni', 'ignorable'):
                    t[k] = [tuple(x) for x in t[k]]
                t['lower'] = [(a, b) for a, b in t['lower']]
                _TABLES = t
                return t
        except Exception:
            pass
    t = _compute_tables()
    if path:
        try:
            os.makedirs(cache_dir, exist_ok=True)
            tmp = path + '.tmp%d' % os.getpid()
            with open(tmp, 'w') as f:
                json.dump(t, f)
            os.replace(tmp, path)
        except Exception:
            pass
    _TABLES = t
    return t


# ---------------------------------------------------------------------------------------------
# Re syntax tree (Python side): nested tuples
#   ('eps',) ('chr', ranges, neg) ('seq', a, b) ('alt', a, b) ('grp', i, r)
#   ('rep', r, min, max|None, greedy) ('bol',) ('eol',) ('mbol',) ('meol',) ('eos',)
#   ('bref', i) ('look', r) ('nlook', r) ('wordb', neg)
# ---------------------------------------------------------------------------------------------

def _cat_ranges(cat, T):
    name = str(cat)
    table = {
        'CATEGORY_SPACE': T['space'], 'CATEGORY_NOT_SPACE': complement(T['space']),
        'CATEGORY_WORD': T['word'], 'CATEGORY_NOT_WORD': complement(T['word']),
        'CATEGORY_DIGIT': T['digit'], 'CATEGORY_NOT_DIGIT': complement(T['digit']),
    }
    if name not in table:
        raise Unsupported('category ' + name)
    return table[name]


def _atom_ranges(op, av, flags, T):
    """Positive range set matched by a single-character atom, ignoring IGNORECASE."""
    if op is C.LITERAL:
        return [(av, av)]
    if op is C.NOT_LITERAL:
        return complement([(av, av)])
    if op is C.ANY:
        return [(0, MAXCP)] if flags & re.DOTALL else complement([(10, 10)])
    if op is C.IN:
        rs = []
        neg = False
        for iop, iav in av:
            if iop is C.NEGATE:
                neg = True
            elif iop is C.LITERAL:
                rs.append((iav, iav))
            elif iop is C.RANGE:
                rs.append((iav[0], iav[1]))
            elif iop is C.CATEGORY:
                rs.extend(_cat_ranges(iav, T))
            else:
                raise Unsupported('set item ' + str(iop))
        rs = norm(rs)
        return complement(rs) if neg else rs
    raise Unsupported('atom ' + str(op))


def _atom_source(op, av, flags):
    """A pattern source text matching exactly this atom (for the brute-force case closure)."""
    def lit(c):
        return '\\x{%x}' % c if False else re.escape(chr(c))
    if op is C.LITERAL:
        return lit(av)
    if op is C.NOT_LITERAL:
        return '[^' + lit(av) + ']'
    if op is C.ANY:
        return '.'
    if op is C.IN:
        out = '['
        for iop, iav in av:
            if iop is C.NEGATE:
                out += '^'
            elif iop is C.LITERAL:
                out += lit(iav)
            elif iop is C.RANGE:
                out += lit(iav[0]) + '-' + lit(iav[1])
            elif iop is C.CATEGORY:
                out += {'CATEGORY_SPACE': r'\s', 'CATEGORY_NOT_SPACE': r'\S', 'CATEGORY_WORD': r'\w',
                        'CATEGORY_NOT_WORD': r'\W', 'CATEGORY_DIGIT': r'\d',
                        'CATEGORY_NOT_DIGIT': r'\D'}[str(iav)]
        return out + ']'
    raise Unsupported('atom ' + str(op))


_ICACHE = {}


def _atom(op, av, flags, T):
    rs = norm(_atom_ranges(op, av, flags, T))
    if flags & re.IGNORECASE:
        src = _atom_source(op, av, flags)
        key = (src, flags & (re.IGNORECASE | re.DOTALL))
        if key not in _ICACHE:
            rx = re.compile(src, flags & (re.IGNORECASE | re.DOTALL))
            pts = set()
            # characters without case relations match exactly as without the flag
            add, remove = [], []
            for c in T['casechars']:
                if 0xD800 <= c <= 0xDFFF:
                    continue
                m = rx.fullmatch(chr(c)) is not None
                if m and not contains(rs, c):
                    add.append(c)
                if not m and contains(rs, c):
                    remove.append(c)
            new = norm(list(rs) + [(c, c) for c in add])
            if remove:
                new = norm(complement(norm(complement(new) + [(c, c) for c in remove])))
            _ICACHE[key] = new
        rs = _ICACHE[key]
    # prefer the negated form when it is much shorter
    comp = complement(rs)
    if len(comp) + 1 < len(rs):
        return ('chr', tuple(comp), True)
    return ('chr', tuple(rs), False)


def _seq(items):
    if not items:
        return ('eps',)
    out = items[-1]
    for it in reversed(items[:-1]):
        out = ('seq', it, out)
    return out


def _conv(sub, flags, T):
    items = []
    for op, av in sub:
        if op in (C.LITERAL, C.NOT_LITERAL, C.ANY, C.IN):
            items.append(_atom(op, av, flags, T))
        elif op is C.BRANCH:
            alts = [_conv(a, flags, T) for a in av[1]]
            out = alts[-1]
            for a in reversed(alts[:-1]):
                out = ('alt', a, out)
            items.append(out)
        elif op is C.SUBPATTERN:
            group, add_flags, del_flags, p = av
            if add_flags or del_flags:
                raise Unsupported('inline flags')
            r = _conv(p, flags, T)
            items.append(r if group is None else ('grp', group, r))
        elif op in (C.MAX_REPEAT, C.MIN_REPEAT):
            lo, hi, p = av
            r = _conv(p, flags, T)
            items.append(('rep', r, int(lo), None if hi == C.MAXREPEAT else int(hi), op is C.MAX_REPEAT))
        elif op is C.AT:
            name = str(av)
            multi = bool(flags & re.MULTILINE)
            if name == 'AT_BEGINNING':
                items.append(('mbol',) if multi else ('bol',))
            elif name == 'AT_BEGINNING_STRING':
                items.append(('bol',))
            elif name == 'AT_END':
                items.append(('meol',) if multi else ('eol',))
            elif name == 'AT_END_STRING':
                items.append(('eos',))
            elif name == 'AT_BOUNDARY':
                items.append(('wordb', False))
            elif name == 'AT_NON_BOUNDARY':
                items.append(('wordb', True))
            else:
                raise Unsupported('anchor ' + name)
        elif op is C.GROUPREF:
            if flags & re.IGNORECASE:
                raise Unsupported('case-insensitive back-reference')
            items.append(('bref', int(av)))
        elif op in (C.ASSERT, C.ASSERT_NOT):
            direction, p = av
            if direction != 1:
                raise Unsupported('look-behind')
            r = _conv(p, flags, T)
            items.append(('look', r) if op is C.ASSERT else ('nlook', r))
        else:
            raise Unsupported(str(op))
    return _seq(items)


def nullable(r):
    k = r[0]
    if k in ('eps', 'bol', 'eol', 'mbol', 'meol', 'eos', 'look', 'nlook', 'wordb'):
        return True
    if k == 'chr':
        return False
    if k == 'seq':
        return nullable(r[1]) and nullable(r[2])
    if k == 'alt':
        return nullable(r[1]) or nullable(r[2])
    if k == 'grp':
        return nullable(r[2])
    if k == 'rep':
        return r[2] == 0 or nullable(r[1])
    if k == 'bref':
        return True
    raise AssertionError(k)


def has_group(r):
    k = r[0]
    if k == 'grp':
        return True
    if k in ('seq', 'alt'):
        return has_group(r[1]) or has_group(r[2])
    if k == 'rep':
        return has_group(r[1])
    if k in ('look', 'nlook'):
        return has_group(r[1])
    return False


def wf(r, opened=frozenset()):
    """Well-formedness (the fragment on which the model matcher is sre): returns the set of
    groups opened so far or raises Unsupported."""
    k = r[0]
    if k == 'seq':
        o = wf(r[1], opened)
        return wf(r[2], o)
    if k == 'alt':
        a = wf(r[1], opened)
        b = wf(r[2], opened)
        return a | b
    if k == 'grp':
        return wf(r[2], opened) | {r[1]}
    if k == 'rep':
        body = r[1]
        if nullable(body):
            if r[3] is None:
                raise Unsupported('unbounded repeat of a nullable body')
            if has_group(body):
                raise Unsupported('group inside a nullable repeated body')
        return wf(body, opened)
    if k in ('look', 'nlook'):
        if has_group(r[1]):
            raise Unsupported('group inside a look-ahead')
        wf(r[1], opened)
        return opened
    if k == 'bref':
        if r[1] not in opened:
            raise Unsupported('back-reference to a group not yet closed')
        return opened
    return opened


def translate(pattern, flags=0, cache_dir=None):
    """Return (re_tree, ngroups, effective flags).  Raises re.error for an invalid pattern, Unsupported for a
    pattern outside the modelled fragment."""
    T = unicode_tables(cache_dir)
    bad = flags & ~(re.IGNORECASE | re.MULTILINE | re.DOTALL | re.UNICODE)
    if bad:
        raise Unsupported('flags %r' % re.RegexFlag(bad))
    p = sre_parse.parse(pattern, flags)
    eff = p.state.flags
    bad = eff & ~(re.IGNORECASE | re.MULTILINE | re.DOTALL | re.UNICODE)
    if bad:
        raise Unsupported('flags %r' % re.RegexFlag(bad))
    if p.state.groupdict:
        raise Unsupported('named groups')
    tree = _conv(p, eff, T)
    wf(tree)
    return tree, p.state.groups - 1, int(eff & (re.IGNORECASE | re.MULTILINE | re.DOTALL))


# ---------------------------------------------------------------------------------------------
# Serialisers
# ---------------------------------------------------------------------------------------------

def to_wire(r):
    """Prefix token string parsed by the Lean driver."""
    out = []

    def go(r):
        k = r[0]
        if k == 'chr':
            out.append('C')
            out.append('1' if r[2] else '0')
            out.append(str(len(r[1])))
            for lo, hi in r[1]:
                out.append(str(lo))
                out.append(str(hi))
        elif k == 'seq':
            out.append('S'); go(r[1]); go(r[2])
        elif k == 'alt':
            out.append('A'); go(r[1]); go(r[2])
        elif k == 'grp':
            out.append('G'); out.append(str(r[1])); go(r[2])
        elif k == 'rep':
            out.append('R'); out.append(str(r[2])); out.append('-1' if r[3] is None else str(r[3]))
            out.append('1' if r[4] else '0'); go(r[1])
        elif k == 'bref':
            out.append('B'); out.append(str(r[1]))
        elif k == 'look':
            out.append('L'); go(r[1])
        elif k == 'nlook':
            out.append('N'); go(r[1])
        elif k == 'wordb':
            out.append('W'); out.append('1' if r[1] else '0')
        else:
            out.append({'eps': 'E', 'bol': 'bol', 'eol': 'eol', 'mbol': 'mbol', 'meol': 'meol', 'eos': 'eos'}[k])
    go(r)
    return ' '.join(out)


class LeanEmitter:
    """Emits Re trees as Lean terms, sharing character sets as named constants."""

    def __init__(self):
        self.sets = {}
        self.order = []

    def cset(self, ranges, neg):
        key = (tuple(ranges), neg)
        if key not in self.sets:
            name = 'cs%d' % len(self.sets)
            self.sets[key] = name
            self.order.append((name, key))
        return self.sets[key]

    def term(self, r):
        k = r[0]
        if k == 'chr':
            return '(.chr %s)' % self.cset(r[1], r[2])
        if k == 'seq':
            return '(.seq %s %s)' % (self.term(r[1]), self.term(r[2]))
        if k == 'alt':
            return '(.alt %s %s)' % (self.term(r[1]), self.term(r[2]))
        if k == 'grp':
            return '(.grp %d %s)' % (r[1], self.term(r[2]))
        if k == 'rep':
            mx = 'none' if r[3] is None else '(some %d)' % r[3]
            return '(.rep %s %d %s %s)' % (self.term(r[1]), r[2], mx, 'true' if r[4] else 'false')
        if k == 'bref':
            return '(.bref %d)' % r[1]
        if k == 'look':
            return '(.look %s)' % self.term(r[1])
        if k == 'nlook':
            return '(.nlook %s)' % self.term(r[1])
        if k == 'wordb':
            return '(.wordb Gen.wordSet %s)' % ('true' if r[1] else 'false')
        return {'eps': '.eps', 'bol': '.bol', 'eol': '.eol', 'mbol': '.mbol', 'meol': '.meol', 'eos': '.eos'}[k]

    def set_defs(self):
        lines = []
        for name, (ranges, neg) in self.order:
            lines.append('def %s : Rx.CSet := ⟨%s, %s⟩' % (name, lean_ranges(ranges), 'true' if neg else 'false'))
        return lines


def lean_ranges(ranges):
    return '[' + ', '.join('(%d, %d)' % (lo, hi) for lo, hi in ranges) + ']'


def lean_str(s):
    """A Lean term of type `List Char` for the Python string s."""
    if all((32 <= ord(c) < 127) or c == '\n' for c in s):
        esc = s.replace('\\', '\\\\').replace('"', '\\"').replace('\n', '\\n')
        return '"%s".toList' % esc
    return '[' + ', '.join('Char.ofNat %d' % ord(c) for c in s) + ']'
