"""Run the property generators (oracle + correspondence with the built model driver) against the tree named by RIMU_REPO,
stopping at the first property that notices something.  Prints  RESULT {json}.  Used by tools/mutants.py."""
import json
import os
import sys
import time

HERE = os.path.dirname(os.path.abspath(__file__))
sys.path.insert(0, HERE)
import harness.props as props   # noqa: E402

n = int(sys.argv[1])
order = sys.argv[2:] or sorted(props.REGISTRY)
detected, how = [], None
known = props.load_known_findings()
for pid in order:
    prop = props.REGISTRY[pid]()
    prop.quick_cases = n
    ctx = props.Context(repo=os.environ.get('RIMU_REPO', '/repo'), seed=int(os.environ.get('VERIF_SEED', '0')), tier='quick', model_ok=True)
    os.environ['VERIF_BUDGET_S'] = '40'
    try:
        res = props.run_property(prop, ctx)
    except Exception as e:   # noqa
        detected.append(pid)
        how = 'harness exception: %r' % (e,)
        break
    finally:
        ctx.close()
    viol = [v for v in res.violations if not props.match_known(known, pid, v)]
    if viol:
        detected.append(pid)
        how = 'violation: ' + viol[0]['what'][:200]
        break
    if res.disagreements:
        detected.append(pid)
        how = 'disagreement: ' + str(res.disagreements[0].get('where'))
        break
print('RESULT ' + json.dumps({'detected_by': detected, 'how': how}))
