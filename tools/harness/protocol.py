"""Both ends of the correspondence check.

Model: the compiled Lean driver (lean/.lake/build/bin/rimumodel) behind a line protocol.
Impl:  the real rimu-py code, in-process (PYTHONPATH must point at <repo>/src).
"""
import os
import re
import select
import signal
import subprocess
import sys

HERE = os.path.dirname(os.path.abspath(__file__))
VERIF = os.path.dirname(os.path.dirname(HERE))
sys.path.insert(0, os.path.join(VERIF, 'tools'))
import rx  # noqa: E402

CACHE = os.path.join(VERIF, '.cache')
EXE = os.path.join(VERIF, 'lean', '.lake', 'build', 'bin', 'rimumodel')


def esc(s):
    out = []
    for ch in s:
        o = ord(ch)
        if 32 <= o < 127 and ch != '\\':
            out.append(ch)
        else:
            out.append('\\u{%x}' % o)
    return ''.join(out)


_UNESC = re.compile(r'\\u\{([0-9a-fA-F]+)\}')


def unesc(s):
    return _UNESC.sub(lambda m: chr(int(m.group(1), 16)), s)


# stand-ins for integers too long for CPython to convert to a decimal string (cases stay printable and JSON-serialisable; the
# implementation is handed the real integer, the model a value whose str() is what the implementation now reports)
HUGE = {'<int 10**5000>': 10 ** 5000, '<int -10**4400>': -(10 ** 4400)}


def real_value(v):
    return HUGE[v] if isinstance(v, str) and v in HUGE else v


def pyval(v):
    if v is None:
        return 'N'
    if isinstance(v, str) and v in HUGE:
        return 'F00integer out of range'
    if v is True:
        return 'B1'
    if v is False:
        return 'B0'
    if isinstance(v, int):
        return 'I%d' % v
    if isinstance(v, float):
        return 'F%d%d%s' % (1 if v == 0 else 0, 1 if v == 1 else 0, str(v))
    if isinstance(v, str):
        return 'S' + v
    raise TypeError(v)


def has_surrogate(s):
    return any(0xD800 <= ord(c) <= 0xDFFF for c in s)


class ModelError(Exception):
    pass


class Model:
    """The Lean model driver."""

    budget = 20.0

    def __init__(self, exe=EXE, fuel=None):
        if not os.path.exists(exe):
            raise ModelError('model driver not built: ' + exe)
        self.exe = exe
        self.fuel = fuel
        self.timeouts = 0
        self.sent = set()
        self.unsupported = 0
        self._start()

    def _start(self):
        exe, fuel = self.exe, self.fuel
        # the model recurses once per loop iteration: give it a deep stack
        self.p = subprocess.Popen(['bash', '-c', 'ulimit -s unlimited 2>/dev/null || ulimit -s 1000000 2>/dev/null; ulimit -v 6000000 2>/dev/null; exec "$0"', exe],
                                  stdin=subprocess.PIPE, stdout=subprocess.PIPE, stderr=self._errfile(), text=True, encoding='ascii',
                                  bufsize=1)
        if fuel:
            self.call(['fuel', str(fuel)])

    def _errfile(self):
        import tempfile
        old = getattr(self, '_err', None)
        if old is not None:
            old.close()
        self._err = tempfile.TemporaryFile(mode='w+')
        return self._err

    def _died_of_exhaustion(self, code):
        """killed by a signal (stack), or the runtime's own out-of-memory panic under the address-space limit"""
        if code is not None and code < 0:
            return True
        try:
            self._err.seek(0)
            return 'out of memory' in self._err.read()[-4000:]
        except Exception:
            return False

    def close(self):
        try:
            self.p.stdin.close()
            self.p.wait(timeout=5)
        except Exception:
            self.p.kill()

    def call(self, fields):
        line = '\t'.join(esc(f) for f in fields)
        self.p.stdin.write(line + '\n')
        self.p.stdin.flush()
        ready, _, _ = select.select([self.p.stdout], [], [], self.budget)
        if not ready:
            # the model is still computing: count it as exhausted fuel and restart the driver
            # (its session is lost; callers reset both sides after a non-ok outcome)
            self.timeouts += 1
            self.p.kill()
            self.p.wait()
            self._start()
            return ['fuel', 'timeout']
        reply = self.p.stdout.readline()
        if not reply:
            code = self.p.wait()
            exhausted = self._died_of_exhaustion(code)
            self._start()
            if exhausted:
                # stack or memory exhausted: same meaning as running out of time
                self.timeouts += 1
                return ['fuel', 'timeout']
            raise ModelError('model driver died on: ' + line[:200])
        return [unesc(f) for f in reply.rstrip('\n').split('\t')]

    def supply(self, pattern, flags):
        """Answer a `need` request: compile the pattern with CPython and send the tree."""
        # what CPython itself says about the pattern decides between "error" and "ok"; a pattern that CPython accepts but the
        # translator cannot carry (too deep for its own recursion, outside the fragment) is "unsupported", never "error"
        import warnings
        try:
            with warnings.catch_warnings():
                warnings.simplefilter('ignore')
                re.compile(pattern, flags)
        except (re.error, OverflowError, RecursionError, ValueError):
            self.call(['compile', pattern, str(flags), 'error', '0', ''])
            return
        try:
            tree, ngroups, eff = rx.translate(pattern, flags, CACHE)
            self.call(['compile', pattern, str(flags), 'ok', str(ngroups), rx.to_wire(tree), str(eff)])
        except (rx.Unsupported, RecursionError, ValueError, re.error, OverflowError):
            self.call(['compile', pattern, str(flags), 'unsupported', '0', ''])

    def op(self, fields):
        """Call with the compile-oracle loop.  Returns the reply fields."""
        for _ in range(50):
            r = self.call(fields)
            if r[0] == 'need':
                self.supply(r[1], int(r[2]))
                continue
            if r[0] == 'unsupported':
                self.unsupported += 1
            return r
        raise ModelError('compile oracle loop did not converge')

    def reset_process(self):
        self.call(['reset-process'])

    def render(self, src, safeMode=None, htmlReplacement=None, reset=None, callback=False):
        r = self.op(['render', src, pyval(safeMode), pyval(htmlReplacement), pyval(reset), '1' if callback else '0'])
        return canon_reply(r)

    def state(self):
        return self.call(['state'])[1:]


def canon_reply(r):
    if r[0] == 'ok':
        n = int(r[2]) if len(r) > 2 else 0
        return ('ok', r[1], tuple(r[3:3 + n]))
    if r[0] == 'exc':
        return ('exc', r[1])
    if r[0] == 'fuel':
        return ('fuel', 'model-timeout' if len(r) > 1 else 'model')
    if r[0] == 'unsupported':
        return ('unsupported',)
    return ('error',) + tuple(r)


EXC_KIND = {'IndexError': 'IndexError', 'AttributeError': 'NoneType', 'TypeError': 'NoneType',
            'AssertionError': 'AssertionError', 'ValueError': 'ValueError', 'error': 're.error',
            'RecursionError': 'fuel'}


class BudgetExceeded(BaseException):
    pass


class time_limit:
    """Wall-clock budget for a call into the implementation (SIGALRM based)."""

    def __init__(self, seconds):
        self.seconds = seconds

    def _raise(self, *_):
        raise BudgetExceeded()

    def __enter__(self):
        if self.seconds:
            self.old = signal.signal(signal.SIGALRM, self._raise)
            signal.setitimer(signal.ITIMER_REAL, self.seconds)

    def __exit__(self, *exc):
        if self.seconds:
            signal.setitimer(signal.ITIMER_REAL, 0)
            signal.signal(signal.SIGALRM, self.old)
        return False


_IMPORT_STATE = None


class Impl:
    """The real implementation, in-process."""

    budget = 5.0

    def __init__(self, mem_limit=6 << 30):
        if mem_limit:
            import resource
            soft, hard = resource.getrlimit(resource.RLIMIT_AS)
            if soft == resource.RLIM_INFINITY or soft > mem_limit:
                resource.setrlimit(resource.RLIMIT_AS, (mem_limit, hard))
        import rimu
        from rimu import (blockattributes, delimitedblocks, document, lists, macros, options, quotes,
                          replacements, spans)
        self.rimu = rimu
        self.m = dict(blockattributes=blockattributes, delimitedblocks=delimitedblocks, document=document,
                      lists=lists, macros=macros, options=options, quotes=quotes, replacements=replacements,
                      spans=spans)
        # import-time state: taken once per process, before anything was rendered
        global _IMPORT_STATE
        if _IMPORT_STATE is None:
            _IMPORT_STATE = self._snapshot()
        self._import_state = _IMPORT_STATE

    def _snapshot(self):
        """Import-time values of every data global of every rimu module (taken before the first render)."""
        import copy
        import types
        snap = {}
        for name, mod in list(sys.modules.items()):
            if mod is None or not (name == 'rimu' or name.startswith('rimu.')):
                continue
            vals = {}
            for k, v in vars(mod).items():
                if k.startswith('__') or isinstance(v, (types.ModuleType, types.FunctionType, type, types.BuiltinFunctionType)):
                    continue
                if getattr(v, '__module__', None) == 'typing':
                    continue
                vals[k] = copy.deepcopy(v)
            snap[name] = (mod, vals, set(vars(mod).keys()))
        return snap

    def reset_process(self):
        """Put the module globals back to their import-time values (whatever the source says those are)."""
        import copy
        for _name, (mod, vals, keys) in self._import_state.items():
            for k in [k for k in vars(mod) if k not in keys]:
                delattr(mod, k)
            for k, v in vals.items():
                cur = getattr(mod, k, None)
                if isinstance(v, list) and isinstance(cur, list):
                    cur[:] = copy.deepcopy(v)       # keep the object: other modules may hold a reference
                elif isinstance(v, dict) and isinstance(cur, dict):
                    cur.clear()
                    cur.update(copy.deepcopy(v))
                else:
                    setattr(mod, k, copy.deepcopy(v))

    def render(self, src, safeMode=None, htmlReplacement=None, reset=None, callback=False, abort=False):
        msgs = []
        # the list of the call in progress: a callback that an *earlier* call installed and that is still invoked now shows
        # up in this call's messages, marked (a call without a callback must not report through anybody else's)
        self._current = msgs

        def deliver(msg, mine=msgs):
            self._current.append(msg.text if mine is self._current else 'STALE-CALLBACK: ' + msg.text)
        cb = deliver if callback else None
        if abort:
            # a caller that gives up at the first diagnostic: its callback raises, the render call is abandoned where it stands
            class Abort(Exception):
                pass

            def cb(msg):
                raise Abort(msg.text)
        # only the options that are given are passed (the defaults of RenderOptions and of render() are part of the code
        # under test); a call with none at all alternates between render(src) and render(src, RenderOptions())
        kw = {k: real_value(v) for k, v in (('safeMode', safeMode), ('htmlReplacement', htmlReplacement), ('reset', reset), ('callback', cb))
              if v is not None}
        self._calls = getattr(self, '_calls', 0) + 1
        try:
            with time_limit(self.budget):
                if not kw and self._calls % 2:
                    html = self.rimu.render(src)
                else:
                    html = self.rimu.render(src, self.rimu.RenderOptions(**kw))
        except RecursionError:
            return ('fuel', 'RecursionError')
        except MemoryError:
            return ('fuel', 'MemoryError')
        except BudgetExceeded:
            return ('fuel', 'budget')
        except Exception as e:  # noqa
            if abort and type(e).__name__ == 'Abort':
                return ('aborted', str(e))
            return ('exc', EXC_KIND.get(type(e).__name__, type(e).__name__))
        if not isinstance(html, str):
            return ('exc', 'not-a-str')
        return ('ok', html, tuple(msgs))

    def state(self):
        m = self.m
        o = m['options']

        def ob(v):
            return 'N' if v is None else ('T' if v else 'F')

        def ex(e):
            return ob(e.macros) + ob(e.container) + ob(e.skip) + ob(e.spans) + ob(e.specials)
        sep = '\x1e'
        fs = '\x1f'.join
        ba = m['blockattributes']
        rf = []
        for d in m['replacements'].defs:
            kind = 'none'
            if d.filter is not None:
                kind = _repl_filter_kind(d.filter)
            rf.append(sep.join([d.match.pattern, str(d.match.flags & 10), d.replacement, kind]))
        return [
            str(o.safeMode),
            getattr(o, 'htmlReplacement', ''),
            '1' if o.callback is not None else '0',
            fs(sep.join([d.quote, d.openTag, d.closeTag, '1' if d.spans else '0']) for d in m['quotes'].defs),
            fs(rf),
            fs(sep.join([d.name, d.openTag, d.closeTag, ex(d.expand)]) for d in m['delimitedblocks'].defs),
            fs(sep.join([d.name, d.value]) for d in m['macros'].defs),
            getattr(ba, 'classes', ''), getattr(ba, 'id', ''), getattr(ba, 'css', ''), getattr(ba, 'attributes', ''),
            ex(ba.opts) if hasattr(ba, 'opts') else 'NNNNN',
            fs(ba.ids),
            fs(m['lists'].ids),
            str(len(m['spans'].savedReplacements)),
        ]


_FILTER_KINDS = None


def _repl_filter_kind(fn):
    global _FILTER_KINDS
    if _FILTER_KINDS is None:
        from rimu import replacements
        _FILTER_KINDS = {}
        # identify by position in DEFAULT_DEFS through the translator's fingerprints
        sys.path.insert(0, os.path.join(VERIF, 'tools'))
        import translate
        for d in replacements.DEFAULT_DEFS:
            if d.filter is not None:
                try:
                    _FILTER_KINDS[id(d.filter)] = translate.identify(d.filter, 'repl.filter')
                except translate.TranslateError:
                    _FILTER_KINDS[id(d.filter)] = 'unknown'
    return _FILTER_KINDS.get(id(fn), 'unknown')
