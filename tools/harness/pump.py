"""Pumped inputs derived from the renderer's own regular expressions (property C02, bounded work).

For every pattern the translator found in /repo (sites.json, regenerated on every run) the CPython parse tree is walked;
for every repeat node a family of strings  <word reaching the node> + <word accepted by the repeat body> * n + <suffix>
is produced.  `prescreen` times `pattern.search` directly on two sizes of each and returns the ones whose cost grows
faster than quadratically or is already large; the C02 check then renders those, full size, through rimu.render.

This is a search for failing inputs, not a proof: see DESIGN.md (C02 b).
"""
import json
import os
import re
import time

try:                                    # CPython >= 3.11
    import re._compiler as _compiler
    import re._constants as _c
    import re._parser as _parser
except ImportError:                     # pragma: no cover
    import sre_compile as _compiler
    import sre_constants as _c
    import sre_parse as _parser

CANDIDATES = [' ', 'a', '\t', '0', '.', '-', '_', '*', '`', '"', "'", '=', '|', '#', '<', '>', '&', '\\', '{', '}', '[', ']',
              '(', ')', ':', '/', '~', '^', '@', '+', '!', '$', ';', 'A', '\n']
REPEATS = tuple(x for x in (getattr(_c, 'MAX_REPEAT', None), getattr(_c, 'MIN_REPEAT', None),
                            getattr(_c, 'POSSESSIVE_REPEAT', None)) if x is not None)
SUFFIXES = ['', '!', '\x01x']


def _sub(state, items):
    p = _parser.SubPattern(state)
    p.data = list(items)
    return p


def _accepts(state, items, flags):
    """characters of CANDIDATES that the item sequence matches as a whole (None if it cannot be compiled alone)"""
    try:
        cp = _compiler.compile(_sub(state, items), flags)
    except Exception:   # noqa  (group references to groups outside the fragment, ...)
        return None
    return [ch for ch in CANDIDATES if cp.fullmatch(ch)]


def _single_char(items):
    if len(items) != 1:
        return False
    op = items[0][0]
    return op in (_c.LITERAL, _c.NOT_LITERAL, _c.IN, _c.ANY)


def sample(state, items, flags, prefer='a'):
    """a word matched by the item sequence (best effort, shortest choices)"""
    out = []
    for op, av in items:
        if op is _c.LITERAL:
            out.append(chr(av))
        elif op in (_c.NOT_LITERAL, _c.IN, _c.ANY):
            acc = _accepts(state, [(op, av)], flags) or []
            out.append(prefer if prefer in acc else (acc[0] if acc else 'a'))
        elif op in REPEATS:
            lo, _hi, body = av
            out.append(sample(state, body, flags, prefer) * lo)
        elif op is _c.SUBPATTERN:
            out.append(sample(state, av[3], flags, prefer))
        elif op is _c.BRANCH:
            out.append(sample(state, av[1][0], flags, prefer))
        elif op is getattr(_c, 'ATOMIC_GROUP', object()):
            out.append(sample(state, av, flags, prefer))
        # AT, ASSERT, ASSERT_NOT, GROUPREF: contribute nothing
    return ''.join(out)


def _walk(state, items, flags, prefix, out):
    cur = prefix
    for op, av in items:
        if op in REPEATS:
            lo, hi, body = av
            if hi > 1:
                units = []
                if _single_char(list(body)):
                    acc = _accepts(state, list(body), flags) or []
                    pri = [ch for ch in (' ', 'a', '\t') if ch in acc]
                    rest = [ch for ch in acc if ch not in pri]
                    units = (pri + rest[:2])[:4]
                else:
                    for pref in ('a', ' '):
                        u = sample(state, body, flags, pref)
                        if u and u not in units:
                            units.append(u)
                    # a body that is a choice: every alternative is a unit of its own (the ambiguous one need not be the first)
                    inner = list(body)
                    while len(inner) == 1 and inner[0][0] is _c.SUBPATTERN:
                        inner = list(inner[0][1][3])
                    if len(inner) == 1 and inner[0][0] is _c.BRANCH:
                        for alt in inner[0][1][1][:6]:
                            u = sample(state, alt, flags, 'a')
                            if u and u not in units:
                                units.append(u)
                    if not units:
                        # every item of the body is optional: pump each accepted single character
                        acc = _accepts(state, list(body), flags) or []
                        units = acc[:3]
                for u in units:
                    out.append((cur, u))
            _walk(state, body, flags, cur, out)
            cur += sample(state, body, flags) * lo
        elif op is _c.SUBPATTERN:
            _walk(state, av[3], flags, cur, out)
            cur += sample(state, av[3], flags)
        elif op is _c.BRANCH:
            for alt in av[1]:
                _walk(state, alt, flags, cur, out)
            cur += sample(state, av[1][0], flags)
        elif op in (_c.ASSERT, _c.ASSERT_NOT):
            _walk(state, av[1], flags, cur, out)
        elif op is getattr(_c, 'ATOMIC_GROUP', object()):
            _walk(state, av, flags, cur, out)
            cur += sample(state, av, flags)
        else:
            cur += sample(state, [(op, av)], flags)
    return cur


def pumps_of(pattern, flags=0):
    """[(prefix, unit)] for every repeat node of the pattern"""
    try:
        tree = _parser.parse(pattern, flags)
    except Exception:   # noqa
        return []
    out = []
    _walk(tree.state, list(tree), flags | tree.state.flags, '', out)
    seen, uniq = set(), []
    for pu in out:
        if pu[1] and pu not in seen:
            seen.add(pu)
            uniq.append(pu)
    return uniq


def load_sites(path):
    with open(path) as f:
        sites = json.load(f)
    res = []
    for key in sorted(sites):
        v = sites[key]
        if isinstance(v, dict) and 'pattern' in v:
            res.append((key, v['pattern'], int(v.get('flags', 0))))
    return res


_DYNAMIC = r'''
import json, re, sys
seen = {}
def _wrap(name):
    orig = getattr(re, name)
    def w(*a, **k):
        try:
            p = a[0] if a else k.get('pattern')
            fl = k.get('flags', 0)
            if name == 'compile' and len(a) > 1:
                fl = a[1]
            if isinstance(p, str):
                seen[(p, int(fl))] = 1
        except Exception:
            pass
        return orig(*a, **k)
    return w
for _n in ('compile', 'search', 'match', 'fullmatch', 'sub', 'subn', 'split', 'findall', 'finditer'):
    setattr(re, _n, _wrap(_n))
sys.path.insert(0, sys.argv[1])
import rimu
docs = json.loads(sys.stdin.read())
for mode in (0, 1, 15):
    for d in docs:
        try:
            rimu.render(d, rimu.RenderOptions(safeMode=mode, reset=True))
        except BaseException:
            pass
print(json.dumps([[p, f] for (p, f) in seen]))
'''


def dynamic_sites(repo, docs):
    """Patterns the implementation actually hands to `re` while it is imported and renders `docs` (every entry point of `re`
    is wrapped in a child process): finds patterns that are composed at run time or kept where the translator does not look.
    Returns [(key, pattern, flags)]."""
    import subprocess
    import sys
    import zlib
    try:
        p = subprocess.run([sys.executable, '-c', _DYNAMIC, os.path.join(repo, 'src')], input=json.dumps(docs), stdout=subprocess.PIPE,
                           stderr=subprocess.DEVNULL, text=True, timeout=120)
        rows = json.loads(p.stdout.strip().splitlines()[-1])
    except Exception:   # noqa
        return []
    out = []
    for pat, fl in rows:
        if len(pat) > 2000:
            continue
        out.append(('dyn:%08x' % (zlib.crc32(pat.encode('utf-8', 'replace')) & 0xffffffff), pat, int(fl)))
    return sorted(out)


def pool(sites):
    """[(site, pattern, flags, prefix, unit, suffix)] - deterministic"""
    out = []
    for key, pat, flags in sites:
        for prefix, unit in pumps_of(pat, flags & (re.I | re.M | re.S)):
            for suf in SUFFIXES:
                out.append((key, pat, flags, prefix, unit, suf))
    return out


def build(prefix, unit, suffix, size):
    return prefix + unit * max(1, (size - len(prefix) - len(suffix)) // len(unit)) + suffix


class _Timeout(BaseException):
    pass


def _time_search(cp, s, budget):
    """CPU seconds of one search, or None if it was still running after `budget` seconds"""
    import signal

    def _raise(*_):
        raise _Timeout()
    old = signal.signal(signal.SIGALRM, _raise)
    signal.setitimer(signal.ITIMER_REAL, budget)
    t0 = time.process_time()
    try:
        cp.search(s)
        return time.process_time() - t0
    except _Timeout:
        return None
    finally:
        signal.setitimer(signal.ITIMER_REAL, 0)
        signal.signal(signal.SIGALRM, old)


def prescreen(entries, sizes=(64, 128, 256, 512), slow=0.02, growth=5.5, hard=3.0, max_per_site=3):
    """Entries whose direct search cost grows faster than quadratically (t(2n)/t(n) > growth once t(2n) > slow) or exceeds
    `hard` seconds at any of the sizes (doubling, so that an n^4 pattern is stopped early).  Returns (flagged entries
    with measurements, number timed)."""
    flagged = []
    compiled = {}
    per_site = {}
    timed = 0
    for e in entries:
        key, pat, flags, prefix, unit, suf = e
        if (pat, flags) not in compiled:
            try:
                compiled[(pat, flags)] = re.compile(pat, flags & (re.I | re.M | re.S))
            except re.error:
                compiled[(pat, flags)] = None
        cp = compiled[(pat, flags)]
        if cp is None:
            continue
        if per_site.get(key, 0) >= max_per_site:
            continue
        timed += 1
        prev = None
        for n in sizes:
            t = _time_search(cp, build(prefix, unit, suf, n), hard)
            if t is None or (prev is not None and t > slow and t / max(prev, 1e-4) > growth):
                flagged.append({'site': key, 'pattern': pat, 'prefix': prefix, 'unit': unit, 'suffix': suf,
                                't_half': None if prev is None else round(prev, 4), 't': None if t is None else round(t, 4), 'n': n})
                per_site[key] = per_site.get(key, 0) + 1
                break
            if n >= 256 and t < slow / 8:
                break
            prev = t
    return flagged, timed


if __name__ == '__main__':
    import sys
    sites = load_sites(sys.argv[1] if len(sys.argv) > 1 else
                       os.path.join(os.path.dirname(__file__), '..', '..', 'lean', 'RimuModel', 'Generated', 'sites.json'))
    p = pool(sites)
    t0 = time.time()
    fl, timed = prescreen(p)
    print('sites', len(sites), 'pool', len(p), 'timed', timed, 'flagged', len(fl), 'wall %.1fs' % (time.time() - t0))
    for f in fl:
        print(f)
