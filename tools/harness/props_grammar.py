"""Grammar-directed properties: the generator builds a source together with the structure it
intends, and the oracle compares the implementation's output with that structure."""
import re

from . import gen, htmlcheck
from .props import Prop, Result, compare_states, register, run_session, same_outcome, short, step_kwargs
from .props_impl import DEFAULT_REPLACEMENT, NONZERO_POLICY_MODES, clean

PLAIN = ['alpha', 'beta', 'gamma', 'x', 'y1', 'Foo', 'Zed', 'it', 'is', 'ok', '42', 'né', 'Ωmega',
         # characters that str.splitlines() takes for line boundaries and the reader does not: they are text inside a word
         'al\u2028pha', 'be\x0cta', 'ga\x85ma', 'de\x1clta', 'ep\x0bsi', 'ze\u2029ta']
URLWORDS = ['http://example.com/', 'https://b.org/x?y=1&z=2', 'http://c.net/p#frag', 'http://d.io/a/b', 'ftp://files/x.y']
QUOTE_TAGS = {'**': 'strong', '*': 'em', '__': 'strong', '_': 'em', '``': 'code', '`': 'code', '~~': 'del'}


def esc(s):
    return s.replace('&', '&amp;').replace('>', '&gt;').replace('<', '&lt;')


def esc_attr(s):
    return esc(s).replace('"', '&quot;')


def plain(rng, lo=1, hi=3):
    return ' '.join(rng.choice(PLAIN) for _ in range(rng.randint(lo, hi)))


def html_policy(mode, repl, text):
    n = mode & 3
    if n == 0:
        return text
    if n == 1:
        return ''
    if n == 2:
        return repl
    return esc(text)


# ---------------------------------------------------------------------------------------------
# inline terms
# ---------------------------------------------------------------------------------------------

class Inline:
    """Builds (source, expected html) pairs for one paragraph."""

    def __init__(self, rng, mode, repl, extra_quotes=()):
        self.rng = rng
        self.mode = mode
        self.repl = repl
        self.kinds = set()
        self.quotes = dict(QUOTE_TAGS)
        self.extra = dict(extra_quotes)
        self.extra_chars = ''.join(q[0] for q in self.extra)      # delimiter characters of the defined quotes: not used as plain text

    def words(self, banned=''):
        self.kinds.add('word')
        w = plain(self.rng)
        if self.rng.random() < 0.12 and '$' not in banned and '$' not in self.extra_chars:
            # a `$n` / `$$n` in running text or in a caption is text, not a group of the enclosing template
            w += ' ' + self.rng.choice(['$1', '$2', '$$1', '$0', '$9', 'US$5'])
            self.kinds.add('dollar')
        return self._pair(w)

    @staticmethod
    def _pair(s):
        return s, esc(s)

    def special(self, banned=''):
        self.kinds.add('special')
        c = self.rng.choice([x for x in ['<', '>', '&', '"', "'", '(', ')', '!', '^', '$', '%', '+', '=', ';', ','] if x not in banned and x not in self.extra_chars])
        return c, esc(c)

    def term(self, depth, banned=''):
        """banned: quote delimiter characters that may not appear (we are inside such a quote)."""
        rng = self.rng
        k = rng.random()
        if depth <= 0 or k < 0.30:
            return self.words(banned)
        if k < 0.36:
            return self.special(banned)
        if k < 0.60:
            return self.quote(depth, banned)
        return self.replacement(depth, banned)

    def seq(self, depth, banned='', lo=1, hi=3):
        parts = [self.term(depth, banned) for _ in range(self.rng.randint(lo, hi))]
        # never let two specials or a special and markup touch: single blanks between terms
        return ' '.join(p[0] for p in parts), ' '.join(p[1] for p in parts)

    def quote(self, depth, banned):
        rng = self.rng
        choices = [q for q in list(self.quotes) + list(self.extra) if q[0] not in banned]
        if not choices:
            return self.words(banned)
        q = rng.choice(choices)
        self.kinds.add('quote' + q)
        if q in self.extra:
            o, c, spans = self.extra[q]
        else:
            tag = self.quotes[q]
            o, c, spans = '<%s>' % tag, '</%s>' % tag, tag != 'code'
        if not spans:
            # verbatim content: words and specials, no backtick
            # (text inside a quote may not contain that quote's delimiter character, inner code quotes included)
            toks = [t for t in PLAIN + ['<b>', '&amp;', '*x*', 'http://u.v/', '_', '[a](b)', '<', '&', '~~', '**y**']
                    if not any(ch in t for ch in banned) and not (q[-1] == '^' and t[0] == '[')]     # `^[a](b)` is a link form
            body = ' '.join(rng.choice(toks) for _ in range(rng.randint(1, 3)))
            if body.endswith('\\'):
                body += 'x'
            return q + body + q, o + esc(body) + c
        s, h = self.seq(depth - 1, banned + q[0])
        if rng.random() < 0.2:
            # the quoted text ends with a url: the closing delimiter follows it directly and is not part of it
            url = rng.choice([u for u in URLWORDS if u.startswith('http')])
            form = rng.randrange(3)
            if form == 0:
                s, h = s + ' ' + url, h + ' <a href="%s">%s</a>' % (esc_attr(url), esc_attr(url))
            elif form == 1:
                s, h = s + ' <%s>' % url, h + ' <a href="%s">%s</a>' % (esc_attr(url), esc_attr(url))
            else:
                s, h = url + ' ' + s, '<a href="%s">%s</a> ' % (esc_attr(url), esc_attr(url)) + h
            self.kinds.add('url-at-quote-edge')
        # quoted text cannot begin or end with white space or end with a backslash; our terms never do
        return q + s + q, o + h + c

    def caption(self, depth, banned, forbid):
        """caption of a link: words and quotes only (no construct of higher priority, no link)."""
        rng = self.rng
        parts = []
        for _ in range(rng.randint(1, 2)):
            if depth > 0 and rng.random() < 0.3:
                choices = [q for q in self.quotes if q[0] not in banned and self.quotes[q] != 'code']
                if choices:
                    q = rng.choice(choices)
                    w = plain(rng, 1, 2)
                    tag = self.quotes[q]
                    parts.append((q + w + q, '<%s>%s</%s>' % (tag, esc(w), tag)))
                    self.kinds.add('quote-in-caption')
                    continue
            if rng.random() < 0.3:
                # a construct of lower priority inside the caption: it is rendered when the caption is (a nested render
                # inside the rendering of the enclosing replacement), always followed by a word
                u = rng.choice([x for x in URLWORDS if x.startswith('http')])
                w = plain(rng, 1, 1)
                kind = rng.randrange(4 if forbid != '>' else 3)
                if kind == 0:
                    parts.append((u + ' ' + w, '<a href="%s">%s</a> %s' % (esc_attr(u), esc_attr(u), esc(w))))
                elif kind == 1:
                    e = rng.choice(['&amp;', '&copy;', '&#169;'])
                    parts.append((e + ' ' + w, e + ' ' + esc(w)))
                elif kind == 2:
                    parts.append(('snake_case ' + w, 'snake_case ' + esc(w)))
                else:
                    parts.append(('<%s> %s' % (u, w), '<a href="%s">%s</a> %s' % (esc_attr(u), esc_attr(u), esc(w))))
                self.kinds.add('replacement-in-caption')
                continue
            w = plain(rng, 1, 2)
            if rng.random() < 0.15 and '$' not in self.extra_chars and '$' not in banned:
                w += ' ' + rng.choice(['$1', '$2', '$$1', '$$2'])
                self.kinds.add('dollar-in-caption')
            parts.append(self._pair(w))
        return ' '.join(p[0] for p in parts), ' '.join(p[1] for p in parts)

    def replacement(self, depth, banned):
        rng = self.rng
        url = rng.choice(URLWORDS)
        k = rng.randrange(13)
        if k == 0:
            self.kinds.add('link<url|caption>')
            cs, ch = self.caption(depth - 1, banned, '>')
            return '<%s|%s>' % (url, cs), '<a href="%s">%s</a>' % (esc_attr(url), ch)
        if k == 1:
            self.kinds.add('link[caption](url)')
            cs, ch = self.caption(depth - 1, banned, '[')
            return '[%s](%s)' % (cs, url), '<a href="%s">%s</a>' % (esc_attr(url), ch)
        if k == 2:
            self.kinds.add('link^[caption](url)')
            cs, ch = self.caption(depth - 1, banned, '[')
            return '^[%s](%s)' % (cs, url), '<a href="%s" target="_blank">%s</a>' % (esc_attr(url), ch)
        if k == 3:
            self.kinds.add('link<url>')
            return '<%s>' % url, '<a href="%s">%s</a>' % (esc_attr(url), esc_attr(url))
        if k == 4:
            self.kinds.add('bare-url')
            url = rng.choice([u for u in URLWORDS if u.startswith('http')])
            return url, '<a href="%s">%s</a>' % (esc_attr(url), esc_attr(url))
        if k == 5:
            self.kinds.add('image|alt')
            alt = plain(rng, 1, 2)
            return '<image:%s|%s>' % (url, alt), '<img src="%s" alt="%s">' % (esc_attr(url), esc_attr(alt))
        if k == 6:
            self.kinds.add('image')
            return '<image:%s>' % url, '<img src="%s" alt="%s">' % (esc_attr(url), esc_attr(url))
        if k == 7:
            self.kinds.add('image![alt](url)')
            alt = plain(rng, 1, 2)
            return '![%s](%s)' % (alt, url), '<img src="%s" alt="%s">' % (esc_attr(url), esc_attr(alt))
        if k == 8:
            self.kinds.add('email')
            a = rng.choice(['joe@foo.com', 'a.b-c@d-e.org'])
            return '<%s>' % a, '<a href="mailto:%s">%s</a>' % (a, a)
        if k == 9:
            self.kinds.add('email|caption')
            a = rng.choice(['joe@foo.com', 'a.b-c@d-e.org'])
            cs, ch = self.caption(depth - 1, banned, '>')
            return '<%s|%s>' % (a, cs), '<a href="mailto:%s">%s</a>' % (a, ch)
        if k == 10:
            self.kinds.add('entity')
            e = rng.choice(['&amp;', '&copy;', '&#169;', '&#x2014;', '&nbsp;'])
            return e, e
        if k == 11:
            self.kinds.add('html-tag')
            t = rng.choice(['<b>', '</b>', '<span class="x">', '</span>', '<br>', '<!-- note -->', '<U>'])
            return t, html_policy(self.mode, self.repl, t)
        self.kinds.add('anchor')
        i = rng.choice(['a1', 'top-x'])
        return '<<#%s>>' % i, ('' if self.mode & 4 else '<span id="%s"></span>' % i)


@register
class C07(Prop):
    id = 'C07'
    rule = ('one paragraph generated from the inline term grammar (words, isolated specials, the 7 built-in quotes and up to 2 '
            'defined ones nested by differing delimiter character to depth 3, the 11 replacement forms, entities, line '
            'breaks, inline tags, adjacent and nested), every safe mode; expected html is built from the term; '
            'non-trivial = paragraph with >= 2 construct kinds')
    assumptions = ['grammar side conditions of DESIGN.md section 7 (quote text free of its own delimiter, caption restrictions)']

    def corpus(self, ctx):
        out = []
        fixed = [('*a* **b** _c_ __d__ `e` ``f`` ~~g~~', '<em>a</em> <strong>b</strong> <em>c</em> <strong>d</strong> <code>e</code> <code>f</code> <del>g</del>'),
                 ('*a _b `c-d` e_ f*', '<em>a <em>b <code>c-d</code> e</em> f</em>'),
                 ('a < b > c & d', 'a &lt; b &gt; c &amp; d'),
                 ('x \\\ny', 'x<br>\ny'),
                 ('<http://a.com/|*cap* it> [c](http://b.org/) ^[d](http://c.net/)',
                  '<a href="http://a.com/"><em>cap</em> it</a> <a href="http://b.org/">c</a> <a href="http://c.net/" target="_blank">d</a>'),
                 ('a_b_c 1_2 x', 'a_b_c 1_2 x'),
                 ('`<http://a.com/>` &copy;', '<code>&lt;http://a.com/&gt;</code> &copy;'),
                 # F46: what only looks like a character entity is text
                 ('&_x; &1a; &#zz; &#; &amp &copy; &#38; &#x26; &#X26;', '&amp;_x; &amp;1a; &amp;#zz; &amp;#; &amp;amp &copy; &#38; &#x26; &#X26;'),
                 # F39: a double quote is text; it is an entity only inside the attribute value that a group is copied into
                 ('x "\\` y "z"', 'x "\\` y "z"'),
                 ('<http://x.y/"q> <a"b@c.de>', '<a href="http://x.y/&quot;q">http://x.y/"q</a> <a href="mailto:a&quot;b@c.de">a"b@c.de</a>'),
                 ('<image:a"b|c"d> "e"', '<img src="a&quot;b" alt="c&quot;d"> "e"')]
        for src, exp in fixed:
            for mode in (0, 1):
                out.append({'src': src, 'expected': '<p>%s</p>' % exp, 'safeMode': mode, 'htmlReplacement': None, 'kinds': ['fixed', 'fixed2']})
        return out

    def cases(self, ctx):
        rng = ctx.rng
        while True:
            mode = rng.randrange(16)
            repl = rng.choice([None, '[R]'])
            defs = []
            extra = {}
            pre = None
            if rng.random() < 0.35:
                for q, o, c, sep in rng.sample([('=', '<u>', '</u>', '|'), ('%%', '<q>', '</q>', '|'), ('^^', '<sup>', '</sup>', '||'),
                                                ('$', '<var>', '</var>', '|'), ('==', '<mark>', '</mark>', '|'), ('+', '<ins>', '</ins>', '|'),
                                                ('@@', '<samp>', '</samp>', '||')], rng.randint(1, 2)):     # not `!`: `![a](b)` is an image
                    if any(q[0] == x[0] for x in extra):
                        continue
                    defs.append("%s = '%s%s%s'" % (q, o, sep, c))
                    extra[q] = (o, c, sep == '|')
                if mode != 0 or rng.random() < 0.3:
                    # defined by an earlier, trusted call of the same session
                    pre, defs = '\n'.join(defs), []
            if rng.random() < 0.06 and not extra:
                # lone delimiters, escaped: the backslash that touches the delimiter goes, one before it is text (the delimiter
                # characters are all different, and nothing else in the paragraph is a quote)
                ds = rng.sample(['*', '_', '`', '~~'], rng.randint(1, 3))
                ds = [d * 2 if d != '~~' and rng.random() < 0.5 else d for d in ds]
                ws, hs = [], []
                for d in ds:
                    w = rng.choice(PLAIN)
                    two = rng.random() < 0.5
                    ws.append('%s %s%s' % (w, '\\\\' if two else '\\', d))
                    hs.append('%s %s%s' % (esc(w), '\\' if two else '', d))
                w = rng.choice(PLAIN)
                yield {'src': ' '.join(ws) + ' ' + w, 'expected': '<p>' + ' '.join(hs) + ' ' + esc(w) + '</p>', 'safeMode': mode, 'htmlReplacement': repl,
                       'kinds': ['escaped-delimiter', 'word'], 'pre': None}
                continue
            g = Inline(rng, mode, repl if repl is not None else DEFAULT_REPLACEMENT, extra)
            s, h = g.seq(3, '', 1, 4)
            # running text: the line starts with a word so that it is not a line-level element - or with an inline tag in any
            # spelling, which does not make it an HTML block
            if rng.random() < 0.12:
                t = rng.choice(['<b>', '<B>', '<Span class="x">', '</EM>', '<KBD>', '<i>', '<Code>', '</a>', '<SUP>'])
                s, h = t + ' ' + s, html_policy(mode, repl if repl is not None else DEFAULT_REPLACEMENT, t) + ' ' + h
                g.kinds.add('tag-first')
            else:
                w = rng.choice(PLAIN)
                s, h = w + ' ' + s, esc(w) + ' ' + h
            if rng.random() < 0.15:
                g.kinds.add('line-break')
                s2, h2 = g.seq(1, '', 1, 2)
                s, h = s + ' \\\n' + s2, h + '<br>\n' + h2
            src = ('\n'.join(defs) + '\n\n' if defs else '') + s
            yield {'src': src, 'expected': '<p>' + h + '</p>', 'safeMode': mode, 'htmlReplacement': repl, 'kinds': sorted(g.kinds), 'pre': pre}

    def execute(self, case, ctx, res):
        st = {'src': case['src'], 'safeMode': case['safeMode'], 'htmlReplacement': case.get('htmlReplacement'), 'reset': True, 'callback': True}
        steps = [st]
        if case.get('pre'):
            st['reset'] = False
            steps = [{'src': case['pre'], 'safeMode': 0, 'reset': True, 'callback': True}, st]
        outs_i, _, ok = run_session(ctx, steps, res, case)
        a = outs_i[-1]
        if a[0] != 'ok':
            res.violation('render failed on an inline paragraph: %s' % (a,), case)
            return
        res.oracle_checks += 1
        for k in case['kinds']:
            res.count(k)
        if a[1] != case['expected']:
            res.violation('inline markup rendered to a different structure', case, {'got': a[1], 'expected': case['expected']})
            return
        if len(case['kinds']) >= 2:
            res.nontrivial(case['src'])


# ---------------------------------------------------------------------------------------------
# code is verbatim
# ---------------------------------------------------------------------------------------------

def markup_soup(rng, repo, n=3):
    lines = []
    for _ in range(n):
        k = rng.random()
        if k < 0.4:
            lines.extend(gen.inline(rng, 2).split('\n'))
        elif k < 0.7:
            lines.extend(gen.block(rng, 1).split('\n'))
        else:
            lines.append(rng.choice(['# header', '- item', '..', '""', '<div>', '{m}', "{m} = 'v'", '.cls #id', '// c', '/*', '*/',
                                     "'", '\\', '&amp;', '<script>', '  indented', '', '', 'term:: def', '\\`', '``x``']))
    return [clean(l).replace('\r', '') for l in lines]


@register
class C09(Prop):
    id = 'C09'
    rule = ('fenced block / indented paragraph / backtick quote whose content is drawn from all the other generators\' markup '
            '(quotes, links, tags, entities, macro invocations and definitions, block delimiters) within the limits of the '
            'quantifier; expected = content with only < > & escaped; all 16 safe modes; non-trivial = content has markup characters')

    def cases(self, ctx):
        rng = ctx.rng
        while True:
            mode = rng.randrange(16)
            kind = rng.choice(['fenced', 'fenced', 'inline', 'indented'])
            pre_defs = rng.random() < 0.3 and mode in (0, 8, 9, 12)
            head = "{m} = 'MACRO'\n\n" if pre_defs else ''
            if kind == 'fenced':
                fence = rng.choice(['``', '```', '````', '--', '---'])
                cls = rng.choice(['', '', ' js']) if fence[0] == '`' else ''
                lines = [l for l in markup_soup(rng, ctx.repo) if l != fence]
                for _ in range(rng.choice([0, 0, 1, 2])):
                    # lines that are almost, but not, the closing fence
                    near = rng.choice([fence + ' ', fence + '\t', ' ' + fence, fence + fence[0], fence[:-1], fence + ' x', '\\' + fence,
                                       fence + '  ', fence[0]])
                    lines.insert(rng.randrange(len(lines) + 1), near)
                content = '\n'.join(lines)
                content = ''.join(' ' if ord(c) <= 2 else c for c in content)
                src = head + fence + cls + '\n' + content + '\n' + fence
                open_ = '<pre class="js"><code>' if cls else '<pre><code>'
                exp = open_ + esc(content) + '</code></pre>'
            elif kind == 'inline':
                toks = [rng.choice(PLAIN + ['<b>', '</b>', '&amp;', '&', '<', '>', '*x*', '_y_', '~~z~~', 'http://u.v/', '[a](b)',
                                            '<http://a.b/|c>', '<image:x>', '\\', '**', '"', "'", '$1', '}', '<<#a>>', 'a@b.c', '<a@b.c>', ':',
                                            # every replacement form, with urls a filter might treat specially
                                            '[go](javascript:alert(1))', '^[go](vbscript:x)', '<javascript:void(0)|go>', '<data:text/html,x>',
                                            '![alt](data:image/png;base64,AAAA)', '<image:javascript:x|alt>', '<file:///etc/passwd>', '<mailto:a@b.c|m>',
                                            '&#x3c;', '&lt;script&gt;', '<!-- c -->', '<br>', 'snake_case_word', '...', '--', '->', '(c)', '+-'])
                        for _ in range(rng.randint(1, 5))]
                content = ' '.join(toks)
                if content.endswith('\\') or '::' in content:
                    continue
                pre = rng.choice(['', plain(rng) + ' '])
                if rng.random() < 0.3:
                    # escaped quotes earlier in the same text (the quote search restarts after each of them)
                    # (one-character quotes, each character once: known finding F21 is about the others)
                    for d in rng.sample(['*', '_'], rng.randint(1, 2)):
                        pre += '\\%s%s%s %s ' % (d, rng.choice(PLAIN), d, rng.choice(['and', 'or', '']))
                    pre = pre.replace('  ', ' ')
                post = rng.choice(['', ' ' + plain(rng)])
                q = rng.choice(['`', '``'])
                src = head + pre + q + content + q + post
                exp = '<p>' + esc(pre.replace('\\', '')) + '<code>' + esc(content) + '</code>' + esc(post) + '</p>'
                if rng.random() < 0.2 and not any(ch in content for ch in '*_~') and '\\' not in pre:
                    # the code quote inside an emphasis span, with replaced elements earlier in the paragraph
                    lead_s, lead_h = rng.choice([('http://u.v/ ', '<a href="http://u.v/">http://u.v/</a> '), ('&copy; [c](http://d.e/) ', '&copy; <a href="http://d.e/">c</a> '),
                                                 ('', '')])
                    d, tag = rng.choice([('*', 'em'), ('**', 'strong'), ('~~', 'del'), ('_', 'em')])
                    src = head + lead_s + d + 'see ' + q + content + q + ' here' + d
                    exp = '<p>' + lead_h + '<%s>see <code>%s</code> here</%s></p>' % (tag, esc(content), tag)
            else:
                lines = [l for l in markup_soup(rng, ctx.repo) if l.strip() != '']
                if not lines:
                    continue
                lines = [l.lstrip() for l in lines]
                first = lines[0]
                if re.match(r'^\\?\s*(-|\+|\*{1,4}|\d*\.{1,4})\s+', first) or re.match(r'^\\?\s*(.*[^:])(:{2,4})(|\s+.*)$', first):
                    continue
                content = '\n'.join(lines)
                content = ''.join(' ' if ord(c) <= 2 else c for c in content)
                lines = content.split('\n')
                if any(l.strip() == '' for l in lines) or lines[0][:1].isspace():
                    continue
                ind = rng.choice(['  ', '    ', '\t'])
                src = head + '\n'.join(ind + l for l in lines)
                exp = '<pre><code>' + esc('\n'.join(lines)) + '</code></pre>'
            loose = False
            if kind != 'inline' and not (mode & 4) and rng.random() < 0.25:
                # block options that an earlier block consumed - a rendered one, a skipped one, a comment - are gone when the
                # code region starts
                pre, pexp = rng.choice([('.+spans\n/*\nc\n*/\n\n', ''), ('.+macros +spans +skip\n..\nskipped\n..\n\n', ''),
                                        ('.+spans +macros\npara consumes\n\n', '<p>para consumes</p>'),
                                        ('.+spans\n/*\nc\n*/\n\n# Head\n\n- item\n\n\n', '<h1>Head</h1><ul><li>item</li></ul>'),
                                        ('.+macros +spans\n``\nfirst\n``\n\n', '<pre><code>first</code></pre>')])
                src, exp, loose = pre + src, pexp + exp, True
            yield {'src': src, 'expected': exp, 'safeMode': mode, 'kind': kind, 'loose': loose}

    def execute(self, case, ctx, res):
        st = {'src': case['src'], 'safeMode': case['safeMode'], 'reset': True, 'callback': True}
        outs_i, _, ok = run_session(ctx, [st], res, case)
        a = outs_i[0]
        if a[0] != 'ok':
            res.violation('render failed on a code region: %s' % (a,), case)
            return
        res.oracle_checks += 1
        res.count(case['kind'])
        if case.get('loose'):
            res.count('after_consumed_options')
        if (a[1].replace('\n', '') != case['expected'].replace('\n', '')) if case.get('loose') else (a[1] != case['expected']):
            res.violation('markup was interpreted inside a %s code region' % case['kind'], case, {'got': a[1], 'expected': case['expected']})
            return
        if re.search(r'[<>&*_`{\[]', case['src']):
            res.nontrivial(case['src'])


# ---------------------------------------------------------------------------------------------
# blocks
# ---------------------------------------------------------------------------------------------

class Blocks:
    """Block grammar: each generated block carries its source lines and the kind of element it must become."""

    def __init__(self, rng, mode):
        self.rng = rng
        self.mode = mode
        self.kinds = set()

    def para_text(self):
        rng = self.rng
        lines = []
        for _ in range(rng.randint(1, 3)):
            w = plain(rng, 1, 4)
            if rng.random() < 0.3:
                w += ' ' + rng.choice(['*em*', '`code`', '<http://a.com/|cap>', '&amp;', 'a < b'])
            lines.append(w)
        return '\n'.join(lines)

    # the sub-forms of an HTML block: element, one-line and multi-line comment, declaration
    HTML_FORMS = ['<div class="z">\n<p>raw</p>\n</div>', '<!-- comment -->', '<hr>', '<table>\n<tr><td>x</td></tr>\n</table>',
                  '<!--\ncommented out\ntext\n-->', '<!-- opens\nand closes later -->', '<!DOCTYPE html>', '<!-- a --> <!-- b -->']

    def block(self, depth, used, force=None):
        rng = self.rng
        k = rng.randrange(11 if depth > 0 else 8)
        if force is not None:
            k = force
        if k == 7:
            # a (flat) list: the tenth block kind; what follows it must not attach to it (two blank lines, see doc)
            self.kinds.add('list')
            mk = rng.choice(['-', '*', '.', '+'])
            items = [plain(rng, 1, 3) for _ in range(rng.randint(1, 3))]
            tag = 'ol' if mk == '.' else 'ul'
            return {'kind': 'list', 'src': '\n'.join('%s %s' % (mk, t) for t in items), 'starts': '<%s>' % tag,
                    'exact': '<%s>%s</%s>' % (tag, ''.join('<li>%s</li>' % esc(t) for t in items), tag)}
        if k > 7:
            k -= 1
        if k == 0:
            self.kinds.add('paragraph')
            return {'kind': 'paragraph', 'src': self.para_text(), 'starts': '<p>'}
        if k == 1:
            n = rng.randint(1, 6)
            mark = rng.choice(['#', '=']) * n
            self.kinds.add('header')
            t = plain(rng, 1, 3)
            return {'kind': 'header', 'src': '%s %s%s' % (mark, t, rng.choice(['', ' ' + mark])), 'starts': '<h%d>' % n,
                    'exact': '<h%d>%s</h%d>' % (n, esc(t), n)}
        if k == 2:
            fence = rng.choice(['``', '```', '--', '----', '---', '-----', '`````'])
            body = '\n'.join(rng.choice([plain(rng), '# not a header', '- not a list', '', '<b>', '.,.', '*x*', fence + ' ', ' ' + fence,
                                          fence + fence[0], fence[:-1]]) for _ in range(rng.randint(1, 3)))
            self.kinds.add('code')
            return {'kind': 'code', 'src': '%s\n%s\n%s' % (fence, body, fence), 'starts': '<pre><code>',
                    'exact': '<pre><code>%s</code></pre>' % esc(body)}
        if k == 3:
            body = [plain(rng) for _ in range(rng.randint(1, 3))]
            self.kinds.add('indented')
            return {'kind': 'indented', 'src': '\n'.join('  ' + l for l in body), 'starts': '<pre><code>',
                    'exact': '<pre><code>%s</code></pre>' % esc('\n'.join(body))}
        if k == 4:
            self.kinds.add('html')
            h = rng.choice(self.HTML_FORMS)
            return {'kind': 'html', 'src': h, 'starts': None, 'exact': html_policy(self.mode, '<mark>replaced HTML</mark>', h)}
        if k == 5:
            self.kinds.add('comment')
            return {'kind': 'comment', 'src': rng.choice(['// ' + plain(rng), '//', '//' + plain(rng), '/*\n' + plain(rng) + '\n*/',
                                                          '/*\n/\n*\n**\n/*\n */\n*/ x\n' + plain(rng) + '\n*/', '/**\n' + plain(rng) + '\n**/']),
                    'starts': None, 'exact': ''}
        if k == 6:
            self.kinds.add('quote-paragraph')
            ls = [plain(rng) for _ in range(rng.randint(1, 2))]
            if rng.random() < 0.2:
                ls.insert(rng.randrange(1, len(ls) + 1), '')         # a bare '>' line inside the quote paragraph
            return {'kind': 'quote-paragraph', 'src': '\n'.join('>' + l for l in ls), 'starts': '<blockquote><p>',
                    'exact': '<blockquote><p>%s</p></blockquote>' % esc('\n'.join(ls))}
        # containers (distinct delimiters along the nesting path and inside)
        if k in (7, 8):
            cands = [d for d in ['""', '"""', '""""', '>>', '>>>'] if d not in used]
            if not cands:
                return self.block(0, used)
            d = rng.choice(cands)
            cls = rng.choice(['', '', ' q1', ' q1 q2'])
            inner = self.doc(depth - 1, used | {d})
            self.kinds.add('quote')
            open_ = '<blockquote class="%s">' % cls.strip() if cls else '<blockquote>'
            return {'kind': 'quote', 'src': '%s%s\n%s\n%s' % (d, cls, inner['src'], d), 'starts': '<blockquote', 'inner': inner,
                    'open': open_, 'close': '</blockquote>'}
        cands = [d for d in ['..', '...', '.....', '......'] if d not in used]
        if not cands:
            return self.block(0, used)
        d = rng.choice(cands)
        # class names on a 2-4 period delimiter are written without the blank (else the line is a list item)
        cls = rng.choice(['', '', 'one', 'one two'])
        sep = '' if len(d) <= 4 else rng.choice(['', ' '])
        inner = self.doc(depth - 1, used | {d})
        self.kinds.add('division')
        if cls:
            return {'kind': 'division', 'src': '%s%s%s\n%s\n%s' % (d, sep, cls, inner['src'], d), 'starts': '<div', 'inner': inner,
                    'open': '<div class="%s">' % cls, 'close': '</div>'}
        return {'kind': 'division', 'src': '%s\n%s\n%s' % (d, inner['src'], d), 'starts': None, 'inner': inner, 'open': '', 'close': ''}

    def doc(self, depth, used=frozenset(), n=None):
        rng = self.rng
        blocks = [self.block(depth, used) for _ in range(n or rng.randint(1, 4))]
        if n is None and rng.random() < 0.15:
            # two blocks of one kind in different sub-forms with something after them: what one leaves on the shared
            # definition of the kind must not reach the next (HTML blocks; fenced code with and without class names)
            kind = rng.choice([4, 4, 2])
            pair = [self.block(0, used, force=kind), self.block(0, used, force=kind)]
            at = rng.randrange(len(blocks) + 1)
            blocks[at:at] = pair if rng.random() < 0.6 else [pair[0], self.block(0, used, force=0), pair[1]]
            blocks.append(self.block(0, used, force=rng.choice([0, 1])))
        src = ''
        for i, b in enumerate(blocks):
            src += b['src']
            if i < len(blocks) - 1:
                # two blank lines end a list: one would let the next block attach to, or continue, the last item
                src += '\n\n\n' if b['kind'] == 'list' else rng.choice(['\n\n', '\n\n\n'])
        return {'blocks': blocks, 'src': src}


def nonl(s):
    return s.replace('\n', '')


@register
class C08(Prop):
    id = 'C08'
    rule = ('documents from the block grammar (paragraph, header h1-h6, fenced code, indented, HTML block, comments, quote '
            'paragraph, quote and division containers nested to depth 3 with distinct delimiters and optional class names, 1-2 '
            'blank lines), every safe mode; oracle: document output = concatenation of the outputs of its blocks rendered '
            'alone (modulo newlines), each block alone renders to its element kind, containers wrap the rendering of their '
            'content; non-trivial = >= 2 blocks of >= 2 kinds')

    def cases(self, ctx):
        rng = ctx.rng
        while True:
            mode = rng.randrange(16)
            g = Blocks(rng, mode)
            d = g.doc(3 if rng.random() < 0.5 else 1)
            yield {'doc': d, 'safeMode': mode, 'kinds': sorted(g.kinds)}

    def render1(self, ctx, res, case, src):
        st = {'src': src, 'safeMode': case['safeMode'], 'reset': True, 'callback': True}
        outs_i, _, ok = run_session(ctx, [st], res, case)
        return outs_i[0]

    def check_doc(self, ctx, res, case, doc, depth=0):
        whole = self.render1(ctx, res, case, doc['src'])
        if whole[0] != 'ok':
            res.violation('render failed on a block document: %s' % (whole,), case)
            return None
        parts = []
        for b in doc['blocks']:
            o = self.render1(ctx, res, case, b['src'])
            if o[0] != 'ok':
                res.violation('render failed on a block: %s' % (o,), case, b['src'])
                return None
            out = o[1]
            res.oracle_checks += 1
            if b.get('starts') and not out.startswith(b['starts']):
                res.violation('a %s block did not render to its element (%s...)' % (b['kind'], b['starts']), case, {'block': b['src'], 'got': out})
                return None
            if 'exact' in b and nonl(out) != nonl(b['exact']):
                res.violation('a %s block rendered to %r, expected %r' % (b['kind'], out, b['exact']), case, {'block': b['src']})
                return None
            if 'inner' in b:
                inner = self.check_doc(ctx, res, case, b['inner'], depth + 1)
                if inner is None:
                    return None
                if nonl(out) != nonl(b['open'] + inner + b['close']):
                    res.violation('a %s container is not its tag pair around its rendered content' % b['kind'], case,
                                  {'block': b['src'], 'got': out, 'expected': b['open'] + inner + b['close']})
                    return None
            parts.append(out)
        if nonl(whole[1]) != nonl(''.join(parts)):
            res.violation('document output is not the concatenation of its blocks rendered alone', case,
                          {'src': doc['src'], 'got': whole[1], 'blocks_alone': parts})
            return None
        return whole[1]

    def execute(self, case, ctx, res):
        if self.check_doc(ctx, res, case, case['doc']) is None:
            return
        for k in case['kinds']:
            res.count(k)
        if len(case['doc']['blocks']) >= 2 and len(case['kinds']) >= 2:
            res.nontrivial(case['doc']['src'])


# ---------------------------------------------------------------------------------------------
# lists
# ---------------------------------------------------------------------------------------------

LIST_TAGS = {'-': 'ul', '+': 'ul', '*': 'ul', '.': 'ol', ':': 'dl'}


class ListGen:
    def __init__(self, rng):
        self.rng = rng
        self.kinds = set()

    def item_lines(self, marker, text_lines, term=None):
        if marker[0] == ':':
            first = '%s%s %s' % (term, marker, text_lines[0])
        else:
            first = '%s %s' % (marker, text_lines[0])
        return [first] + ['  ' + t if self.rng.random() < 0.5 else t for t in text_lines[1:]]

    def attached(self):
        rng = self.rng
        k = rng.randrange(4)
        # every spelling of the delimiters (a block attached without a blank line is recognised by its opening line alone)
        if k == 0:
            self.kinds.add('attached-code')
            d = rng.choice(['```', '``', '````', '--', '---'])
            return [d, 'code <x>', d], '<pre><code>code &lt;x&gt;</code></pre>', False
        if k == 1:
            self.kinds.add('attached-quote')
            d = rng.choice(['""', '""', '"""', '>>', '>>', '>>>'])
            c = rng.choice(['', '', ' qc'])
            return [d + c, 'quoted', d], '<blockquote%s><p>quoted</p></blockquote>' % (' class="qc"' if c else ''), False
        if k == 2:
            self.kinds.add('attached-division')
            d = rng.choice(['.....', '..', '...'])
            c = rng.choice(['', '', 'dc'])      # (no blank before the class name: `.. dc` is a numbered item)
            return [d + c, 'divided', d], ('<div class="dc"><p>divided</p></div>' if c else '<p>divided</p>'), False
        self.kinds.add('attached-indented')
        return ['', '  indented text', ''], '<pre><code>indented text</code></pre>', True

    def lst(self, depth, open_markers):
        """Returns (lines, html).  One list: items share a marker; each item owns at most one child list."""
        rng = self.rng
        cands = [m for m in gen.MARKERS if m not in open_markers]
        marker = rng.choice(cands)
        tag = LIST_TAGS[marker[0]]
        self.kinds.add(tag)
        lines = []
        html = '<%s>' % tag
        n = rng.randint(1, 3)
        for i in range(n):
            texts = [plain(rng, 1, 3) for _ in range(rng.randint(1, 3))]
            term = plain(rng, 1, 2) if tag == 'dl' else None
            il = self.item_lines(marker, texts, term)
            lines += il
            # continuation lines keep their indentation; the item text is stripped as a whole
            body = esc('\n'.join([texts[0]] + il[1:]).strip())
            extra = ''
            ended_blank = False
            if rng.random() < 0.25:
                al, ah, blank_terminated = self.attached()
                lines += al
                extra += ah
                ended_blank = blank_terminated
            if depth > 1 and rng.random() < 0.4:
                cl, ch = self.lst(depth - 1, open_markers | {marker})
                lines += cl
                extra += ch
                ended_blank = False
            if tag == 'dl':
                html += '<dt>%s</dt><dd>%s%s</dd>' % (esc(term), body, extra)
            else:
                html += '<li>%s%s</li>' % (body, extra)
            if i < n - 1 and rng.random() < 0.3 and not ended_blank:
                lines.append('')
                self.kinds.add('blank-between-items')
        html += '</%s>' % tag
        return lines, html


@register
class C10(Prop):
    id = 'C10'
    rule = ('list trees over the 13 markers, depth <= 4, mixed kinds, items of 1-3 text lines, optional attached code / quote / '
            'division / indented block, optional single blank lines between items, followed by an arbitrary next block after two '
            'blank lines; expected html is built from the tree; non-trivial = tree with a child list or an attached block')

    def cases(self, ctx):
        rng = ctx.rng
        while True:
            g = ListGen(rng)
            if rng.random() < 0.2:
                # "at most one attached block": a second block after an item that already has one ends the list (it is
                # rendered after the list, and a later item with the same marker opens a new list)
                mk = rng.choice(['-', '+', '*', '.', '..'])
                tag = LIST_TAGS[mk[0]]
                al, ah, blank_terminated = g.attached()
                nested = rng.random() < 0.3
                mk2 = '**' if mk != '**' else '-'
                tag2 = LIST_TAGS[mk2[0]]
                lines = ['%s a' % mk] + (['%s b' % mk2] if nested else []) + al
                one_blank = [] if blank_terminated else ['']
                b2, b2h = rng.choice([(one_blank + ['  ind2', ''], '<pre><code>ind2</code></pre>'),
                                      (one_blank + ['> qp', ''], '<blockquote><p> qp</p></blockquote>'),
                                      (rng.choice([[], one_blank]) + ['``', 'c2', '``'] + rng.choice([[], ['']]), '<pre><code>c2</code></pre>'),
                                      (rng.choice([[], one_blank]) + ['""', 'q2', '""'] + rng.choice([[], ['']]), '<blockquote><p>q2</p></blockquote>')])
                last_mk, last_tag = (mk2, tag2) if nested else (mk, tag)
                lines += b2 + ['%s c' % last_mk]
                if nested:
                    html = '<%s><li>a<%s><li>b%s</li></%s></li></%s>' % (tag, tag2, ah, tag2, tag)
                else:
                    html = '<%s><li>a%s</li></%s>' % (tag, ah, tag)
                html += b2h + '<%s><li>c</li></%s>' % (last_tag, last_tag)
                g.kinds.add('second-attachment')
                yield {'src': '\n'.join(lines), 'expected': html, 'safeMode': rng.choice([0, 0, 1, 5, 15]), 'kinds': sorted(g.kinds)}
                continue
            if rng.random() < 0.15:
                # two or more blank lines end a list, also right after an attached block (whatever closes that block): the item
                # that follows starts a new list, never a continuation or a child
                mk = rng.choice(['-', '+', '*', '.', '..', '::'])
                tag = LIST_TAGS[mk[0]]
                mode = rng.choice([0, 0, 1, 5, 15])
                form = rng.randrange(7)
                if form < 4:
                    al, ah, blank_terminated = g.attached()
                elif form == 4:
                    al, ah, blank_terminated = ['', '> quoted par', ''], '<blockquote><p> quoted par</p></blockquote>', True
                elif form == 5:
                    mode = 0
                    al, ah, blank_terminated = ['<div>x</div>', ''], '<div>x</div>', True
                else:
                    al, ah, blank_terminated = [], '', False
                first = 'T%s a' % mk if tag == 'dl' else '%s a' % mk
                mk2 = rng.choice([mk, mk, '***' if mk != '***' else '-'])
                tag2 = LIST_TAGS[mk2[0]]
                second = 'U%s c' % mk2 if tag2 == 'dl' else '%s c' % mk2
                if form == 5 and rng.random() < 0.5:
                    al, ah = rng.choice([(['<hr>', ''], '<hr>'), (['<hr class="x">', ''], '<hr class="x">'), (['<HR>', ''], '<HR>')])     # (block-level void elements: `<br>`, `<input>` are inline tags, i.e. item text)
                blanks = [''] * rng.randint(1, 4)
                item = (lambda t, tm, body: '<dt>%s</dt><dd>%s</dd>' % (tm, body) if t == 'dl' else '<li>%s</li>' % body)
                if len(blanks) == 1:
                    # one blank line (after the one that closes a blank-terminated block, if any): the list goes on
                    mk2, tag2 = mk, tag
                    second = 'U%s c' % mk2 if tag2 == 'dl' else '%s c' % mk2
                    html = '<%s>%s%s</%s>' % (tag, item(tag, 'T', 'a' + ah), item(tag2, 'U', 'c'), tag)
                else:
                    html = '<%s>%s</%s><%s>%s</%s>' % (tag, item(tag, 'T', 'a' + ah), tag, tag2, item(tag2, 'U', 'c'), tag2)
                lines = [first] + al + blanks + [second]
                g.kinds.add('blank-lines-end-list')
                yield {'src': '\n'.join(lines), 'expected': html, 'safeMode': mode, 'kinds': sorted(g.kinds)}
                continue
            if rng.random() < 0.12:
                # Block Attributes between the items of a list go to the item that follows (ignored with bit 4, consumed all the
                # same): the list goes on, with or without a blank line next to the attributes line
                mk = rng.choice(['-', '*', '.', '+'])
                tag = LIST_TAGS[mk[0]]
                mode = rng.choice([0, 1, 4, 5, 12, 15, 9])
                n = rng.randint(2, 4)
                lines, html = [], '<%s>' % tag
                for i in range(n):
                    cls = ''
                    if i > 0 and rng.random() < 0.7:
                        cls = rng.choice(['x', 'k1', 'note'])
                        lines += rng.choice([['.' + cls], ['', '.' + cls], ['.' + cls, ''], ['', '.' + cls]])
                    w = plain(rng, 1, 2)
                    lines.append('%s %s' % (mk, w))
                    html += '<li%s>%s</li>' % (' class="%s"' % cls if cls and not (mode & 4) else '', esc(w))
                html += '</%s>' % tag
                g.kinds.add('attributes-between-items')
                yield {'src': '\n'.join(lines), 'expected': html, 'safeMode': mode, 'kinds': sorted(g.kinds)}
                continue
            lines, html = g.lst(rng.randint(1, 4), frozenset())
            while lines and lines[-1] == '':
                lines.pop()
            nxt = rng.choice([None, ('para after', '<p>para after</p>'), ('# H', '<h1>H</h1>'), ('```\nc\n```', '<pre><code>c</code></pre>')])
            src = '\n'.join(lines)
            exp = html
            if nxt:
                src += '\n\n\n' + nxt[0]
                exp += nxt[1]
            yield {'src': src, 'expected': exp, 'safeMode': rng.choice([0, 0, 1, 5, 15]), 'kinds': sorted(g.kinds)}

    def execute(self, case, ctx, res):
        st = {'src': case['src'], 'safeMode': case['safeMode'], 'reset': True, 'callback': True}
        outs_i, _, ok = run_session(ctx, [st], res, case)
        a = outs_i[0]
        if a[0] != 'ok':
            res.violation('render failed on a list: %s' % (a,), case)
            return
        res.oracle_checks += 1
        for k in case['kinds']:
            res.count(k)
        if nonl(a[1]) != nonl(case['expected']):
            res.violation('list markers did not produce the intended nesting', case, {'got': a[1], 'expected': case['expected']})
            return
        if len(case['kinds']) >= 2:
            res.nontrivial(case['src'])
        # the marker stack is scratch state of one call: a preceding call abandoned in the middle of a list (its callback
        # raised) must not change the nesting (implementation only: the model has no counterpart of an abandoned call)
        if res.evaluations % 9 == 0:
            ctx.impl.render('- first\n  . {undefined-macro} second\n\n*** third {undef}', abort=True)
            b = ctx.impl.render(case['src'], safeMode=case['safeMode'], reset=True, callback=True)
            res.count('after_abandoned_call')
            if b[0] != 'ok' or nonl(b[1]) != nonl(case['expected']):
                res.violation('list nesting depends on a preceding abandoned call', case, {'got': b[1:], 'expected': case['expected']})
