"""The twenty property classes (generators + oracles).  See props.py for the framework."""
import json
import os
import re
import subprocess
import sys
import time

from . import gen, htmlcheck
from .props import (Prop, Result, compare_states, register, run_session, same_outcome, short, step_kwargs)
from .protocol import has_surrogate

NONZERO_POLICY_MODES = [1, 2, 3, 5, 6, 7, 9, 10, 11, 13, 14, 15]
DEFAULT_REPLACEMENT = '<mark>replaced HTML</mark>'


def clean(src):
    """Lone surrogates are outside the model (Lean `Char`); keep them out of compared cases."""
    return ''.join(c for c in src if not (0xD800 <= ord(c) <= 0xDFFF))


def hostile(rng):
    """Markup that tries to smuggle HTML through safe modes."""
    frag = rng.choice([
        '[x](http://a"onmouseover="alert(1))', '<image:x"onerror="y|z>', '![a"b="c](u)', '<http://a"b=c>', '."a"b="c"',
        '<script>alert(1)</script>', '<img src=x onerror=alert(1)>', "{m} = '<script>x</script>'", '<div>{m}</div>',
        '<b onclick="x">', '<!-- c --><i>', '"><svg onload=x>', '&lt;script&gt;', '<a href="javascript:x">y</a>',
        "{--header-ids} = 'true'", '.cls #id "color:red" [onclick="x"] +skip', '<<#a"b>>', '<joe@x.com|"><b>>',
        '^[a"b](c"d)', '<image:u|a"b>', 'http://x.com/"a', "{m} = '\"onx=\"y'", '<u {m}>', '[{m}](http://z/{m})',
        '."color:red\\" onmouseover=alert(1) x=\\"y"', '.cls "a:b\\"c"', ".\"a'b\" [c]", '<image:u\\"x|a\\"b>', '[c](http://a\\"b)',
        '.#i\\"d', '.c"d', '.{m}', '<div class="{m}">', '`<b>`', '\\<b>', '<B CLASS="x">', '</p><script>', '<br', '<p\n>', '&#60;script&#62;',
        '<image:{m}>', '<{m}|cap>', '.#{m}', '<a\u0000b>', '<a href=x\u0001>',
    ])
    return frag


BREAKERS = ['"', '\\"', "'", '>', '<', ' x=y', ' onclick=e()', '\\', '&quot;', '"x="', '\u0000', '`', '\\\\"']


def breaker(rng):
    return ''.join(rng.choice(BREAKERS + ['a', 'b:c']) for _ in range(rng.randint(1, 4)))


def attribute_attack(rng):
    """An attribute-bearing construct with a breaker string in each of its value positions."""
    b = breaker(rng)
    return rng.choice([
        '."%s"\npara' % b, '.cls "a:%s"\n- item' % b, '.#id%s\npara' % b, '.c%s\npara' % b, '[cap](http://h/%s)' % b,
        '^[cap](http://h/%s)' % b, '<http://h/%s|cap>' % b, '<http://h/%s>' % b, '<image:http://h/%s|alt>' % b, '<image:i|a%s>' % b,
        '![a%s](u)' % b, '![a](u%s)' % b, '<a@b.c%s|cap>' % b, '<a%s@b.c>' % b, 'http://h/%s' % b, '<<#a%s>>' % b, '# Head %s' % b,
        '.. c%s\ntext\n..' % b, '`` js%s\ncode\n``' % b, '"" q%s\nquote\n""' % b,
        # something that looks like an attribute in the *text* of the element the pending attributes go to
        '."a:b%s"\n# Head style="x" tail' % b, '.k%s\n# Head class="x" tail' % b, '.#i3\n## Head id="x" %s' % b,
        '."c:d <script>x</script>"\n= Set style="q" on it', '.k1 k2\n- item class="z" %s' % b,
        '."e:f%s"\nterm style="t":: def' % b])


def hostile_source(rng, repo):
    src = gen.any_source(rng, repo)
    lines = src.split('\n')
    for _ in range(rng.randint(1, 4)):
        h = hostile(rng) if rng.random() < 0.6 else attribute_attack(rng)
        pos = rng.randrange(len(lines) + 1)
        if rng.random() < 0.5 and lines:
            i = min(pos, len(lines) - 1)
            cut = rng.randrange(len(lines[i]) + 1)
            lines[i] = lines[i][:cut] + h + lines[i][cut:]
        else:
            lines.insert(pos, h)
            if rng.random() < 0.5:
                lines.insert(pos, '')
    return clean('\n'.join(lines))


# ---------------------------------------------------------------------------------------------
@register
class C01(Prop):
    id = 'C01'
    rule = ('histories of 1-3 render calls from a fresh process: sources from the block/inline grammar generator, its '
            'malformed variants and mutated corpus inputs; option values legal and illegal; non-trivial = distinct case '
            'whose output is not a single plain paragraph')
    assumptions = ['Python recursion limit and memory are runtime limits reached only by the stress inputs',
                   'lone surrogates are fed to the implementation only']
    quick_cases = 500

    MODES = [None, 0, 0, 1, 2, 3, 4, 5, 7, 8, 9, 11, 12, 15, 16, -1, 'x', '7', ' 3 ', 2.0, True, False, '', '<int 10**5000>', '<int -10**4400>']
    RESETS = [None, None, True, False, 'true', 'false', 'junk', 1, 0, '<int 10**5000>']
    REPLS = [None, None, '[R]', '<i>r</i>', '', 42, 2.5, True, False, 0, '<int 10**5000>']

    def corpus(self, ctx):
        big = 3000 if ctx.tier == 'quick' else 8000
        out = []
        for unit in ['http://a.com/ ', '&amp; ', 'a_b ', '*a* ', '`x` ', '\\*a* ', '<b>x</b> ', '[c](u) ', '{undef} ',
                     'x \\\n']:
            out.append({'steps': [{'src': unit * big, 'safeMode': 0, 'reset': True, 'callback': True}], 'stress': True})
        out.append({'steps': [{'src': '- item\n' * big, 'reset': True, 'callback': True}], 'stress': True})
        out.append({'steps': [{'src': 'para\n\n' * big, 'reset': True, 'callback': True}], 'stress': True})
        out.append({'steps': [{'src': '# h\n' * big, 'reset': True, 'callback': True}], 'stress': True})
        depth = 50
        nest = ''.join('%s\n' % ('..' + '.' * i) for i in range(depth)) + 'deep\n' + ''.join(
            '%s\n' % ('..' + '.' * i) for i in reversed(range(depth)))
        out.append({'steps': [{'src': nest, 'reset': True, 'callback': True}], 'stress': True})
        # F41: containers that are never closed, each around the rest of the source (the interpreter's stack, not the
        # source, used to be the limit); also through attached blocks of list items
        for unit in ['..a\n', '""q\n', '..a\n""b\n', '- x\n..\n', '- x\n\n  > - y\n..\n', '.+container\npara\n..k\n']:
            for n, m in [(40, 1), (600, 1), (big, 0)]:
                out.append({'steps': [{'src': unit * n, 'safeMode': m, 'reset': True, 'callback': True}], 'stress': True})
        # F51: a run of one quote character (every further closing character nests the quoted text one level deeper)
        for unit in ['*', '_', '~', '**', '__', '`', '*a', '= ', '"']:
            out.append({'steps': [{'src': unit * (big * 3), 'safeMode': 1, 'reset': True, 'callback': True}], 'stress': True})
            out.append({'steps': [{'src': 'x ' + unit * 240 + ' y', 'safeMode': 0, 'reset': True, 'callback': True}], 'stress': True})
        q = ['*', '_', '~~', '**', '__']
        s = 'x'
        for i in range(depth):
            d = q[i % len(q)]
            s = d + 'a ' + s + ' b' + d
        out.append({'steps': [{'src': s, 'reset': True, 'callback': True}], 'stress': True})
        out.append({'steps': [{'src': "/(a)|(b)/ = '$2'\na b", 'reset': True, 'callback': True}]})
        out.append({'steps': [{'src': "/(/ = 'x'\nabc", 'reset': True, 'callback': True}]})
        out.append({'steps': [{'src': "/x*/ = 'y'\nabc", 'reset': True, 'callback': True}]})
        out.append({'steps': [{'src': "= = 'a|b'\n=x= {m|", 'reset': True, 'callback': True}]})
        # fixed defects F24-F26 (known_findings.json): list inside a container attached after a blank line; a parameter
        # number longer than int() accepts; reserved characters in the htmlReplacement option
        out.append({'steps': [{'src': "- a\n\n.+container\n> - b\n", 'reset': True, 'callback': True}]})
        out.append({'steps': [{'src': "- a\n\n.+container\n  x\n\n  . b\n\n- c", 'reset': True, 'callback': True}]})
        out.append({'steps': [{'src': "{m} = '$" + '1' * 5000 + "'\n{m|a}", 'reset': True, 'callback': True}]})
        # F28 and its sibling in macros.render: every way in which CPython's pattern parser fails
        for rx_ in gen.HOSTILE_REGEX:
            out.append({'steps': [{'src': "/%s/ = 'x'\nabc" % rx_, 'reset': True, 'callback': True}]})
            out.append({'steps': [{'src': "{m} = 'x'\n{m=%s}text {m!%s}" % (rx_.replace('}', '\\}'), rx_.replace('}', '\\}')), 'reset': True,
                                   'callback': True}]})
        # a quote defined by one call and used after a reset (tables and the patterns built from them must go together)
        for q in ['%%', '==', '##', '$$', '^^', '~', '=', '!!']:
            for r2 in [True, None]:
                out.append({'steps': [{'src': "%s = '<u>|</u>'\n\nuse %sit%s" % (q, q, q), 'reset': True, 'callback': True},
                                      {'src': "100%ssure%s thing %s" % (q, q, q), 'reset': r2, 'callback': True},
                                      {'src': "again %sx%s" % (q, q), 'reset': True, 'safeMode': 1, 'callback': True}]})
        # an API option element may name anything: every global of the options module, then something to report
        for name in ['callback', 'safeMode', 'htmlReplacement', 'reset', 'init', 'panic', 'errorCallback', 'setOption', 'updateFrom',
                     'document', 'utils', 'Callback', 'RenderOptions', 'isSafeModeNz', 'htmlSafeModeFilter', '__name__', '__dict__']:
            for val in ['log', 'true', '0', '']:
                out.append({'steps': [{'src': ".%s = '%s'\n\n{undefined-macro} x\n\n.safeMode = '99'\n\n```\nunterminated" % (name, val),
                                       'reset': True, 'callback': True},
                                      {'src': '{undefined-too}', 'callback': True}]})
        for hr in ['\x00', 'a\x01b', '\x02']:
            out.append({'steps': [{'src': "{m} = '$$1'\n{m|<b>} <i>", 'safeMode': 10, 'htmlReplacement': hr, 'reset': True,
                                   'callback': True}]})
        return out

    def cases(self, ctx):
        rng = ctx.rng
        while True:
            steps = []
            for i in range(rng.choice([1, 1, 2, 3])):
                steps.append({'src': clean(gen.any_source(rng, ctx.repo)), 'safeMode': rng.choice(self.MODES),
                              'reset': rng.choice(self.RESETS), 'htmlReplacement': rng.choice(self.REPLS), 'callback': True})
            yield {'steps': steps}

    def lead(self, case, ctx, res):
        self.execute(case, ctx, res)

    def execute(self, case, ctx, res):
        steps = case['steps']
        outs_i, outs_m, ok = run_session(ctx, steps, res, case, compare=not case.get('stress') or ctx.tier == 'thorough')
        res.oracle_checks += len(outs_i)
        for i, a in enumerate(outs_i):
            if a[0] == 'exc' or (a[0] == 'fuel' and a[1] != 'budget'):
                res.violation('render() raised %s' % (a[1],), case, short(a))
                return
            if a[0] == 'fuel':
                res.count('impl_time_budget_exceeded')
                return
            if a[0] == 'ok' and not (a[1].startswith('<p>') and a[1].count('<') == 2):
                res.nontrivial((steps[i]['src'], steps[i].get('safeMode')))
            res.count('msgs' if a[0] == 'ok' and a[2] else 'no_msgs')
        # whether a callback is supplied makes no difference
        ctx.impl.reset_process()
        for i, st in enumerate(steps):
            kw = step_kwargs(st)
            kw['callback'] = False
            b = ctx.impl.render(st['src'], **kw)
            if i < len(outs_i) and (b[0] != outs_i[i][0] or (b[0] == 'ok' and b[1] != outs_i[i][1])):
                res.violation('output differs with and without a callback', case, [short(outs_i[i]), short(b)])
                return
            if b[0] != 'ok':
                return


# ---------------------------------------------------------------------------------------------
@register
class C03(Prop):
    id = 'C03'
    rule = ('sessions of 1-3 renders from default definitions, all in one of the 12 safe modes with a non-zero HTML policy; '
            'sources from the generators with hostile fragments (quote characters in URLs/alt/CSS, raw tags, macro '
            'definitions) spliced in; non-trivial = output contains at least one tag besides <p>')
    assumptions = ['htmlReplacement is trusted and matched as one token', 'the tag whitelist is the fixed set of tags Rimu markup generates']

    def corpus(self, ctx):
        out = []
        for src in ['[x](http://a"onmouseover="alert(1))', '<image:x"onerror="y|z>', '![a"b="c](u)', '<http://a"b=c>',
                    '."a"b="c"\npara', "{m} = '<script>x</script>'\n\n<div>{m}</div>", '.cls\n<div>\n\npara',
                    '<image:x"y>', '<image:x"y|z>\n', '."a onerror=alert(1) b"\n<image:http://h/p?style=|cap>',
                    '.k\n<image:http://h/p?class=|cap>', '.#i\n<image:http://h/p?id=|cap>', '<<#a>>', 'a <b>b</b> &amp; &bogus; &#1; <!-- c -->',
                    '.#id "a:b"\n- item\n\n.x\nt:: d', '# H\n## H', "{--header-ids} = 'x'\n# A b\n# A b",
                    # F46: what only looks like a character entity is text with an escaped '&'; one-letter names are entities
                    '&_x; &1a; &#zz; &#; &#x; &\u00e9; &t; &T1; &#38; &#x26; &#X26; &amp &copy;', '[&_x;](&1a;) *&#zz;* <image:u|&_y;>']:
            for mode in [1, 2, 3, 11, 15]:
                out.append({'steps': [{'src': src, 'safeMode': mode, 'callback': True}]})
        # F29: block options left pending by a trusted render (no definitions changed) meet an untrusted first block
        for pend in ['.-specials', '.-specials -spans', '.-spans', '.-macros -specials', '.+macros -specials -spans']:
            for src in ['``\n<script>x</script>\n``', 'a <script>x</script> b', '  <b>ind</b>', '> <i>q</i>', '..\n<u>d</u>\n..',
                        '- <b>item</b>', '# <b>h</b>']:
                for mode in [1, 2, 3, 9]:
                    out.append({'steps': [{'src': 'intro\n\n' + pend, 'safeMode': 0, 'callback': True, 'trusted': True},
                                          {'src': src, 'safeMode': mode, 'callback': True}]})
        return out

    PENDING = ['.-specials', '.-specials -spans', '.-spans', '.+macros', '.-macros', '.cls #i1 "color:red"', '.+skip', '.-container',
               '.+container', '.k -specials +macros -spans']

    def cases(self, ctx):
        rng = ctx.rng
        while True:
            mode = rng.choice(NONZERO_POLICY_MODES)
            steps = []
            if rng.random() < 0.15:
                # a trusted render at safe mode 0 that changes no definition but leaves Block Attributes pending
                steps.append({'src': gen.words(rng) + '\n\n' + rng.choice(self.PENDING), 'safeMode': 0, 'callback': True, 'trusted': True})
            if rng.random() < 0.12:
                # cooperating pieces: a macro whose value carries white space and an attribute name or a quote (defined by a
                # trusted render, or by the source itself where bit 8 allows it), pending Block Attributes, and an element
                # that expands the macro inside a quoted attribute value of the tag the attributes are merged into
                val = rng.choice(['h style=', 'h class=', 'h id=', 'x" onerror="y', "h style='", 'h  STYLE=', 'a b', 'p?q style='])
                pend = rng.choice(['."a onerror=alert(1) b"', '.k1 k2', '.#i7', '.k "c:d"', '."x:y" [title="t"]'])
                elem = rng.choice(['<image:{u}|cap>', '<image:{u}>', '<image:pic.png|{u}>', '# head {u}', '<<#{u}>>'])
                m2 = rng.choice([9, 10, 11, 1, 2, 3])
                defn = "{u} = '%s'" % val
                if m2 in (9, 10, 11) and rng.random() < 0.5:
                    steps.append({'src': '%s\n\n%s\n%s' % (defn, pend, elem), 'safeMode': m2, 'callback': True})
                else:
                    steps.append({'src': defn, 'safeMode': 0, 'callback': True, 'trusted': True})
                    steps.append({'src': '%s\n%s' % (pend, elem), 'safeMode': m2, 'callback': True})
                yield {'steps': steps}
                continue
            for i in range(rng.choice([1, 1, 1, 2, 3])):
                st = {'src': hostile_source(rng, ctx.repo), 'safeMode': mode if i == 0 or rng.random() < 0.5 else rng.choice(NONZERO_POLICY_MODES),
                      'callback': True}
                if i == 0:
                    st['htmlReplacement'] = rng.choice([None, None, '[R]', '', 'R D'])
                steps.append(st)
            yield {'steps': steps}

    def lead(self, case, ctx, res):
        # (the statement is about renders that start from default definitions in a mode with a non-zero HTML policy)
        st = case['steps']
        if st and st[0].get('reset') and all(isinstance(x.get('safeMode'), int) and x['safeMode'] & 3 for x in st):
            self.execute(case, ctx, res)

    def execute(self, case, ctx, res):
        outs_i, outs_m, ok = run_session(ctx, case['steps'], res, case)
        repl = None
        for st in case['steps']:
            if st.get('htmlReplacement') is not None:
                repl = st['htmlReplacement']
                break
        if repl is None:
            repl = DEFAULT_REPLACEMENT
        for i, a in enumerate(outs_i):
            if a[0] != 'ok':
                res.count('not_ok_' + a[0])
                continue
            if case['steps'][i].get('trusted'):
                res.count('trusted_first_step')
                continue
            res.oracle_checks += 1
            toks, err = htmlcheck.tokenize(a[1], repl or None, strict=True)
            if err:
                res.violation('safe mode output is not confined: ' + err, case, short(a[1], 800))
                return
            for ch in a[1]:
                if ord(ch) <= 2:
                    res.violation('reserved code point in output', case, short(a[1], 300))
                    return
            if any(t[0] == 'open' and t[1] != 'p' for t in toks):
                res.nontrivial((case['steps'][i]['src'], case['steps'][i]['safeMode']))
            res.count('mode_%s' % case['steps'][i].get('safeMode'))


# ---------------------------------------------------------------------------------------------
def trusted_preamble(rng):
    """Author-trusted source that customises definitions of every kind."""
    lines = []
    for _ in range(rng.randint(0, 4)):
        lines.append(gen.definition_line(rng))
    if rng.random() < 0.3:
        lines.append(gen.inline(rng, 1))
    if rng.random() < 0.3:
        lines.extend(rng.sample(gen.CARRIER_DEFS, rng.randint(1, 3)))
    return clean('\n'.join(lines))


@register
class C04(Prop):
    id = 'C04'
    rule = ('trusted preamble(s) at safe mode 0 customising definitions, then one untrusted source (hostile + definition '
            'elements of every kind) at a non-zero safe mode; module tables are snapshotted before and after; '
            'non-trivial = the untrusted source contains at least one definition or option element')
    assumptions = ['state of the implementation = the module globals listed in tools/harness/protocol.py Impl.state']

    def cases(self, ctx):
        rng = ctx.rng
        while True:
            if rng.random() < 0.08:
                # the same through rimupy: trusted inputs (prepended text and files, ~/.rimurc, layout header) at safe mode 0, then an
                # untrusted source with definition and option elements on standard input or in named files at --safe-mode N; the
                # tables after the run must be those of the run with blank untrusted inputs
                lines = [gen.definition_line(rng) for _ in range(rng.randint(1, 4))] + rng.sample(gen.CARRIER_USES, 1)
                argv = ['--safe-mode', str(rng.randint(1, 15))]
                argv += rng.choice([[], ['--layout', 'plain'], ['--prepend', trusted_preamble(rng) or "{t} = 'T'"],
                                    ['--prepend-file', 'pre.rmu'], ['--prepend', '{t} = \'T\'', '--prepend-file', 'pre.rmu']])
                files = {'pre.rmu': trusted_preamble(rng) or '*trusted*'} if 'pre.rmu' in argv else {}
                where = rng.choice(['stdin', 'stdin-dash', 'file', 'two-files'])
                yield {'cli': True, 'argv': argv, 'files': files, 'untrusted': clean('\n'.join(lines)), 'where': where,
                       'rimurc': rng.choice([None, None, "{rc} = 'RC'"])}
                continue
            pre = [{'src': trusted_preamble(rng), 'safeMode': 0, 'callback': True} for _ in range(rng.randint(0, 2))]
            lines = [gen.definition_line(rng) for _ in range(rng.randint(1, 5))]
            lines.insert(rng.randrange(len(lines) + 1), hostile_source(rng, ctx.repo))
            if pre and rng.random() < 0.4:
                # definitions and options smuggled through a macro the trusted author defined
                if not any('{note}' in p['src'] for p in pre):
                    pre[-1]['src'] = (pre[-1]['src'] + '\n' + '\n'.join(gen.CARRIER_DEFS)).lstrip('\n')
                for _ in range(rng.randint(1, 3)):
                    lines.insert(rng.randrange(len(lines) + 1), '\n' + rng.choice(gen.CARRIER_USES) + '\n')
            if rng.random() < 0.3:
                lines.append('..\n' + gen.definition_line(rng) + '\n..')
            if rng.random() < 0.3:
                lines.append('- item\n' + gen.definition_line(rng))
            for _ in range(rng.choice([0, 0, 1, 2])):
                # block options (alone and in pairs) on every kind of delimited block: they act on that one block and must
                # leave its definition as it was
                opt = ' '.join(rng.sample(['+container', '-container', '+skip', '-skip', '+macros', '-macros', '+spans', '-spans',
                                           '+specials', '-specials'], rng.choice([1, 1, 2])))
                blockk = rng.choice(['``\ncode *x*\n``', '..\ndiv *x*\n..', '""\nquote *x*\n""', 'para *x*', '  indented *x*',
                                     '> qp *x*', '/*\ncomment\n*/', '<div>html</div>', '--\ncode\n--',
                                     # the delimited block that is itself a definition, and line-level definitions
                                     "{mm} = 'A\nB'", "{m1} = 'first\n{m1} second\n'", "{mm?} = 'A\n\nB'", gen.definition_line(rng)])
                lines.insert(rng.randrange(len(lines) + 1), '\n.%s\n%s\n' % (opt, blockk))
            mode = rng.choice([m for m in range(1, 16)])
            yield {'preamble': pre, 'abandon': rng.random() < 0.1, 'untrusted': {'src': clean('\n'.join(lines)), 'safeMode': mode, 'callback': True},
                   'probe': {'src': clean(gen.document(rng, 1, 2)), 'safeMode': rng.choice([0, mode]), 'callback': True}}

    def lead(self, case, ctx, res):
        # trusted steps (safe mode 0) first, then the first untrusted one
        st = case['steps']
        k = next((n for n, x in enumerate(st) if isinstance(x.get('safeMode'), int) and x['safeMode'] != 0), None)
        if k is None:
            return
        pre = [dict(x, safeMode=0) for x in st[:k]] or [{'src': '', 'safeMode': 0, 'reset': True, 'callback': True}]
        pre[0]['reset'] = True
        self.execute({'preamble': pre, 'abandon': False, 'untrusted': dict(st[k], reset=None), 'probe': {'src': 'probe *x*', 'safeMode': 0, 'callback': True}},
                     ctx, res)

    def execute_cli(self, case, ctx, res):
        from .props_cli import CliImpl
        cli = CliImpl(ctx.impl)
        states = []
        for text in (case['untrusted'], ''):
            files = dict(case['files'])
            argv = list(case['argv'])
            stdin = ''
            if case['where'] == 'stdin':
                stdin = text
            elif case['where'] == 'stdin-dash':
                stdin = text
                argv.append('-')
            elif case['where'] == 'file':
                files['doc.rmu'] = text
                argv.append('doc.rmu')
            else:
                files['doc.rmu'] = text
                files['two.rmu'] = text
                argv += ['doc.rmu', 'two.rmu']
            r = cli.run(argv, files, stdin, case['rimurc'])
            if 'Traceback' in r['stderr']:
                res.count('cli_traceback')
                return
            states.append(ctx.impl.state())
        res.oracle_checks += 1
        res.count('cli')
        mode = int(case['argv'][1])
        names = {1: 'htmlReplacement', 3: 'quote definitions', 4: 'replacement definitions', 5: 'delimited block definitions'}
        if not (mode & 8):
            names[6] = 'macro definitions'
        for k, name in names.items():
            if states[0][k] != states[1][k]:
                res.violation('untrusted input of rimupy (--safe-mode %d, %s) changed the %s' % (mode, case['where'], name), case,
                              [short(states[1][k]), short(states[0][k])])
                return
        res.nontrivial(case['untrusted'])

    def execute(self, case, ctx, res):
        if case.get('cli'):
            return self.execute_cli(case, ctx, res)
        pre = case['preamble'] or [{'src': '', 'safeMode': 0, 'callback': True}]
        outs_i, outs_m, ok = run_session(ctx, pre, res, case)
        if not ok:
            res.count('preamble_not_ok')
            return
        before = ctx.impl.state()
        if case.get('abandon'):
            # the host gives up at the first diagnostic (its callback raises): whatever the untrusted render had done by then, the
            # tables are still the trusted ones (implementation only: the model has no counterpart of an abandoned call)
            u = case['untrusted']
            a = ctx.impl.render(u['src'] + '\n\n{no-such-macro} .-specials\n\n..\nunterminated', safeMode=u['safeMode'], abort=True)
            res.count('abandoned' if a[0] == 'aborted' else 'abandon_completed')
            after = ctx.impl.state()
            res.oracle_checks += 1
            names = {1: 'htmlReplacement', 3: 'quote definitions', 4: 'replacement definitions', 5: 'delimited block definitions'}
            if not (u['safeMode'] & 8):
                names[6] = 'macro definitions'
            for k, name in names.items():
                if before[k] != after[k]:
                    res.violation('an abandoned untrusted render (safe mode %d) changed the %s' % (u['safeMode'], name), case,
                                  [short(before[k]), short(after[k])])
                    return
            return
        o2, m2, ok = run_session(ctx, [case['untrusted']], res, case, fresh=False)
        if not ok:
            res.count('untrusted_not_ok')
            return
        after = ctx.impl.state()
        compare_states(ctx, res, case, 'state after untrusted render')
        res.oracle_checks += 1
        mode = case['untrusted']['safeMode']
        names = {1: 'htmlReplacement', 3: 'quote definitions', 4: 'replacement definitions', 5: 'delimited block definitions'}
        for k, name in names.items():
            if before[k] != after[k]:
                res.violation('untrusted source (safe mode %d) changed the %s' % (mode, name), case, [short(before[k]), short(after[k])])
                return
        if after[0] != str(mode):
            res.violation('untrusted source changed the safe mode', case, [mode, after[0]])
            return
        if mode & 8 == 0 and before[6] != after[6]:
            res.violation('untrusted source (safe mode %d, bit 8 clear) changed macro definitions' % mode, case,
                          [short(before[6]), short(after[6])])
            return
        if re.search(r"^(\\?[{|/.]|\S{1,2}\s*=)", case['untrusted']['src'], re.M):
            res.nontrivial(case['untrusted'])
        run_session(ctx, [case['probe']], res, case, fresh=False)


# ---------------------------------------------------------------------------------------------
FRESH_SNIPPET = r'''
import json, sys
import rimu
case = json.loads(sys.stdin.read())
msgs = []
kw = dict(case)
src = kw.pop('src')
if kw.pop('callback', False):
    kw['callback'] = lambda m: msgs.append(m.text)
try:
    html = rimu.render(src, rimu.RenderOptions(**kw))
    print(json.dumps(['ok', html, msgs]))
except BaseException as e:
    print(json.dumps(['exc', type(e).__name__]))
'''


def fresh_interpreter_render(ctx, step):
    env = dict(os.environ)
    env['PYTHONPATH'] = os.path.join(ctx.repo, 'src')
    p = subprocess.run([sys.executable, '-c', FRESH_SNIPPET], input=json.dumps(step), stdout=subprocess.PIPE,
                       stderr=subprocess.DEVNULL, text=True, env=env, timeout=60)
    line = [l for l in p.stdout.splitlines() if l.startswith('[')]
    r = json.loads(line[-1])
    if r[0] == 'ok':
        return ('ok', r[1], tuple(r[2]))
    return ('exc', r[1])


@register
class C05(Prop):
    id = 'C05'
    rule = ('history of 0-4 render calls (definitions of every kind, ids, pending Block Attributes, unterminated blocks, '
            'any options) followed by one render with reset=True/"true"; compared with the same call on import-time '
            'state and, for a sample, in a fresh interpreter; non-trivial = history changed at least one module table')
    assumptions = ['import-time state is reproduced in-process by Impl.reset_process for most cases; a sample uses a real fresh interpreter']
    quick_cases = 400

    def history_step(self, rng, ctx):
        k = rng.random()
        if k < 0.4:
            src = trusted_preamble(rng) + '\n\n' + gen.document(rng, 1, 2)
        elif k < 0.6:
            src = gen.attributes_line(rng) + rng.choice(['', '\n.#dup', '\n'])     # left pending
        elif k < 0.75:
            src = gen.document(rng, 1, 2) + rng.choice(['\n..\nunterminated', '\n```\ncode', "\n{m} = 'multi\nline", '\n- item\n  ..'])
        else:
            src = gen.any_source(rng, ctx.repo)
        st = {'src': clean(src), 'safeMode': rng.choice([None, 0, 0, 0, 1, 5, 15, 'x']), 'reset': rng.choice([None, None, False, True]),
              'htmlReplacement': rng.choice([None, None, 'HR']), 'callback': rng.random() < 0.5}
        if rng.random() < 0.12:
            # a caller that abandons the call at the first diagnostic (its callback raises): the render stops in the middle of a
            # list, a container, a span ... and leaves whatever scratch state it had
            st['src'] = clean(rng.choice(['- first\n  . {undefined-macro} second', '. a\n.. b {undef}\n... c', '..\n""\n- x {nope}\n""\n..',
                                          't:: d\n\n  ``\n  c\n\n.#dup\n.#dup\npara\n\n.#dup\nagain', '*a [b](u {undef}) c*',
                                          '.cls +skipx\n- item', gen.list_block(rng) + ' {undef}\n- more']))
            st['abort'] = True
            st['safeMode'] = rng.choice([None, 0, 1, 9])
        return st

    def cases(self, ctx):
        rng = ctx.rng
        n = 0
        while True:
            n += 1
            hist = [self.history_step(rng, ctx) for _ in range(rng.randint(0, 4))]
            final = {'src': clean(gen.any_source(rng, ctx.repo)),
                     # (an illegal value is reported and leaves the mode the reset established)
                     'safeMode': rng.choice([None, 0, 1, 3, 9, 15, 99, -1, 'junk', 2.5, True, '']),
                     'reset': rng.choice([True, True, 'true']), 'htmlReplacement': rng.choice([None, None, 'X']),
                     # without a callback of its own the call reports to nobody (not to a callback of the history either)
                     'callback': rng.random() < 0.7}
            yield {'history': hist, 'final': final, 'fresh_interpreter': n % (20 if ctx.tier == 'quick' else 40) == 0}

    def lead(self, case, ctx, res):
        st = case['steps']
        self.execute({'history': [dict(x) for x in st], 'final': dict(st[-1], reset=True), 'fresh_interpreter': False}, ctx, res)
        if not res.violations:
            self.execute({'history': [dict(x) for x in st], 'final': {'src': 'probe *x* {m} <b>\n\n- i\n\n# h', 'safeMode': st[-1].get('safeMode'), 'reset': True,
                                                                       'callback': True}, 'fresh_interpreter': False}, ctx, res)

    def execute(self, case, ctx, res):
        hist, final = case['history'], case['final']
        # history on both sides (outcomes of the history itself are not compared here)
        ctx.impl.reset_process()
        model = ctx.model
        if model:
            model.reset_process()
        import_state = ctx.impl.state()
        for st in hist:
            if st.get('abort'):
                a = ctx.impl.render(st['src'], abort=True, **{k: v for k, v in step_kwargs(st).items() if k != 'callback'})
                res.count('aborted_history_step' if a[0] == 'aborted' else 'abort_step_completed')
                if a[0] == 'aborted':
                    model = None    # the model has no counterpart of an abandoned call
                    continue
            a = ctx.impl.render(st['src'], **step_kwargs(st))
            if model:
                b = model.render(st['src'], **step_kwargs(st))
                if b[0] == 'unsupported' or b[0] != a[0]:
                    model = None    # sessions diverged for a reason outside this property's surface
        if ctx.impl.state()[3:13] != import_state[3:13] and hist:
            res.nontrivial((hist, final))
        kw = step_kwargs(final)
        a = ctx.impl.render(final['src'], **kw)
        state_a = ctx.impl.state()
        ma = model.render(final['src'], **kw) if model else None
        ctx.impl.reset_process()
        b = ctx.impl.render(final['src'], **kw)
        state_b = ctx.impl.state()
        res.oracle_checks += 1
        if a != b:
            res.violation('a reset render depends on the preceding history', case, [short(a), short(b)])
            return
        if state_a[:13] != state_b[:13]:
            res.violation('session state after a reset render depends on the preceding history', case,
                          [(k, short(x, 150), short(y, 150)) for k, (x, y) in enumerate(zip(state_a, state_b)) if x != y])
            return
        if model and ma is not None and ma[0] != 'unsupported':
            res.compared += 1
            if not same_outcome(a, ma, True) and not (a[0] == 'fuel' and ma[0] == 'fuel'):
                res.disagreement(case, short(a), short(ma), 'reset render after history')
        if case.get('fresh_interpreter') and a[0] == 'ok':
            c = fresh_interpreter_render(ctx, final)
            res.count('fresh_interpreter_runs')
            if c != a:
                res.violation('a reset render differs from the same call in a fresh interpreter', case, [short(a), short(c)])


# ---------------------------------------------------------------------------------------------
@register
class C06(Prop):
    id = 'C06'
    rule = ('(a) any generated / malformed / corpus-mutated source in a safe mode with non-zero HTML policy, (b) the same '
            "sources with every '<' removed at safe mode 0; default definitions; the output is tokenised and a tag stack "
            'checked; non-trivial = output has nesting depth >= 2')
    assumptions = ['replacement text is tag-free or the balanced default']

    def corpus(self, ctx):
        out = []
        for src in ['*a _b* c_', '**a *b** c*', '- a\n  ..\n  x', '- a\n\n  ..\n  x\n- b', '""\n..\n- x\n""', '*a\n\nb*',
                    't:: *d\n- x*', '..\n""\nunterminated', '[*a](u)*', '*[a*](u)', '_a `b_ c`', '- a\n** b\n*** c\n- d',
                    '. a\n\n  ind\n. b', '# *a', '> *q\n> r*', '.cls\n..\n..\n\np']:
            for mode in [1, 3, 0]:
                out.append({'steps': [{'src': src.replace('<', '') if mode == 0 else src, 'safeMode': mode, 'reset': True, 'callback': True}]})
        return out

    def cases(self, ctx):
        rng = ctx.rng
        while True:
            src = clean(gen.any_source(rng, ctx.repo))
            k = rng.random()
            if k < 0.05:
                # span-rendered macro parameters at safe mode 0 (open finding F23 lives here)
                uses = ['x {q|*a* _b_} y', '{q|`c` **d**}', '- {q|[t](http://u.v/)} *e*', 'w {q2|_a_|*b*} z', '*{q|a b}*']
                lines = strip_lt(src).split('\n\n')
                for _ in range(rng.randint(1, 2)):
                    lines.insert(rng.randrange(len(lines) + 1), rng.choice(uses))
                yield {'steps': [{'src': "{q} = '$$1'\n{q2} = '$$2 and $1'\n\n" + '\n\n'.join(lines), 'safeMode': 0, 'reset': True,
                                  'callback': True}]}
            elif k < 0.15:
                # block options that a safe mode accepts, pending (across line blocks, list items, a call boundary) for a
                # container or text block whose content holds unpaired HTML: whatever processing the options select, the policy
                # must still see the HTML
                opt = ' '.join(rng.sample(['-container', '+container', '-macros', '+macros', '-spans', '+spans', '+specials', '-skip'],
                                          rng.randint(1, 2)))
                block = rng.choice(['..\n<b>bold and <i>unclosed\n..', '""\n</div><u>x\n""', '``\n<b>\n``', 'para <b>x *e', '> q <i> _y',
                                    '  ind <b>', '- item <b>\n\n  ..\n  <i>in\n  ..', '>>\n<b>q\n>>', '..\n- <b>li\n..'])
                between = rng.choice(['', '', '# Head\n\n', '- it\n\n\n', '// c\n'])
                mode = rng.choice([1, 2, 3, 9, 10, 11])
                if rng.random() < 0.3:
                    yield {'steps': [{'src': 'intro\n\n.' + opt, 'safeMode': mode, 'reset': True, 'callback': True},
                                     {'src': between + block + '\n\nafter', 'callback': True}]}
                else:
                    yield {'steps': [{'src': 'intro\n\n.%s\n%s%s\n\nafter' % (opt, between, block), 'safeMode': mode, 'reset': True,
                                      'callback': True}]}
            elif k < 0.2:
                # tag-free redefinitions of the built-in quotes (one side, both or neither left blank; spans on or off), then the
                # quotes in use, nested and overlapping: at safe mode 0, without a '<' anywhere
                qs = rng.sample(['*', '**', '_', '__', '`', '``', '~~', '='], rng.randint(1, 3))
                defs = ["%s = '%s%s%s'" % (q, rng.choice(['', '', '[', '(( ']), rng.choice(['|', '||']), rng.choice(['', '', ']', ' ))'])) for q in qs]
                uses = ['a %sb%s c' % (q, q) for q in qs] + ['x *y _z_ w* ~~v~~ `u`', '**a *b** c*', '- %sitem%s\n- __two__' % (qs[0], qs[0]),
                                                             '""\n%sq%s *r*\n""' % (qs[-1], qs[-1])]
                two = rng.random() < 0.3
                doc = '\n\n'.join(rng.sample(uses, rng.randint(2, len(uses))))
                if two:
                    yield {'steps': [{'src': '\n'.join(defs), 'safeMode': 0, 'reset': True, 'callback': True},
                                     {'src': doc, 'safeMode': rng.choice([0, 0, 1, 3]), 'callback': True}]}
                else:
                    yield {'steps': [{'src': '\n'.join(defs) + '\n\n' + doc, 'safeMode': 0, 'reset': True, 'callback': True}]}
            elif k < 0.35:
                yield {'steps': [{'src': strip_lt(src), 'safeMode': 0, 'reset': True, 'callback': True}]}
            elif k < 0.5:
                # macro definitions allowed and HTML filtered: values holding unpaired tags, invoked wherever macros expand
                defs = ["{open} = '<b>bold'", "{close} = 'text</i>'", "{pair} = '<u>x</u>'", "{blk} = '<div>'", "{par} = '<b>$1'"]
                uses = ['<div>{open}</div>', '<div>\n{close}\n</div>', 'x {open} y {close}', '- item {open}\n<div>{open}</div>\n\n- two',
                        '""\n<section>{open} and {close}</section>\n""', '{blk}', '{blk}\ninner\n</div>', '# {open}', 't:: {close}\n<p>{par|q}</p>',
                        '<!-- {open} -->', '..\n<div>{pair}{open}</div>\n..', '.cls\n<div>{open}</div>', '*{open}*', '<span>{par|*a*}']
                lines = src.split('\n\n')
                for _ in range(rng.randint(1, 3)):
                    lines.insert(rng.randrange(len(lines) + 1), rng.choice(uses))
                yield {'steps': [{'src': '\n'.join(rng.sample(defs, rng.randint(2, 5))) + '\n\n' + '\n\n'.join(lines),
                                  'safeMode': rng.choice([9, 10, 11, 13, 14, 15]), 'reset': True, 'callback': True,
                                  'htmlReplacement': rng.choice([None, '[R]'])}]}
            else:
                yield {'steps': [{'src': src, 'safeMode': rng.choice(NONZERO_POLICY_MODES), 'reset': True, 'callback': True,
                                  'htmlReplacement': rng.choice([None, '[R]'])}]}

    def lead(self, case, ctx, res):
        st = case['steps']
        if len(st) != 1 or not st[0].get('reset'):
            return
        m = st[0].get('safeMode') or 0
        if (m & 3) or (m == 0 and '<' not in st[0]['src'] and '$$' not in st[0]['src']):
            self.execute(case, ctx, res)

    def execute(self, case, ctx, res):
        outs_i, outs_m, ok = run_session(ctx, case['steps'], res, case)
        st = case['steps'][0]
        for a in outs_i:
            if a[0] != 'ok':
                res.count('not_ok_' + a[0])
                return
            res.oracle_checks += 1
            repl = st.get('htmlReplacement') or DEFAULT_REPLACEMENT
            strict = st['safeMode'] != 0
            toks, err = htmlcheck.tokenize(a[1], repl if strict else None, strict=False)
            if err:
                res.violation('output does not tokenise: ' + err, case, short(a[1], 600))
                return
            err = htmlcheck.balanced(toks)
            if err:
                res.violation('unbalanced markup: ' + err, case, short(a[1], 800))
                return
            depth = mx = 0
            for t in toks:
                if t[0] == 'open' and t[1] not in htmlcheck.VOID:
                    depth += 1
                    mx = max(mx, depth)
                elif t[0] == 'close':
                    depth -= 1
            if mx >= 2:
                res.nontrivial((st['src'], st['safeMode']))
        res.count('mode0' if st['safeMode'] == 0 else 'safe')


def strip_lt(src):
    return src.replace('<', '')


# ---------------------------------------------------------------------------------------------
def encode_terminators(rng, lines):
    """Join lines with LF / CRLF / CR terminators such that the split is unambiguous."""
    style = rng.choice(['crlf', 'cr', 'mixed'])
    out = []
    for i, l in enumerate(lines[:-1]):
        if style == 'crlf':
            t = '\r\n'
        elif style == 'cr':
            t = '\r'
        else:
            t = rng.choice(['\n', '\r\n', '\r'])
        out.append(l + t)
    out.append(lines[-1])
    s = ''.join(out)
    if re.split(r'\r\n|\r|\n', s) != lines:
        return None
    return s


@register
class C16(Prop):
    id = 'C16'
    rule = ('(i) a source and its re-encodings with CR LF / CR / mixed terminators (kept only when the encoding is '
            'unambiguous), (ii) a source with U+0000-2 spliced in at random positions and its twin with blanks; every '
            'render from reset; non-trivial = multi-line source whose output has markup')

    def cases(self, ctx):
        rng = ctx.rng
        while True:
            src = clean(gen.any_source(rng, ctx.repo)).replace('\r', '')
            mode = rng.choice([0, 0, 1, 2, 3, 6, 9, 15])
            if rng.random() < 0.12:
                # no reserved character in the source, but backslash-digit sequences (\0 \1 \2, \x00, \u0001 ...) wherever text
                # flows through string substitution: Block Attributes merged into existing attributes, templates, macro values
                e = lambda: rng.choice(['\\0', '\\1', '\\2', '\\01', '\\02', '\\00', '\\x00', '\\u0001', '\\g<0>', '\\0/', '$0', '\\\\1'])  # noqa: E731
                pieces = [
                    '."color:blue%s; b:%s"\n<div style="a:b">x</div>' % (e(), e()),
                    '.c1 "w:%s"\n<p class="k" style="z:y;">x</p>' % e(),
                    "|paragraph| = '<p style=\"x:y\" class=\"q\">|</p>'\n\n.k \"a:%s\"\npara text" % e(),
                    '.#i%s [title="%s"]\npara' % (rng.randint(1, 99), e()),
                    "{m} = 'v %s $1 %s'\n\nuse {m|%s} here" % (e(), e(), e()),
                    "/zz/ = 'r%s'\n\nzz top" % e(),
                    "~ = '<u title=\"%s\">|</u>'\n\n~q~ text" % e(),
                    '[cap %s](http://u.v/%s)' % (e(), e()),
                    '# head %s' % e(),
                ]
                s2 = '\n\n'.join(rng.sample(pieces, rng.randint(1, 3)))
                yield {'kind': 'escapes', 'a': s2, 'b': s2, 'safeMode': rng.choice([0, 0, 3, 9, 11])}
                continue
            if rng.random() < 0.1:
                # "each replaced element is restored exactly once and in order", also when the element renders to nothing under the
                # mode (a dropped tag, a skipped anchor, an empty replacement) and stands where its verbatim text is wanted
                el = rng.choice(['<b>', '</i>', '<!-- c -->', '<<#a1>>', '<br>', 'TODO'])
                q = rng.choice(['`', '``'])
                words = ['alpha', 'beta', 'Zed']
                w1, w2, w3 = (rng.choice(words) for _ in range(3))
                head = "/\\bTODO\\b/ = ''\n\n" if el == 'TODO' else ''
                md = rng.choice([0, 1, 2, 4, 5, 9, 13, 15]) if el != 'TODO' else 0
                esc = lambda t: t.replace('&', '&amp;').replace('>', '&gt;').replace('<', '&lt;')      # noqa: E731
                src2 = head + '%s %s%s %s %s%s %s' % (w1, q, el, w2, el, q, w3)
                yield {'kind': 'restored-once', 'a': src2, 'b': src2, 'safeMode': md,
                       'expect': '<p>%s <code>%s %s %s</code> %s</p>' % (w1, esc(el), w2, esc(el), w3)}
                continue
            if rng.random() < 0.5:
                enc = encode_terminators(rng, src.split('\n'))
                if enc is None:
                    continue
                yield {'kind': 'terminators', 'a': src, 'b': enc, 'safeMode': mode}
            else:
                s = list(src)
                for _ in range(rng.randint(1, 4)):
                    s.insert(rng.randrange(len(s) + 1), rng.choice(gen.RESERVED))
                b = ''.join(s)
                yield {'kind': 'reserved', 'a': ''.join(' ' if ord(c) <= 2 else c for c in b), 'b': b, 'safeMode': mode}

    def lead(self, case, ctx, res):
        st = case['steps']
        if len(st) != 1 or '\r' in st[0]['src'] or '\n' not in st[0]['src']:
            return
        for nl in ('\r\n', '\r'):
            self.execute({'a': st[0]['src'], 'b': st[0]['src'].replace('\n', nl), 'safeMode': st[0].get('safeMode') or 0, 'kind': 'terminators'}, ctx, res)

    def execute(self, case, ctx, res):
        kw = {'safeMode': case['safeMode'], 'reset': True, 'callback': True}
        sa = [dict(kw, src=case['a'])]
        sb = [dict(kw, src=case['b'])]
        oa, _, ok1 = run_session(ctx, sa, res, case)
        ob, _, ok2 = run_session(ctx, sb, res, case)
        if oa[0][0] != 'ok' or ob[0][0] != 'ok':
            res.count('not_ok')
            return
        res.oracle_checks += 1
        if oa[0][1] != ob[0][1]:
            res.violation('%s change the rendering' % ('line terminators' if case['kind'] == 'terminators' else 'reserved control characters'),
                          case, [short(oa[0][1]), short(ob[0][1])])
            return
        if any(ord(c) <= 2 for c in ob[0][1]):
            res.violation('reserved code point in the output', case, short(ob[0][1]))
            return
        if case.get('expect') is not None and ob[0][1] != case['expect']:
            res.violation('a replaced element inside a code quote was not restored exactly once, in order', case,
                          {'got': ob[0][1], 'expected': case['expect']})
            return
        if '\n' in case['a'] and ob[0][1].count('<') > 2:
            res.nontrivial(case['b'])
        res.count(case['kind'])


# ---------------------------------------------------------------------------------------------
def py_int(s):
    try:
        return int(s)
    except (ValueError, TypeError):
        return None


@register
class C20(Prop):
    id = 'C20'
    rule = ('sequences of 1-4 render calls with any subset of safeMode / htmlReplacement / reset values (legal, out of range, '
            'non-numeric, float, boolean, junk) and documents of option elements; safe mode and replacement text observed '
            'after every step and compared with a reference state machine written from the property statement; thorough: '
            'all 1- and 2-step sequences over the reduced alphabet are enumerated; non-trivial = distinct sequence with an '
            'illegal value or an in-document option element')
    SAFE = [None, 0, 1, 5, 15, 16, -1, 'junk', '7', ' 3 ', 2.0, True, False, '', '0x5', '１２', '<int 10**5000>']
    REPL = [None, None, 'R1', '']
    RESET = [None, None, True, False, 'true', 'false', 'junk', 1, 0, 1.0, 2]
    DOCS = ['', "para", ".safeMode = '3'", ".safeMode = 'x'\n.safeMode = '0'", ".htmlReplacement = 'DOC'",
            ".safeMode = '1'\n.htmlReplacement = 'late'", ".reset = 'true'", ".safeMode = '16'", "\\.safeMode = '2'",
            ".htmlReplacement = 'A'\n.safeMode = '4'\n.safeMode = '0'", ".reset = 'junk'", ".bogus = '1'",
            # F43: an in-document reset restores the defaults and leaves the callback of the call in progress where it is
            ".reset = 'true'\n.safeMode = '16'", ".safeMode = 'x'\n.reset = 'true'\n\n.safeMode = '-1'",
            # option elements that come out of a macro the session already has: they are option elements like any other
            "{note} = '$1'", "{note} = '$1'\n{note|.safeMode='2'}", "{note|.safeMode='0'}", "{note|.htmlReplacement='SM'}",
            "{note|.safeMode='5'}\n{note|.safeMode='0'}", "{note|.reset='true'}", "x {note|.safeMode='0'}"]
    quick_cases = 1500

    def cases(self, ctx):
        rng = ctx.rng
        if ctx.tier == 'thorough':
            safe = [None, 0, 5, 16, 'junk', 2.0, True]
            for a in safe:
                for r in [None, True, 'false', 'junk']:
                    for d in self.DOCS:
                        yield {'steps': [{'src': d, 'safeMode': a, 'reset': r, 'callback': True}]}
                        for a2 in safe:
                            for d2 in self.DOCS[:6]:
                                yield {'steps': [{'src': d, 'safeMode': a, 'reset': r, 'callback': True},
                                                 {'src': d2, 'safeMode': a2, 'callback': True}]}
        while True:
            steps = []
            for _ in range(rng.randint(1, 4)):
                # F38: the callback is an option like the others - not given, it keeps its session value (reset clears it)
                steps.append({'src': rng.choice(self.DOCS), 'safeMode': rng.choice(self.SAFE), 'htmlReplacement': rng.choice(self.REPL),
                              'reset': rng.choice(self.RESET), 'callback': rng.random() < 0.7})
            yield {'steps': steps}

    thorough_cases = 60000

    def execute(self, case, ctx, res):
        impl = ctx.impl
        model = ctx.model
        impl.reset_process()
        if model:
            model.reset_process()
        mode, repl = 0, DEFAULT_REPLACEMENT     # reference state machine (after the implicit first-call initialisation)
        carrier = False                         # the session has the macro {note} = '$1'
        installed = False                       # a callback is installed
        interesting = False
        for i, st in enumerate(case['steps']):
            kw = step_kwargs(st)
            a = impl.render(st['src'], **kw)
            if model:
                b = model.render(st['src'], **kw)
                res.compared += 1
                if not same_outcome(a, b, True):
                    res.disagreement(case, short(a), short(b), 'step %d' % i)
                    return
            if a[0] != 'ok':
                res.violation('render raised', case, short(a))
                return
            msgs = [m[len('STALE-CALLBACK: '):] if m.startswith('STALE-CALLBACK: ') else m for m in a[2]]
            expect_msgs = []
            r = st.get('reset')
            if st.get('callback'):
                installed = True
            elif r == True or r == 'true':                # noqa: E712
                installed = False                         # reset to the defaults, and the call gives none
            if r is None or r == False or r == 'false':   # noqa: E712
                pass
            elif r == True or r == 'true':                # noqa: E712
                mode, repl = 0, DEFAULT_REPLACEMENT
            else:
                interesting = True    # (the property promises no diagnostic for a junk reset value)
            v = st.get('safeMode')
            if v is not None:
                n = py_int(str(v))
                if n is None or n < 0 or n > 15:
                    expect_msgs.append('illegal safeMode')
                    interesting = True
                else:
                    mode = n
            if st.get('htmlReplacement') is not None:
                repl = str(st['htmlReplacement'])
            if r == True or r == 'true':                  # noqa: E712
                carrier = False
            for line in st['src'].split('\n'):
                if line == "{note} = '$1'":
                    # a macro definition counts at safe mode 0 and with bit 8
                    if mode == 0 or mode & 8:
                        carrier = True
                    continue
                mc = re.match(r"^\{note\|(.*)\}$", line)
                if mc and carrier:
                    line = mc.group(1)       # the line macro expands to its argument, which is then read as a line
                m = re.match(r"^\.(\w+)\s*=\s*'(.*)'$", line)
                if not m:
                    continue
                interesting = True
                if mode != 0:
                    continue
                name, value = m.group(1), m.group(2)
                if name == 'safeMode':
                    n = py_int(value)
                    if n is None or n < 0 or n > 15:
                        expect_msgs.append('illegal safeMode')
                    else:
                        mode = n
                elif name == 'htmlReplacement':
                    repl = value
                elif name == 'reset':
                    if value == 'true':
                        mode, repl = 0, DEFAULT_REPLACEMENT
                        carrier = False
            res.oracle_checks += 1
            got_mode, got_repl = impl.m['options'].safeMode, impl.m['options'].htmlReplacement
            if not (isinstance(got_mode, int) and not isinstance(got_mode, bool) and 0 <= got_mode <= 15):
                res.violation('safe mode is not an integer in 0..15', case, repr(got_mode))
                return
            if got_mode != mode or got_repl != repl:
                res.violation('option state after step %d is (%r, %r), the property requires (%r, %r)' % (i, got_mode, got_repl, mode, repl),
                              case, None)
                return
            if not installed:
                expect_msgs = []
            got = [m for m in msgs if m.startswith('illegal safeMode')]
            if len(got) != len(expect_msgs) or any(not g.startswith(e) for g, e in zip(got, expect_msgs)):
                res.violation('option diagnostics at step %d are %r, expected kinds %r' % (i, got, expect_msgs), case, None)
                return
            if model:
                ms = model.state()
                if ms[0] != str(got_mode) or ms[1] != got_repl:
                    res.disagreement(case, [got_mode, got_repl], ms[:2], 'option state after step %d' % i)
                    return
        if interesting:
            res.nontrivial(case['steps'])
