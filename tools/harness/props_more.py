"""Remaining property classes: C02, C11, C12, C13, C14, C15, C17, C19."""
import os
import re
import time

from . import gen, htmlcheck
from .props import Prop, Result, compare_states, register, run_session, same_outcome, short, step_kwargs
from .props_impl import DEFAULT_REPLACEMENT, NONZERO_POLICY_MODES, clean, hostile_source
from .props_grammar import PLAIN, Blocks, esc, esc_attr, nonl, plain

SENTINEL = 'ZQ7SENTINEL7QZ'


# ---------------------------------------------------------------------------------------------
@register
class C13(Prop):
    id = 'C13'
    rule = ('any generated / hostile / corpus-mutated source rendered from reset at safe modes h|1, h|2, h|3 for h in {0,4,8,12} '
            'with a fresh sentinel as replacement text; the drop output must be the replace output without the sentinels and the '
            'escape output the replace output with an escaped element at each sentinel (all three modulo newlines); non-trivial = '
            'source with at least one HTML element')

    def cases(self, ctx):
        rng = ctx.rng
        while True:
            if rng.random() < 0.1:
                # HTML blocks under block options that change how their text is expanded: the policy still treats the block as one
                # element (dropped whole, one sentinel, escaped whole)
                opt = rng.choice(['.+specials', '.+spans', '.+specials +spans', '.-macros +specials', '.k1 +spans', '.+macros'])
                blk = rng.choice(['<div>x *y* &z</div>', '<div>\n<p>a <b>b</b></p>\n</div>', '<!-- c *d* -->', '<hr>', '<p class="c">t & u</p>\n'])
                src = '%s\n\n%s\n%s\n\n%s <i>%s</i>' % (plain(rng), opt, blk, plain(rng), plain(rng, 1, 1))
                # one sentinel for the block, one each for the two inline tags
                yield {'src': src, 'high': rng.choice([0, 8, 0, 8, 4]), 'sentinels': 3}
                continue
            src = hostile_source(rng, ctx.repo) if rng.random() < 0.6 else clean(gen.any_source(rng, ctx.repo))
            if SENTINEL in src:
                continue
            yield {'src': src, 'high': rng.choice([0, 4, 8, 12])}

    def lead(self, case, ctx, res):
        st = case['steps']
        if len(st) == 1 and st[0].get('reset'):
            self.execute({'src': st[0]['src'], 'high': (st[0].get('safeMode') or 0) & 12, 'sentinels': None}, ctx, res)

    def execute(self, case, ctx, res):
        outs = {}
        for pol in (1, 2, 3):
            st = {'src': case['src'], 'safeMode': case['high'] | pol, 'htmlReplacement': SENTINEL, 'reset': True, 'callback': True}
            o, _, ok = run_session(ctx, [st], res, case)
            if o[0][0] != 'ok':
                res.count('not_ok')
                return
            outs[pol] = o[0][1]
        res.oracle_checks += 1
        segs = nonl(outs[2]).split(SENTINEL)
        if case.get('sentinels') is not None and len(segs) - 1 != case['sentinels']:
            res.violation('the replace policy put %d replacement texts where the source has %d HTML elements' % (len(segs) - 1, case['sentinels']),
                          case, {'replace': outs[2]})
            return
        if nonl(outs[1]) != ''.join(segs):
            res.violation('drop and replace policies differ beyond the HTML elements', case, {'drop': outs[1], 'replace': outs[2]})
            return
        # each hole of the escape output is the escaped text of an element: starts with &lt; and has no raw < or >
        # (an inclusion / exclusion macro can delete every line of an HTML block: its text, and so its escaped text, is empty)
        # ... and every & of it starts one of the three escapes
        # (it need not start with &lt;: a +specials option on an HTML block escapes its text before the policy does)
        esc_text = '(?:[^<>&]|&amp;|&lt;|&gt;)+?'
        hole = '(?:%s)?' % esc_text if re.search(r'\{[\w-]+[!=]', case['src']) else '(?:%s)' % esc_text
        pat = hole.join(re.escape(s) for s in segs)
        if not re.fullmatch(pat, nonl(outs[3]), re.S):
            res.violation('escape and replace policies differ beyond the HTML elements', case, {'escape': outs[3], 'replace': outs[2]})
            return
        if len(segs) > 1:
            res.nontrivial(case)
        res.count('elements_%d' % min(len(segs) - 1, 5))


# ---------------------------------------------------------------------------------------------
def complete_document(rng, mode, depth=1, allow_defs=True):
    """A document of complete blocks (every delimiter closed) that does not end inside a list."""
    g = Blocks(rng, mode)
    parts = []
    for _ in range(rng.randint(1, 4)):
        k = rng.random()
        if k < 0.55:
            b = g.block(depth, frozenset())
            parts.append(b['src'] + ('\n\n\n' + plain(rng) if b['kind'] == 'list' else ''))
        elif k < 0.65:
            # two blank lines end the list (one would let a following '>' or indented line attach to the last item)
            parts.append('- ' + plain(rng) + '\n- ' + plain(rng) + '\n\n\n' + plain(rng))
        elif k < 0.75 and allow_defs:
            parts.append(rng.choice(["{m1} = '%s'" % plain(rng), "{m2} = 'two\nlines'", "{m1?} = 'kept'"]))
        elif k < 0.85:
            parts.append('.' + rng.choice(['cls', 'a b', '#id%d' % rng.randint(1, 3), '"color:red"', '+skip', 'c2 #dup']))
        elif k < 0.92:
            parts.append('{m1} ' + plain(rng))
        else:
            parts.append('# ' + plain(rng))
    return '\n\n'.join(parts)


@register
class C14(Prop):
    id = 'C14'
    rule = ('pairs and triples of documents made of complete blocks (every delimiter and definition closed, not ending inside a '
            'list), with definitions, pending Block Attributes and ids carried across; rendered in successive calls (options on the '
            'first call only) and as one document joined by blank lines; non-trivial = a later part uses a definition, id or '
            'pending attribute of an earlier one')

    def corpus(self, ctx):
        # thousands of line-macro expansions per part (each part below any plausible per-call budget, the whole above it)
        n = 1900
        a = "{big} = '# Title $1\n\npara $1\none\ntwo'\n\n" + '\n\n'.join('{big|%d}' % i for i in range(n))
        b = '\n\n'.join('{big|%d}' % i for i in range(n, 2 * n))
        return [{'parts': [a, b], 'safeMode': 0, 'htmlReplacement': None}]

    def cases(self, ctx):
        rng = ctx.rng
        while True:
            mode = rng.choice([None, 0, 0] + list(range(16)))
            m = mode or 0
            parts = [complete_document(rng, m) for _ in range(rng.choice([2, 2, 3]))]
            for k in range(len(parts) - 1):
                if rng.random() < 0.35:
                    # a Block Attributes line (classes, id, css, block options) left pending at the end of one call and
                    # the block it applies to at the start of the next
                    parts[k] += '\n\n' + rng.choice(['.' + gen.attributes_line(rng)[1:].lstrip(), '.' + ' '.join(rng.sample(gen.OPTIONS, rng.randint(1, 3))),
                                                     '.note ' + rng.choice(gen.OPTIONS)])
                    if m == 0 and rng.random() < 0.3:
                        # ... and the safe mode switched on by an option element after it
                        parts[k] += '\n\n' + rng.choice([".safeMode = '1'", ".safeMode = '5'", ".safeMode = '9'", ".htmlReplacement = 'X'"])
                    w = plain(rng)
                    parts[k + 1] = rng.choice(['..\n%s *b* & {m1}\n..', '""\n%s *b*\n""', '``\n- one *%s*\n- two\n``', '%s *b* & {m1}',
                                               '  indented *%s*', '> %s *b*', '# %s *b*', '- %s *b*\n\n', '<div>%s</div>',
                                               '--\n%s *b* {m1}\n--']).replace('%s', w) + '\n\n' + parts[k + 1]
                elif rng.random() < 0.3:
                    # block options consumed by the *last* block of one call (the reader is at end of input when it has been
                    # rendered); the first block of the next call must not see them
                    w = plain(rng)
                    opt = ' '.join(rng.sample(['-macros', '-spans', '+macros', '+spans', '-specials', '+skip', '-container'], rng.randint(1, 2)))
                    parts[k] += '\n\n.%s\n%s' % (opt, rng.choice(['last %s *b* {m1}', '``\nlast %s *b* {m1}\n``', '..\nlast %s *b*\n..',
                                                                  '  last %s *b*', '/*\nlast\n*/']).replace('%s', w))
                    parts[k + 1] = rng.choice(['first %s *b* & {m1}', '``\nfirst %s *b* {m1}\n``', '..\nfirst %s *b* {m1}\n..',
                                               '> first %s *b*']).replace('%s', w) + '\n\n' + parts[k + 1]
            if rng.random() < 0.25 and m == 0:
                # the same inline text before and after something that changes what it renders to (an option element, a
                # definition), the second time in the next call: nothing rendered earlier may be reused in either arrangement
                t = rng.choice(['Press <kbd>Enter</kbd> to *go* on', 'see <<#a1>> and <b>bold</b> here', 'a `code` _em_ teh end', 'x <!-- c --> y <br> z',
                                'say {m1} and *star*', 'url http://u.v/p and <i>i</i>'])
                switch = rng.choice([".safeMode = '1'", ".safeMode = '2'", ".safeMode = '7'", ".htmlReplacement = 'GONE'\n.safeMode = '2'",
                                     "* = '<b>|</b>'", "_ = '<u>|</u>'", "/teh/ = 'the'", "{m1} = 'redefined'", "` = '<tt>|</tt>'"])
                k = rng.randrange(len(parts) - 1)
                parts[k] += '\n\n' + t + '\n\n' + switch
                parts[k + 1] = t + '\n\n' + parts[k + 1]
            if rng.random() < 0.1 and (m == 0 or m & 8):
                # a chain of line macros about as deep as the nesting limit in one part, a line macro in the next
                depth = rng.choice([9, 10, 10, 11])
                chain = ["{c%d} = '\\{c%d}'" % (i, i + 1) for i in range(1, depth)] + ["{c%d} = '# Title %d'" % (depth, depth)]
                k = rng.randrange(len(parts) - 1)
                parts[k] += '\n\n' + '\n'.join(chain) + '\n\n{c1}'
                # ... at top level, or inside a container (whose reader is a new one)
                nxt = rng.choice(['{c%d}', '..\n{c%d}\n..', '""\n{c%d}\n\n{c%d}\n""', '..\n{c2}\n..']).replace('%d', str(depth))
                parts[k + 1] = nxt + '\n\n' + parts[k + 1]
            if rng.random() < 0.3:
                # something to report in every part, each with a text of its own (deprecated existential invocations, undefined
                # macros, illegal options): the same diagnostics whole and in parts - also when only the first call gives a
                # callback (an option not given keeps its session value)
                for k in range(len(parts)):
                    w = plain(rng)
                    parts[k] += '\n\n' + rng.choice(['%s {e%d?d%d} x', '{undef%d} %s', '%s {m1?dflt%d}', '.bogus%d = \'%s\'', '- %s {u%d?}\n\n',
                                                       '..\n{w%d?v} %s\n..']).replace('%d', str(k + rng.randrange(3) * 10)).replace('%s', w)
            yield {'parts': parts, 'safeMode': mode, 'htmlReplacement': rng.choice([None, '[R]', '<i>gone</i>']), 'callback_later': rng.random() < 0.7}

    def execute(self, case, ctx, res):
        parts = case['parts']
        first = {'src': parts[0], 'safeMode': case['safeMode'], 'htmlReplacement': case['htmlReplacement'], 'reset': True, 'callback': True}
        steps = [first] + [{'src': p, 'callback': case.get('callback_later', True)} for p in parts[1:]]
        split, _, ok = run_session(ctx, steps, res, case)
        if not ok:
            res.count('not_ok')
            return
        state_split = ctx.impl.state()
        joined_step = dict(first, src='\n\n'.join(parts))
        joined, _, ok = run_session(ctx, [joined_step], res, case)
        if not ok:
            res.count('not_ok')
            return
        state_joined = ctx.impl.state()
        res.oracle_checks += 1
        a = ''.join(nonl(o[1]) for o in split)
        b = nonl(joined[0][1])
        if a != b:
            res.violation('rendering in parts differs from rendering whole', case, {'parts': [o[1] for o in split], 'whole': joined[0][1]})
            return
        ma = set(m[len('STALE-CALLBACK: '):] if m.startswith('STALE-CALLBACK: ') else m for o in split for m in o[2])
        mb = set(joined[0][2])
        # "undefined macro" diagnostics quote the whole text of the block, which is the same in both; compare as sets
        if ma != mb:
            res.violation('diagnostics differ between rendering in parts and whole', case, {'parts': sorted(ma), 'whole': sorted(mb)})
            return
        if state_split[:13] != state_joined[:13]:
            res.violation('session state differs between rendering in parts and whole', case,
                          [(k, short(x, 150), short(y, 150)) for k, (x, y) in enumerate(zip(state_split, state_joined)) if x != y])
            return
        if any(re.search(r'\{m\d|^\.', p, re.M) for p in parts):
            res.nontrivial(parts)


# ---------------------------------------------------------------------------------------------
def ref_slug(text, used):
    slug = re.sub(r'\W+', '-', text)
    slug = re.sub(r'-+', '-', slug)
    slug = re.sub(r'(^-)|(-$)', '', slug).lower()
    if not slug:
        slug = 'x'
    if slug in used:
        i = 2
        while '%s-%d' % (slug, i) in used:
            i += 1
        slug = '%s-%d' % (slug, i)
    return slug


@register
class C15(Prop):
    id = 'C15'
    rule = ('sessions of 1-4 documents (header ids enabled) of headers whose texts slugify to colliding, empty or suffix-looking '
            'values and blocks with explicit ids colliding with each other and with generated ones; ids in the output are compared '
            'with a reference allocation written from the property statement; non-trivial = session with at least one collision')

    HEADS = ['Alpha', 'alpha', 'ALPHA!', 'a 2', 'a', 'a-2', 'A 2', '!!!', '???', 'x', 'X', 'Beta gamma', 'beta-gamma', 'İstanbul', 'ΑΣ', 'a_b', '٣', 'a--2',
             # text that looks like attributes of the tag it ends up in (F32)
             'foo id="x" bar', 'a class="c" style="s:t"', "it's id='q'"]
    IDS = ['alpha', 'Alpha', 'a-2', 'x', 'x-2', 'beta-gamma', 'mine', 'MINE', 'a-3']

    def element(self, rng):
        """One block with the id events it causes, in output order: ['header', text] (an id is generated when header ids
        are on) or ['explicit', id] (a Block Attributes id lands on the block's first tag)."""
        k = rng.random()
        hid = rng.choice(self.IDS)
        if k < 0.4:
            h = rng.choice(self.HEADS)
            return {'src': '%s %s' % ('#' * rng.randint(1, 3), h), 'ev': [['header', h]]}
        if k < 0.52:
            return {'src': '.#%s\n%s' % (hid, plain(rng)), 'ev': [['explicit', hid]]}
        if k < 0.62:
            return {'src': '.#%s\n# %s' % (hid, rng.choice(self.HEADS)), 'ev': [['explicit', hid]]}
        if k < 0.9:
            # every other kind of block that takes attributes, and the places inside a list where they land
            w = plain(rng)
            hid2 = rng.choice(self.IDS)
            src, ev = rng.choice([
                ('.#%s\n- %s\n- b' % (hid, w), [hid]), ('- a\n\n.#%s\n- %s' % (hid, w), [hid]), ('- a\n.#%s\n- %s' % (hid, w), [hid]),
                ('T:: %s\n\n.#%s\nU:: e' % (w, hid), [hid]), ('T:: d\n.#%s\nU:: %s' % (hid, w), [hid]), ('.#%s\nT:: %s\nU:: e' % (hid, w), [hid]),
                ('.#%s\n..\n%s\n..' % (hid, w), [hid]), ('.#%s\n""\n%s\n""' % (hid, w), [hid]), ('.#%s\n```\ncode\n```' % hid, [hid]),
                ('.#%s\n  indented' % hid, [hid]), ('.#%s\n> %s' % (hid, w), [hid]), ('.#%s\n<image:x.png>' % hid, [hid]),
                ('- a\n.#%s\n..\n%s\n..\n- b' % (hid, w), [hid]), ('.#%s\n/*\nc\n*/\n%s' % (hid, w), [hid]),
                ('.#%s\n\n.#%s\n%s' % (hid, hid2, w), [hid2]), ('.#%s\n. a\n.. b' % hid, [hid]),
                ('.#%s\nT:: d\n\n.#%s\nU:: %s' % (hid, hid2, w), [hid, hid2]),
                ('.#%s\n- a\n.#%s\n- b\n\n.#%s\n- c' % (hid, hid2, hid), [hid, hid2, hid]),
                ('.#%s\n..\n.#%s\n%s\n..' % (hid, hid2, w), [hid, hid2]),
            ])
            return {'src': src, 'ev': [['explicit', x] for x in ev]}
        return {'src': plain(rng), 'ev': []}

    def cases(self, ctx):
        rng = ctx.rng
        while True:
            docs = []
            modes = []
            reset_at = rng.choice([None, None, 1, 2])
            eff = 0
            for d in range(rng.randint(1, 4)):
                # the safe mode of a later call: the id registry belongs to the session, not to a mode
                mode = None if d == 0 else rng.choice([None, None, None, 1, 2, 3, 8, 9, 11, 4, 5, 6, 7, 12, 13, 15])
                if d == reset_at:
                    eff = 0
                if mode is not None:
                    eff = mode
                modes.append(mode)
                els = []
                if d == 0 or rng.random() < 0.2:
                    v = rng.choice(['true', 'true', 'x', ''])
                    # a macro definition counts at safe mode 0 and with bit 8
                    els.append({'src': "{--header-ids} = '%s'" % v, 'ev': [['hid', v]] if (eff == 0 or eff & 8) else []})
                for _ in range(rng.randint(1, 5)):
                    e = self.element(rng)
                    if eff & 4:
                        # Block Attributes are ignored: headers and plain paragraphs only (generated ids go on as before)
                        while any(ev[0] == 'explicit' for ev in e['ev']):
                            e = self.element(rng)
                    els.append(e)
                if rng.random() < 0.3 and not (eff & 4):
                    # class names, css or a block option left pending at the end of the call (they land on the first block of
                    # the next one; the ids allocated so far stay allocated)
                    els.append({'src': rng.choice(['.dangling', '."color:red"', '.dng +macros', '.dng\n\n']), 'ev': []})
                docs.append(els)
            yield {'docs': docs, 'reset_at': reset_at, 'modes': modes}

    def execute(self, case, ctx, res):
        steps = []
        for i, d in enumerate(case['docs']):
            st = {'src': '\n\n'.join(e['src'] for e in d), 'callback': True}
            if i == 0:
                st['safeMode'] = 0
            elif case.get('modes') and case['modes'][i] is not None:
                st['safeMode'] = case['modes'][i]
            if case['reset_at'] == i and i > 0:
                st['reset'] = True
            steps.append(st)
        outs, _, ok = run_session(ctx, steps, res, case)
        if not ok:
            res.count('not_ok')
            return
        res.oracle_checks += 1
        used = []           # ids in use since the last reset, reference allocation
        header_ids = ''
        collision = False
        for i, (st, o) in enumerate(zip(steps, outs)):
            if st.get('reset'):
                used = []
                header_ids = ''
            expected_ids = []
            expected_dups = []
            for kind, val in (ev for e in case['docs'][i] for ev in e['ev']):
                if kind == 'hid':
                    header_ids = val
                elif kind == 'explicit':
                    pid = val.lower()
                    if pid in used:
                        expected_dups.append(pid)
                        collision = True
                    else:
                        used.insert(0, pid)
                    expected_ids.append(pid)
                elif header_ids:
                    base = ref_slug(val, [])
                    pid = ref_slug(val, used)
                    if pid != base:
                        collision = True
                    used.insert(0, pid)
                    expected_ids.append(pid)
            # id attributes of tags (id="..." look-alike text between tags is text)
            got_ids = [m for t in re.findall(r'<[a-zA-Z][^<>]*>', o[1]) for m in re.findall(r' id="([^"]*)"', t)]
            got_dups = [m[len("duplicate 'id' attribute: "):] for m in o[2] if m.startswith("duplicate 'id' attribute: ")]
            for g in got_ids:
                if g != g.lower():
                    res.violation('an element id is not lower-case: %r' % g, case, o[1])
                    return
            if got_ids != expected_ids:
                res.violation('ids of document %d are %r, the property requires %r' % (i, got_ids, expected_ids), case, o[1])
                return
            if got_dups != expected_dups:
                res.violation('duplicate-id diagnostics of document %d are %r, expected %r' % (i, got_dups, expected_dups), case, o[1])
                return
        if collision:
            res.nontrivial(case['docs'])


# ---------------------------------------------------------------------------------------------
def ptext(rng):
    """words, sometimes with the characters that message formatting treats specially"""
    w = plain(rng)
    if rng.random() < 0.25:
        w += ' ' + rng.choice(['50%', '100%%', '%s', '%d items', '%(name)s', '%'])
    return w


@register
class C19(Prop):
    id = 'C19'
    rule = ('well-formed generated documents (closed blocks, defined macros, legal option / block-option / definition elements) must '
            'produce no diagnostic; each single-fault mutation (closing delimiter removed, macro name misspelt, option value '
            'corrupted, block name unknown, pattern not a regular expression, illegal block option) must produce an error diagnostic '
            'naming it; html identical with and without a callback; non-trivial = a fault case or a document with >= 3 element kinds')

    FAULTS = ['unterminated', 'undefined-macro', 'option-value', 'block-name', 'bad-regex', 'block-option', 'block-definition']

    def wellformed(self, rng):
        parts = []
        kinds = set()
        defs = ["{m1} = 'value one'", "{m2} = '$1 and $2'"]
        if rng.random() < 0.3:
            defs.append("{--header-ids} = 'true'")      # generated header ids: still nothing to report
        parts.extend(defs)
        for _ in range(rng.randint(1, 5)):
            k = rng.randrange(9)
            kinds.add(k)
            if k == 0:
                parts.append(ptext(rng) + ' {m1} ' + ptext(rng))
            elif k == 1:
                parts.append('{m2|a|b}')
            elif k == 2:
                parts.append(rng.choice(['```\ncode\n```', '--\ncode\n--']))
            elif k == 3:
                parts.append(rng.choice(['""\nquote\n""', '..\ndiv\n..', '/*\ncomment\n*/']))
            elif k == 4:
                parts.append(rng.choice([".safeMode = '0'", ".htmlReplacement = 'x'"]))
            elif k == 5:
                sp = lambda: rng.choice([' ', ' ', '  ', '   '])    # noqa: E731  (options are separated by runs of blanks)
                parts.append(rng.choice([".+macros%s-spans%s\n" % (sp(), rng.choice(['', ' ', '  '])) + ptext(rng),
                                         ".cls #i%d\n%s" % (rng.randint(1, 9999), ptext(rng)),
                                         "{--} = ''", "{m1?} = 'kept'", ".-specials%s-container\n..\n%s\n.." % (sp(), ptext(rng)),
                                         ".cls%s+macros%s-spans%s+specials\n%s" % (sp(), sp(), sp(), ptext(rng)),
                                         ".%s-macros%s+spans\n%s" % (rng.choice(['', ' ']), sp(), ptext(rng))]))
            elif k == 6:
                sp = lambda: rng.choice([' ', ' ', '  ', '   '])    # noqa: E731
                parts.append(rng.choice(["|code| = '<pre>|</pre>%s+macros'" % sp(), "/teh/ = 'the'", "~ = '<u>|</u>'",
                                         "|paragraph| = '<p>|</p> +macros%s+spans%s'" % (sp(), rng.choice(['', ' '])),
                                         "|division| = '+container%s-macros'" % sp()]))
            elif k == 7:
                parts.append('- item {m1}\n- item')
            else:
                parts.append('# ' + ptext(rng) + rng.choice(['', '', ' id="a%d"' % rng.randint(1, 99), ' class="k" style="s"']))
        return parts, kinds

    def cases(self, ctx):
        rng = ctx.rng
        while True:
            parts, kinds = self.wellformed(rng)
            mode = 0
            if rng.random() < 0.5:
                yield {'src': '\n\n'.join(parts), 'safeMode': mode, 'fault': None, 'expect': None, 'nkinds': len(kinds)}
                continue
            if rng.random() < 0.15:
                # an undefined macro wherever macros are expanded, in the safe modes that honour macro definitions (bit 8) under
                # each HTML policy: what the policy does to an element afterwards does not excuse the diagnostic
                w = ptext(rng)
                host = rng.choice(['%s {m3} %s' % (w, ptext(rng)), '# %s {m3}' % w, '- %s {m3}\n- x' % w, '..\n%s {m3}\n..' % w, '<http://a.com/|{m3}>',
                                   'term:: %s {m3}' % w, '""\n%s {m3}\n""' % w, '{m3}', '*{m3}*', '`{m3}`', '{m3} ' + w, "{m1?} = 'kept {m3}'",
                                   "{m4} = 'two\nlines {m3}'", '<div title="{m3}">', '<div>{m3}</div>', '<p>x {m3}</p>\n', '- item\n<div>{m3}</div>',
                                   '..\n<section>{m3}</section>\n..', '<!-- {m3} -->', '%s <b>{m3}</b> %s' % (w, w), '.cls\n<div>{m3} %s</div>' % w,
                                   '<image:{m3}>', '<<#{m3}>>'])
                src = "{m1} = 'value one'\n\n%s {m1}\n\n%s\n\n%s" % (ptext(rng), host, ptext(rng))
                yield {'src': src, 'safeMode': rng.choice([8, 9, 10, 11]), 'fault': 'undefined-macro', 'expect': 'undefined macro: {m3}', 'nkinds': 3}
                continue
            if rng.random() < 0.06:
                # F43: a reset element restores the defaults (definitions, options) but not the callback of the call in progress
                fault, expect = rng.choice([('{m3} ' + ptext(rng), 'undefined macro: {m3}'), (".safeMode = '16'", 'illegal safeMode API option value'),
                                            ('```\ncode', 'unterminated code block'), (ptext(rng) + ' {m1}', 'undefined macro: {m1}')])
                src = "{m1} = 'value one'\n\n%s {m1}\n\n.reset = 'true'\n\n%s" % (ptext(rng), fault)
                yield {'src': src, 'safeMode': 0, 'fault': 'after-reset', 'expect': expect, 'nkinds': 3}
                continue
            f = rng.choice(self.FAULTS)
            if f == 'unterminated':
                name, block = rng.choice([('code', '```\ncode'), ('code', '--\ncode'), ('quote', '""\nquote'), ('division', '..\ndiv'),
                                          ('comment', '/*\ncomment')])
                if rng.random() < 0.35:
                    block = block.split('\n')[0]           # the opening delimiter is the last line of the document
                if rng.random() < 0.25:
                    block = '......box\n%s\n......' % block  # ... or of an enclosing (closed) container with its own delimiter
                parts.append(block)
                expect = 'unterminated %s block' % name
            elif f == 'undefined-macro':
                # the misspelt invocation in every position where macros are expanded
                w = ptext(rng)
                host = rng.choice(['%s {m3} %s' % (w, ptext(rng)), '.cls [title="{m3}"]\n' + w, '."color: {m3}"\n' + w, '# %s {m3}' % w,
                                   '- %s {m3}\n- x' % w, '..\n%s {m3}\n..' % w, '<http://a.com/|{m3}>', '.+macros\n```\ncode {m3}\n```',
                                   'term:: %s {m3}' % w, '""\n%s {m3}\n""' % w, '<div title="{m3}">', '{m3}',
                                   '- item\n.box [title="{m3}"]\n..\ninner\n..', '*{m3}*', '[{m3}](http://x.y/)', '`{m3}`',
                                   '.#i%d "margin: {m3}" [data-x="{m3}"]\n..\n%s\n..' % (rng.randint(1, 9999), w),
                                   '{m3} ' + w,
                                   # inside the value of a definition, also one whose value is then discarded (the name exists)
                                   "{m1?} = 'kept {m3}'", "{m1} = 'new {m3}'", "{m4?} = 'fresh {m3}'", "{m1?} = 'two\nlines {m3}'",
                                   "{m4} = 'two\nlines {m3}'", "~ = '<u title=\"{m3}\">|</u>'", "/teh/ = 'the {m3}'",
                                   "|code| = '<pre class=\"{m3}\">|</pre>'", ".htmlReplacement = '{m3}'"])
                parts.insert(rng.randrange(2, len(parts) + 1), host)
                expect = 'undefined macro: {m3}'
            elif f == 'option-value':
                parts.insert(rng.randrange(2, len(parts) + 1), ".safeMode = '%s'" % rng.choice(['x', '16', '-1', '']))
                expect = 'illegal safeMode API option value'
            elif f == 'block-name':
                parts.insert(rng.randrange(2, len(parts) + 1), "|bogus| = '<p>|</p>'")
                expect = 'illegal delimited block name: bogus'
            elif f == 'bad-regex':
                parts.insert(rng.randrange(2, len(parts) + 1), "/%s/ = 'x'" % rng.choice(['(', '[a', 'a**', '(?P<n', 'x{2,1}']))
                expect = 'illegal replacement regular expression'
            elif f == 'block-option':
                bad = rng.choice(['+bogus', '+skipx', '-macross', '+Skip', '-span'])
                parts.insert(rng.randrange(2, len(parts) + 1), '.%s%s\n%s' % (rng.choice(['', '+macros ']), bad, ptext(rng)))
                expect = 'illegal block option: ' + bad
            else:
                parts.insert(rng.randrange(2, len(parts) + 1), "|code| = 'junk'")
                expect = 'illegal delimited block definition'
            # an option element earlier in the document may have switched definitions off
            src = '\n\n'.join(p for p in parts if not p.startswith('.safeMode') or p.startswith(".safeMode = '0'") or f == 'option-value')
            yield {'src': src, 'safeMode': mode, 'fault': f, 'expect': expect, 'nkinds': len(kinds)}

    def lead(self, case, ctx, res):
        # (what a well-formed document is cannot be read off an arbitrary source; that diagnostics never alter the output can)
        outs = []
        for cb in (True, False):
            ctx.impl.reset_process()
            outs.append([ctx.impl.render(x['src'], **dict(step_kwargs(x), callback=cb and bool(x.get('callback')))) for x in case['steps']])
        res.oracle_checks += 1
        for a, b in zip(*outs):
            if a[0] != b[0] or (a[0] == 'ok' and a[1] != b[1]):
                res.violation('html differs with and without a callback', case, [short(a), short(b)])
                return

    def execute(self, case, ctx, res):
        st = {'src': case['src'], 'safeMode': case['safeMode'], 'reset': True, 'callback': True}
        outs, _, ok = run_session(ctx, [st], res, case)
        a = outs[0]
        if a[0] != 'ok':
            res.violation('render failed: %s' % (a,), case)
            return
        res.oracle_checks += 1
        res.count('fault_%s' % case['fault'])
        if case['fault'] is None:
            if a[2]:
                res.violation('a well-formed document produced diagnostics', case, list(a[2]))
                return
        else:
            hits = [m for m in a[2] if m.startswith(case['expect'])]
            if len(hits) < 1:
                res.violation('fault %s produced no diagnostic starting %r' % (case['fault'], case['expect']), case, list(a[2]))
                return
            other = [m for m in a[2] if not m.startswith(case['expect'])]
            if other:
                res.violation('fault %s produced unrelated diagnostics' % case['fault'], case, list(a[2]))
                return
        if case['fault'] and case['fault'] != 'after-reset':
            # the same document once more in the same session (no reset): the fault is reported again - a diagnostic belongs to
            # the render call that meets the fault, whatever was reported before
            again, _, ok2 = run_session(ctx, [st, dict(st, reset=None)], res, case)
            if ok2 and again[1][0] == 'ok' and not [m for m in again[1][2] if m.startswith(case['expect'])]:
                res.violation('fault %s was not reported when the document was rendered a second time' % case['fault'], case, list(again[1][2]))
                return
        ctx.impl.reset_process()
        b = ctx.impl.render(case['src'], safeMode=case['safeMode'], reset=True, callback=False)
        if b[0] != 'ok' or b[1] != a[1]:
            res.violation('html differs with and without a callback', case, [short(a), short(b)])
            return
        if case['fault'] or case['nkinds'] >= 3:
            res.nontrivial(case['src'])


# ---------------------------------------------------------------------------------------------
@register
class C12(Prop):
    id = 'C12'
    rule = ('1-3 Block Attributes lines (classes / id / css / html attributes / +skip) with intervening comments, definitions or blank '
            'lines, then a block of any kind, then further blocks; all 16 safe modes; the output must equal the output of the same '
            'document without the attribute lines except that the first tag of the target block carries exactly the accumulated '
            'attributes (or the block is skipped); non-trivial = >= 2 attribute kinds')

    TARGETS = [('para text', 'p'), ('# Header', 'h1'), ('# Header id="q" text', 'h1'), ('## H class="w" style="x"', 'h2'), ('```\ncode\n```', 'pre'), ('""\nquote\n""', 'blockquote'), ('- item\n- two', 'ul'),
               ('  indented', 'pre'), ('. one', 'ol'), ('>quoted par', 'blockquote'), ('<image:http://a.b/i.png|alt>', 'img'),
               ('<div>raw</div>', 'div'), ('<section>\nraw\n</section>', 'section'), ('<div>raw</div>', 'div'),
               # HTML blocks that have no start tag to carry the attributes: they consume them all the same
               ('<!-- comment -->', None), ('</section>', None), ('<!DOCTYPE html>', None)]

    def cases(self, ctx):
        rng = ctx.rng
        while True:
            mode = rng.randrange(16)
            if rng.random() < 0.12:
                # attributes merged into tags that already have class / style / id attributes, and combinations of block
                # options: the shape of the merged tag is decided by the correspondence, the block after it by the oracle
                line = rng.choice(['.c1 c2', '."color:red"', '.c1 #i9 "a:b"', '.#i9 [title="t"]', '.c1 "x:y;" -specials +macros',
                                   '.+skipx', '.-specials +skip', '.-macros -spans c1', '.c1 +container -specials'])
                target = rng.choice(['<div class="a" title="q">x</div>', '<div style="a:b;" class="k">x</div>', '<p style="a:b">x</p>',
                                     '<div id="own" class="">x</div>', '<!-- c --><div>x</div>', '<h1 class="t" data-q="a&quot;b">x</h1>',
                                     '<div\nclass="a">x</div>', '<span>x</span> tail', '..\ninner *b* {mm}\n..', '```\n<b> *c*\n```',
                                     '""\n- i1\n- i2\n""', '<div class="a">\n<p class="b" style="c:d">x</p>\n</div>',
                                     # the first tag once more, later in the same block: only the first one takes the attributes
                                     '<p class="note">one</p>\n<p class="note">two</p>', '<div style="a:b">x</div> <div style="a:b">y</div>',
                                     '<p class="k" style="m:n">x</p>\n<p class="k" style="m:n">y</p>\n<p class="k">z</p>'])
                yield {'merge': True, 'with': "{mm} = 'MM'\n\n" + line + '\n' + target + '\n\nnext *para*', 'safeMode': mode}
                continue
            if rng.random() < 0.08:
                # a paragraph that begins like a Block Attributes line but is not one: it is text, and nothing of it is left pending
                near = rng.choice(['.NET is great!', '.beta gamma: delta', '.note: b', '.x y z.', '.a-b c? d', '.k1 #i9 oops!'])
                pre = rng.choice(['', '.c1\n', '.c1 c2\n'])
                yield {'nearmiss': near, 'with': pre + near + '\n\nnext *para*', 'safeMode': mode}
                continue
            if rng.random() < 0.25:
                # block options: each alters the processing of the next block only (also when it merely repeats that block's
                # default); `-specials` is refused in a non-zero safe mode and the options after it on the line still apply;
                # the block after the target is of the other kind, so that a leaked option shows
                opts = rng.sample(['-macros', '-spans', '-specials', '+skip', '+macros', '+spans'], rng.randint(1, 4))
                if '+macros' in opts and '-macros' in opts:
                    opts.remove('+macros')
                if '+spans' in opts and '-spans' in opts:
                    opts.remove('+spans')
                sep = rng.choice([' ', ' ', '  '])
                line = '.' + rng.choice(['', 'k1 ']) + sep.join(opts)
                if rng.random() < 0.15:
                    # F37: the line between two items of a list - the options end with the item that follows, the block after the
                    # list is processed as if they had never been there
                    item = rng.choice(['- b', '- b\n\n', 't:: b', '. b'])
                    yield {'options': opts, 'between_items': True, 'cls': 'k1 ' in line, 'safeMode': mode,
                           'with': "{mm} = 'MM'\n\n%s a\n%s\n%s\n\n\nT {mm} *b* &c" % (item.split()[0].replace('t::', 't::'), line, item.rstrip('\n'))}
                    continue
                # F37: before a header or a list the options end with that block too (they alter nothing there, and nothing after it)
                kinds = rng.choice([('para', 'code'), ('code', 'para'), ('para', 'para'), ('code', 'code'),
                                    ('head', 'para'), ('head', 'code'), ('list', 'para'), ('list', 'code')])
                body = {'para': 'T {mm} *b* &c', 'code': '```\nT {mm} *b* &c\n```', 'head': '# T {mm} *b* &c', 'list': '- T {mm} *b* &c'}
                between = rng.choice(['', '', '// comment\n\n', '- item\n\n', '# Head\n\n'])
                if kinds[0] == 'list' and between.startswith('- '):
                    between = ''        # (it would be a further item of the same list)
                yield {'options': opts, 'kinds': list(kinds), 'between': between,
                       'with': "{mm} = 'MM'\n\n%s\n%s\n\n%s%s" % (line, body[kinds[0]], between, body[kinds[1]]),
                       'safeMode': mode, 'cls': 'k1 ' in line}
                continue
            classes, pid, css, attrs = [], None, [], []
            skip = False
            lines = []
            nkinds = set()
            for _ in range(rng.randint(1, 3)):
                parts = []
                if rng.random() < 0.6:
                    c = ' '.join(rng.sample(['c1', 'c2', 'big-one', 'x_y'], rng.randint(1, 2)))
                    parts.append(c)
                    classes.append(c)
                    nkinds.add('class')
                if rng.random() < 0.35:
                    pid = rng.choice(['Id1', 'sec-2', 'x9'])
                    parts.append('#' + pid)
                    nkinds.add('id')
                if rng.random() < 0.3:
                    c = rng.choice(['color:red', 'margin:0;', 'a:b; c:d'])
                    parts.append('"%s"' % c)
                    css.append(c)
                    nkinds.add('css')
                if rng.random() < 0.25:
                    a = rng.choice(['title="t"', 'data-x="1"'])
                    parts.append('[%s]' % a)
                    attrs.append(a)
                    nkinds.add('attrs')
                if not parts:
                    parts.append('c0')
                    classes.append('c0')
                lines.append('.' + ' '.join(parts))
                if rng.random() < 0.3:
                    lines.append(rng.choice(['// comment', '', "{mm} = 'v'"]))
            target, tag = rng.choice(self.TARGETS)
            use_skip = rng.random() < 0.15 and tag in ('pre', 'blockquote') and target[0] in '`"'
            if use_skip:
                lines.append('.+skip')
            follow = [rng.choice(['next para', '## Next', '..\ninner\n..', '- later'])]
            with_src = '\n'.join(lines) + '\n' + target + '\n\n' + '\n\n'.join(follow)
            keep = [l for l in lines if not l.startswith('.')]
            if use_skip:
                # the skipped block leaves the accumulated attributes pending for the block after it
                without_src = '\n'.join(l for l in lines if l != '.+skip') + '\n' + '\n\n'.join(follow)
            else:
                without_src = '\n'.join(keep) + '\n' + target + '\n\n' + '\n\n'.join(follow)
            if mode & 4:
                exp_attr = ''
            else:
                exp_attr = ''
                if classes:
                    exp_attr += ' class="%s"' % ' '.join(classes)
                if pid:
                    exp_attr += ' id="%s"' % pid.lower()
                if css:
                    joined = ''
                    for c in css:
                        if joined and not joined.endswith(';'):
                            joined += ';'
                        joined = (joined + ' ' + c).strip()
                    exp_attr += ' style="%s"' % joined
                if attrs and mode == 0:
                    exp_attr += ' ' + ' '.join(attrs)
            yield {'with': with_src, 'without': without_src, 'safeMode': mode, 'tag': tag, 'attr': exp_attr, 'skip': use_skip and not (mode & 4),
                   'skip_line': use_skip, 'nkinds': len(nkinds), 'target': target}

    def execute(self, case, ctx, res):
        mode = case['safeMode']
        a, _, ok1 = run_session(ctx, [{'src': case['with'], 'safeMode': mode, 'reset': True, 'callback': True}], res, case)
        if case.get('nearmiss'):
            res.count('nearmiss_cases')
            if a[0][0] == 'ok':
                res.oracle_checks += 1
                words = [w for w in re.findall(r'[A-Za-z][\w-]*', case['nearmiss']) if w not in ('c1', 'c2')]
                leaked = [w for w in words if re.search(r'<[a-z][^<>]* (?:class|id)="[^"]*\b%s\b' % re.escape(w), a[0][1])]
                first_word = re.findall(r'[A-Za-z][\w-]*', case['nearmiss'])[0]
                if first_word not in re.sub(r'<[^<>]*>', '', a[0][1]):
                    res.violation('a paragraph that only looks like a Block Attributes line was not rendered as text', case, short(a[0][1]))
                    return
                if leaked or not a[0][1].endswith('<p>next <em>para</em></p>'):
                    res.violation('words of a paragraph that only looks like a Block Attributes line were left pending as attributes',
                                  case, short(a[0][1]))
            return
        if case.get('merge'):
            # what the merged first tag looks like is left to the correspondence; that the attributes and options are used up by
            # that one block is the property: the paragraph after it renders as if they had never been there
            res.count('merge_cases')
            if a[0][0] == 'ok':
                res.oracle_checks += 1
                if not a[0][1].endswith('<p>next <em>para</em></p>'):
                    res.violation('Block Attributes merged into the attributes of the target block also reach the block after it',
                                  case, short(a[0][1]))
                    return
                line = case['with'].split('\n')[2]
                for marker in ('c1', 'c2', 'color:red', 'i9', 'x:y', 'title="t"'):
                    if marker in line and a[0][1].count(marker) > 1:
                        res.violation('Block Attributes were applied to more than the first tag of the target block', case, short(a[0][1]))
                        return
            return
        if case.get('between_items'):
            if a[0][0] != 'ok':
                res.count('not_ok')
                return
            res.oracle_checks += 1
            mm = 'MM' if (mode == 0 or mode & 8) else '{mm}'
            if not nonl(a[0][1]).endswith('<p>T %s <em>b</em> &amp;c</p>' % mm):
                res.violation('block options given between two list items reached the block after the list', case, short(a[0][1]))
            res.count('options_between_items')
            return
        if case.get('options'):
            if a[0][0] != 'ok':
                res.count('not_ok')
                return
            res.oracle_checks += 1
            O = case['options']
            applied = not (mode & 4)
            defined = mode == 0 or bool(mode & 8)
            mm = 'MM' if defined else '{mm}'

            def block(kind, opts, cls):
                if kind in ('head', 'list'):
                    text = 'T %s <em>b</em> &amp;c' % mm
                    return ('<h1%s>%s</h1>' if kind == 'head' else '<ul%s><li>%s</li></ul>') % (cls, text)
                macros, spans, specials = (True, True, True) if kind == 'para' else (False, False, True)
                if '+macros' in opts:
                    macros = True
                if '-macros' in opts:
                    macros = False
                if '+spans' in opts:
                    spans = True
                if '-spans' in opts:
                    spans = False
                if '-specials' in opts and mode == 0:
                    specials = False
                if '+skip' in opts:
                    return ''
                text = 'T %s *b* &c' % (mm if macros else '{mm}')
                if spans:
                    text = text.replace('*b*', '<em>b</em>').replace('&c', '&amp;c')
                elif specials:
                    text = text.replace('&c', '&amp;c')
                return ('<p%s>%s</p>' if kind == 'para' else '<pre%s><code>%s</code></pre>') % (cls, text)
            cls = ' class="k1"' if case['cls'] and applied else ''
            k1, k2 = case['kinds']
            first = block(k1, O if applied else [], cls)
            between = {'': '', '// comment\n\n': '', '- item\n\n': '<ul%s><li>item</li></ul>', '# Head\n\n': '<h1%s>Head</h1>'}[case['between']]
            # a skipped block leaves the class pending for the next block that emits a tag
            cls2 = cls if not first else ''
            if between:
                between = between % cls2
                cls2 = ''
            second = block(k2, [], cls2)
            expected = first + between + second
            if nonl(a[0][1]) != nonl(expected):
                res.violation('block options did not alter exactly the processing of the next block', case,
                              {'output': a[0][1], 'expected': expected})
                return
            res.count('options_case')
            res.nontrivial(case['with'])
            return
        without = case['without']
        if case['skip_line'] and not case['skip']:
            # attribute lines are ignored altogether (bit 4): the block is rendered
            without = without.replace('\n', '\n' + case['target'] + '\n\n', 1) if False else None
        if without is None:
            res.count('skip_with_bit4')
            return
        b, _, ok2 = run_session(ctx, [{'src': without, 'safeMode': mode, 'reset': True, 'callback': True}], res, case)
        if a[0][0] != 'ok' or b[0][0] != 'ok':
            res.count('not_ok')
            return
        res.oracle_checks += 1
        out_with, out_without = a[0][1], b[0][1]
        if case['skip']:
            if nonl(out_with) != nonl(out_without):
                res.violation('+skip did not skip exactly the next block', case, {'with': out_with, 'without': out_without})
            return
        attr = case['attr']
        if case['tag'] is None:
            if attr and attr.strip() and attr.strip() in out_with:
                res.violation('attributes consumed by a tag-less HTML block appear in the output', case, out_with)
                return
            attr = ''
        if case['target'].startswith('<') and not case['target'].startswith('<image') and mode & 3 in (1, 2):
            # a dropped / replaced HTML block consumes the attributes: nothing of them may appear anywhere
            if attr and attr in out_with:
                res.violation('attributes of a dropped HTML block appear in the output', case, out_with)
                return
            attr = ''
        if attr:
            if out_with.count(attr) != 1:
                res.violation('accumulated attributes %r do not occur exactly once' % attr, case, out_with)
                return
            i = out_with.index(attr)
            lead = '&lt;' if (case['target'].startswith('<') and not case['target'].startswith('<image') and mode & 3 == 3) else '<'
            if not out_with[:i].endswith(lead + case['tag']):
                res.violation('attributes are not on the first tag <%s> of the next block' % case['tag'], case, out_with)
                return
            stripped = out_with.replace(attr, '', 1)
        else:
            stripped = out_with
        if nonl(stripped) != nonl(out_without):
            res.violation('Block Attributes affected more than the first tag of the next block', case, {'with': out_with, 'without': out_without})
            return
        if case['nkinds'] >= 2:
            res.nontrivial(case['with'])
        res.count('mode_bit4' if mode & 4 else 'applied')


# ---------------------------------------------------------------------------------------------
def ref_params(value, args):
    """Parameter substitution written from the documentation ($n, $n:default$, $$n)."""
    def repl(m):
        if m.group(0).startswith('\\'):
            return m.group(0)[1:]
        n = int(m.group(2))
        if n == 0:
            return m.group(0)
        p = args[n - 1] if n <= len(args) else ''
        if m.group(3):
            if m.group(3).startswith('\\'):
                p += m.group(3)[1:]
            elif p == '':
                p = m.group(4).replace('\\$', '$')
        return p
    return re.sub(r'\\?(\$\$?)(\d+)(\\?:(|.*?[^\\])\$)?', repl, value, flags=re.S)


@register
class C11(Prop):
    id = 'C11'
    rule = ('documents with 1-4 macro definitions (single- and multi-line, values referring to earlier macros, redefinitions, '
            'existential definitions, the blank macro) and invocations of every form at line start and mid-line in paragraphs, '
            'headers, list items; 0-4 word arguments; literal inclusion/exclusion patterns; compared with the twin document in '
            'which each invocation is replaced by the value computed from the property statement; safe mode 0 and bit 8; '
            'non-trivial = at least one parametrised or inclusion/exclusion invocation')

    def cases(self, ctx):
        rng = ctx.rng
        while True:
            table = {'--': '', '--header-ids': ''}
            lines_a, lines_b = [], []
            kinds = set()
            names = ['m1', 'm2', 'mac-3']
            expect_undefined = 0
            literal = []
            for _ in range(rng.randint(1, 4)):
                name = rng.choice(names)
                form = rng.random()
                choices = [plain(rng), 'P1=$1 P2=$2', '$1:dflt$ and $2', '', 'x $$1 y', 'A $3:d3$ B', "it''s",
                           # values that are line-level elements when they stand at the start of a line
                           '// note $1', '//', '# Title $1', '- item $1', '.klass', '<<#anc>>', '/* c */', '\\// shown', '<image:pic.png>']
                if 'm1' in table and '$' not in table['m1'] and '\n' not in table['m1']:
                    choices += ['pre {m1} post'] * 2      # values refer to *earlier* macros only
                value = rng.choice(choices)
                if '{m1}' in value:
                    value_expanded = value.replace('{m1}', table['m1']) if 'm1' in table else value
                else:
                    value_expanded = value
                if form < 0.2:
                    d = "{%s?} = '%s'" % (name, value)
                    if name not in table:
                        table[name] = value_expanded
                    kinds.add('existential')
                elif form < 0.35 and value != '':
                    # multi-line values; some end with a line break (the closing quote alone on its line)
                    v2 = rng.choice([plain(rng), plain(rng), '', plain(rng) + '\n'])
                    d = "{%s} = '%s\n%s'" % (name, value, v2)
                    table[name] = value_expanded + '\n' + v2
                    kinds.add('multiline')
                elif form < 0.42 and '$' not in value and value != '':
                    # characters that str.splitlines() treats as line boundaries are ordinary characters of a value
                    tail = rng.choice(gen.LINESEPS) + plain(rng)
                    value, value_expanded = value + tail, value_expanded + tail
                    d = "{%s} = '%s'" % (name, value)
                    table[name] = value_expanded
                    kinds.add('linesep')
                else:
                    d = "{%s} = '%s'" % (name, value)
                    table[name] = value_expanded
                if '{m1}' in value and 'm1' not in table:
                    expect_undefined += 1
                lines_a.append(d)
                lines_b.append(d)
            if rng.random() < 0.15:
                lines_a.append("{--} = 'nonblank'")
                lines_b.append("{--} = 'nonblank'")
            for _ in range(rng.randint(1, 5)):
                name = rng.choice(names + ['undef'])
                args = [rng.choice(PLAIN) for _ in range(rng.randint(0, 4))]
                k = rng.random()
                ctxk = rng.choice(['para-mid', 'para-start', 'header', 'list', 'line-alone'])
                if name not in table:
                    inv = '{%s}' % name if k < 0.5 else '{%s|%s}' % (name, '|'.join(args))
                    val = inv
                    kinds.add('undefined')
                elif k < 0.3:
                    inv, val = '{%s}' % name, table[name]
                    kinds.add('simple')
                elif k < 0.65:
                    inv = '{%s|%s}' % (name, '|'.join(args))
                    val = ref_params(table[name], args)
                    kinds.add('params')
                elif k < 0.75:
                    inv, val = '\\{%s}' % name, '\\{%s}' % name
                    literal.append('{%s}' % name)
                    kinds.add('escaped')
                elif k < 0.9:
                    # (the last one matches everything up to the last visible character: not the whole of a value that ends in a line
                    # break - the match is a full-string match)
                    # F45: the pattern as a whole against the whole value - alternatives, a leading global flag
                    first = re.escape(table[name].split('\n')[0][:2])
                    pat = rng.choice(['', table[name].split('\n')[0][:3] + '.*', '.*', 'zzz', '[a-z]+', '[\\s\\S]*\\S', first + '|zzz', 'zzz|' + first + '.*',
                                      '(?i).*', '(?s).+', first + '.*|'])
                    try:
                        keep = re.fullmatch(pat, table[name]) is not None
                    except re.error:
                        pat, keep = '.*', re.fullmatch('.*', table[name]) is not None
                    inv, val = '{%s=%s}' % (name, pat), ('' if keep else None)
                    kinds.add('inclusion')
                else:
                    pat = rng.choice(['', '.*', 'zzz', '[\\s\\S]*\\S', 'zzz|.', '(?i)ZZZ|[\\s\\S]+'])
                    keep = re.fullmatch(pat, table[name]) is None
                    inv, val = '{%s!%s}' % (name, pat), ('' if keep else None)
                    kinds.add('exclusion')
                w1, w2 = plain(rng, 1, 2), plain(rng, 1, 2)
                if '\n' in (val or '') and ctxk in ('header', 'list'):
                    ctxk = 'para-mid'
                # a list reads ahead over the raw lines: a line-leading invocation right after a list item is not seen as the item
                # or attached block it expands to (known finding F31, replayed from its witness) - not generated here
                prev = lines_a[-1] if lines_a else ''
                prev_listish = prev.startswith('- ') or (prev.startswith('{') and any(
                    prev.startswith('{%s' % n) and table.get(n, '').startswith('- ') for n in names))
                if prev_listish and ctxk in ('para-start', 'line-alone'):
                    ctxk = 'para-mid'
                if 'inclusion' in kinds and inv.startswith('{%s=' % name) or 'exclusion' in kinds and inv.startswith('{%s!' % name):
                    # inclusion / exclusion: one line of a multi-line paragraph is kept or deleted
                    w0, w3 = plain(rng, 1, 2), plain(rng, 1, 2)
                    lines_a.append('%s\n%s %s %s\n%s' % (w0, w1, inv, w2, w3))
                    lines_b.append('%s\n%s\n%s' % (w0, '%s  %s' % (w1, w2), w3) if val is not None else '%s\n%s' % (w0, w3))
                    continue
                if ctxk == 'line-alone' and val is not None and val.strip(' \t\n') != '' and val[:1] not in ' \t\n' and inv[0] != '\\':
                    # the invocation is a line of its own, the next line follows directly: exactly the lines of the value stand
                    # in its place
                    kinds.add('line-alone')
                    la, lb = '%s\n%s' % (inv, w2), '%s\n%s' % (val, w2)
                elif ctxk in ('para-mid', 'line-alone'):
                    la, lb = '%s %s %s' % (w1, inv, w2), (None if val is None else '%s %s %s' % (w1, val, w2))
                elif ctxk == 'para-start':
                    la, lb = '%s %s' % (inv, w2), (None if val is None else '%s %s' % (val, w2))
                    if val is not None and (val == '' or val[:1] in ' \t' or '\n' in val):
                        # an expansion that starts the line with a blank changes the kind of block: keep it mid-line
                        la, lb = '%s %s %s' % (w1, inv, w2), '%s %s %s' % (w1, val, w2)
                elif ctxk == 'header':
                    la, lb = '## %s %s' % (w1, inv), (None if val is None else '## %s %s' % (w1, val))
                else:
                    la, lb = '- %s %s' % (w1, inv), (None if val is None else '- %s %s' % (w1, val))
                lines_a.append(la)
                if lb is not None:
                    lines_b.append(lb)
                elif ctxk in ('para-mid', 'para-start'):
                    pass
                else:
                    # the whole line is deleted: nothing is left of the header / item
                    pass
            if rng.random() < 0.3:
                # the same invocation before and after a redefinition: the value is looked up when the invocation is rendered
                name = rng.choice([n for n in names if n in table] or ['m1'])
                args = [rng.choice(PLAIN) for _ in range(rng.randint(0, 2))]
                inv = '{%s|%s}' % (name, '|'.join(args)) if args or rng.random() < 0.5 else '{%s}' % name
                def val_of():
                    return ref_params(table[name], args) if '|' in inv else table[name]
                if name in table and '\n' not in table[name]:
                    w1 = plain(rng, 1, 2)
                    lines_a.append('%s %s end' % (w1, inv)); lines_b.append('%s %s end' % (w1, val_of()))
                    newv = rng.choice(['NEW $1 v2', 'second', '$2 swapped $1', ''])
                    d = "{%s} = '%s'" % (name, newv)
                    lines_a.append(d); lines_b.append(d)
                    table[name] = newv
                    lines_a.append('%s %s end' % (w1, inv)); lines_b.append('%s %s end' % (w1, val_of()))
                    kinds.add('redefined-between')
            mode = rng.choice([0, 0, 8, 9, 12])
            if rng.random() < 0.2:
                # the same span-rendered argument before and after a definition that changes what it renders to: the
                # invocation is its substituted text both times (nothing rendered earlier may be reused)
                arg = rng.choice(['a *brave* word', '_x_ y', '`c` d', '**s** t', 'teh end'])
                d = "{mq} = 'say $$1 now'"
                lines_a.append(d); lines_b.append(d)
                w1 = plain(rng, 1, 2)
                switch = rng.choice(["* = '<b>|</b>'", "_ = '<u>|</u>'", "` = '<tt>|</tt>'", "** = '<i>|</i>'", "/\\bteh\\b/ = 'the'",
                                     "/brave/ = 'BRAVE'"])
                for part in (None, switch, None):
                    if part is None:
                        lines_a.append('%s {mq|%s} end' % (w1, arg)); lines_b.append('%s say %s now end' % (w1, arg))
                    else:
                        lines_a.append(part); lines_b.append(part)
                if rng.random() < 0.5:
                    lines_a.append('- item {mq|%s}' % arg); lines_b.append('- item say %s now' % arg)
                kinds.add('rendered-argument-redefined-between')
                mode = 0
            yield {'a': '\n\n'.join(lines_a), 'b': '\n\n'.join(lines_b), 'safeMode': mode, 'kinds': sorted(kinds), 'literal': literal}

    def execute(self, case, ctx, res):
        kw = {'safeMode': case['safeMode'], 'reset': True, 'callback': True}
        a, _, ok1 = run_session(ctx, [dict(kw, src=case['a'])], res, case)
        b, _, ok2 = run_session(ctx, [dict(kw, src=case['b'])], res, case)
        if a[0][0] != 'ok' or b[0][0] != 'ok':
            res.violation('render failed on a macro document', case, [short(a[0]), short(b[0])])
            return
        res.oracle_checks += 1
        for k in case['kinds']:
            res.count(k)
        ws = lambda h: re.sub(r'\s+(?=<)|(?<=>)\s+', '', h)      # noqa: E731  (white space next to tags is not compared)
        if ws(a[0][1]) != ws(b[0][1]):
            res.violation('macro invocation does not render as its substituted value', case, {'invoked': a[0][1], 'substituted': b[0][1]})
            return
        for lit in case.get('literal', []):
            if lit not in a[0][1]:
                res.violation('an escaped macro invocation was not left as written', case, a[0][1])
                return
        if 'undefined' in case['kinds'] and not any(m.startswith('undefined macro') for m in a[0][2]):
            res.violation('an undefined macro invocation produced no diagnostic', case, list(a[0][2]))
            return
        if set(case['kinds']) & {'params', 'inclusion', 'exclusion'}:
            res.nontrivial(case['a'])


# ---------------------------------------------------------------------------------------------
@register
class C17(Prop):
    id = 'C17'
    rule = ('every inline element kind (7 quotes, 2 link forms, url, e-mail, images, tag, entity, anchor, macro invocation) and every '
            'line-level element kind (header, list items, block delimiters, comments, Block Attributes, definitions, API option) '
            'prefixed with a backslash, at line start, after text, inside quotes and list items, 1-8 per paragraph, safe modes 0 and '
            '1; expected = the literal text (escaped for html) and unchanged session tables; non-trivial = >= 2 escaped elements or '
            'a line-level element')

    def inline_element(self, rng):
        u = rng.choice(['http://example.com/', 'https://b.org/x'])
        w = rng.choice(PLAIN)
        return rng.choice(['*%s*' % w, '**%s**' % w, '_%s_' % w, '__%s__' % w, '`%s`' % w, '``%s``' % w, '~~%s~~' % w,
                           '[%s](%s)' % (w, u), '^[%s](%s)' % (w, u), '<%s|%s>' % (u, w), '<%s>' % u, u, '<joe@foo.com>', '<joe@foo.com|%s>' % w,
                           '<image:%s>' % u, '<image:%s|%s>' % (u, w), '![%s](%s)' % (w, u), '<b>', '</b>', '<!-- c -->', '&amp;', '&#169;', '<<#a1>>',
                           '{m1}', '{m1|%s}' % w, '{m1?}', '{m1?%s}' % w, '{nosuch?%s}' % w, '{m1=.+}', '{m1!x}', '{--}', '{m1|}'])

    LINE_ELEMENTS = ['# Header', '== Header', '- item', '* item', '. item', '.. item', 'term:: def', '..', '.....', '""', '>>', '``', '--',
                     '// comment', '/*', '.cls', '.#id9 "color:red"', "{m9} = 'v'", "/teh/ = 'the'", "|code| = '+skip'", "~ = 'a|b'",
                     ".safeMode = '1'", ".htmlReplacement = 'zz'", '<image:http://a.b/i.png>', '<image:http://a.b/i.png|alt>', '<<#a1>>',
                     '>quote paragraph', '{m1} at line start', '<div>', '// t:: d', '# h:: d', '.cls x:: y', '/* t::: d',
                     "{m9} = 'v' :: d", '.. 1) two', '//', '.. cls', '>> q', '"" cite',
                     # F48: the escaped definition of a macro that exists (the backslash escapes the invocation it starts with)
                     "{m1} = 'w'", "{m1?} = 'w'", "{m1} = 'two", "{m1|a} = 'w'"]

    def cases(self, ctx):
        rng = ctx.rng
        while True:
            mode = rng.choice([0, 1])
            head = "{m1} = 'MACRO'\n\n"
            if rng.random() < 0.15:
                # an escaped element inside the caption / alternate text of a link or image (text that is expanded again
                # when the replacement is rendered)
                w, w2 = rng.choice(PLAIN), rng.choice(PLAIN)
                u = rng.choice(['http://example.com/', '#a', 'x.png'])
                e = rng.choice(['*%s*' % w2, '_%s_' % w2, '`%s`' % w2, '**%s**' % w2, '~~%s~~' % w2, '{m1}', '{m1|%s}' % w2, '&amp;', '&#169;',
                                'http://b.org/x'])
                form = rng.randrange(5)
                if form == 0:
                    src, exp = '[%s \\%s %s](%s)' % (w, e, w2, u), '<a href="%s">%s %s %s</a>' % (u, esc(w), esc(e), esc(w2))
                elif form == 1:
                    src, exp = '^[\\%s](%s)' % (e, u), '<a href="%s" target="_blank">%s</a>' % (u, esc(e))
                elif form == 2:
                    src, exp = '<http://e.com/|%s \\%s>' % (w, e), '<a href="http://e.com/">%s %s</a>' % (esc(w), esc(e))
                elif form == 3:
                    e = rng.choice(['{m1}', '{m1|%s}' % w2])
                    src, exp = '%s <image:x.png|\\%s>' % (w, e), '%s <img src="x.png" alt="%s">' % (esc(w), esc(e))
                else:
                    e = rng.choice(['{m1}', '{m1|%s}' % w2])
                    src, exp = '%s ![\\%s](x.png)' % (w, e), '%s <img src="x.png" alt="%s">' % (esc(w), esc(e))
                if rng.random() < 0.3:
                    yield {'src': head + '- ' + src, 'expected': '<ul><li>%s</li></ul>' % exp, 'safeMode': mode, 'n': 2, 'line_level': False}
                else:
                    yield {'src': head + src, 'expected': '<p>%s</p>' % exp, 'safeMode': mode, 'n': 2, 'line_level': False}
                continue
            if rng.random() < 0.15:
                # the escaped element is the very first thing of an item, a definition, a header (nothing in front of the
                # backslash), with the shortest captions
                w = rng.choice(['x', 'X', ' ', '1', 'a', 'v'])
                u = rng.choice(['http://example.com/', 'u'])
                e = rng.choice(['[%s](%s)' % (w, u), '^[%s](%s)' % (w, u), '![%s](%s)' % (w, u), '*%s*' % w.strip(), '`%s`' % w.strip(), '<%s|%s>' % ('http://e.com/', w),
                                '{m1}', '<b>', '&amp;', '<<#a1>>', '_%s_' % w.strip()])
                if e in ('**', '``', '__'):
                    e = '*x*'
                rest = rng.choice(['', ' ' + plain(rng, 1, 2)])
                ctxs = [('- \\%s%s', '<ul><li>%s%s</li></ul>'), ('. \\%s%s', '<ol><li>%s%s</li></ol>'), ('T:: \\%s%s', '<dl><dt>T</dt><dd>%s%s</dd></dl>'),
                        ('# \\%s%s', '<h1>%s%s</h1>'), ('- a\n- \\%s%s', '<ul><li>a</li><li>%s%s</li></ul>'), ('** \\%s%s', '<ul><li>%s%s</li></ul>')]
                cs, ce = rng.choice(ctxs)
                yield {'src': head + cs % (e, rest), 'expected': ce % (esc(e), esc(rest)), 'safeMode': mode, 'n': 2, 'line_level': False}
                continue
            if rng.random() < 0.05:
                # F40: the line starts with an invocation (a line macro: expanded, read again); the escaped ones after it stay as written
                w = rng.choice(PLAIN)
                e2 = rng.choice(['{m1}', '{m1|%s}' % w.strip(), '{m1?}', '{m1!}', '{undefined}'])
                src = '{m1} %s \\%s %s \\{m1}' % (w, e2, w)
                yield {'src': head + src, 'expected': '<p>%s %s %s %s {m1}</p>' % ('MACRO' if mode == 0 or mode & 8 else '{m1}', esc(w), esc(e2), esc(w)), 'safeMode': mode, 'n': 2, 'line_level': False}
                continue
            if rng.random() < 0.6:
                n = rng.randint(1, 8)
                parts_s, parts_e = [], []
                seen_double = set()
                for _ in range(n):
                    e = self.inline_element(rng)
                    # known finding F21: after an escaped two-character quote a further quote of the same character pairs with
                    # its closing delimiter; the generator stays outside that class (the witness is replayed separately)
                    while e[:1] in seen_double and e[:1] in '*_`~':
                        e = self.inline_element(rng)
                    if e[:2] in ('**', '__', '``', '~~'):
                        seen_double.add(e[0])
                    w = rng.choice(PLAIN)
                    parts_s.append(w + ' \\' + e)
                    parts_e.append(esc(w) + ' ' + esc(e))
                s, x = ' '.join(parts_s), ' '.join(parts_e)
                where = rng.choice(['para', 'para', 'quote', 'list'])
                if where == 'para':
                    src, exp = s, '<p>%s</p>' % x
                elif where == 'quote':
                    src, exp = '%s *%s* end' % (rng.choice(PLAIN), s.replace('*', '+')), None
                    x2 = ' '.join(parts_e).replace('*', '+')
                    if '*' in s:
                        continue
                    src, exp = 'start *%s* end' % s, '<p>start <em>%s</em> end</p>' % x
                else:
                    src, exp = '- ' + s, '<ul><li>%s</li></ul>' % x
                yield {'src': head + src, 'expected': exp, 'safeMode': mode, 'n': n, 'line_level': False}
            else:
                e = rng.choice(self.LINE_ELEMENTS)
                follow = rng.choice(['', '\nnext line'])
                inline_e = esc(e)
                if e.startswith('{m1}'):
                    inline_e = esc(e)     # an escaped invocation is left as written
                src = '\\' + e + follow
                exp = '<p>%s%s</p>' % (inline_e, esc(follow))
                if mode == 1 and e == '<div>':
                    exp = '<p>&lt;div&gt;%s</p>' % esc(follow)
                # what stands before the escaped line: nothing, a paragraph, a list whose look-ahead has already examined
                # (and un-escaped) the line, a closed block
                before, bexp = rng.choice([('', ''), ('', ''), ('para before\n\n', '<p>para before</p>'), ('- item\n\n', '<ul><li>item</li></ul>'),
                                           ('. one\n.. two\n\n', '<ol><li>one<ol><li>two</li></ol></li></ol>'),
                                           ('t:: d\n\n', '<dl><dt>t</dt><dd>d</dd></dl>'), ('- item\n\n\n', '<ul><li>item</li></ul>'),
                                           ('..\ndiv\n..\n', '<p>div</p>'), ('- item\n\n  ``\n  c\n  ``\n\n', None)])
                if bexp is None:
                    before, bexp = '', ''
                yield {'src': head + before + src, 'expected': bexp + exp, 'safeMode': mode, 'n': 1, 'line_level': True,
                       'loose': bool(before)}

    def execute(self, case, ctx, res):
        base = {'safeMode': case['safeMode'], 'reset': True, 'callback': True}
        # reference state: the same session without the escaped element
        run_session(ctx, [dict(base, src="{m1} = 'MACRO'\n\n")], res, case)
        ref_state = ctx.impl.state()
        outs, _, ok = run_session(ctx, [dict(base, src=case['src'])], res, case)
        a = outs[0]
        if a[0] != 'ok':
            res.violation('render failed: %s' % (a,), case)
            return
        res.oracle_checks += 1
        st = ctx.impl.state()
        if (nonl(a[1]) != nonl(case['expected'])) if case.get('loose') else (a[1] != case['expected']):
            res.violation('an escaped element was not rendered as its literal text', case, {'got': a[1], 'expected': case['expected']})
            return
        for k in (0, 1, 3, 4, 5, 6, 7, 8, 9, 10, 11):
            if st[k] != ref_state[k]:
                res.violation('an escaped element changed session state field %d' % k, case, [short(ref_state[k]), short(st[k])])
                return
        if case['n'] >= 2 or case['line_level']:
            res.nontrivial(case['src'])
        res.count('line' if case['line_level'] else 'inline')


# ---------------------------------------------------------------------------------------------
DYNAMIC_DOCS = ['.k "a:b" #i [t="1"]\n<div class="c" style="d:e" id="own">x</div>', '.k "a:b" #i\npara *a* `b` http://u.v/ <x@y.z> {m|1}',
                "{m} = '$1 $$2'\n{m|a|b} {m?} = 'x'\n{m=a.*} {m!b}", '.k\n# Head\n\n.#j\n- a\n\n.+skip -macros\n``\ncode\n``', "/a(b)/i = '$1'\n* = '<b>|</b>'\n|code| = '<pre>|</pre>'",
                '<image:a|b> <<#x>> [c](d) ![e](f) ^[g](h) <a.b/c|d> &amp; \\\n', '.safeMode = \'1\'\n.htmlReplacement = \'x\'', 'term:: def\n\n  ind\n> q\n""\nquote\n""']

PUMP_UNITS = ['<a|', '<a@b|', '<image:a|', '[a](', '![a](', '^[a](', '*a ', '_a ', '`a ', '~~a ', '**a ', '{a|', '{a', 'http://', '&a', '<a ',
              '<!--', 'a::', '<<#a', '\\', '\\*', '.a', ' ', '\t', 'a@', '<', '# ', '"', "'", '[', '](', '- ', '. ', 'a_', '$1', '|', '::', '#a ',
              '>', '<b', '<b ', '-', '+', 'x ', '."', '.[', '.#', '<a|b', '&#', 'a\\\n']


@register
class C02(Prop):
    id = 'C02'
    rule = ('(a) termination: documents that define and invoke (mutually) recursive macros, every safe mode, must finish within the '
            'budget on the implementation and within its fuel on the model; (b) bounded work: pumped inputs (a sub-word accepted by one '
            'of the regular expressions repeated up to 4 KB quick / 8 KB thorough, alone, with a failing suffix, and as a '
            'Block Attributes / header / list / paragraph line) in safe modes 1-7 must render within seconds with at most quadratic '
            'growth of CPU time; non-trivial = distinct pumped input of >= 2 KB')
    assumptions = ['the running time of CPython sre is explored, not proved (DESIGN.md C02 b)']
    quick_cases = 160
    thorough_cases = 1500

    def corpus(self, ctx):
        out = []
        for src in ["{m} = '{m|$1 $1}'\n{m|a}", "{v1}='$1 $2'{v2}='{v1|1|2>>} $1 $+2'\n{v2|3|4} {v1|5|6}",
                    "{a} = '{b|$1.}'\n{b} = '{a|$1.}'\n{a|x}", "{m} = '{m|$1 x}\n{m|$1 y}'\n{m|a}", "{m} = 'x\n{m}'\n{m}",
                    # a sibling expansion before the recursive invocation (the end of the outer expansion must move with it)
                    "{m} = '{leaf}\n{m|$1 x}'\n{leaf} = '# L'\n{m|a}", "{m} = '{leaf}\n// c\n{m|$1 x}\n# t'\n{leaf} = '# L\n## M'\n{m|a}",
                    # two levels of nested expansion before the recursive invocation (every enclosing end must move)
                    "{h}='# h'\n{w}='\\{h}'\n{a}='\\{w}\n\\{b}'\n{b}='\\{w}\n\\{a}'\n{a}",
                    "{h}='hello'\n{a}='\\{h}\n\n\\{b}'\n{b}='\\{a}'\n{a}",
                    # recursion through container blocks (each container's content has a reader of its own: F36)
                    "{a} = '..\n\\{b}\n..'\n{b} = '...\n\\{a}\n...'\n{a}", "{a} = '\"\"\n\\{a}\n\"\"'\n{a}",
                    "{a} = '..\n# t\n\\{b}\n..'\n{b} = '>>\n\\{c}\n>>'\n{c} = '....\n\\{a}\n....'\n{a}"]:
            out.append({'kind': 'macro', 'src': src, 'safeMode': 0, 'must_finish': True})
        size = 4096 if ctx.tier == 'quick' else 8192
        for unit in ['<a|', '<a@b|', '<image:a|']:
            out.append({'kind': 'pump', 'src': unit * (size // len(unit)), 'safeMode': 1, 'size': size})
        out.append({'kind': 'pump', 'src': '.a' + ' ' * 2000 + '!', 'safeMode': 1, 'size': 2003})
        return out

    def derived(self, ctx):
        """pumped inputs derived from the parse trees of the patterns found in the current source (tools/harness/pump.py)"""
        from . import pump
        path = os.path.join(os.path.dirname(os.path.abspath(__file__)), '..', '..', 'lean', 'RimuModel', 'Generated', 'sites.json')
        sites = pump.load_sites(path) if os.path.exists(path) else []
        known = set((pat, fl & (re.I | re.M | re.S)) for _k, pat, fl in sites)
        # what the running implementation hands to `re` (patterns composed at run time, or kept where the translator does not look)
        docs = gen.corpus(ctx.repo)[:150] + DYNAMIC_DOCS
        dyn = [d for d in pump.dynamic_sites(ctx.repo, docs) if (d[1], d[2] & (re.I | re.M | re.S)) not in known]
        entries = pump.pool(sites + dyn)
        flagged, timed = pump.prescreen(entries)
        self.prescreen_stats = {'patterns': len(set(e[0] for e in entries)), 'patterns_seen_only_at_run_time': len(dyn),
                                'pumped_strings': len(entries), 'timed': timed, 'flagged': len(flagged)}
        return entries, flagged

    def cases(self, ctx):
        rng = ctx.rng
        size = 4096 if ctx.tier == 'quick' else 8192
        entries, flagged = self.derived(ctx)
        from . import pump
        for f in flagged:
            # direct search on this pattern grows faster than quadratically: does a render reach it?  As source text, and as the
            # first tag of an HTML block that pending Block Attributes are injected into (patterns applied to a tag, not to source)
            word = pump.build(f['prefix'], f['unit'], f['suffix'], size)
            n = f.get('n') or 64
            short_word = pump.build(f['prefix'], f['unit'], f['suffix'], 4 * n)
            for mode in (1, 5):
                yield {'kind': 'pump', 'src': word + '\nnext line', 'safeMode': mode, 'size': size, 'derived_from': f['site'], 'prescreen': f}
            for w in (word, short_word):
                inner = w[1:] if w.startswith('<') else w
                for lead in ('.k "a:b" #i\n', '.k\n', '."a:b"\n'):
                    yield {'kind': 'pump', 'src': lead + '<div ' + inner.replace('>', '').replace('\n', ' ') + '>x</div>\n\nnext', 'safeMode': 1,
                           'size': len(w), 'derived_from': f['site'], 'prescreen': f, 'embedding': 'first tag of an HTML block'}
        while True:
            k = rng.random()
            if k < 0.25 and entries:
                key, _pat, _fl, prefix, unit, suf = rng.choice(entries)
                lead = rng.choice(['', '', 'x ', '.', '- '])
                yield {'kind': 'pump', 'src': lead + pump.build(prefix, unit, suf, size) + '\nnext line', 'safeMode': rng.randint(1, 7),
                       'size': size, 'derived_from': key}
            elif k < 0.33:
                # expansion bookkeeping: many line macros in sequence (every one must be popped again), nested multi-line
                # expansions (the ends of the outer ones move), chains of exactly about the nesting limit
                depth = rng.choice([2, 3, 9, 10, 11, 12])
                # leaves are line blocks (a paragraph would swallow the invocation lines that follow it)
                defs = ["{c0} = '%s'" % rng.choice(['# Leaf', '# Leaf\n## two', '// gone', '# Leaf\n\npara'])]
                for i in range(1, depth):
                    defs.append("{c%d} = '%s{c%d}%s'" % (i, rng.choice(['', '# pre\n']), i - 1, rng.choice(['', '\n# post', '\n{c0}'])))
                body = ['{c%d}' % rng.randrange(depth) for _ in range(rng.randint(11, 24))]
                if rng.random() < 0.5:
                    body.insert(rng.randrange(len(body)), '\nplain paragraph\n')
                # defined last-first: a value is expanded when it is defined, so only forward references survive as invocations
                defs.reverse()
                yield {'kind': 'macro', 'src': '\n'.join(defs) + '\n\n' + '\n'.join(body), 'safeMode': rng.choice([0, 0, 8, 15]), 'must_finish': True}
            elif k < 0.42:
                # systems of line macros that invoke one another (invocations escaped in the values, so that they survive the
                # definition): cycles with one or two levels of nested expansion before the recursive invocation, helper
                # expansions before and after it
                names = ['a', 'b', 'c', 'w', 'h'][:rng.randint(3, 5)]
                defs = []
                for nm in names:
                    nlines = rng.randint(1, 3)
                    vals = []
                    rec_budget = 2
                    for _ in range(nlines):
                        if rec_budget and rng.random() < 0.7:
                            vals.append('\\{%s}' % rng.choice(names))
                            rec_budget -= 1
                        else:
                            vals.append(rng.choice(['# leaf', '// c', 'text']))
                    defs.append("{%s} = '%s'" % (nm, '\n'.join(vals)))
                if rng.random() < 0.5:
                    defs.append("{h} = '# h'")       # a leaf that the others can reach
                body = ['{%s}' % rng.choice(names) for _ in range(rng.randint(1, 2))]
                yield {'kind': 'macro', 'src': '\n'.join(defs) + '\n\n' + '\n\n'.join(body), 'safeMode': rng.choice([0, 0, 8, 9, 15]),
                       'must_finish': True}
            elif k < 0.46:
                # replacement definitions whose pattern can match the empty string (at the start, in the middle, at the very end of
                # a fragment): fragmenting must stop or move on, whatever the pattern
                pat = rng.choice(['x*', '\\b', '(?<=\\d),?', '(?=a)', 'a?', '^', '$', '(?<=a)x*', '(?<=\\d),?(?=\\d{3}\\b)', '\\B', '(?:)', 'b*?', '(?<!x)',
                                  '(x?)'])
                repl = rng.choice(["''", "'y'", "'|'", "'[$1]'", "'<i>$$1</i>'"])
                text = rng.choice(['Population 1,000', 'ba', '(see note', 'aaa', 'xxa1,2', 'b', '1', 'a x,b 12,345', plain(rng)])
                yield {'kind': 'macro', 'src': '/%s/ = %s\n%s' % (pat, repl, text), 'safeMode': 0, 'must_finish': True}
            elif k < 0.5:
                names = ['m', 'n', 'k']
                lines = []
                for _ in range(rng.randint(1, 3)):
                    nm = rng.choice(names)
                    body = rng.choice(['{%s|$1 $1}', '{%s}', 'x {%s|$1}', '{%s|$1}\n{%s|$1.}', '$1 {%s|$2|$1}', '{%s=.*}{%s|$1$1}',
                                       '{lf}\n{%s|$1 x}', '# h\n{lf}\n{%s|$1.}\n{lf}'])
                    body = body.replace('%s', rng.choice(names))
                    lines.append("{%s} = '%s'" % (nm, body))
                lines.append("{lf} = '%s'" % rng.choice(['# L', '# L\n## M', '// c']))
                for _ in range(rng.randint(1, 3)):
                    lines.append(rng.choice(['{%s|a}', '{%s}', '{%s|a|b} tail', '- {%s|a}', '.{%s|a}']) % rng.choice(names))
                yield {'kind': 'macro', 'src': '\n'.join(lines), 'safeMode': rng.choice([0, 0, 8, 9, 15, 1])}
            else:
                unit = rng.choice(PUMP_UNITS)
                if rng.random() < 0.3:
                    unit += rng.choice(PUMP_UNITS)
                body = unit * max(1, size // len(unit))
                prefix = rng.choice(['', '', '.', '# ', '- ', 'x ', '.a ', '<', '{m', '  '])
                suffix = rng.choice(['', '', '!', '>', ')', '*', '}', '\n', "'", '|'])
                yield {'kind': 'pump', 'src': (prefix + body + suffix)[:size + 16], 'safeMode': rng.randint(1, 7), 'size': size}

    def execute(self, case, ctx, res):
        impl = ctx.impl
        st = {'src': case.get('src', ''), 'safeMode': case['safeMode'], 'reset': True, 'callback': True}
        if case['kind'] == 'macro':
            impl.reset_process()
            a = impl.render(case['src'], **step_kwargs(st))
            res.oracle_checks += 1
            b = None
            if ctx.model is not None:
                ctx.model.reset_process()
                b = ctx.model.render(case['src'], **step_kwargs(st))
            if a[0] == 'exc' or (a[0] == 'fuel' and a[1] != 'budget'):
                res.violation('render raised %s' % (a,), case)
                return
            if a[0] == 'fuel':
                # Timing cannot decide termination (bounded expansion may still be exponentially large): it is a
                # violation only when the model, which is proved to terminate, finishes and the implementation does not.
                if b is not None and b[0] == 'ok':
                    res.violation('render did not finish within %.0f s although the model terminates' % impl.budget, case, short(b))
                elif case.get('must_finish'):
                    res.violation('render did not finish within %.0f s on a bounded recursive macro document' % impl.budget, case)
                else:
                    res.count('macro_both_exceeded_budget')
                return
            if b is not None:
                res.compared += 1
                if b[0] == 'fuel' and b[1] == 'model-timeout' and len(a[1]) > 20000:
                    res.count('macro_model_slow_on_large_expansion')
                elif b[0] == 'unsupported':
                    res.unsupported += 1
                elif not same_outcome(a, b, True):
                    res.disagreement(case, short(a), short(b), 'recursive macro document')
                    return
            res.nontrivial(case['src'])
            res.count('macro')
            return
        if case['kind'] == 'user-regex':
            # a regular expression taken from the source itself (inclusion / exclusion invocation): time at k and k + step
            # repetitions of the unit; exponential growth from a few bytes is a stall in the making
            impl.reset_process()
            old = impl.budget
            impl.budget = 30.0
            try:
                ts = []
                for k in (case['k'], case['k'] + case['step']):
                    src = case['template'] % (case['unit'] * k)
                    t0 = time.process_time()
                    a = impl.render(src, safeMode=case['safeMode'], reset=True, callback=True)
                    ts.append(time.process_time() - t0)
                    if a[0] == 'fuel':
                        ts[-1] = 30.0
            finally:
                impl.budget = old
            res.oracle_checks += 1
            if ts[1] > 0.05 and ts[1] / max(ts[0], 1e-3) > 2.0 ** (case['step'] - 1):
                res.violation('a pattern taken from the source makes rendering time grow exponentially (%.3f s -> %.3f s for %d more bytes)'
                              % (ts[0], ts[1], case['step'] * len(case['unit'])), case, ts)
            return
        # pumped input: CPU time of the implementation at full and half size
        for k, v in getattr(self, 'prescreen_stats', {}).items():
            res.distribution['regex_prescreen_' + k] = v
        if case.get('derived_from'):
            res.count('pump_derived_from_pattern')
        limit = 10.0 if ctx.tier == 'quick' else 20.0
        old = impl.budget
        impl.budget = limit * 3
        try:
            impl.reset_process()
            t0 = time.process_time()
            a = impl.render(case['src'], safeMode=case['safeMode'], reset=True)
            t_full = time.process_time() - t0
            res.oracle_checks += 1
            if a[0] == 'fuel' and a[1] != 'budget' and t_full <= limit:
                # The call stack (or memory) ran out quickly: a pumped quote nests more than a thousand levels deep.  That
                # is not a running-time matter, and C01 claims nesting up to depth 50 only; counted, not a C02 violation.
                res.count('pump_ended_in_%s' % a[1])
                return
            if a[0] == 'fuel' or t_full > limit:
                res.violation('%d bytes of input took more than %.0f s of CPU (%s)' % (len(case['src']), limit, a[0]), case, t_full)
                return
            if a[0] != 'ok':
                res.violation('render raised %s' % (a,), case)
                return
            if t_full > 1.0:
                half = case['src'][:len(case['src']) // 2]
                t0 = time.process_time()
                impl.render(half, safeMode=case['safeMode'], reset=True)
                t_half = max(time.process_time() - t0, 1e-3)
                res.count('measured_growth')
                if t_full / t_half > 6.5:
                    res.violation('CPU time grows faster than quadratically: %.2f s at %d bytes, %.2f s at half that' %
                                  (t_full, len(case['src']), t_half), case, [t_half, t_full])
                    return
        finally:
            impl.budget = old
        # the model must reach the same output (its own matcher is slower on long inputs: quarter-size only)
        if ctx.model is not None and len(res.sigs) % 8 == 0:
            small = dict(st, src=case['src'][:1024])
            run_session(ctx, [small], res, case)
        if len(case['src']) >= 2048:
            res.nontrivial(case['src'])
        res.count('pump')
