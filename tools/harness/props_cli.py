"""C18: the rimupy command line."""
import contextlib
import io
import os
import shutil
import sys
import tempfile

from . import gen
from .props import Prop, Result, register, short
from .props_impl import clean
from .props_grammar import plain


class CliImpl:
    """rimuc.main() in-process with patched argv / stdin / HOME / cwd (scratch directory outside /repo and /verif)."""

    def __init__(self, impl):
        self.impl = impl
        import rimuc
        import rimuc.rimuc as rr
        self.rimuc = rimuc
        self.rr = rr

    def run(self, argv, files, stdin, rimurc):
        scratch = tempfile.mkdtemp(prefix='rimuc-verif-')
        old_cwd = os.getcwd()
        old_argv, old_stdin, old_rimurc = sys.argv, sys.stdin, self.rr.RIMURC
        out, err = io.StringIO(), io.StringIO()
        code = 0
        try:
            os.chdir(scratch)
            for name, content in files.items():
                with open(os.path.join(scratch, name), 'w', newline='') as f:
                    f.write(content)
            self.rr.RIMURC = os.path.join(scratch, 'home.rimurc')
            if rimurc is not None:
                with open(self.rr.RIMURC, 'w', newline='') as f:
                    f.write(rimurc)
            self.impl.reset_process()
            sys.argv = ['rimupy'] + list(argv)
            sys.stdin = io.StringIO(stdin)
            with contextlib.redirect_stdout(out), contextlib.redirect_stderr(err):
                try:
                    self.rimuc.main()
                except SystemExit as e:
                    code = e.code if isinstance(e.code, int) else (0 if e.code is None else 1)
                except BaseException as e:    # a traceback
                    code = 1
                    err.write('Traceback ' + type(e).__name__)
            outfile = None
            original = dict(files)
            if rimurc is not None:
                original['home.rimurc'] = rimurc
            for name in sorted(os.listdir(scratch)):
                with open(os.path.join(scratch, name), newline='') as f:
                    content = f.read()
                if original.get(name) != content:
                    outfile = (name, content)
            return {'exit': code, 'stdout': out.getvalue(), 'stderr': err.getvalue(), 'outfile': outfile,
                    'rimurc_path': self.rr.RIMURC}
        finally:
            sys.argv, sys.stdin, self.rr.RIMURC = old_argv, old_stdin, old_rimurc
            os.chdir(old_cwd)
            shutil.rmtree(scratch, ignore_errors=True)


def model_cli(model, argv, files, stdin, rimurc, rimurc_path, resources_sent):
    if not resources_sent.get(id(model.p)):
        import rimuc
        for k, v in rimuc.resources.items():
            model.call(['resource', k, v])
        resources_sent.clear()
        resources_sent[id(model.p)] = True
    fl = dict(files)
    if rimurc is not None:
        fl[rimurc_path] = rimurc
    # framing characters from the private use area (the generators produce U+001E / U+001F as content)
    r = model.op(['rimuc', '\ue01f'.join(argv), stdin, rimurc_path, '\ue01f'.join('%s\ue01e%s' % (k, v) for k, v in fl.items())])
    if r[0] != 'cli':
        return {'raw': r}
    return {'exit': int(r[1]), 'stdout': r[2], 'stderr': r[3], 'outfile': (r[4], r[5]) if r[4] else None}


@register
class C18(Prop):
    id = 'C18'
    rule = ('argument vectors over all rimupy options (safe modes 0-15 and illegal values, html replacement, five layouts and '
            'illegal ones, styling shortcuts, 0-2 --prepend and --prepend-file, 0-3 input files of .rmu/.html kinds, stdin, --pass, '
            '-o, ~/.rimurc present or not, missing option values and files) with generated file contents; rimuc.main() runs '
            'in-process in a scratch directory; stdout / output file / exit status / stderr are compared with the model and with '
            'the pipeline replayed through rimu.render by the oracle; non-trivial = at least two inputs or an error path')
    assumptions = ['file system, text decoding, sys.argv and HOME are parameters of the model (trusted)']
    quick_cases = 250
    thorough_cases = 5000

    def __init__(self):
        self.sent = {}

    def content(self, rng, trusted=False):
        k = rng.random()
        if trusted and k < 0.35:
            # what a trusted input may do to the session that the inputs after it inherit - and blank inputs, which still
            # count as inputs (each is a render call with its own options)
            return rng.choice([".safeMode = '1'", ".safeMode = '3'\n<b>t</b>", ".htmlReplacement = 'TR'\n.safeMode = '2'", '', '  \n', '\n',
                               ".safeMode = '2'\n<b>t</b> text", ".safeMode = '2'", "<br> trusted html",
                               "{tm} = '<i>tm</i>'", ".safeMode = '5'\n\npara"])
        if k < 0.5:
            return clean(gen.document(rng, 1, rng.randint(1, 2)))
        if k < 0.7:
            return rng.choice(["<script>x</script>\n\npara", "{m} = 'defined'\n\n{m} used", ".safeMode = '0'\n<b>raw</b>", '*em* {undef}',
                               '..\nunterminated', '  \n', ''])
        return plain(rng) + '\n\n# ' + plain(rng)

    def cases(self, ctx):
        rng = ctx.rng
        while True:
            argv = []
            files = {}
            if rng.random() < 0.1:
                # a chain of trusted inputs (some blank, some changing the session's options) in front of untrusted ones, with and
                # without an explicit safe mode: every input is one render call, trusted ones at mode 0, the others at the given mode
                for i in range(rng.randint(1, 3)):
                    if rng.random() < 0.5:
                        name = 'pre%d.rmu' % i
                        files[name] = self.content(rng, True)
                        argv += ['--prepend-file', name]
                    else:
                        argv += [rng.choice(['--prepend', '-p']), self.content(rng, True).replace('\n', ' ') if rng.random() < 0.3 else self.content(rng, True)]
                if rng.random() < 0.4:
                    argv += ['--safe-mode', rng.choice(['0', '1', '2', '9'])]
                if rng.random() < 0.4:
                    # the replacement text given on the command line is in force for every input, trusted ones too
                    argv += [rng.choice(['--html-replacement', '--htmlReplacement']), rng.choice(['X', '[gone]', ''])]
                names = rng.choice([['doc.rmu'], ['-'], [], ['doc.rmu', 'b.rmu']])
                for n in names:
                    if n != '-':
                        files.setdefault(n, rng.choice(['<br> text <b>b</b>', '<div>html block</div>\n\npara {tm}', self.content(rng)]))
                rimurc = rng.choice([None, None, ".safeMode = '1'", ''])
                yield {'argv': ['--no-rimurc'] * (rimurc is None and rng.random() < 0.5) + argv + names, 'files': files,
                       'stdin': rng.choice(['<br> stdin <i>i</i>', self.content(rng)]), 'rimurc': rimurc}
                continue
            if rng.random() < 0.1:
                # where the output goes: a layout with exactly one named file writes <name>.html unless an output is named
                # (`-` is standard output); with two files, standard input or no layout it is standard output
                argv += rng.choice([['--layout', 'plain'], ['--layout', 'sequel'], ['--styled'], ['-s'], []])
                if rng.random() < 0.5:
                    argv += ['--safe-mode', rng.choice(['0', '1', '3', '9'])]
                if rng.random() < 0.7:
                    argv += [rng.choice(['--output', '-o']), rng.choice(['-', '-', 'out.html', 'doc.html'])]
                names = rng.choice([['doc.rmu'], ['doc.rmu'], ['a.rmu', 'doc.rmu'], ['-'], [], ['doc.rmu', '-']])
                for n in names:
                    if n != '-':
                        files.setdefault(n, self.content(rng))
                yield {'argv': argv + names, 'files': files, 'stdin': self.content(rng), 'rimurc': None}
                continue
            if rng.random() < 0.5:
                argv += [rng.choice(['--safe-mode', '--safeMode']), rng.choice(['0', '1', '2', '3', '5', '9', '15', '16', '-1', 'junk', '', ' 7 '])]
            if rng.random() < 0.2:
                argv += [rng.choice(['--html-replacement', '--htmlReplacement']), rng.choice(['[R]', 'x y', ''])]
            if rng.random() < 0.25:
                argv += [rng.choice(['--layout', '--styled-name']), rng.choice(['plain', 'plain', 'sequel', 'classic', 'flex', 'v8', 'bogus'])]
            if rng.random() < 0.1:
                argv += [rng.choice(['--styled', '-s'])]
            for _ in range(rng.choice([0, 0, 0, 1, 2])):
                argv += [rng.choice(['--prepend', '-p']), rng.choice(["{m} = 'PRE'", 'prepended *text*', '.safeMode = \'0\'', "<i>p</i>"])]
            pf = []
            for i in range(rng.choice([0, 0, 0, 1, 2])):
                name = rng.choice(['pre%d.rmu' % i, 'a.rmu', 'missing-pre.rmu'])
                if name != 'missing-pre.rmu':
                    files[name] = self.content(rng, True)
                argv += ['--prepend-file', name]
            for _ in range(rng.choice([0, 0, 0, 1])):
                argv += [rng.choice(['--title', '--lang', '--theme', '--highlightjs', '--mathjax', '--no-toc', '--header-ids', '--section-numbers',
                                     '--header-links', '--custom-toc', '--lint', '-l', '--no-rimurc'])]
                if argv[-1] in ('--title', '--lang', '--theme'):
                    argv.append(rng.choice(['My Title', 'en', 'graystone']))
            if rng.random() < 0.1:
                argv += ['--pass']
            if rng.random() < 0.15:
                argv += [rng.choice(['--output', '-o']), rng.choice(['out.html', '-', 'res.txt'])]
            if rng.random() < 0.04:
                argv += [rng.choice(['--help', '-h', '--version'])]
            if rng.random() < 0.05:
                argv += [rng.choice(['--safe-mode', '--layout', '-o', '--prepend', '--prepend-file', '--title', '--html-replacement'])]
            names = []
            for i in range(rng.choice([0, 0, 1, 1, 2, 3])):
                name = rng.choice(['a.rmu', 'b.rmu', 'doc.html', 'c.txt', 'missing.rmu', '-', 'dir.d.rmu', '.hidden'])
                if name not in ('missing.rmu', '-'):
                    files.setdefault(name, self.content(rng))
                names.append(name)
            argv += names
            rimurc = rng.choice([None, None, "{rc} = 'RC'\n.safeMode = '0'", '*rc text*', '<i>rc</i> {rc}'])
            if rimurc is not None and rng.random() < 0.3:
                argv.insert(rng.randrange(len(argv) - len(names) + 1), '--no-rimurc')
            yield {'argv': argv, 'files': files, 'stdin': self.content(rng), 'rimurc': rimurc}

    def corpus(self, ctx):
        # F50: an output file that cannot be written (the file system is a parameter of the model, where writing always succeeds:
        # implementation only)
        return [{'argv': ['--no-rimurc', o, 'no-such-dir/out.html'] + extra, 'files': {'a.rmu': 'hi *there*'} if extra else {}, 'stdin': 'hi',
                 'rimurc': None, 'unwritable': True}
                for o in ('-o', '--output') for extra in ([], ['a.rmu'])]

    def execute(self, case, ctx, res):
        cli = CliImpl(ctx.impl)
        a = cli.run(case['argv'], case['files'], case['stdin'], case['rimurc'])
        rp = a.pop('rimurc_path')
        res.oracle_checks += 1
        # -- oracle on the implementation ----------------------------------------------------------
        if 'Traceback' in a['stderr']:
            res.violation('rimupy ended in a traceback', case, a['stderr'][-300:])
            return
        if case.get('unwritable'):
            if a['exit'] != 1 or a['stdout'] != '' or a['stderr'].count('\n') != 1 or a['outfile'] is not None:
                res.violation('an output file that cannot be written must end rimupy with exit status 1 and a one-line message', case, a)
            return
        exp = self.expected(case, ctx, rp)
        if exp is not None:
            for k in ('exit', 'stdout', 'outfile'):
                if exp[k] != a[k]:
                    res.violation('rimupy %s is %s, the documented pipeline gives %s' % (k, short(a[k], 300), short(exp[k], 300)), case, None)
                    return
            if exp['usage_error']:
                lines = a['stderr'].split('\n')
                bad = a['stdout'] != '' or not a['stderr'].endswith('\n') or lines[-2] == ''
                if exp['early'] and a['stderr'].count('\n') != 1:
                    bad = True
                if not exp['early'] and not lines[-2].startswith('source file does not exist: '):
                    bad = True
                if bad:
                    res.violation('invalid usage must print a one-line message on stderr and nothing on stdout', case, a)
                    return
            if (a['exit'] == 1) != (exp['usage_error'] or exp['errors'] > 0):
                res.violation('exit status does not reflect errors', case, a)
                return
        # -- correspondence ---------------------------------------------------------------------------
        if ctx.model is not None:
            b = model_cli(ctx.model, case['argv'], case['files'], case['stdin'], case['rimurc'], rp, self.sent)
            if 'raw' in b:
                if b['raw'][0] == 'unsupported':
                    res.unsupported += 1
                else:
                    res.disagreement(case, short(a), short(b), 'rimuc op')
                return
            res.compared += 1
            if (a['exit'], a['stdout'], a['stderr'], a['outfile']) != (b['exit'], b['stdout'], b['stderr'], b['outfile']):
                res.disagreement(case, short(a, 600), short(b, 600), 'rimuc')
                return
        n_inputs = len([x for x in case['argv'] if x.endswith(('.rmu', '.html', '.txt'))])
        if n_inputs >= 2 or a['exit'] != 0:
            res.nontrivial(case['argv'])
        res.count('exit_%d' % a['exit'])

    # the documented pipeline, replayed through rimu.render
    def expected(self, case, ctx, rimurc_path):
        import rimuc
        argv = list(case['argv'])
        files = case['files']
        safe = None
        repl = None
        layout = ''
        prepend = ''
        prepend_files = []
        no_rimurc = False
        pass_through = False
        outfile = ''
        usage = {'exit': 1, 'stdout': '', 'outfile': None, 'usage_error': True, 'errors': 0, 'early': True}
        i = 0

        class Stop(Exception):
            pass

        def pop():
            nonlocal i
            if i >= len(argv):
                raise Stop()
            v = argv[i]
            i += 1
            return v
        try:
            while i < len(argv):
                arg = argv[i]
                i += 1
                if arg in ('--help', '-h', '--version'):
                    return None      # text of the manpage / version: compared with the model only
                elif arg in ('--lint', '-l'):
                    pass
                elif arg in ('--output', '-o'):
                    outfile = pop()
                elif arg == '--pass':
                    pass_through = True
                elif arg in ('--prepend', '-p'):
                    prepend += pop() + '\n'
                elif arg == '--prepend-file':
                    prepend_files.append(pop())
                elif arg == '--no-rimurc':
                    no_rimurc = True
                elif arg in ('--safe-mode', '--safeMode'):
                    v = pop()
                    try:
                        safe = int(v)
                    except ValueError:
                        return usage
                    if safe < 0 or safe > 15:
                        return usage
                elif arg in ('--html-replacement', '--htmlReplacement'):
                    repl = pop()
                elif arg in ('--highlightjs', '--mathjax', '--section-numbers', '--theme', '--title', '--lang', '--toc', '--no-toc',
                             '--sidebar-toc', '--dropdown-toc', '--custom-toc', '--header-ids', '--header-links'):
                    v = pop() if arg in ('--lang', '--title', '--theme') else 'true'
                    prepend += "{%s}='%s'\n" % (arg, v)
                elif arg in ('--layout', '--styled-name'):
                    layout = pop()
                    if layout not in ('classic', 'flex', 'plain', 'sequel', 'v8'):
                        return usage
                    prepend += "{--header-ids}='true'\n"
                elif arg in ('--styled', '-s'):
                    prepend += "{--header-ids}='true'\n{--no-toc}='true'\n"
                    layout = 'sequel'
                else:
                    i -= 1
                    break
        except Stop:
            return usage
        named = argv[i:]
        inputs = []      # (label, source or None, safe mode, verbatim)
        if not no_rimurc and case['rimurc'] is not None:
            inputs.append((rimurc_path, case['rimurc'], 0, False))
        stdin_left = [case['stdin']]
        for f in prepend_files:
            if f == '-':
                # `-` is standard input wherever it is named (rendered under the requested safe mode, read once)
                inputs.append(('/dev/stdin', stdin_left[0], safe, pass_through))
                stdin_left[0] = ''
            else:
                inputs.append((f, files.get(f), 0, f.endswith('.html') and os.path.splitext(f)[1] == '.html'))
        if prepend:
            inputs.append(('--prepend options', prepend, 0, False))
        if layout:
            inputs.append(('%s-header.rmu' % layout, rimuc.resources['%s-header.rmu' % layout], 0, False))
        if not named:
            named = ['-']
        elif len(named) == 1 and layout and named[0] != '-' and not outfile:
            outfile = os.path.splitext(named[0])[0] + '.html'
        for f in named:
            if f == '-':
                inputs.append(('/dev/stdin', stdin_left[0], safe, pass_through))
                stdin_left[0] = ''
            else:
                inputs.append((f, files.get(f), safe, os.path.splitext(f)[1] == '.html'))
        if layout:
            inputs.append(('%s-footer.rmu' % layout, rimuc.resources['%s-footer.rmu' % layout], 0, False))
        ctx.impl.reset_process()
        import rimu
        results = []
        errors = 0
        for label, source, mode, verbatim in inputs:
            if source is None:
                # missing input file: one line on stderr after the diagnostics of the inputs already rendered, exit 1
                return dict(usage, early=False)
            if verbatim:
                results.append(source)
                continue
            msgs = []
            opts = rimu.RenderOptions(safeMode=mode, htmlReplacement=repl, callback=lambda m: msgs.append(m))
            results.append(rimu.render(source, opts))
            errors += len([m for m in msgs if m.type == 'error'])
        out = '\n'.join(r.strip() for r in results if r.strip()).strip()
        to_stdout = outfile in ('', '-')
        return {'exit': 1 if errors else 0, 'stdout': out if to_stdout else '', 'outfile': None if to_stdout else (outfile, out),
                'usage_error': False, 'errors': errors}
