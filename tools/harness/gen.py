"""Input generators for the correspondence check and the failing-input searches.

Every random choice comes from the `random.Random` instance passed in (seeded from VERIF_SEED),
so a case replays exactly from (seed, index).
"""
import json
import os

WORDS = ['alpha', 'beta', 'x', 'y1', 'Foo', 'bar_baz', 'qux', 'a', 'Zed', 'it', 'is', 'ok', 'né', 'Ωmega', '42']
SPECIALS = ['<', '>', '&', '"', "'", '\\', '*', '_', '`', '~', '|', '{', '}', '$', '#', '=', '.', ':', '-', '+',
            '[', ']', '(', ')', '!', '^', '@', '/', ';']
QUOTES = ['**', '*', '__', '_', '``', '`', '~~']
URLS = ['http://a.com/', 'https://b.org/x?y=1&z=2', 'http://c.net/p#frag', 'mailto:x@y.z', 'ftp://f/', './rel/path',
        'http://a"b.com/', "http://q.com/'x"]
EMAILS = ['joe@foo.com', 'a.b-c@d-e.org', 'x@y']
ENTITIES = ['&amp;', '&copy;', '&#169;', '&#x1F600;', '&nbsp;', '&bogus', '&;']
TAGS = ['<b>', '</b>', '<br>', '<span class="x">', '</span>', '<!-- c -->', '<script>', '</script>', '<a href="u">', '</a>',
        '<img src=x onerror=y>', '<div>', '</div>']
UNICODE_EDGE = [' ', ' ', '\u0085', ' ', '　', 'é', 'ß', 'İ', 'Σ', 'ς', 'ͅ', '٣', '﻿',
                '​', '\U0001F600', 'ǅ']
RESERVED = ['\u0000', '\u0001', '\u0002']
# patterns on which CPython's pattern parser fails in its various ways (re.error, OverflowError, ValueError, RecursionError),
# or which are legal but unusual
HOSTILE_REGEX = ['a{4294967296}', 'a{' + '1' * 4400 + '}', '(' * 1200 + 'a' + ')' * 1200, '(?<=a*)b', '(?P<n>a', 'a**', '[z-a]', '\\1',
                 '(a)(?(1)b|c)', 'x{2,1}', '\\p{L}', '(?#c', 'a{1,' + '9' * 30 + '}', '(?i', '[[:alpha:]]', '\\', '(?P=n)', 'a{,}', '*a', '+',
                 '(?<!x)y', '\\Z|\\A', '[^\\s\\S]', '(|a)+b']
# line boundaries of str.splitlines() that are not line terminators for Rimu
LINESEPS = ['\x0b', '\x0c', '\x1c', '\x1d', '\x1e', '\x85', '\u2028', '\u2029']
MARKERS = ['-', '+', '*', '**', '***', '****', '.', '..', '...', '....', '::', ':::', '::::']
MACRO_NAMES = ['m', 'm1', 'mac-ro', 'x', '--', '--header-ids', 'undef']
BLOCK_NAMES = ['paragraph', 'division', 'quote', 'code', 'html', 'indented', 'quote-paragraph', 'comment',
               'macro-definition', 'bogus']
OPTIONS = ['+skip', '-skip', '+macros', '-macros', '+spans', '-spans', '+specials', '-specials', '+container',
           '-container', '+bogus', 'junk',
           # words that name something else on the object that holds the options (methods, dunder attributes)
           '+parse', '-parse', '+merge', '-copyFrom', '+__class__', '-__dict__', '+__init__', '-__eq__', '+__doc__']


def word(rng):
    return rng.choice(WORDS)


def words(rng, lo=1, hi=4):
    return ' '.join(word(rng) for _ in range(rng.randint(lo, hi)))


def inline(rng, depth=2, safe_only=False):
    """A run of inline text with markup; mostly valid."""
    parts = []
    for _ in range(rng.randint(1, 5)):
        k = rng.random()
        if k < 0.35 or depth <= 0:
            parts.append(words(rng))
        elif k < 0.50:
            q = rng.choice(QUOTES)
            parts.append(q + inline(rng, depth - 1).strip() + q)
        elif k < 0.70:
            parts.append(replacement_form(rng, depth))
        elif k < 0.76:
            parts.append(rng.choice(ENTITIES))
        elif k < 0.82:
            parts.append(rng.choice(TAGS))
        elif k < 0.88:
            parts.append(rng.choice(SPECIALS))
        elif k < 0.92:
            parts.append('\\' + rng.choice([replacement_form(rng, 0), rng.choice(QUOTES) + word(rng) + rng.choice(QUOTES),
                                           rng.choice(TAGS), rng.choice(ENTITIES), macro_invocation(rng)]))
        elif k < 0.97:
            parts.append(macro_invocation(rng))
        else:
            parts.append(rng.choice(UNICODE_EDGE + LINESEPS))
    sep = [' ', ' ', ' ', '', '\n']
    out = ''
    for p in parts:
        out += p + rng.choice(sep)
    return out.strip() or 'x'


def replacement_form(rng, depth=1):
    cap = words(rng, 1, 2) if depth <= 0 else inline(rng, depth - 1)
    cap = cap.replace('\n', ' ')
    url = rng.choice(URLS)
    k = rng.randrange(13)
    if k == 0:
        return '<<#%s>>' % rng.choice(['id1', 'a-b', 'X'])
    if k == 1:
        return '<image:%s|%s>' % (url, cap)
    if k == 2:
        return '<image:%s>' % url
    if k == 3:
        return '![%s](%s)' % (cap, url)
    if k == 4:
        return '<%s|%s>' % (rng.choice(EMAILS), cap)
    if k == 5:
        return '<%s>' % rng.choice(EMAILS)
    if k == 6:
        return '^[%s](%s)' % (cap, url)
    if k == 7:
        return '[%s](%s)' % (cap, url)
    if k == 8:
        return '<%s|%s>' % (url, cap)
    if k == 9:
        return rng.choice(TAGS)
    if k == 10:
        return '<%s>' % url
    if k == 11:
        return url
    return word(rng) + ' \\\n' + word(rng)


def macro_invocation(rng):
    name = rng.choice(MACRO_NAMES)
    k = rng.random()
    if k < 0.4:
        return '{%s}' % name
    if k < 0.7:
        return '{%s|%s}' % (name, '|'.join(word(rng) for _ in range(rng.randint(0, 3))))
    if k < 0.8:
        return '{%s=%s}' % (name, rng.choice(['', '.*', 'a.*', '[', 'x|y', '\\d+', rng.choice(HOSTILE_REGEX).replace('}', '\\}')]))
    if k < 0.9:
        return '{%s!%s}' % (name, rng.choice(['', '.*', 'a', '(', 'x', rng.choice(HOSTILE_REGEX).replace('}', '\\}')]))
    return '{%s?}' % name


def macro_definition(rng):
    name = rng.choice(MACRO_NAMES[:5] + ['--', '--header-ids']) + rng.choice(['', '', '?'])
    k = rng.random()
    if k < 0.6:
        value = rng.choice([words(rng), inline(rng, 1).replace('\n', ' '), '$1 and $2', '$1:dflt$ $$2', '{m1}', '', '1', '5',
                            '<b>$1</b>', '{%s|$1 $1}' % name.rstrip('?'), "it's", '\\$1 $0 $10'])
        return "{%s} = '%s'" % (name, value)
    lines = [words(rng) for _ in range(rng.randint(1, 3))]
    return "{%s} = '%s\n%s'" % (name, lines[0], '\n'.join(lines[1:]))


_DEFAULT_PATTERNS = None


def default_patterns():
    """pattern texts of the built-in replacement definitions of the implementation under test"""
    global _DEFAULT_PATTERNS
    if _DEFAULT_PATTERNS is None:
        try:
            from rimu import replacements
            _DEFAULT_PATTERNS = [d.match.pattern for d in replacements.DEFAULT_DEFS if "'" not in d.match.pattern and '\n' not in d.match.pattern]
        except Exception:
            _DEFAULT_PATTERNS = []
    return _DEFAULT_PATTERNS or ['x']


def definition_line(rng):
    k = rng.randrange(6)
    if k == 2 and rng.random() < 0.3:
        # a built-in replacement redefined under its own pattern text (updated in place, not appended)
        return "/%s/%s = '%s'" % (rng.choice(default_patterns()), rng.choice(['', 'i']), rng.choice(['[$1]', 'R', '', '<b>$1</b>']))
    if k == 0:
        return macro_definition(rng)
    if k == 1:
        # new quotes, and redefinitions of the default ones (tags, and the spans flag: '|' on, '||' off)
        return "%s = '%s'" % (rng.choice(['=', '#', '%%', '^', '~', '$$', '!', '_', '*', '`', '**', '``', '__']),
                              rng.choice(['<u>|</u>', '<q>||</q>', '<i>|', 'x', '<span class="a">|</span>', '<tt>|</tt>', '<i>||</i>',
                                          '{m1}|</u>', '<u class="{m2}">||</u>', '<u>|{m1}', '<b>||</{m2|b|c}>']))
    if k == 2:
        return "/%s/%s = '%s'" % (rng.choice(['\\bfoo\\b', 'x+', '(a)|(b)', '(', 'a*', '(.+)', '[a-z]{2}', '\\\\?\\.{3}', 'A', '(?i)q',
                                              rng.choice(HOSTILE_REGEX)]),
                                  rng.choice(['', 'i', 'g', 'm', 'ig']),
                                  rng.choice(['bar', '[$1]', '$$1', '<b>$1</b>', '$2$1', '', '&hellip;', '{m1}', 'v {m2|a|b}', '$a $1', '$$b',
                                              '$_x', '\\$1', '$', '<i>$0</i>', '$0$1', '[$$0]', '$9', '$0 $2', '<a href="$0">$1</a>']))
    if k == 3:
        return "|%s| = '%s'" % (rng.choice(BLOCK_NAMES),
                                rng.choice(['<section>|</section>', '<p class="x">|</p> +spans', '-macros', '+skip', 'junk',
                                            '<div>|</div> -container +spans', '', '+', '-', '<a>|</a>+skip', '<b title="{m1}">|</b>', '+container', '<div>|</div> +container',
                                            '+skipx', 'x+skip', '-specials +macros', '<i>|</i>  -spans']))
    if k == 4:
        return ".%s = '%s'" % (rng.choice(['safeMode', 'htmlReplacement', 'reset', 'bogus', 'callback', 'init', 'errorCallback']),
                               rng.choice(['0', '1', '5', '15', '16', '-1', 'x', 'true', 'false', '<i>r</i>', '', '{m1}', '{m2|1|5}']))
    return '// ' + words(rng)


def attributes_line(rng):
    parts = ['.']
    if rng.random() < 0.6:
        parts.append(' '.join(rng.choice(['cls', 'a-b', 'Big', 'x1']) for _ in range(rng.randint(1, 2))))
    if rng.random() < 0.4:
        parts.append(' #' + rng.choice(['id1', 'ID2', 'a-b', 'dup']))
    if rng.random() < 0.3:
        parts.append(' "' + rng.choice(['color:red', 'margin:0;', 'a:b" x="y', 'c:d']) + '"')
    if rng.random() < 0.25:
        parts.append(' [' + rng.choice(['title="t"', 'data-x=1', 'onclick="e()"']) + ']')
    if rng.random() < 0.3:
        parts.append(' ' + ' '.join(rng.choice(OPTIONS) for _ in range(rng.randint(1, 2))))
    s = ''.join(parts)
    return s if len(s) > 1 else '.cls'


def list_block(rng, depth=2):
    lines = []
    n = rng.randint(1, 4)
    used = [rng.choice(MARKERS)]
    for _ in range(n):
        mk = rng.choice(used) if rng.random() < 0.7 else rng.choice(MARKERS)
        if mk not in used:
            used.append(mk)
        text = inline(rng, 1).replace('\n', ' ')
        if mk.startswith(':'):
            lines.append('%s%s %s' % (word(rng), mk, text))
        else:
            lines.append('%s %s' % (mk, text))
        if rng.random() < 0.2:
            lines.append('  ' + words(rng))
        if rng.random() < 0.15 and depth > 0:
            lines.append(rng.choice(['', '']) + rng.choice(['```\ncode <x>\n```', '""\nquoted\n""', '..\ndiv\n..', '\n  indented', '<div>h</div>\n']))
        if rng.random() < 0.15:
            lines.append('')
    return '\n'.join(lines)


def block(rng, depth=2):
    k = rng.random()
    if k < 0.25:
        return inline(rng, 2)
    if k < 0.33:
        mark = rng.choice(['#', '=']) * rng.randint(1, 6)
        t = inline(rng, 1).replace('\n', ' ')
        return '%s %s%s' % (mark, t, rng.choice(['', ' ' + mark]))
    if k < 0.41:
        fence = rng.choice(['``', '```', '--', '----', '`` js'])
        body = '\n'.join(inline(rng, 1) for _ in range(rng.randint(0, 2)))
        return '%s\n%s\n%s' % (fence, body, fence.split(' ')[0]) if rng.random() < 0.9 else '%s\n%s' % (fence, body)
    if k < 0.46:
        return '\n'.join('  ' + l for l in inline(rng, 1).split('\n'))
    if k < 0.54 and depth > 0:
        d = rng.choice(['""', '"""', '>>', '..', '...', '.....', '.. cls', '"" q1 q2'])
        body = document(rng, depth - 1, rng.randint(1, 2))
        close = d.split(' ')[0]
        return '%s\n%s\n%s' % (d, body, close) if rng.random() < 0.9 else '%s\n%s' % (d, body)
    if k < 0.58:
        return '\n'.join('>' + l for l in inline(rng, 1).split('\n'))
    if k < 0.66:
        return rng.choice(['<div class="z">\n<p>raw</p>\n</div>', '<!-- comment -->', '<script>alert(1)</script>', '<hr>',
                           '<!DOCTYPE html>', '<table>\n<tr><td>{m}</td></tr>\n</table>', '</div>', '<b>inline start</b> text'])
    if k < 0.70:
        return rng.choice(['/*\ncomment\n*/', '// line comment', '/*\nunterminated'])
    if k < 0.80:
        return list_block(rng, depth)
    if k < 0.88:
        return attributes_line(rng)
    if k < 0.96:
        return definition_line(rng)
    return rng.choice(['<image:%s|%s>' % (rng.choice(URLS), words(rng)), '<image:%s>' % rng.choice(URLS), '<<#anchor>>',
                       '{m|%s}' % words(rng), '{undef}', '<<#{m1}>>', '<image:{m1}|{m2|a|b}>', '<image:i.png|>', '<image:|alt>', '//',
                       '//' + words(rng), '>', '>\n>' + words(rng)])


def document(rng, depth=2, nblocks=None):
    n = nblocks if nblocks is not None else rng.randint(1, 6)
    out = []
    for _ in range(n):
        out.append(block(rng, depth))
        out.append(rng.choice(['\n\n', '\n\n', '\n\n\n', '\n']))
    return ''.join(out).rstrip('\n') + rng.choice(['', '\n'])


def malform(rng, src):
    """Character / line level damage."""
    s = list(src)
    for _ in range(rng.randint(1, 4)):
        k = rng.random()
        pos = rng.randrange(len(s) + 1)
        if k < 0.3 and s:
            del s[min(pos, len(s) - 1)]
        elif k < 0.6:
            s.insert(pos, rng.choice(SPECIALS + RESERVED + UNICODE_EDGE + LINESEPS + ['\r', '\r\n', '\n', ' ', '\t']))
        elif k < 0.8 and s:
            a = min(pos, len(s) - 1)
            b = min(len(s), a + rng.randint(1, 12))
            s[a:a] = s[a:b]
        else:
            s.insert(pos, rng.choice(QUOTES + ['<', '>>', '..', '```', '{m', '}', "'", '\\']))
    return ''.join(s)


_CORPUS = None


def corpus(repo):
    """Inputs of the repository's own JSON cases."""
    global _CORPUS
    if _CORPUS is None:
        with open(os.path.join(repo, 'tests', 'rimu-tests.json')) as f:
            data = json.load(f)
        _CORPUS = [d for d in data if 'py' not in d.get('unsupported', '')]
    return _CORPUS


def corpus_mutant(rng, repo):
    c = rng.choice(corpus(repo))
    return malform(rng, c['input'])


SAFE_MODES = list(range(16))


# ---------------------------------------------------------------------------------------------
# feature combinations: definitions, pending state and the elements that consume them, composed deliberately (the
# grammar generators above produce these features too, but rarely together)
# ---------------------------------------------------------------------------------------------

COMBO_DEFS = [
    "{u} = 'h style='", "{u} = 'x\" y=\"z'", "{u} = 'a b'", "{u} = ''", "{u?} = 'kept'", "{q} = '$$1'", "{q} = 'pre $$1 post $2:dflt$'",
    "{t} = '<b>$1'", "{t} = '# $1\n\npara $2'", "{t} = 'one\ntwo\n'", "{t} = '\\{u}'", "{--header-ids} = 'true'", "{--} = 'x'",
    "~ = '<u>|</u>'", "%% = '<ins>|</ins>'", "= = '<i class=\"{u}\">||</i>'", "_ = '<em class=\"e\">|</em>'", "`` = '<kbd>||</kbd>'",
    "/zz/ = '[$1]'", "/(z+)/i = '<s>$$1</s>$1'", "/\\bteh\\b/ = 'the'", "/(a)|(b)/ = '$2$1'",
    "|code| = '<pre class=\"k\">|</pre> +macros'", "|paragraph| = '<p style=\"a:b\">|</p>'", "|division| = '<section>|</section> -container +spans'",
    "|paragraph| = '<p class=\"normal\">|</p>'", "|division| = '<div id=\"d0\" style=\"x:y\">|</div>'", "|quote| = '<blockquote class=\"q\">|</blockquote>'",
    "|quote-paragraph| = '<blockquote style=\"m:0\"><p>|</p></blockquote>'", "|indented| = '<pre id=\"own\"><code>|</code></pre>'",
    "= = '<mark>|</mark>'", "== = '<mark>||</mark>'", "+ = '<ins>|</ins>'", "! = '<b class=\"w\">|</b>'",
    "|quote| = '+macros'", "|indented| = '-specials'", "|html| = '+skip'", "|comment| = '-skip'",
    ".safeMode = '3'", ".safeMode = '12'", ".htmlReplacement = '<i>{u}</i>'", ".reset = 'true'",
]
# trusted "carrier" macros (the expansion is what the invoking document passes in, or a fixed element) and invocations that
# would smuggle a definition or an option element through them
CARRIER_DEFS = ["{note} = '$1'", "{opt} = '.safeMode = \'0\''", "{wrap} = '$1\n$2'", "{rep} = '.htmlReplacement = \'$1\''", "{qd} = '$1 = \'<s>|</s>\''"]
CARRIER_USES = ["{note|.safeMode='0'}", "{note|.safeMode = '0'}", "{opt}", "{note|.htmlReplacement='smuggled'}", "{rep|smuggled}", "{note|.reset='true'}",
                "{wrap|.safeMode='0'|next}", "{note|* = '<b>\\|</b>'}", "{qd|~}", "{note|/teh/ = 'the'}", "{note|\\|code\\| = '<pre>\\|</pre>'}",
                "{note|\\{smug\\} = 'v'}", "{note|# H}", "{note|// c}"]

COMBO_PENDING = ['.k1 k2', '.#i7', '.#I7', '."a:b"', '."c:d;"', '.[title="{u}"]', '.k #j "e:f" [data-x="1"]', '.+skip', '.-macros', '.-spans', '.+macros +spans',
                 '.-specials', '.+container', '.-container', '.+specials -spans', '.k1\n.k2 #i8', '.-macros\n.+skip']
# pieces of one Block Attributes line (1-4 of them make a line): class names, id, css (with the backslash sequences an `re` template or a
# string escape would interpret), html attributes, block options
PENDING_PIECES = [
    ['k1', 'k1 k2', 'note', 'Big x1'], ['#i7', '#I7', '#own', '#d0'],
    ['"a:b"', '"c:d;"', '"width:100px\\0/"', '"background:url(img\\icons\\dot.png)"', '"quotes:\'\\e900\'"', '"a:\\g<1>"', '"c:\\1\\2;d:\\01"', '"e:\\n\\t"'],
    ['[title="{u}"]', '[data-x="1"]', '[title=\'6" nail\']', '[data-p="a\\1b"]'],
    ['+skip', '-macros', '-spans', '+container', '-container', '+specials', '-specials', '+macros +spans', '-skip'],
]


def pending_line(rng):
    k = rng.randint(1, 4)
    idx = sorted(rng.sample(range(len(PENDING_PIECES)), k))
    return '.' + ' '.join(rng.choice(PENDING_PIECES[i]) for i in idx)


# state-changing lines after which an earlier chunk is repeated verbatim (what a stale cache would get wrong)
COMBO_SWITCHES = [".safeMode = '1'", ".safeMode = '2'", ".safeMode = '5'", ".htmlReplacement = '[R]'", "* = '<b>|</b>'", "_ = '<u>|</u>'", "` = '<tt>|</tt>'",
                  "{u} = 'changed'", "{q} = '[$1]'", "{t} = '<i>$1</i>'", "/zz/ = 'ZZ'", "/\\bteh\\b/ = 'THE'", "|paragraph| = '<p class=\"late\">|</p>'",
                  "{--header-ids} = ''", "~ = '<sub>|</sub>'", "= = '<mark>|</mark>'"]

COMBO_CONSUMERS = [
    'para {u} *e* {q|_a_|b} zz &x', '# Head {u} zz', '== Head two ==', '- item {u}\n- {q|*x*}\n\n  attached {t|v}', '. one\n.. two zz\n. three',
    'term:: def {u}\n\n  ``\n  code {u}\n  ``', '``\ncode {u} *e* <b>\n``', '`` js\ncode\n``', '  indented {u} *e*', '""\nquote {u}\n\n- li\n""',
    '..\ndiv {u} zz\n\n.k9\ninner para\n..', '.. cls\n{t|a|b}\n..', '<div class="c" style="s:t" id="own">{u}</div>', '<p>raw {q|*x*}</p>\n',
    '<image:{u}|alt {u}>', '<image:pic.png>', '<<#a{u}>>', '/*\ncomment {u}\n*/', '// line', '{t|x|y}', '{t|x}\nnext line', '{undefined|x}',
    '> quote para {u}', '>>\nq2\n>>', '[cap {u} http://u.v/ zz](http://h/{u})', '<http://h/|cap *e*> ~w~ =v= %%p%%', '\\{u} \\*lit* \\<b>',
    '<joe@foo.com|{u}> ![a {u}](i.png) ^[c](http://x/)', '..\n..', '``\n``', 'a \\\nb', '*a _b* c_ `d*`',
    # first tags that already carry some of the attributes
    '<div class="box">x {u}</div>', '<div style="margin:0">x</div>', '<div id="own">x</div>', '<p class="a" style="b:c">x</p>', "<div title='6\" nail' class=\"a\">x</div>",
    "<div a='1' b='2' c='3' d='4'>x</div>", '<section data-k="v">x *e*</section>', 'Press <kbd>Enter</kbd> to {q|*go*} on', 'say {q|a *brave* word} zz',
    # urls and quotes next to each other
    'see =mark http://u.v/p= today', 'see ==x http://u.v/== end', '~w http://a.b/c~ and +http://h/q?x=+ !http://e.f/! ', '*http://a.b/c* _<http://d.e/>_ `http://f.g/`',
    '#### Head `c` zz ####', 'term:: =def= {u}', '- =a http://u.v/=\n- {q|=b=}',
    # blocks whose whole text expands to nothing when macros are on
    '  {--}', '  {--} \n  {--}', '> {--}', '``\n{--}\n``', '..\n{--}\n..', '  {u?}', '<div>{--}</div>', '- {--}\n\n  {--}',
]


def combo_source(rng):
    """3-9 features: definitions first (sometimes later), pending Block Attributes right before consumers, sometimes with line
    blocks, lists or blank lines in between."""
    parts = [rng.choice(COMBO_DEFS) for _ in range(rng.randint(1, 3))]
    used = []
    for _ in range(rng.randint(1, 4)):
        if used and rng.random() < 0.25:
            # something that changes what a text renders to, then the very same text again
            parts.append(rng.choice(COMBO_SWITCHES))
            parts.append(rng.choice(used))
            continue
        if rng.random() < 0.6:
            pend = rng.choice(COMBO_PENDING) if rng.random() < 0.5 else pending_line(rng)
            if rng.random() < 0.25:
                pend += '\n' + rng.choice(['// c', '', "{u} = 'late'", '# H zz'])
            used.append(rng.choice(COMBO_CONSUMERS))
            parts.append(pend + '\n' + used[-1])
        else:
            used.append(rng.choice(COMBO_CONSUMERS))
            parts.append(used[-1])
        if rng.random() < 0.2:
            parts.append(rng.choice(COMBO_DEFS))
    if rng.random() < 0.2:
        parts.append(rng.choice(COMBO_PENDING))          # left pending at the end
    return '\n\n'.join(parts) + rng.choice(['', '\n'])


def any_source(rng, repo):
    k = rng.random()
    if k < 0.2:
        return combo_source(rng)
    if k < 0.55:
        return document(rng)
    if k < 0.75:
        return malform(rng, document(rng))
    if k < 0.95:
        return corpus_mutant(rng, repo)
    return inline(rng, 3)
