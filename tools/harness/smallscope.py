"""Small-scope correspondence: every document of up to k lines over an alphabet of line tokens that covers the syntax of
the language systematically (every spelling of every delimiter, marker, definition, escape ...), rendered by the
implementation and by the model, outcomes compared.  It widens the tie between model and code where it is weakest - the
shapes the per-property generators happen not to produce - and it is the failing-input search of last resort: a
document on which the changed code and the model differ is a concrete lead, handed to the property's oracle.

quick tier: only when the source differs from the tree the model was last validated on; thorough tier: always.
Parallel over the cores (one model driver per worker); deterministic for a given seed."""
import hashlib
import itertools
import multiprocessing
import os
import random
import time

GROUPS = {
    'blank': [''],
    'para': ['p *e* `c`', 'x <b>t</b> &amp; <u', 'http://a.b/c <c@d.ef> [t](u)', 'a \\*b* \\\\ c', 'w "q\\` z', '<image:i.png|a"b> ^[t](u)',
             'x \\', 'a_b_c __s__ ~~d~~', '&_x; &#zz; &copy; &#38;', '<http://u.v/|cap *x*> <u.v>', 'al pha be\x0cta', '*a _b* c_', '$1 $$2 $0', '<!-- c --> <br> <i>'],
    'escaped-line': ['\\- a', '\\# h', '\\..', '\\{m}', '\\.cls', '\\``', '\\// c', "\\{m} = 'v'", "\\.safeMode = '1'", '\\<div>', '\\t:: d'],
    'list': ['- a', '* b', '** c', '+ d', '. e', '.. f', '1. g', 't:: d', 'u::: e', 't::', '- ', '  cont', 'cont *e*', '**** deep', '- {m}', '- <b>'],
    'delim': ['..', '...', '..cls', '.. c1 c2', '""', '"""', '""cls', '>>', '>> cls', '>>>', '``', '```', '`` py', '--', '---', '-- js', '/*', '*/',
              '// c', '  ind', '    ind2', '> qp', '>qp2', '<div>', '</div>', '<hr>', '<div class="k" style="s">', '<!-- c -->', '<!DOCTYPE html>',
              '<p class="n">one</p>', '<span>inline</span> tail'],
    'header': ['# h', '## h *e*', '= h =', '=== h', '###### h6', '####### h7', '# h id="x"', '#', '# {m}', '# <a href=#>x</a> #', '== a ==> b'],
    'image': ['<image:i.png>', '<image:i.png|alt>', '<<#anchor>>', '<<#1bad>>'],
    'attrs': ['.cls', '.c1 c2', '.#id1', '.#ID1', '."c:d"', '."e:f;"', '.[t="1"]', '.+skip', '.-macros', '.-spans', '.+spans +macros', '.-specials',
              '.+container', '.-container', '.cls #id1 "c:d" [t="1"] +macros', '.+bogus', '. cls', '.cls.', '.NET rocks'],
    'macrodef': ["{m} = 'v'", "{m} = '$1 $$2'", "{m} = '$1:d$ \\$2'", "{m?} = 'w'", "{u} = ''", "{--header-ids} = 'true'", "{--} = 'x'", "{m} = 'two",
                 "lines'", "{m} = '- item'", "{m} = '..'", "{m} = '{u} {m}'", "{n} = '\\{m}'", "{m} = '.cls'", "{m} = '.safeMode = \\'1\\''",
                 "{m-2} = 'h'", "{M} = 'up'"],
    'invoke': ['{m}', '{m|a|b}', '{m} \\{m}', '{u}', '{m=v}x', '{m!v}x', '{--=}y', '{--!}y', 'x {m} y', '{m?d}', '{m|}', '{m||b}', '{m|\\}|c}',
               '{n}', '{m-2}', '{M}', '{m=(}z', '{m} {u} {m|q}', '{undefined}', '\\{m|a}', '{m=.*}k', '{m=}k', '{m=v|w}a', '{m!vv|v}b', '{m=(?i)V}c',
               '{m=v$}d', '{m=^v}e'],
    'quotedef': ["* = '<b>|</b>'", "* = '[|'", "_ = '|]'", "= = '<u>||</u>'", "** = '|'", "` = '<tt>|</tt>'", "## = '<q>|</q>'", "~ = 'x'", "* = ''",
                 "$ = '<var>|</var>'"],
    'repldef': ["/x/ = 'y'", "/(x)/ = '$0$1'", "/(a)|(b)/ = '[$2]'", "/x*/ = 'y'", "/(/ = 'z'", "/p/i = '<b>$1</b>'", "/\\bt\\b/ = '$$0'", "/e/ = ''",
                "/\\\\?<image:([^\\s|]+?)>/ = 'IMG($1)'", "/./m = '$9'"],
    'blockdef': ["|code| = '<tt>|</tt>'", "|paragraph| = '+container'", "|division| = '-container'", "|quote| = '<q>|</q> +macros'", "|html| = '+skip'",
                 "|bogus| = '<p>|</p>'", "|comment| = '-skip'", "|indented| = '<pre>|</pre> +spans'", "|code| = 'junk'", "|quote-paragraph| = '+container'"],
    'option': [".safeMode = '1'", ".safeMode = '0'", ".safeMode = '16'", ".safeMode = '12'", ".reset = 'true'", ".reset = 'junk'", ".htmlReplacement = 'R'",
               ".htmlReplacement = ''", ".bogus = '1'", ".callback = 'x'"],
}

ALL = list(GROUPS)
PROP_GROUPS = {
    'C01': ALL, 'C02': ['blank', 'para', 'list', 'delim', 'macrodef', 'invoke', 'repldef', 'blockdef'],
    'C03': ['blank', 'para', 'list', 'delim', 'header', 'image', 'attrs', 'macrodef', 'invoke', 'option'],
    'C04': ['blank', 'para', 'macrodef', 'invoke', 'quotedef', 'repldef', 'blockdef', 'option', 'attrs', 'delim'],
    'C05': ALL, 'C06': ['blank', 'para', 'list', 'delim', 'header', 'attrs', 'macrodef', 'invoke', 'quotedef', 'blockdef'],
    'C07': ['blank', 'para', 'quotedef', 'repldef', 'invoke', 'macrodef'],
    'C08': ['blank', 'para', 'delim', 'header', 'image', 'escaped-line', 'list', 'attrs'],
    'C09': ['blank', 'para', 'delim', 'attrs', 'macrodef', 'invoke', 'list'],
    'C10': ['blank', 'list', 'delim', 'attrs', 'para', 'escaped-line'],
    'C11': ['blank', 'macrodef', 'invoke', 'para', 'list', 'delim'],
    'C12': ['blank', 'attrs', 'delim', 'header', 'image', 'list', 'para', 'option'],
    'C13': ['blank', 'para', 'delim', 'list', 'attrs', 'macrodef', 'invoke', 'header'],
    'C14': ALL, 'C15': ['blank', 'header', 'attrs', 'macrodef', 'list', 'delim', 'para', 'option'],
    'C16': ['blank', 'para', 'delim', 'list', 'header', 'invoke', 'macrodef'],
    'C17': ['blank', 'escaped-line', 'para', 'list', 'delim', 'macrodef', 'invoke', 'attrs', 'option'],
    'C18': [],  # (the command line has a pipeline of its own)
    'C19': ['blank', 'delim', 'macrodef', 'invoke', 'option', 'attrs', 'blockdef', 'repldef', 'quotedef', 'para', 'list'],
    'C20': ['blank', 'option', 'macrodef', 'invoke', 'para'],
}
# the safe modes a document is rendered in besides 0 (one of them per document, chosen by its hash)
PROP_MODES = {'C03': [1, 2, 3, 5, 7, 9, 11, 15], 'C13': [1, 2, 3, 9, 10, 11], 'C06': [1, 2, 3, 9, 11], 'C04': [1, 4, 8, 9, 15], 'C20': [1, 5, 15],
              'C12': [1, 4, 5, 8]}
DEFAULT_MODES = [1, 3, 4, 8, 9, 15]
# properties whose statement is about successive calls: the document is rendered as two calls as well (split at every line)
SESSION_PROPS = {'C04', 'C05', 'C14', 'C15', 'C20', 'C12', 'C19'}


def alphabet(pid):
    out = []
    for g in PROP_GROUPS.get(pid, []):
        out.extend(GROUPS[g])
    return out


def documents(pid, seed, limit, k=3):
    """All line sequences of length < k, then sequences of length k (all of them if they fit the limit, else a seeded sample),
    then a sample of longer ones.  Deterministic in (pid, seed, limit)."""
    lines = alphabet(pid)
    rng = random.Random('%s:%s' % (pid, seed))
    n = 0
    for length in range(1, k):
        for t in itertools.product(lines, repeat=length):
            if n >= limit:
                return
            n += 1
            yield t
    total_k = len(lines) ** k
    if total_k <= limit - n:
        for t in itertools.product(lines, repeat=k):
            n += 1
            yield t
    while n < limit:
        length = k if rng.random() < 0.7 else rng.randint(k + 1, k + 3)
        n += 1
        yield tuple(rng.choice(lines) for _ in range(length))


def _mode_for(pid, text):
    modes = PROP_MODES.get(pid, DEFAULT_MODES)
    h = int(hashlib.sha1(text.encode('utf-8', 'surrogatepass')).hexdigest()[:8], 16)
    return modes[h % len(modes)]


def _cases_for(pid, t):
    text = '\n'.join(t)
    m = _mode_for(pid, text)
    yield {'steps': [{'src': text, 'safeMode': 0, 'reset': True, 'callback': True}]}
    yield {'steps': [{'src': text, 'safeMode': m, 'reset': True, 'callback': True}]}
    if pid in SESSION_PROPS and len(t) >= 2:
        cut = 1 + (len(text) % (len(t) - 1)) if len(t) > 2 else 1
        a, b = '\n'.join(t[:cut]), '\n'.join(t[cut:])
        # a trusted call, then a call in a safe mode (or without options) in the same session
        yield {'steps': [{'src': a, 'safeMode': 0, 'reset': True, 'callback': True}, {'src': b, 'safeMode': m if len(text) % 2 else None, 'callback': bool(len(text) % 3)}]}


def _worker(args):
    pid, seed, limit, k, shard, nshards, budget_s, with_state = args
    from .protocol import Impl, Model, ModelError
    from .props import same_outcome, step_kwargs, short
    impl = Impl()
    try:
        model = Model()
    except ModelError as e:
        return {'error': str(e), 'docs': 0, 'compared': 0, 'leads': []}
    leads = []
    docs = compared = skipped = 0
    t0 = time.time()
    try:
        for i, t in enumerate(documents(pid, seed, limit, k)):
            if i % nshards != shard:
                continue
            if time.time() - t0 > budget_s:
                skipped += 1
                continue
            docs += 1
            for case in _cases_for(pid, t):
                steps = case['steps']
                if len(steps) > 1:
                    impl.reset_process()
                    model.reset_process()
                bad = None
                for si, st in enumerate(steps):
                    kw = step_kwargs(st)
                    a = impl.render(st['src'], **kw)
                    b = model.render(st['src'], **kw)
                    if b[0] == 'unsupported' or (a[0] == 'fuel' and b[0] == 'fuel'):
                        break
                    if b[0] == 'fuel' and b[1] == 'model-timeout':
                        break
                    compared += 1
                    if not same_outcome(a, b, kw.get('callback')):
                        bad = (si, short(a), short(b))
                        break
                    if a[0] != 'ok':
                        break
                else:
                    if with_state and compared % 7 == 0:
                        sa, sb = impl.state(), model.state()
                        if sa != sb:
                            diff = [(kk, short(x, 120), short(y, 120)) for kk, (x, y) in enumerate(zip(sa, sb)) if x != y]
                            bad = (len(steps) - 1, 'state ' + short(diff, 500), 'state')
                if bad is not None:
                    leads.append({'case': case, 'step': bad[0], 'impl': bad[1], 'model': bad[2]})
                    # both sides start the next document from scratch
                    impl.reset_process()
                    model.reset_process()
                    if len(leads) >= 8:
                        raise StopIteration
    except StopIteration:
        pass
    finally:
        model.close()
    return {'docs': docs, 'compared': compared, 'leads': leads, 'skipped_on_time': skipped, 'seconds': round(time.time() - t0, 2)}


def run(pid, seed, limit, k=3, nproc=None, budget_s=60.0, with_state=True):
    """Returns (leads, stats)."""
    if not PROP_GROUPS.get(pid):
        return [], {'documents': 0, 'note': 'no small-scope alphabet for this property'}
    nproc = nproc or max(1, min(16, (os.cpu_count() or 2)))
    args = [(pid, seed, limit, k, s, nproc, budget_s, with_state) for s in range(nproc)]
    ctx = multiprocessing.get_context('fork')
    t0 = time.time()
    with ctx.Pool(nproc) as pool:
        parts = pool.map(_worker, args)
    leads = []
    for p in parts:
        leads.extend(p.get('leads', []))
    # shortest first: the most readable replay
    leads.sort(key=lambda l: (sum(len(s['src']) for s in l['case']['steps']), repr(l['case'])))
    stats = {'alphabet_lines': len(alphabet(pid)), 'max_lines_exhaustive': k - 1 if len(alphabet(pid)) ** k > limit else k,
             'documents': sum(p.get('docs', 0) for p in parts), 'renders_compared': sum(p.get('compared', 0) for p in parts),
             'documents_skipped_on_time_budget': sum(p.get('skipped_on_time', 0) for p in parts), 'workers': nproc,
             'disagreements': len(leads), 'wall_s': round(time.time() - t0, 2),
             'errors': [p['error'] for p in parts if p.get('error')]}
    return leads, stats
