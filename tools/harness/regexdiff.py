"""Differential check of the model's regular-expression matcher against CPython's `re`, pattern by pattern.

For every pattern the translator found in the current source (sites.json) strings are derived from the pattern's own
parse tree (words it accepts, pumped repeats, and random edits of those) and `search` / `match` are run on both sides;
spans of the whole match and of every group must agree.  This is validation of the matcher (part of the trusted base),
not a proof; it runs inside every check so that an edit of a pattern, or of the matcher, is seen at once.
"""
import os
import random
import re

from . import pump

ALPHABET = list(' \t\nab0.-_*`"\'=|#<>&\\{}[]():/~^@+!$;AéΩ') + ['\r']


def strings_for(pattern, flags, rng, n):
    out = []
    pumps = pump.pumps_of(pattern, flags & (re.I | re.M | re.S))
    seeds = set()
    for prefix, unit in pumps:
        for k in (0, 1, 2, 5):
            seeds.add(prefix + unit * k)
    try:
        tree = pump._parser.parse(pattern, flags & (re.I | re.M | re.S))
        for pref in ('a', ' ', '0', '.'):
            seeds.add(pump.sample(tree.state, list(tree), flags | tree.state.flags, pref))
    except Exception:   # noqa
        pass
    seeds = sorted(seeds) or ['']
    while len(out) < n:
        s = rng.choice(seeds)
        r = rng.random()
        if r < 0.3:
            pass
        elif r < 0.5 and s:
            i = rng.randrange(len(s))
            s = s[:i] + s[i + 1:]
        elif r < 0.75:
            i = rng.randrange(len(s) + 1)
            s = s[:i] + rng.choice(ALPHABET) + s[i:]
        elif r < 0.9:
            s = s + rng.choice(seeds)
        else:
            s = rng.choice(['x ', '\\', '> ']) + s + rng.choice(['', ' y', '\n'])
        out.append(s[:200])
    return out


def fmt(m, ngroups):
    if m is None:
        return 'none'
    return 'match\t' + ' '.join('N' if m.span(i) == (-1, -1) else '%d-%d' % m.span(i) for i in range(ngroups + 1))


def run(model, sites_path, rng, per_site):
    """returns (compared, disagreements)"""
    compared = 0
    bad = []
    for key, pat, flags in pump.load_sites(sites_path):
        try:
            cp = re.compile(pat, flags & (re.I | re.M | re.S))
        except re.error:
            continue
        for s in strings_for(pat, flags, rng, per_site):
            for op in ('search', 'match'):
                want = fmt(cp.search(s) if op == 'search' else cp.match(s), cp.groups)
                got = model.call(['re', key, op, s])
                got = '\t'.join(got)
                if got.startswith('error'):
                    continue
                compared += 1
                if got != want:
                    bad.append({'site': key, 'pattern': pat, 'op': op, 'text': s, 'python': want, 'model': got})
                    if len(bad) >= 5:
                        return compared, bad
    return compared, bad


def default_sites():
    return os.path.join(os.path.dirname(os.path.abspath(__file__)), '..', '..', 'lean', 'RimuModel', 'Generated', 'sites.json')
