"""Per-property correspondence surfaces, concrete oracles and failing-input searches.

Every property class provides
  cases(ctx)          generator of JSON-serialisable cases (all randomness from ctx.rng)
  execute(case, ctx, res)
                      runs the case on the implementation (in-process) and on the model driver,
                      records a *disagreement* when their observable behaviour differs and a
                      *violation* when the property's concrete oracle fails on the implementation.
The oracles are implied by the Lean statements (they never demand more than the property states).
"""
import hashlib
import json
import os
import random
import sys
import time

from . import gen
from .protocol import Impl, Model, ModelError, has_surrogate

HERE = os.path.dirname(os.path.abspath(__file__))
VERIF = os.path.dirname(os.path.dirname(HERE))

TRUSTED_BASE = [
    'Lean 4.33 kernel (lake build); axioms allowed: propext, Classical.choice, Quot.sound (audited per theorem)',
    'tools/translate.py + tools/rx.py: CPython re._parser tree -> Re, Unicode tables from the running interpreter',
    'the hand-written Lean mirror of the Python control flow, tied to the code by this correspondence check only',
    'model matcher = CPython sre on the well-formed fragment (validated pattern by pattern in every run by tools/harness/regexdiff.py, not proved)',
]

REGISTRY = {}


def register(cls):
    REGISTRY[cls.id] = cls
    return cls


class Context:
    def __init__(self, repo, seed, tier, model_ok=True):
        self.repo = repo
        self.seed = seed
        self.tier = tier
        self.model_ok = model_ok
        self._impl = None
        self._model = None
        self.rng = random.Random(seed)
        # files of /repo/src whose code differs from the tree the correspondence was last validated on (tools/check.py)
        self.source_changed = []

    def seed_for(self, pid):
        h = hashlib.sha1(('%s:%d' % (pid, self.seed)).encode()).hexdigest()
        self.rng = random.Random(int(h[:12], 16))

    @property
    def impl(self):
        if self._impl is None:
            self._impl = Impl()
        return self._impl

    @property
    def model(self):
        if not self.model_ok:
            return None
        if self._model is None:
            try:
                self._model = Model()
            except ModelError:
                self.model_ok = False
                return None
        return self._model

    def close(self):
        if self._model is not None:
            self._model.close()
            self._model = None


class Result:
    def __init__(self):
        self.evaluations = 0
        self.compared = 0
        self.disagreements = []
        self.violations = []
        self.unsupported = 0
        self.both_fuel = 0
        self.model_timeouts = 0
        self.oracle_checks = 0
        self.samples = []
        self.distribution = {}
        self.sigs = set()          # distinct non-trivial units (render steps, pumped inputs, ...) as the property's rule defines them
        self.case_sigs = set()     # distinct cases that contributed at least one new non-trivial unit
        self.search_summary = None
        self.leads = []

    @property
    def distinct_nontrivial(self):
        """Counted in the unit of `evaluations` (cases): a case is counted when it is distinct from every earlier case and
        at least one of its steps is non-trivial by the property's rule and was not seen in an earlier case."""
        return len(self.case_sigs)

    @property
    def distinct_nontrivial_units(self):
        return len(self.sigs)

    def executed(self, case, before):
        if len(self.sigs) > before:
            self.case_sigs.add(hashlib.sha1(repr(case).encode()).hexdigest()[:16])

    def count(self, key, n=1):
        self.distribution[key] = self.distribution.get(key, 0) + n

    def nontrivial(self, sig):
        self.sigs.add(hashlib.sha1(repr(sig).encode()).hexdigest()[:16])

    def violation(self, what, case, observed=None):
        self.violations.append({'what': what, 'case': case, 'observed': observed})

    def disagreement(self, case, impl, model, where=''):
        if isinstance(model, str) and model.startswith("('fuel', 'model-timeout')"):
            # the model was still computing when its wall-clock budget ran out (machine load, a very long input): no
            # answer to compare, so neither agreement nor disagreement (`fuel_is_only_a_termination_device`: more time
            # could only have produced the answer, not changed one)
            self.model_timeouts += 1
            return
        self.disagreements.append({'case': case, 'impl': impl, 'model': model, 'where': where})


def short(x, n=400):
    s = repr(x)
    return s if len(s) <= n else s[:n] + '...'


OPT_KEYS = ('safeMode', 'htmlReplacement', 'reset', 'callback')


def step_kwargs(step):
    return {k: step.get(k) for k in OPT_KEYS if k in step}


def run_session(ctx, steps, res, case, compare=True, fresh=True):
    """Run a history of render calls on implementation and model from a fresh process state.
    Returns (impl_results, model_results, impl_states?)  Stops at the first non-ok outcome."""
    impl = ctx.impl
    model = ctx.model if compare else None
    if fresh:
        impl.reset_process()
        if model:
            model.reset_process()
    outs_i, outs_m = [], []
    for i, st in enumerate(steps):
        kw = step_kwargs(st)
        a = impl.render(st['src'], **kw)
        outs_i.append(a)
        b = None
        if model:
            b = model.render(st['src'], **kw)
            outs_m.append(b)
            if b[0] == 'unsupported':
                res.unsupported += 1
                return outs_i, outs_m, False
            res.compared += 1
            if a[0] == 'fuel' and b[0] == 'fuel':
                res.both_fuel += 1
            elif not same_outcome(a, b, kw.get('callback')):
                res.disagreement(case, short(a), short(b), 'render step %d' % i)
                return outs_i, outs_m, False
        if a[0] != 'ok':
            return outs_i, outs_m, False
    return outs_i, outs_m, True


def same_outcome(a, b, callback):
    if a[0] != b[0]:
        return False
    if a[0] == 'ok':
        # a message that reached the callback of an earlier call is marked by the implementation side only: an option not given
        # keeps its session value, so such a message is as legitimate as any other (only after a reset nobody may be left)
        unmark = lambda ms: tuple(m[len('STALE-CALLBACK: '):] if m.startswith('STALE-CALLBACK: ') else m for m in ms)   # noqa: E731
        return a[1] == b[1] and (not callback or unmark(a[2]) == unmark(b[2]))
    if a[0] == 'exc':
        return a[1] == b[1]
    return True


def compare_states(ctx, res, case, where='state'):
    if ctx.model is None:
        return True
    sa, sb = ctx.impl.state(), ctx.model.state()
    if sa != sb:
        diff = [(k, short(x, 200), short(y, 200)) for k, (x, y) in enumerate(zip(sa, sb)) if x != y]
        res.disagreement(case, diff, None, where)
        return False
    return True


class Prop:
    id = None
    rule = ''
    trusted_base = []
    assumptions = []
    quick_cases = 600
    thorough_cases = 20000

    def n_cases(self, ctx):
        return self.quick_cases if ctx.tier == 'quick' else self.thorough_cases

    def corpus(self, ctx):
        return []

    def cases(self, ctx):
        raise NotImplementedError

    def execute(self, case, ctx, res):
        raise NotImplementedError

    def lead(self, case, ctx, res):
        """A session ({'steps': [...]}) on which implementation and model differ (small-scope enumeration): decide with the
        property's oracle whether the implementation violates the property on it.  Default: the generic part - a render call
        that raises is a violation of every property that presupposes an answer only for C01, so nothing here."""
        return None

    # the search used when a proof obligation or the correspondence is broken: more of the same
    # generator with the oracle on the implementation only
    def search_cases(self, ctx):
        return 4000 if ctx.tier == 'quick' else 40000


def run_property(prop, ctx, broken=False):
    ctx.seed_for(prop.id)
    res = Result()
    budget_s = float(os.environ.get('VERIF_BUDGET_S', '70' if ctx.tier == 'quick' else '1500'))
    t0 = time.time()

    def run_case(case):
        res.evaluations += 1
        if len(res.samples) < 5 and res.evaluations % 7 == 1:
            res.samples.append(case)
        before = len(res.sigs)
        try:
            prop.execute(case, ctx, res)
        except ModelError as e:
            res.disagreement(case, None, 'model driver failure: %s' % e, 'driver')
        res.executed(case, before)

    known = load_known_findings()

    def fresh_violations():
        """violations that are not listed findings (a listed finding met on the way neither stops the run nor counts as a find)"""
        return [v for v in res.violations if not match_known(known, prop.id, v)]

    # the model's matcher against CPython's, pattern by pattern (part of the tie; see harness/regexdiff.py)
    if ctx.model is not None and os.environ.get('VERIF_NO_REGEXDIFF') != '1':
        from . import regexdiff
        import random as _random
        try:
            compared, bad = regexdiff.run(ctx.model, regexdiff.default_sites(), _random.Random(ctx.seed * 7919 + 13),
                                          20 if ctx.tier == 'quick' else 150)
            res.distribution['regex_differential_compared'] = compared
            for b in bad:
                res.disagreement({'regexdiff': b}, b['python'], b['model'], 'regular-expression matcher vs re on pattern %s' % b['site'])
        except (OSError, ModelError) as e:
            res.distribution['regex_differential_error'] = str(e)[:200]
    for case in prop.corpus(ctx):
        run_case(case)
    n = prop.n_cases(ctx)
    it = prop.cases(ctx)
    for _ in range(n):
        if time.time() - t0 > budget_s:
            res.count('stopped_on_time_budget')
            break
        try:
            case = next(it)
        except StopIteration:
            break
        run_case(case)
        if len(fresh_violations()) >= 3 or len(res.disagreements) >= 5:
            break
    # small-scope correspondence (harness/smallscope.py): every document of up to k lines over a systematic alphabet of the
    # property's syntax, implementation against model, on all cores.  Always in the thorough tier; in the quick tier when the
    # source is not the one the model was last validated against.  A document on which the two differ is a disagreement like
    # any other - and a concrete lead for the failing-input search, which hands it to the property's oracle (`Prop.lead`).
    if ctx.model is not None and os.environ.get('VERIF_NO_SMALLSCOPE') != '1' and not fresh_violations() and \
            (ctx.tier == 'thorough' or (ctx.source_changed and not broken)):
        from . import smallscope
        limit = int(os.environ.get('VERIF_SMALLSCOPE_DOCS', '120000' if ctx.tier == 'quick' else '1500000'))
        try:
            leads, stats = smallscope.run(prop.id, ctx.seed, limit, budget_s=60.0 if ctx.tier == 'quick' else 900.0)
        except Exception as e:    # noqa  (machinery, never a verdict)
            leads, stats = [], {'error': '%s: %s' % (type(e).__name__, str(e)[:200])}
        res.distribution['small_scope'] = stats
        res.compared += stats.get('renders_compared', 0)
        for l in leads[:5]:
            res.disagreement(l['case'], l['impl'], l['model'], 'small-scope enumeration, step %d' % l['step'])
        res.leads = [l['case'] for l in leads[:20]]
    if ctx.source_changed and not broken and not fresh_violations() and not res.disagreements and ctx.tier == 'quick':
        # the source is not the one the model was last validated against: the quick sample says less than it does on the
        # unchanged tree, so more of the same (implementation against model and oracle) within the same time budget again
        t1 = time.time()
        extra = 0
        for _ in range(5 * n):
            if time.time() - t1 > budget_s:
                break
            try:
                case = next(it)
            except StopIteration:
                break
            run_case(case)
            extra += 1
            if fresh_violations() or len(res.disagreements) >= 5:
                break
        res.distribution['extended_cases_because_source_changed'] = extra
    if (broken or res.disagreements) and not fresh_violations():
        # failing-input search: the oracle alone, on the implementation, with a larger budget (the fixed cases first: a
        # disagreement with the model ends a case before its oracle is consulted)
        saved = ctx.model_ok
        ctx.model_ok = False
        m = prop.search_cases(ctx)
        t1 = time.time()
        tried = 0
        # the documents on which implementation and model were seen to differ, first: what does the property's oracle say?
        for case in getattr(res, 'leads', []):
            tried += 1
            res.evaluations += 1
            try:
                prop.lead(case, ctx, res)
            except Exception:   # noqa
                pass
            if fresh_violations():
                break
        for case in prop.corpus(ctx):
            if fresh_violations():
                break
            tried += 1
            res.evaluations += 1
            before = len(res.sigs)
            prop.execute(case, ctx, res)
            res.executed(case, before)
            if fresh_violations():
                break
        for _ in range(m):
            if fresh_violations():
                break
            if time.time() - t1 > budget_s:
                break
            try:
                case = next(it)
            except StopIteration:
                break
            tried += 1
            res.evaluations += 1
            before = len(res.sigs)
            prop.execute(case, ctx, res)
            res.executed(case, before)
            if fresh_violations():
                break
        ctx.model_ok = saved
        res.search_summary = {'reason': 'proof obligation or correspondence broken', 'oracle_only_cases': tried,
                              'found': bool(fresh_violations())}
    # minimise the first violation's source when it has the standard shape (fresh ones first)
    fv = fresh_violations()
    if fv:
        res.violations = fv + [v for v in res.violations if v not in fv]
    if res.violations:
        try:
            res.violations[0] = shrink_violation(prop, ctx, res.violations[0])
        except Exception:
            pass
    return res


def shrink_violation(prop, ctx, v):
    case = v['case']
    if not isinstance(case, dict) or 'steps' not in case:
        return v
    saved = ctx.model_ok
    ctx.model_ok = False

    def fails(c):
        r = Result()
        try:
            prop.execute(c, ctx, r)
        except Exception:
            return False
        return bool(r.violations)

    cur = json.loads(json.dumps(case))
    t0 = time.time()
    # fewer steps, then fewer lines, then fewer characters per step
    changed = True
    while changed and time.time() - t0 < 20:
        changed = False
        for i in range(len(cur['steps']) - 1):
            c = dict(cur, steps=cur['steps'][:i] + cur['steps'][i + 1:])
            if fails(c):
                cur = c
                changed = True
                break
    for si in range(len(cur['steps'])):
        lines = cur['steps'][si]['src'].split('\n')
        i = 0
        while i < len(lines) and time.time() - t0 < 40:
            trial = lines[:i] + lines[i + 1:]
            c = json.loads(json.dumps(cur))
            c['steps'][si]['src'] = '\n'.join(trial)
            if fails(c):
                lines = trial
                cur = c
            else:
                i += 1
        src = cur['steps'][si]['src']
        i = 0
        chunk = max(1, len(src) // 8)
        while chunk >= 1 and time.time() - t0 < 60:
            i = 0
            while i < len(src):
                trial = src[:i] + src[i + chunk:]
                c = json.loads(json.dumps(cur))
                c['steps'][si]['src'] = trial
                if fails(c):
                    src = trial
                    cur = c
                else:
                    i += chunk
            chunk //= 2
    ctx.model_ok = saved
    r = Result()
    prop.execute(cur, ctx, r) if False else None
    out = dict(v)
    out['case'] = cur
    out['shrunk_from_chars'] = sum(len(s['src']) for s in case['steps'])
    return out


# ---------------------------------------------------------------------------------------------
# known findings
# ---------------------------------------------------------------------------------------------

def load_known_findings():
    path = os.path.join(VERIF, 'known_findings.json')
    try:
        with open(path) as f:
            return json.load(f)['findings']
    except FileNotFoundError:
        return []


def match_known(known, pid, violation):
    """A violation is a known finding only when it has the finding's narrow signature."""
    for k in known:
        if k['property'] != pid or k.get('status') != 'open':
            continue
        m = k.get('match', {})
        text = json.dumps(violation.get('case'), ensure_ascii=False)
        ok = True
        if 'what_contains' in m and m['what_contains'] not in violation.get('what', ''):
            ok = False
        for pat in m.get('case_regexes', []):
            import re as _re
            if not _re.search(pat, text):
                ok = False
        if ok:
            return k
    return None


def replay_known(prop, ctx_factory, finding):
    """Re-run the witness of an open finding on the implementation; True if it still fails."""
    ctx = ctx_factory()
    try:
        r = Result()
        prop.execute(finding['witness'], ctx, r)
        return bool(r.violations)
    finally:
        ctx.close()


def replay(prop, path):
    with open(os.path.join(VERIF, path) if not os.path.isabs(path) else path) as f:
        obj = json.load(f)
    v = obj.get('violation')
    if not v:
        print('replay file names no failing input:', json.dumps(obj.get('not_checked'))[:2000])
        return 1
    ctx = Context(repo=os.environ.get('RIMU_REPO', '/repo'), seed=0, tier='quick', model_ok=False)
    r = Result()
    prop.execute(v['case'], ctx, r)
    if r.violations:
        print('REPRODUCED:', r.violations[0]['what'])
        print(json.dumps(r.violations[0], indent=1, default=str)[:3000])
        return 1
    print('not reproduced on this tree')
    return 0


from .props_impl import *  # noqa: E402,F401,F403  (registers the property classes)
from .props_grammar import *  # noqa: E402,F401,F403
from .props_more import *  # noqa: E402,F401,F403
from .props_cli import *  # noqa: E402,F401,F403
