#!/venv/bin/python
"""./check <property id> [--tier quick|thorough] [--replay <file>]

Decides one property on /repo's current working tree:

  1. regenerate lean/RimuModel/Generated from the source (tools/translate.py)
  2. lake build the model, the driver and the closure of RimuProofs/Props/<id>.lean
  3. audit: forbidden tokens, `#print axioms` of every property theorem
  4. correspondence check on the property's surface (model driver vs the implementation in-process)
     with the property's concrete oracle evaluated on every implementation result
  5. known findings are replayed and printed as KNOWN-FINDING lines
  6. evidence/<id>.json is rewritten

exit 0  the property held on everything explored
exit 1  `VIOLATION property=<id> replay=<path>` (a failing input was found), or the same line ending in
        `no-failing-input-found` when a proof obligation or the correspondence no longer checks and the
        search found no failing input
exit 2  the machinery itself failed (missing tool, harness error)
"""
import argparse
import fcntl
import hashlib
import json
import os
import random
import re
import subprocess
import sys
import time
import traceback

HERE = os.path.dirname(os.path.abspath(__file__))
VERIF = os.path.dirname(HERE)
REPO = os.environ.get('RIMU_REPO', '/repo')
LEAN = os.path.join(VERIF, 'lean')
GENERATED = os.path.join(LEAN, 'RimuModel', 'Generated')
CACHE = os.path.join(VERIF, '.cache')
# evidence/ is committed and describes the unchanged tree only: runs on a deliberately changed tree (tools/seeded_eval.sh) set
# VERIF_EVIDENCE_DIR to a scratch directory so that they never overwrite it
EVIDENCE = os.environ.get('VERIF_EVIDENCE_DIR') or os.path.join(VERIF, 'evidence')
REPLAYS = os.path.join(VERIF, 'replays')
PYTHON = '/venv/bin/python'
ALLOWED_AXIOMS = {'propext', 'Classical.choice', 'Quot.sound'}
FORBIDDEN = re.compile(r'\b(sorry|admit|native_decide|bv_decide|implemented_by|unsafe)\b|^\s*axiom\s|maxHeartbeats\s+0\b', re.M)

sys.path.insert(0, HERE)


def log(*a):
    print(*a, file=sys.stderr, flush=True)


def run(cmd, cwd=None, timeout=3600, env=None):
    e = dict(os.environ)
    if env:
        e.update(env)
    p = subprocess.run(cmd, cwd=cwd, stdout=subprocess.PIPE, stderr=subprocess.STDOUT, text=True, timeout=timeout, env=e)
    return p.returncode, p.stdout


def source_fingerprint():
    """{relative path: sha256 of the token stream without comments and blank lines} for the Python sources of /repo (layout and
    comments do not count; the same under every Python version)."""
    import hashlib
    import io
    import tokenize
    out = {}
    skip = {tokenize.COMMENT, tokenize.NL, tokenize.ENCODING}
    for sub in ('src/rimu', 'src/rimuc'):
        d = os.path.join(REPO, sub)
        if not os.path.isdir(d):
            continue
        for name in sorted(os.listdir(d)):
            if not name.endswith('.py'):
                continue
            path = os.path.join(d, name)
            try:
                with open(path, 'rb') as f:
                    data = f.read()
                toks = []
                for t in tokenize.tokenize(io.BytesIO(data).readline):
                    if t.type in skip:
                        continue
                    if t.type in (tokenize.INDENT, tokenize.DEDENT, tokenize.NEWLINE, tokenize.ENDMARKER):
                        toks.append(tokenize.tok_name[t.type])
                    else:
                        toks.append(t.string)
                text = '\x00'.join(toks)
            except (SyntaxError, ValueError, OSError, tokenize.TokenError) as e:
                text = 'unreadable: %r' % (e,)
            out[sub + '/' + name] = hashlib.sha256(text.encode('utf-8', 'replace')).hexdigest()
    return out


FINGERPRINT = os.path.join(VERIF, 'tools', 'source_fingerprint.json')


def source_changed():
    """Files whose code differs from the tree the model was last validated against (committed fingerprint); a missing
    fingerprint file means "unknown", treated as unchanged."""
    try:
        with open(FINGERPRINT) as f:
            ref = json.load(f)
    except (OSError, ValueError):
        return []
    if ref.pop('python', None) != '%d.%d' % sys.version_info[:2]:
        return []       # tokenisation differs between Python versions (f-strings): recorded under another one, so unknown
    cur = source_fingerprint()
    return sorted(k for k in set(ref) | set(cur) if ref.get(k) != cur.get(k))


class MachineryError(Exception):
    pass


class Lock:
    def __enter__(self):
        os.makedirs(CACHE, exist_ok=True)
        self.f = open(os.path.join(CACHE, 'build.lock'), 'w')
        fcntl.flock(self.f, fcntl.LOCK_EX)
        return self

    def __exit__(self, *a):
        fcntl.flock(self.f, fcntl.LOCK_UN)
        self.f.close()


def strip_comments(text):
    """Remove Lean comments (nested block comments and line comments) and string literals."""
    out = []
    i = 0
    depth = 0
    n = len(text)
    while i < n:
        if text.startswith('/-', i):
            depth += 1
            i += 2
        elif depth and text.startswith('-/', i):
            depth -= 1
            i += 2
        elif depth:
            i += 1
        elif text.startswith('--', i):
            while i < n and text[i] != '\n':
                i += 1
        elif text[i] == "'" and i + 2 < n and ((text[i + 1] != '\\' and text[i + 2] == "'") or
                                             (text[i + 1] == '\\' and i + 3 < n and text[i + 3] == "'")):
            # character literal ('"' must not open a string)
            i += 3 if text[i + 1] != '\\' else 4
        elif text[i] == '"':
            i += 1
            while i < n and text[i] != '"':
                i += 2 if text[i] == '\\' else 1
            i += 1
        else:
            out.append(text[i])
            i += 1
    return ''.join(out)


def lean_sources(dirs):
    for d in dirs:
        for root, _, files in os.walk(os.path.join(LEAN, d)):
            for f in files:
                if f.endswith('.lean'):
                    yield os.path.join(root, f)


def build_and_audit(pid, tier):
    """Returns a dict describing what checked and what did not."""
    info = {'translate': None, 'model_build': None, 'proof_build': None, 'audit': None, 'theorems': [],
            'axioms': {}, 'failures': [], 'generated_changed': [], 'build_s': 0.0}
    t0 = time.time()
    with Lock():
        rc, out = run([PYTHON, os.path.join(HERE, 'translate.py'), REPO, GENERATED, '--cache', CACHE])
        out = '\n'.join(l for l in out.splitlines() if 'WARNING conda' not in l)
        if rc == 0:
            info['translate'] = 'ok'
            try:
                info['generated_changed'] = json.loads(out.strip().splitlines()[-1]).get('changed', [])
            except Exception:
                pass
        else:
            info['translate'] = 'failed'
            info['failures'].append({'what': 'translator', 'detail': out[-2000:]})
        if tier == 'thorough' and os.environ.get('VERIF_CLEAN_BUILD') == '1':
            run(['lake', 'clean'], cwd=LEAN)
        rc, out = run(['lake', 'build', 'RimuModel', 'rimumodel'], cwd=LEAN)
        if rc == 0:
            info['model_build'] = 'ok'
        else:
            info['model_build'] = 'failed'
            info['failures'].append({'what': 'model build (lake build RimuModel rimumodel)', 'detail': tail_errors(out)})
        target = 'RimuProofs.Props.%s' % pid
        rc, out = run(['lake', 'build', target], cwd=LEAN)
        if rc != 0 and re.search(r'out of memory|Killed|exited with code 137|exited with code -9|std::bad_alloc', out):
            # the machine, not a proof, failed: once more (the modules that did build are kept), then give up as a
            # machinery error - never as a violation
            rc, out = run(['lake', 'build', target], cwd=LEAN)
            if rc != 0 and re.search(r'out of memory|Killed|exited with code 137|exited with code -9|std::bad_alloc', out):
                log('the Lean build ran out of memory twice')
                raise MachineryError('lake build out of memory')
        if rc == 0:
            info['proof_build'] = 'ok'
        else:
            info['proof_build'] = 'failed'
            info['failures'].append({'what': 'proof build (lake build %s)' % target, 'detail': tail_errors(out),
                                     'theorems': failing_decls(out)})
        # audit
        prop_file = os.path.join(LEAN, 'RimuProofs', 'Props', pid + '.lean')
        names = []
        if os.path.exists(prop_file):
            src = strip_comments(open(prop_file).read())
            ns = re.search(r'^namespace\s+(\S+)', src, re.M)
            prefix = (ns.group(1) + '.') if ns else ''
            names = [prefix + m.group(1) for m in re.finditer(r'^\s*theorem\s+(\S+)', src, re.M)]
        info['theorems'] = names
        bad_tokens = []
        for f in lean_sources(['RimuModel', 'RimuProofs']):
            if os.sep + 'Generated' + os.sep in f and not f.endswith('.lean'):
                continue
            m = FORBIDDEN.search(strip_comments(open(f).read()))
            if m:
                bad_tokens.append('%s: %s' % (os.path.relpath(f, LEAN), m.group(0).strip()))
        if bad_tokens:
            info['failures'].append({'what': 'forbidden token in Lean sources', 'detail': '; '.join(bad_tokens)})
        if info['proof_build'] == 'ok' and names:
            audit_file = os.path.join(CACHE, 'Audit_%s.lean' % pid)
            with open(audit_file, 'w') as f:
                f.write('import RimuProofs.Props.%s\n' % pid)
                for n in names:
                    f.write('#print axioms %s\n' % n)
            rc, out = run(['lake', 'env', 'lean', audit_file], cwd=LEAN)
            axioms = {}
            for m in re.finditer(r"'([^']+)' (depends on axioms: \[([^\]]*)\]|does not depend on any axioms)", out):
                axioms[m.group(1)] = [a.strip() for a in (m.group(3) or '').split(',') if a.strip()]
            info['axioms'] = axioms
            bad = {k: v for k, v in axioms.items() if set(v) - ALLOWED_AXIOMS}
            missing = [n for n in names if n not in axioms]
            if rc != 0 or bad or missing:
                info['audit'] = 'failed'
                info['failures'].append({'what': 'axiom audit', 'detail': 'bad=%r missing=%r %s' % (bad, missing, out[-500:])})
            else:
                info['audit'] = 'ok'
        elif not names:
            info['audit'] = 'no-theorems'
            info['failures'].append({'what': 'no property theorem found for ' + pid, 'detail': ''})
        if tier == 'thorough' and info['proof_build'] == 'ok' and os.environ.get('VERIF_SKIP_LEANCHECKER') != '1':
            rc, out = run(['lake', 'env', 'leanchecker', 'RimuProofs.Props.%s' % pid], cwd=LEAN, timeout=3000)
            info['leanchecker'] = 'ok' if rc == 0 else 'failed'
            if rc != 0:
                info['failures'].append({'what': 'leanchecker', 'detail': out[-1000:]})
    info['build_s'] = round(time.time() - t0, 2)
    return info


def tail_errors(out):
    lines = [l for l in out.splitlines() if 'WARNING conda' not in l and not l.startswith('trace:')]
    errs = [l for l in lines if 'error' in l]
    return '\n'.join((errs or lines)[-30:])


def failing_decls(out):
    return sorted(set(re.findall(r'(RimuProofs/[\w/]+\.lean:\d+:\d+)', out)))[:20]


def main():
    ap = argparse.ArgumentParser()
    ap.add_argument('property')
    ap.add_argument('--tier', default=os.environ.get('VERIF_TIER', 'quick'), choices=['quick', 'thorough'])
    ap.add_argument('--replay')
    args = ap.parse_args()
    pid = args.property
    seed = int(os.environ.get('VERIF_SEED', '0') or 0)
    t0 = time.time()
    os.makedirs(EVIDENCE, exist_ok=True)
    os.makedirs(REPLAYS, exist_ok=True)

    import harness.props as props
    if pid not in props.REGISTRY:
        log('unknown property', pid)
        return 2
    prop = props.REGISTRY[pid]()

    if args.replay:
        return props.replay(prop, args.replay)

    info = build_and_audit(pid, args.tier)
    for f in info['failures']:
        log('NOT-CHECKED:', f['what'], '::', f['detail'][:1500])

    ctx = props.Context(repo=REPO, seed=seed, tier=args.tier, model_ok=(info['model_build'] == 'ok'))
    ctx.source_changed = source_changed()
    try:
        result = props.run_property(prop, ctx, broken=bool(info['failures']))
    except Exception:
        traceback.print_exc()
        return 2
    finally:
        ctx.close()

    if result.model_timeouts > max(20, result.compared // 20):
        # the model answered too few of the cases within its wall-clock budget for the correspondence to mean anything
        # (overloaded machine, or a driver that hangs): the check itself failed, nothing is said about the property
        log('MACHINERY: %d model calls ran out of wall-clock time (compared=%d)' % (result.model_timeouts, result.compared))
        return 2

    wall = round(time.time() - t0, 2)
    known = props.load_known_findings()
    violations = []
    known_hits = []
    for v in result.violations:
        k = props.match_known(known, pid, v)
        if k:
            known_hits.append((k, v))
        else:
            violations.append(v)
    # open findings listed for this property are replayed on the code whether or not the run hit them
    for k in known:
        if k['property'] == pid and k.get('status') == 'open':
            still = props.replay_known(prop, ctx_factory=lambda: props.Context(repo=REPO, seed=seed, tier=args.tier,
                                                                               model_ok=False), finding=k)
            if still:
                print('KNOWN-FINDING: property=%s %s' % (pid, k['what']))
            else:
                print('NOTE: known finding %s no longer reproduces on this tree (stale entry)' % k['id'])

    exit_code = 0
    replay_path = None
    if violations:
        v = violations[0]
        replay_path = write_replay(pid, {'kind': 'failing-input', 'property': pid, 'seed': seed, 'tier': args.tier,
                                         'violation': v, 'not_checked': info['failures']})
        print('VIOLATION property=%s replay=%s' % (pid, replay_path))
        exit_code = 1
    elif info['failures'] or result.disagreements:
        what = {'kind': 'no-failing-input-found', 'property': pid, 'seed': seed, 'tier': args.tier,
                'not_checked': info['failures'],
                'correspondence_disagreements': result.disagreements[:5],
                'searched': result.search_summary}
        replay_path = write_replay(pid, what)
        print('VIOLATION property=%s replay=%s no-failing-input-found' % (pid, replay_path))
        exit_code = 1

    obligations = len(info['theorems'])
    discharged = len([n for n in info['theorems'] if n in info['axioms']]) if info['audit'] == 'ok' else 0
    evidence = {
        'property_id': pid,
        'tier': args.tier,
        'seed': seed,
        'level': 'proof',
        'coverage': {
            'obligations': max(obligations, 1),
            'discharged': discharged if obligations else 0,
            'checker_cmd': 'cd lean && lake build RimuProofs.Props.%s && lake env lean <#print axioms of every theorem>' % pid,
            'trusted_base': props.TRUSTED_BASE + prop.trusted_base,
            'theorems': [{'name': n, 'axioms': info['axioms'].get(n)} for n in info['theorems']],
            'generated_from_source': {'translator': info['translate'], 'files_rewritten_this_run': info['generated_changed']},
            'source_files_changed_since_last_validation': ctx.source_changed,
            'model_build': info['model_build'], 'proof_build': info['proof_build'], 'axiom_audit': info['audit'],
            'leanchecker': info.get('leanchecker', 'not-run (thorough tier only)'),
            'evaluations': result.evaluations,
            'distinct_nontrivial': result.distinct_nontrivial,
            'distinct_nontrivial_units': result.distinct_nontrivial_units,
            'counting': 'evaluations = cases run (a case is a session of one or more render calls, or one command line); '
                        'distinct_nontrivial = distinct cases with at least one non-trivial step not seen in an earlier case; '
                        'distinct_nontrivial_units = distinct non-trivial steps (source, mode) over all cases',
            'rule': prop.rule,
            'samples': result.samples[:5],
            'correspondence': {
                'cases_compared_model_vs_impl': result.compared,
                'disagreements': len(result.disagreements),
                'model_unsupported_skipped': result.unsupported,
                'both_exhausted_budget': result.both_fuel,
                'model_wall_clock_timeouts_not_compared': result.model_timeouts,
            },
            'oracle_checks_on_impl': result.oracle_checks,
            'distribution': result.distribution,
            'known_findings_hit': [k['id'] for k, _ in known_hits],
            'search': result.search_summary,
        },
        'assumptions': prop.assumptions,
        'wall_s': wall,
        'violations': len(violations) + (1 if exit_code == 1 and not violations else 0),
    }
    if discharged == 0:
        # nothing was kernel-checked in this run (broken build or audit): do not present proof counts
        cov = evidence['coverage']
        cov['theorems_stated'] = cov.pop('obligations')
        cov['theorems_discharged'] = cov.pop('discharged')
    with open(os.path.join(EVIDENCE, pid + '.json'), 'w') as f:
        json.dump(evidence, f, indent=1, ensure_ascii=True, default=str)
    log('%s %s: theorems=%d discharged=%d cases=%d compared=%d disagreements=%d violations=%d wall=%.1fs build=%.1fs' % (
        pid, args.tier, obligations, discharged, result.evaluations, result.compared, len(result.disagreements),
        len(violations), wall, info['build_s']))
    return exit_code


def write_replay(pid, obj):
    h = hashlib.sha1(json.dumps(obj, sort_keys=True, default=str).encode()).hexdigest()[:10]
    path = os.path.join(REPLAYS, '%s-%s.json' % (pid, h))
    with open(path, 'w') as f:
        json.dump(obj, f, indent=1, default=str)
    return os.path.relpath(path, VERIF)


if __name__ == '__main__':
    try:
        sys.exit(main())
    except subprocess.TimeoutExpired:
        log('timeout in the machinery')
        sys.exit(2)
    except MachineryError as e:
        log('machinery error: %s' % e)
        sys.exit(2)
