#!/venv/bin/python
"""Regenerate lean/RimuModel/Generated/*.lean from the working tree of rimu-py.

usage: translate.py <repo> <outdir> [--cache <dir>]

Emits (rewriting a file only when its content changes, so an unchanged tree costs a no-op build):
  Unicode.lean   \\s \\w \\d tables, str.lower table, decimal digits (depends on the interpreter only)
  Patterns.lean  every regular expression of the source as an `Re` tree (CPython's parser)
  Defs.lean      definition tables, option defaults, message constants
  sites.json     pattern name -> python pattern / flags / groups (for regexdiff and the harness)
Exit status 0 ok, 3 = the source uses something the translator does not support (message on stderr).
"""
import ast
import hashlib
import importlib
import json
import os
import re
import sys
import types

HERE = os.path.dirname(os.path.abspath(__file__))
sys.path.insert(0, HERE)
import rx  # noqa: E402


class TranslateError(Exception):
    pass


def load_repo(repo):
    src = os.path.join(repo, 'src')
    sys.path.insert(0, src)
    for name in list(sys.modules):
        if name == 'rimu' or name.startswith('rimu.') or name == 'rimuc' or name.startswith('rimuc.'):
            del sys.modules[name]
    mods = {}
    for m in ['rimu', 'rimu.io', 'rimu.utils', 'rimu.options', 'rimu.expansion', 'rimu.spans', 'rimu.quotes',
              'rimu.replacements', 'rimu.macros', 'rimu.blockattributes', 'rimu.lineblocks',
              'rimu.delimitedblocks', 'rimu.lists', 'rimu.document', 'rimuc', 'rimuc.rimuc']:
        mods[m] = importlib.import_module(m)
        f = os.path.realpath(mods[m].__file__)
        if not f.startswith(os.path.realpath(src) + os.sep):
            raise TranslateError('module %s was imported from %s, not from %s' % (m, f, src))
    return mods


# ---------------------------------------------------------------------------------------------
# function identification
# ---------------------------------------------------------------------------------------------

def code_fp(fn):
    co = fn.__code__
    consts = tuple(c for c in co.co_consts if not isinstance(c, types.CodeType))
    return (co.co_code, consts, co.co_names, co.co_argcount, co.co_flags & 0x0C)


REFERENCE_LAMBDAS = {
    # lineblocks
    'line.filter.blank': "lambda *_:''",
    'line.verify.attributes': "lambda match, _: blockattributes.parse(match[0])",
    # delimitedblocks
    'block.verify.macroDef': "lambda match: macros.LINE_DEF.search(match[0]) is None",
    'block.verify.code': "lambda match: not (match[1][0] == '-' and match[2].strip() != '')",
    # replacements
    'repl.filter.anchor': "lambda match, d: '' if options.skipBlockAttributes() else utils.replaceMatch(match, d.replacement)",
    'repl.filter.html': "lambda match, d: options.htmlSafeModeFilter(match[1])",
    'repl.filter.entity': "lambda match, d: match[1]",
}
_REF_FPS = None


def identify(fn, kind):
    """Name of the model counterpart of a filter/verify callable, or raise."""
    global _REF_FPS
    if fn is None:
        return 'none'
    if _REF_FPS is None:
        # Compiled as a module that imports the same names, because CPython compiles `mod.f(x)`
        # differently when `mod` is an imported name.
        src = 'from rimu import blockattributes, macros, options, utils\nF = {\n' + ''.join(
            '  %r: (%s),\n' % (name, text) for name, text in REFERENCE_LAMBDAS.items()) + '}\n'
        ns = {}
        exec(compile(src, '<reference-lambdas>', 'exec'), ns)
        _REF_FPS = {name: code_fp(fn) for name, fn in ns['F'].items()}
    if fn.__name__ != '<lambda>':
        return fn.__name__
    fp = code_fp(fn)
    for name, ref in _REF_FPS.items():
        if name.startswith(kind + '.') and ref == fp:
            return name.split('.')[-1]
    raise TranslateError('unrecognised lambda for %s at line %d (the model has no counterpart)' %
                         (kind, fn.__code__.co_firstlineno))


# ---------------------------------------------------------------------------------------------
# pattern collection
# ---------------------------------------------------------------------------------------------

class Patterns:
    def __init__(self, cache):
        self.cache = cache
        self.items = []  # (name, pattern, flags, tree, ngroups)
        self.names = set()

    def add(self, name, pattern, flags):
        if name in self.names:
            return name
        try:
            tree, ngroups, _eff = rx.translate(pattern, flags & ~re.UNICODE, self.cache)
        except rx.Unsupported as e:
            raise TranslateError('pattern %s (%r): unsupported construct: %s' % (name, pattern, e))
        self.items.append((name, pattern, flags, tree, ngroups))
        self.names.add(name)
        return name

    def add_compiled(self, name, cp):
        n = self.add(name, cp.pattern, cp.flags)
        return n


RE_FUNCS = {'compile': 1, 'search': 2, 'match': 2, 'sub': 4, 'split': 3, 'fullmatch': 2, 'findall': 2, 'finditer': 2}


def local_patterns(mod, modname, pats):
    """Constant-pattern `re.*` calls inside functions, keyed (module, top-level function, ordinal)."""
    with open(mod.__file__) as f:
        tree = ast.parse(f.read())
    found = {}
    funcs = []
    for node in tree.body:
        if isinstance(node, (ast.FunctionDef, ast.AsyncFunctionDef)):
            funcs.append((node.name.strip('_'), node))
        elif isinstance(node, ast.ClassDef):
            for sub in node.body:
                if isinstance(sub, (ast.FunctionDef, ast.AsyncFunctionDef)):
                    funcs.append((node.name + '_' + sub.name.strip('_'), sub))
    for fname, node in funcs:
        calls = []
        for sub in ast.walk(node):
            if (isinstance(sub, ast.Call) and isinstance(sub.func, ast.Attribute)
                    and isinstance(sub.func.value, ast.Name) and sub.func.value.id == 're'
                    and sub.func.attr in RE_FUNCS and sub.args):
                calls.append(sub)
        calls.sort(key=lambda c: (c.lineno, c.col_offset))
        ordinal = 0
        for c in calls:
            arg = c.args[0]
            if not (isinstance(arg, ast.Constant) and isinstance(arg.value, str)):
                continue  # dynamic pattern: built by the model itself / the compile oracle
            flags = 0
            idx = RE_FUNCS[c.func.attr]
            fl_node = None
            if len(c.args) > idx:
                fl_node = c.args[idx]
            for kw in c.keywords:
                if kw.arg == 'flags':
                    fl_node = kw.value
            if fl_node is not None:
                flags = int(eval(compile(ast.Expression(fl_node), '<flags>', 'eval'), {'re': re}))
            name = '%s_%s_%d' % (modname, fname, ordinal)
            pats.add(name, arg.value, flags)
            found[name] = c.func.attr
            ordinal += 1
    return found


# ---------------------------------------------------------------------------------------------
# emit helpers
# ---------------------------------------------------------------------------------------------

def write_if_changed(path, text):
    try:
        with open(path) as f:
            if f.read() == text:
                return False
    except FileNotFoundError:
        pass
    tmp = path + '.tmp%d' % os.getpid()
    with open(tmp, 'w') as f:
        f.write(text)
    os.replace(tmp, path)
    return True


L = rx.lean_str


def lean_optbool(v):
    if v is None:
        return 'none'
    if v is True:
        return 'some true'
    if v is False:
        return 'some false'
    raise TranslateError('Expand field is not None/True/False: %r' % (v,))


def lean_expand(e):
    return '{ macros := %s, container := %s, skip := %s, spans := %s, specials := %s }' % tuple(
        lean_optbool(getattr(e, k)) for k in ('macros', 'container', 'skip', 'spans', 'specials'))


def emit_unicode(T):
    out = ['import RimuModel.Regex', '',
           '/-! Generated by tools/translate.py from the running interpreter (%s). Do not edit. -/' % T['version'].replace('\n', ' '),
           '', 'set_option maxRecDepth 100000', '', 'namespace Gen', '']
    out.append('def spaceRanges : List (Nat × Nat) := ' + rx.lean_ranges(T['space']))
    out.append('def wordRanges : List (Nat × Nat) := ' + rx.lean_ranges(T['word']))
    out.append('def digitRanges : List (Nat × Nat) := ' + rx.lean_ranges(T['digit']))
    out.append('def spaceSet : Rx.CSet := ⟨spaceRanges, false⟩')
    out.append('def wordSet : Rx.CSet := ⟨wordRanges, false⟩')
    out.append('def digitSet : Rx.CSet := ⟨digitRanges, false⟩')
    out.append('def decimalZeros : List Nat := [' + ', '.join(str(z) for z in T['zeros']) + ']')
    out.append('def caseIgnorable : List (Nat × Nat) := ' + rx.lean_ranges(T['ignorable']))
    out.append('def casedNotIgnorable : List (Nat × Nat) := ' + rx.lean_ranges(T['cased_ni']))
    out.append('def lowerTable : List (Nat × List Nat) := [' +
               ', '.join('(%d, [%s])' % (k, ', '.join(str(x) for x in v)) for k, v in T['lower']) + ']')
    out.append('')
    out.append('end Gen')
    return '\n'.join(out) + '\n'


def main():
    args = sys.argv[1:]
    cache = None
    if '--cache' in args:
        i = args.index('--cache')
        cache = args[i + 1]
        del args[i:i + 2]
    repo, outdir = args
    os.makedirs(outdir, exist_ok=True)
    mods = load_repo(repo)
    T = rx.unicode_tables(cache)
    changed = []
    if write_if_changed(os.path.join(outdir, 'Unicode.lean'), emit_unicode(T)):
        changed.append('Unicode.lean')

    pats = Patterns(cache)
    macros = mods['rimu.macros']
    db = mods['rimu.delimitedblocks']
    lb = mods['rimu.lineblocks']
    repl = mods['rimu.replacements']
    lists = mods['rimu.lists']
    quotes = mods['rimu.quotes']
    options = mods['rimu.options']

    for n in ('MATCH_LINE', 'LINE_DEF', 'DEF_OPEN', 'DEF_CLOSE'):
        pats.add_compiled('macros_' + n, getattr(macros, n))
    pats.add_compiled('delimitedblocks_MATCH_INLINE_TAG', db.MATCH_INLINE_TAG)
    local_kinds = {}
    for modname in ('io', 'utils', 'expansion', 'spans', 'macros', 'blockattributes', 'delimitedblocks',
                    'lineblocks', 'lists', 'quotes', 'replacements', 'options', 'document'):
        local_kinds.update(local_patterns(mods['rimu.' + modname], modname, pats))
    local_kinds.update(local_patterns(mods['rimuc.rimuc'], 'rimuc', pats))

    # -- tables ---------------------------------------------------------------------------------
    D = ['import RimuModel.Generated.Patterns', '',
         '/-! Generated by tools/translate.py from the rimu-py working tree. Do not edit. -/', '',
         'namespace Gen', 'open Rimu', '']

    # lineblocks.defs
    rows = []
    for i, d in enumerate(lb.defs):
        name = pats.add_compiled('lineblocks_defs_%d' % i, d.match)
        verify = identify(d.verify, 'line.verify')
        flt = identify(d.filter, 'line.filter')
        verify = {'none': 'none', 'verifyMacroLine': 'macroLine', 'attributes': 'attributes'}.get(verify)
        flt = {'none': 'none', 'blank': 'blank', 'blockDefFilter': 'blockDef', 'quoteDefFilter': 'quoteDef',
               'replacementDefFilter': 'replDef', 'macroDefFilter': 'macroDef', 'headerFilter': 'header',
               'anchorFilter': 'anchor', 'apiOptionFilter': 'apiOption'}.get(flt)
        if verify is None or flt is None:
            raise TranslateError('lineblocks.defs[%d]: verify/filter has no model counterpart' % i)
        rows.append('  { pat := P.%s, replacement := %s, name := %s, verify := .%s, filter := .%s }' %
                    (name, L(d.replacement), L(d.name), verify, flt))
    D.append('def lineDefs : List LineDef := [\n' + ',\n'.join(rows) + ']\n')

    # delimitedblocks.DEFAULT_DEFS
    rows = []
    for i, d in enumerate(db.DEFAULT_DEFS):
        o = pats.add_compiled('delimitedblocks_DEFAULT_DEFS_%d_open' % i, d.openMatch)
        c = pats.add_compiled('delimitedblocks_DEFAULT_DEFS_%d_close' % i, d.closeMatch)
        verify = identify(d.verify, 'block.verify')
        verify = {'none': 'none', 'macroDef': 'macroDef', 'code': 'code', 'htmlVerify': 'html'}.get(verify)
        df = {'none': 'none', 'openingDelimiterFilter': 'opening', 'classInjectionFilter': 'classInjection'}.get(
            identify(d.delimiterFilter, 'block.delim'))
        cf = {'none': 'none', 'macroDefContentFilter': 'macroDef', 'indentedContentFilter': 'indented',
              'quoteParagraphContentFilter': 'quoteParagraph'}.get(identify(d.contentFilter, 'block.content'))
        if verify is None or df is None or cf is None:
            raise TranslateError('delimitedblocks.DEFAULT_DEFS[%d]: a filter has no model counterpart' % i)
        rows.append('  { name := %s, openTag := %s, closeTag := %s, openMatch := P.%s, closeMatch := P.%s,\n'
                    '    verify := .%s, delimiterFilter := .%s, contentFilter := .%s,\n    expand := %s }' %
                    (L(d.name), L(d.openTag), L(d.closeTag), o, c, verify, df, cf, lean_expand(d.expand)))
    D.append('def blockDefaultDefs : List BlockDef := [\n' + ',\n'.join(rows) + ']\n')

    # quotes.DEFAULT_DEFS
    rows = []
    for d in quotes.DEFAULT_DEFS:
        rows.append('  { quote := %s, openTag := %s, closeTag := %s, spans := %s }' %
                    (L(d.quote), L(d.openTag), L(d.closeTag), 'true' if d.spans else 'false'))
    D.append('def quoteDefaultDefs : List QuoteDef := [\n' + ',\n'.join(rows) + ']\n')

    # replacements.DEFAULT_DEFS
    rows = []
    for i, d in enumerate(repl.DEFAULT_DEFS):
        name = pats.add_compiled('replacements_DEFAULT_DEFS_%d' % i, d.match)
        flt = identify(d.filter, 'repl.filter')
        if flt not in ('none', 'anchor', 'html', 'entity'):
            raise TranslateError('replacements.DEFAULT_DEFS[%d]: filter has no model counterpart' % i)
        rows.append('  { pat := P.%s, replacement := %s, filter := .%s }' % (name, L(d.replacement), flt))
    D.append('def replDefaultDefs : List ReplDef := [\n' + ',\n'.join(rows) + ']\n')

    # lists.defs
    rows = []
    for i, d in enumerate(lists.defs):
        name = pats.add_compiled('lists_defs_%d' % i, d.match)
        rows.append('  { pat := P.%s, listOpenTag := %s, listCloseTag := %s, itemOpenTag := %s, itemCloseTag := %s,\n'
                    '    termOpenTag := %s, termCloseTag := %s }' %
                    (name, L(d.listOpenTag), L(d.listCloseTag), L(d.itemOpenTag), L(d.itemCloseTag),
                     L(d.termOpenTag), L(d.termCloseTag)))
    D.append('def listDefs : List ListDef := [\n' + ',\n'.join(rows) + ']\n')

    # defaults established by init()
    mods['rimu.document'].init()
    D.append('def macroDefaultDefs : List MacroDef := [' +
             ', '.join('{ name := %s, value := %s }' % (L(m.name), L(m.value)) for m in macros.defs) + ']')
    D.append('def defaultSafeMode : Int := %d' % options.safeMode)
    D.append('def defaultHtmlReplacement : Str := ' + L(options.htmlReplacement))
    D.append('def uninitSafeMode : Int := -1')
    # rimuc: version, name and the option spellings tested by the argument loop (source order)
    rc = mods['rimuc.rimuc']
    D.append('def cliVersion : Str := ' + L(rc.VERSION))
    D.append('def cliName : Str := ' + L(rc.NAME))
    with open(rc.__file__) as f:
        rtree = ast.parse(f.read())
    arglists = []
    for node in ast.walk(rtree):
        if isinstance(node, ast.Compare) and len(node.ops) == 1 and isinstance(node.ops[0], (ast.In, ast.NotIn)) \
                and isinstance(node.left, ast.Name) and node.left.id in ('arg', 'layout') \
                and isinstance(node.comparators[0], ast.List) \
                and all(isinstance(e, ast.Constant) and isinstance(e.value, str) for e in node.comparators[0].elts):
            arglists.append((node.lineno, node.col_offset, [e.value for e in node.comparators[0].elts]))
    arglists.sort()
    D.append('def cliArgLists : List (List Str) := [' + ', '.join(
        '[' + ', '.join(L(x) for x in lst) + ']' for _, _, lst in arglists) + ']')
    D.append('def cliResourceNames : List Str := [' + ', '.join(L(k) for k in sorted(mods['rimuc'].resources)) + ']')
    D.append('def maxExpansionDepth : Nat := %d' % int(lb.MAX_EXPANSION_DEPTH))
    D.append('def maxContainerDepth : Nat := %d' % int(db.MAX_CONTAINER_DEPTH))
    D.append('def maxQuoteDepth : Nat := %d' % int(mods['rimu.spans'].MAX_QUOTE_DEPTH))

    # quote regex template: run the real synthesis with a sentinel quote
    saved = list(quotes.defs)
    SENT = ''
    quotes.defs[:] = [quotes.Def(SENT, '', '', True)]
    quotes.initializeRegExps()
    qsrc, usrc = quotes.quotesRe.pattern, quotes.unescapeRe.pattern
    qflags, uflags = quotes.quotesRe.flags, quotes.unescapeRe.flags
    quotes.defs[:] = saved
    quotes.initializeRegExps()

    def template(src, flags, what):
        tree, ngroups, _eff = rx.translate(src, flags & ~re.UNICODE, cache)
        hole = ('chr', ((0xE000, 0xE000),), False)
        count = [0]

        def sub(r):
            if r == hole:
                count[0] += 1
                return ('HOLE',)
            if r[0] in ('seq', 'alt'):
                return (r[0], sub(r[1]), sub(r[2]))
            if r[0] == 'grp':
                return ('grp', r[1], sub(r[2]))
            if r[0] == 'rep':
                return ('rep', sub(r[1]), r[2], r[3], r[4])
            if r[0] in ('look', 'nlook'):
                return (r[0], sub(r[1]))
            return r
        t = sub(tree)
        if count[0] != 1:
            raise TranslateError('%s: the quote alternatives do not occur exactly once in %r' % (what, src))
        return t, ngroups

    qt, qn = template(qsrc, qflags, 'quotes.quotesRe')
    ut, un = template(usrc, uflags, 'quotes.unescapeRe')

    class HoleEmitter(rx.LeanEmitter):
        def term(self, r):
            if r == ('HOLE',):
                return 'alts'
            return super().term(r)
    em = HoleEmitter()
    qterm = em.term(qt)
    uterm = em.term(ut)

    # -- Patterns.lean --------------------------------------------------------------------------
    body = []
    for name, pattern, flags, tree, ngroups in pats.items:
        body.append('/-- `%s` flags=%d -/' % (pattern.replace('-/', '- /').replace('\n', '\\n').replace('`', "'"), flags))
        body.append('def %s : Pat := { re := %s, ngroups := %d, src := %s, flags := %d }' %
                    (name, em.term(tree), ngroups, L(pattern), flags & (re.I | re.M | re.S)))
    Pout = ['import RimuModel.Types', '',
            '/-! Generated by tools/translate.py from the rimu-py working tree. Do not edit. -/', '',
            'set_option maxRecDepth 100000', '', 'namespace Gen.P', 'open Rimu', '']
    Pout += em.set_defs()
    Pout.append('')
    Pout += ['/-- quote alternatives hole template: `%s` -/' % qsrc.replace(SENT, '<Q>')]
    Pout.append('def quotesReOf (alts : Rx.Re) : Rx.Re := ' + qterm)
    Pout.append('def quotesReGroups : Nat := %d' % qn)
    Pout.append('def unescapeReOf (alts : Rx.Re) : Rx.Re := ' + uterm)
    Pout.append('def unescapeReGroups : Nat := %d' % un)
    Pout.append('')
    Pout += body
    Pout.append('')
    Pout.append('def all : List (String × Pat) := [' + ', '.join('("%s", %s)' % (n, n) for n, *_ in pats.items) + ']')
    Pout.append('')
    Pout.append('end Gen.P')
    D.append('')
    D.append('end Gen')
    if write_if_changed(os.path.join(outdir, 'Patterns.lean'), '\n'.join(Pout) + '\n'):
        changed.append('Patterns.lean')
    if write_if_changed(os.path.join(outdir, 'Defs.lean'), '\n'.join(D) + '\n'):
        changed.append('Defs.lean')
    sites = {name: {'pattern': pattern, 'flags': flags, 'groups': ngroups, 'wire': rx.to_wire(tree),
                    'use': local_kinds.get(name, 'table')}
             for name, pattern, flags, tree, ngroups in pats.items}
    write_if_changed(os.path.join(outdir, 'sites.json'), json.dumps(sites, indent=1, sort_keys=True))
    print(json.dumps({'changed': changed, 'patterns': len(pats.items)}))


if __name__ == '__main__':
    try:
        main()
    except TranslateError as e:
        sys.stderr.write('translate: %s\n' % e)
        sys.exit(3)
