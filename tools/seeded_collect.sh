#!/bin/bash
# usage: tools/seeded_collect.sh <Cxx> <suffix> [agent scratch root]  -- copy a sub-agent's deliverables, confirm, evaluate
id=$1; suf=${2:-b}; root=${3:-/tmp/mut}
d=$root/$id/_out
mkdir -p /verif/seeded/$id-$suf && cp $d/patch.diff $d/demo.py $d/meta.json /verif/seeded/$id-$suf/ || exit 2
/verif/tools/seeded_confirm.sh $id-$suf 2>&1 | grep -v WARNING
/verif/tools/seeded_eval.sh $id-$suf $id 2>&1 | grep -v WARNING
